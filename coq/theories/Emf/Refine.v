(* C02 keystone — the buffer mechanism prints exactly the documents of the reference interpretation. *)
From Coq Require Import String.
From Coq Require Import List NArith ZArith Bool Lia.
From MV Require Import Common.Sx Common.Bytes Common.F64 Json.Json Emf.Model Emf.Spec Emf.PrintLemmas.
Import ListNotations.

(* closed byte-string literals are computed to explicit lists so that both sides normalise alike *)
Ltac lits :=
  repeat match goal with
         | |- context [bs ?s] => let v := eval vm_compute in (bs s) in change (bs s) with v
         | |- context [print_str ?l] =>
             match l with
             | context [bs] => fail 1
             | _ => is_closed_list l; let v := eval vm_compute in (print_str l) in change (print_str l) with v
             end
         end
with is_closed_list l :=
  match l with
  | nil => idtac
  | cons ?x ?r => match x with N0 => idtac | Npos _ => idtac end; is_closed_list r
  end.
Ltac flat := repeat (rewrite <- ?app_assoc; cbn [app]).

(* ---------------------------------------------------------------- observations *)
Definition kb (ftab : list (N * bytes)) (mult : option N) (os : list obs) : list (bytes * bytes) :=
  flat_map (fun o => match write_observation ftab mult o with Some p => [p] | None => [] end) os.

Lemma kept_kb ftab mult os : kept ftab mult os = map (fun p => (JNum (fst p), JNum (snd p))) (kb ftab mult os).
Proof.
  unfold kept, kb, obs_json. induction os as [|o r IH]; [reflexivity|]. cbn [flat_map].
  rewrite IH. destruct (write_observation ftab mult o) as [[v c]|]; cbn [map app fst snd]; reflexivity.
Qed.

Definition seps (any : bool) (l : list bytes) : bytes :=
  if any then concat (map (fun y => comma ++ y) l) else join comma l.

Lemma firstn_app_exact {A} (a b : list A) : firstn (length a) (a ++ b) = a.
Proof. rewrite firstn_app, PeanoNat.Nat.sub_diag, firstn_all. cbn. apply app_nil_r. Qed.

Lemma values_loop_spec ftab mult os : forall buf cnt any,
  values_loop ftab mult os buf cnt any =
  (buf ++ seps any (map fst (kb ftab mult os)), cnt ++ seps any (map snd (kb ftab mult os)),
   any || negb (match kb ftab mult os with [] => true | _ => false end)).
Proof.
  induction os as [|o r IH]; intros buf cnt any; cbn [values_loop kb flat_map].
  - unfold seps. destruct any; cbn; rewrite !app_nil_r; reflexivity.
  - fold (kb ftab mult r). destruct (write_observation ftab mult o) as [[v c]|].
    + rewrite IH. cbn [app map fst snd]. unfold seps.
      destruct any; cbn [map concat orb negb].
      * rewrite <- !app_assoc. reflexivity.
      * rewrite !join_cons_comma. rewrite <- !app_assoc. reflexivity.
    + cbn [app]. destruct any.
      * rewrite !firstn_app_exact. apply IH.
      * rewrite !firstn_all. apply IH.
Qed.

Lemma print_jnums (l : list bytes) : map print (map JNum l) = l.
Proof. induction l as [|x r IH]; [reflexivity|]. cbn. rewrite IH. reflexivity. Qed.

(* the Values/Counts text, in terms of the kept observations ... *)
Lemma general_value_text ftab mult name first rest :
  general_value ftab mult name first rest =
  ((comma ++ jstr name ++ [58%N]) ++ bs "{""Values"":[" ++ join comma (map fst (kb ftab mult (first :: rest))) ++
     counts_prefix ++ join comma (map snd (kb ftab mult (first :: rest))) ++ bs "]}",
   negb (match kb ftab mult (first :: rest) with [] => true | _ => false end)).
Proof.
  unfold general_value. cbn [kb flat_map]. fold (kb ftab mult rest).
  destruct (write_observation ftab mult first) as [[v c]|].
  - rewrite values_loop_spec. cbn [app orb negb].
    change (map fst ((v, c) :: kb ftab mult rest)) with (v :: map fst (kb ftab mult rest)).
    change (map snd ((v, c) :: kb ftab mult rest)) with (c :: map snd (kb ftab mult rest)).
    rewrite !join_cons_comma. unfold seps. reflexivity.
  - rewrite values_loop_spec. cbn [app orb]. unfold seps. reflexivity.
Qed.

(* ... is the printed member *)
Lemma values_counts_print name (K : list (bytes * bytes)) :
  (comma ++ jstr name ++ [58%N]) ++ bs "{""Values"":[" ++ join comma (map fst K) ++
     counts_prefix ++ join comma (map snd K) ++ bs "]}"
  = cm (name, JObj [(bs "Values", JArr (map JNum (map fst K))); (bs "Counts", JArr (map JNum (map snd K)))]).
Proof.
  unfold cm. cbn [fst snd]. rewrite print_obj_cons. unfold member, cm. cbn [fst snd].
  change (map (fun kv : bytes * json => comma ++ print_str (fst kv) ++ [58%N] ++ print (snd kv))
              [(bs "Counts", JArr (map JNum (map snd K)))])
    with [comma ++ print_str (bs "Counts") ++ [58%N] ++ print (JArr (map JNum (map snd K)))].
  cbn [concat]. rewrite !print_arr, !print_jnums.
  rewrite jstr_print_str. unfold counts_prefix, comma. lits. flat. reflexivity.
Qed.

Lemma general_value_spec ftab mult name first rest :
  general_value ftab mult name first rest =
  (cm (name, JObj [(bs "Values", JArr (map JNum (map fst (kb ftab mult (first :: rest)))));
                   (bs "Counts", JArr (map JNum (map snd (kb ftab mult (first :: rest)))))]),
   negb (match kb ftab mult (first :: rest) with [] => true | _ => false end)).
Proof. rewrite general_value_text, values_counts_print. reflexivity. Qed.

Local Opaque kept general_value clamp_to_finite write_float.
Lemma write_metric_value_spec ftab mult name first rest :
  match metric_value ftab mult (first :: rest) with
  | Some v => write_metric_value ftab mult name first rest = (cm (name, v), true)
  | None => snd (write_metric_value ftab mult name first rest) = false
  end.
Proof.
  assert (G : match kept ftab mult (first :: rest) with
              | [] => snd (general_value ftab mult name first rest) = false
              | ks => general_value ftab mult name first rest =
                      (cm (name, JObj [(bs "Values", JArr (map fst ks)); (bs "Counts", JArr (map snd ks))]), true)
              end).
  { rewrite general_value_spec, kept_kb. destruct (kb ftab mult (first :: rest)) as [|p ps]; [reflexivity|].
    cbn [map negb]. rewrite !map_map. cbn [fst snd]. reflexivity. }
  unfold metric_value, write_metric_value.
  destruct first as [v | b | t occ]; destruct rest as [|r1 rs]; destruct mult as [m|];
    try exact G; try (revert G; destruct (kept _ _ _); intros G; exact G).
  - (* OUnsigned, [], None *)
    unfold cm. cbn [fst snd print]. change jstr with print_str; rewrite <- !app_assoc. reflexivity.
  - (* OFloat, [], None *)
    destruct (clamp_to_finite b); cbv iota beta; [|reflexivity].
    unfold cm. cbn [fst snd print]. change jstr with print_str; rewrite <- !app_assoc. reflexivity.
Qed.
Local Transparent kept general_value clamp_to_finite write_float.


(* ---------------------------------------------------------------- declarations *)
Lemma metric_decl_print name u fl :
  print (metric_decl name u fl) =
  bs "{""Name"":" ++ jstr name ++
  (match u with UNone => [] | UName n => bs ",""Unit"":" ++ jstr n end) ++
  (match fl with FHigh => bs ",""StorageResolution"":1}" | _ => bs "}" end).
Proof.
  unfold metric_decl. rewrite print_obj_cons. unfold member. cbn [fst snd print].
  change jstr with print_str.
  destruct u as [|n]; destruct fl; cbn [app map concat]; unfold cm, comma; cbn [fst snd print];
    lits; flat; reflexivity.
Qed.

Lemma metric_decl_nonempty name u fl : print (metric_decl name u fl) <> [].
Proof. unfold metric_decl. rewrite print_obj_cons. discriminate. Qed.

Definition r_cm (l : list (bytes * json)) : bytes := concat (map cm l).
Definition r_decls (l : list json) : bytes := join comma (map print l).

Lemma r_cm_snoc l x : r_cm (l ++ [x]) = r_cm l ++ cm x.
Proof. unfold r_cm. apply concat_map_snoc. Qed.
Lemma r_decls_snoc l x : r_decls (l ++ [x]) = r_decls l ++ (match l with [] => [] | _ => comma end) ++ print x.
Proof. unfold r_decls. rewrite map_app. cbn [map]. rewrite join_snoc. destruct l; reflexivity. Qed.

Lemma r_decls_nil_iff l : Forall (fun j => print j <> []) l -> (r_decls l = [] <-> l = []).
Proof.
  intros HF. split; [|intros ->; reflexivity].
  destruct l as [|x r]; [reflexivity|]. unfold r_decls. cbn [map]. rewrite join_cons_comma.
  inversion HF; subst. destruct (print x); [congruence | discriminate].
Qed.

(* ---------------------------------------------------------------- one metric on a (fields, metrics) buffer pair *)
Record BufRel (fb mb : pbuf) (P H : bytes) (members : list (bytes * json)) (decls : list json) : Prop := {
  br_f : pdata fb = P ++ r_cm members;
  br_fp : plen fb = length P;
  br_m : pdata mb = H ++ r_decls decls;
  br_mp : plen mb = length H;
  br_ne : Forall (fun j => print j <> []) decls
}.

Lemma write_metric_rel ftab mult name os u fl fb mb P H members decls :
  BufRel fb mb P H members decls ->
  let '(fb', mb') := write_metric ftab mult name os u fl fb mb in
  let '(members', decls') := add_metric ftab mult name os u fl members decls in
  BufRel fb' mb' P H members' decls' /\ plen fb' = plen fb /\ plen mb' = plen mb.
Proof.
  intros [Hf Hfp Hm Hmp Hne]. unfold write_metric, add_metric.
  destruct os as [|first rest].
  - (* no observation: nothing happens; the reference has no usable value either *)
    assert (Hmv : metric_value ftab mult [] = None) by (unfold metric_value; destruct mult; reflexivity).
    rewrite Hmv. split; [constructor; assumption | split; reflexivity].
  - pose proof (write_metric_value_spec ftab mult name first rest) as Hv.
    destruct (metric_value ftab mult (first :: rest)) as [v|].
    + rewrite Hv. cbn [negb].
      assert (Hf' : pdata (pb_push fb (cm (name, v))) = P ++ r_cm (members ++ [(name, v)])).
      { cbn [pb_push pdata]. rewrite Hf, r_cm_snoc, app_assoc. reflexivity. }
      destruct fl; try (split; [constructor; try assumption; cbn [pb_push plen]; assumption | split; reflexivity]).
      all: split; [|split; [reflexivity|destruct (pb_is_empty mb); destruct u; reflexivity]].
      all: constructor; [exact Hf' | cbn [pb_push plen]; exact Hfp | | destruct (pb_is_empty mb); destruct u; cbn; exact Hmp
                        | apply Forall_app; split; [exact Hne | constructor; [apply metric_decl_nonempty | constructor]]].
      all: rewrite r_decls_snoc, metric_decl_print.
      all: assert (He : pb_is_empty mb = match decls with [] => true | _ => false end)
          by (unfold pb_is_empty; rewrite Hm, Hmp, app_length;
              destruct decls as [|d0 ds]; [cbn; rewrite PeanoNat.Nat.add_0_r; apply PeanoNat.Nat.eqb_refl|];
              apply PeanoNat.Nat.eqb_neq; intros Heq;
              assert (Hz : length (r_decls (d0 :: ds)) = 0) by lia;
              apply length_zero_iff_nil in Hz; apply (r_decls_nil_iff _ Hne) in Hz; discriminate).
      all: rewrite He; destruct decls as [|d0 ds]; destruct u as [|un]; cbn [pb_push pdata app];
           rewrite Hm; flat; reflexivity.
    + (* skipped: the name is truncated away again *)
      destruct (write_metric_value ftab mult name first rest) as [txt ok]. cbn [snd] in Hv. subst ok. cbn [negb].
      split; [|split; reflexivity].
      constructor; try assumption.
      cbn [pb_truncate pb_push pdata]. unfold pb_len. rewrite firstn_app_exact. exact Hf.
Qed.

(* ---------------------------------------------------------------- the simulation relation *)
Definition keymembers (key : list (bytes * bytes)) : list (bytes * json) :=
  map (fun kv => (fst kv, JStr (snd kv))) key.
Definition head0 (c : config) : bytes := bs "{""_aws"":{""CloudWatchMetrics"":[{""Namespace"":" ++ first_ns c.
Definition set_sets (each : list (list bytes)) (key : list (bytes * bytes)) : list (list bytes) :=
  map (fun base => base ++ map fst key) each.
Definition set_head (c : config) (each : list (list bytes)) (key : list (bytes * bytes)) : bytes :=
  head0 c ++ bs ",""Dimensions"":[" ++ join comma (map jarr_strings (set_sets each key)) ++ bs "],""Metrics"":[".

Record RelSet (c : config) (d : dset) (a : aset) : Prop := {
  rs_key : ds_key d = as_key a;
  rs_buf : BufRel (ds_fields d) (ds_metrics d) (bs "}" ++ r_cm (keymembers (as_key a)))
                  (set_head c (as_each a) (as_key a)) (as_members a) (as_decls a);
  rs_after : ds_after_ns d = length (head0 c)
}.

Record Rel (c : config) (w : writer) (a : astate) : Prop := {
  r_sf : pdata (string_fields (w_state w)) = r_cm (a_strings a);
  r_sfp : plen (string_fields (w_state w)) = 0;
  r_glob : BufRel (fields (w_state w)) (metrics (w_state w)) (bs "}") (bs "],""Metrics"":[") (a_members a) (a_decls a);
  r_decl : pdata (decl (w_state w)) = extra_directives c;
  r_sets : Forall2 (RelSet c) (dsmap (w_state w)) (a_sets a);
  r_ed : entry_dims w = option_map (map jarr_strings) (a_edims a);
  r_ts : w_timestamp w = a_ts a
}.

Lemma pb_clear_new p : pb_clear (pb_new p) = pb_new p.
Proof. unfold pb_clear, pb_new. cbn [plen pdata]. rewrite firstn_all. reflexivity. Qed.

Lemma rel_init c : Rel c (init_writer c (st (fresh c))) a_init.
Proof.
  unfold init_writer, prologue, fresh. cbn [st string_fields fields metrics decl].
  rewrite !pb_clear_new.
  constructor; cbn; try reflexivity.
  - constructor; cbn; try reflexivity; try (rewrite ?app_nil_r; reflexivity). constructor.
  - constructor.
Qed.

(* lookups and updates of the two set tables correspond *)
Lemma find_rel c key : forall ds sets, Forall2 (RelSet c) ds sets ->
  match ds_find ds key, as_find sets key with
  | Some d, Some a => RelSet c d a
  | None, None => True
  | _, _ => False
  end.
Proof.
  induction 1 as [|d a ds sets Hda HF IH]; cbn [ds_find as_find]; [exact I|].
  rewrite <- (rs_key c d a Hda). destruct (key_eqb (ds_key d) key); [exact Hda | exact IH].
Qed.
Lemma update_rel c d' a' : RelSet c d' a' -> forall ds sets, Forall2 (RelSet c) ds sets ->
  Forall2 (RelSet c) (ds_update ds d') (as_update sets a').
Proof.
  intros Hn. induction 1 as [|d a ds sets Hda HF IH]; cbn [ds_update as_update].
  - constructor; [exact Hn | constructor].
  - rewrite <- (rs_key c d a Hda), <- (rs_key c d' a' Hn).
    destruct (key_eqb (ds_key d) (ds_key d')); constructor; assumption.
Qed.
Lemma forall2_length {A B} (R : A -> B -> Prop) l1 l2 : Forall2 R l1 l2 -> length l1 = length l2.
Proof. induction 1; cbn; congruence. Qed.

Lemma key_fields_text key :
  flat_map (fun kv : bytes * bytes => comma ++ jstr (fst kv) ++ [58%N] ++ jstr (snd kv)) key = r_cm (keymembers key).
Proof.
  unfold r_cm, keymembers. induction key as [|[k v] r IH]; [reflexivity|].
  cbn [flat_map map concat]. rewrite IH. unfold cm. cbn [fst snd print]. reflexivity.
Qed.

Lemma dset_new_rel c each key idx :
  RelSet c (dset_new c (map jarr_strings each) key idx) (mk_aset key each [] []).
Proof.
  unfold dset_new. constructor; cbn [ds_key as_key ds_fields ds_metrics ds_after_ns as_members as_decls as_each].
  - reflexivity.
  - constructor; cbn [pb_new pdata plen];
      change (r_cm []) with (@nil N); change (r_decls []) with (@nil N); rewrite ?app_nil_r.
    + rewrite key_fields_text. reflexivity.
    + rewrite key_fields_text. reflexivity.
    + unfold set_head, head0, set_sets. rewrite !map_map.
      assert (E : map (fun d => extend_with_strings (jarr_strings d) (map fst key)) each
                  = map (fun x => jarr_strings (x ++ map fst key)) each)
        by (apply map_ext; intros; apply extend_with_strings_spec).
      rewrite E. rewrite <- !app_assoc. reflexivity.
    + unfold set_head, head0, set_sets. rewrite !map_map.
      assert (E : map (fun d => extend_with_strings (jarr_strings d) (map fst key)) each
                  = map (fun x => jarr_strings (x ++ map fst key)) each)
        by (apply map_ext; intros; apply extend_with_strings_spec).
      rewrite E. rewrite <- !app_assoc. reflexivity.
    + constructor.
  - reflexivity.
Qed.

Lemma rel_frame c w w' a :
  w_state w' = w_state w -> entry_dims w' = entry_dims w -> w_timestamp w' = w_timestamp w ->
  Rel c w a -> Rel c w' a.
Proof. intros Hs He Ht [A B C D E F G]. constructor; rewrite ?Hs, ?He, ?Ht; assumption. Qed.

Lemma entry_dims_enc d : forall dd,
  flat_map (fun base => map (fun e => extend_with_strings base e) d) (map jarr_strings dd)
  = map jarr_strings (flat_map (fun base => map (fun e => base ++ e) d) dd).
Proof.
  induction dd as [|b r IH]; [reflexivity|]. cbn [map flat_map]. rewrite IH, map_app. f_equal.
  rewrite map_map. apply map_ext. intros e. apply extend_with_strings_spec.
Qed.

From MV Require Import Emf.Validate Emf.Complete.

Lemma fold_add_error_frame (msgs : list bytes) name : forall w,
  let w' := fold_left (fun w m => add_error w (for_field name m)) msgs w in
  w_state w' = w_state w /\ entry_dims w' = entry_dims w /\ w_timestamp w' = w_timestamp w.
Proof.
  induction msgs as [|m ms IH]; intros w; cbn [fold_left]; [repeat split; reflexivity|].
  specialize (IH (add_error w (for_field name m))). cbv zeta in IH. exact IH.
Qed.

Lemma rel_do_metric c ftab mult w a name os u dims fl :
  Rel c w a ->
  Rel c (do_metric c ftab mult w name os u dims fl) (astep c ftab mult a (IValue name (VMetric os u dims fl))).
Proof.
  intros HR. pose proof HR as [A B C D E F G]. unfold do_metric. cbn [astep].
  set (w1 := if negb _ && negb (allow_split w) then _ else w).
  assert (S1 : w_state w1 = w_state w) by (unfold w1; destruct (negb _ && negb _); reflexivity).
  assert (E1 : entry_dims w1 = entry_dims w) by (unfold w1; destruct (negb _ && negb _); reflexivity).
  assert (T1 : w_timestamp w1 = w_timestamp w) by (unfold w1; destruct (negb _ && negb _); reflexivity).
  rewrite S1, E1.
  destruct (allow_ignored c || match dims with [] => true | _ :: _ => false end).
  - (* global record *)
    pose proof (write_metric_rel ftab mult name os u fl _ _ _ _ _ _ C) as HW.
    destruct (write_metric ftab mult name os u fl (fields (w_state w)) (metrics (w_state w))) as [fb mb].
    destruct (add_metric ftab mult name os u fl (a_members a) (a_decls a)) as [m' d'].
    destruct HW as [HB _].
    set (w2 := if negb (skip_unique c) && negb (unroutable w1) then validate_metric w1 name 0 else w1).
    assert (S2 : w_state w2 = w_state w1 /\ entry_dims w2 = entry_dims w1 /\ w_timestamp w2 = w_timestamp w1).
    { unfold w2. destruct (negb (skip_unique c) && negb (unroutable w1)); [|repeat split; reflexivity].
      pose proof (validate_metric_frame w1 name 0) as V. cbv zeta in V. tauto. }
    destruct S2 as (S2 & E2 & T2).
    constructor; cbn [set_state w_state entry_dims w_timestamp string_fields fields metrics decl dsmap
                      a_strings a_members a_decls a_sets a_edims a_ts];
      rewrite ?E2, ?T2, ?E1, ?T1; assumption.
  - (* a dimension-set record *)
    set (key := sort_dims dims).
    pose proof (find_rel c key _ _ E) as HF.
    assert (Heach : match entry_dims w with Some e => e | None => each_dims_enc c end = map jarr_strings (base_dims c a)).
    { unfold base_dims. rewrite F. destruct (a_edims a); reflexivity. }
    rewrite Heach.
    set (d0 := match ds_find (dsmap (w_state w)) key with Some d => d | None => dset_new c (map jarr_strings (base_dims c a)) key _ end).
    set (s0 := match as_find (a_sets a) key with Some s => s | None => mk_aset key (base_dims c a) [] [] end).
    assert (R0 : RelSet c d0 s0).
    { unfold d0, s0. destruct (ds_find (dsmap (w_state w)) key), (as_find (a_sets a) key); try contradiction; [exact HF|].
      apply dset_new_rel. }
    pose proof (write_metric_rel ftab mult name os u fl _ _ _ _ _ _ (rs_buf c d0 s0 R0)) as HW.
    destruct (write_metric ftab mult name os u fl (ds_fields d0) (ds_metrics d0)) as [fb mb].
    destruct (add_metric ftab mult name os u fl (as_members s0) (as_decls s0)) as [m' d'].
    destruct HW as [HB _].
    set (w2 := if negb (skip_unique c) && negb (unroutable w1) then validate_metric w1 name (ds_index d0) else w1).
    assert (S2 : w_state w2 = w_state w1 /\ entry_dims w2 = entry_dims w1 /\ w_timestamp w2 = w_timestamp w1).
    { unfold w2. destruct (negb (skip_unique c) && negb (unroutable w1)); [|repeat split; reflexivity].
      pose proof (validate_metric_frame w1 name (ds_index d0)) as V. cbv zeta in V. tauto. }
    destruct S2 as (S2 & E2 & T2).
    constructor; cbn [set_state w_state entry_dims w_timestamp string_fields fields metrics decl dsmap
                      a_strings a_members a_decls a_sets a_edims a_ts];
      rewrite ?E2, ?T2, ?E1, ?T1; try assumption.
    apply update_rel; [|exact E].
    constructor; cbn [ds_key ds_fields ds_metrics ds_after_ns as_key as_each as_members as_decls].
    + exact (rs_key c d0 s0 R0).
    + exact HB.
    + exact (rs_after c d0 s0 R0).
Qed.

Lemma rel_step c ftab mult w a i :
  Rel c w a -> errors (do_item c ftab mult w i) = [] ->
  Rel c (do_item c ftab mult w i) (astep c ftab mult a i).
Proof.
  intros HR Hno. destruct i as [t | ci | name v]; cbn [do_item] in *.
  - (* timestamp *)
    destruct (w_timestamp w) eqn:Ets; [exfalso; exact (add_error_not_nil _ _ Hno)|].
    destruct HR as [A B C D E F G]. constructor; cbn; assumption || reflexivity.
  - unfold do_config in *. destruct ci as [| | d |].
    + destruct HR as [A B C D E F G]. constructor; cbn; assumption.
    + destruct HR as [A B C D E F G]. constructor; cbn; assumption.
    + destruct (negb match dsmap (w_state w) with [] => true | _ :: _ => false end);
        [exfalso; exact (add_error_not_nil _ _ Hno)|].
      destruct (match entry_dims w with Some _ => true | None => false end);
        [exfalso; exact (add_error_not_nil _ _ Hno)|].
      destruct d as [|d0 dr]; [exfalso; exact (add_error_not_nil _ _ Hno)|].
      set (w1 := if negb (skip_unique c) || negb (skip_dims c) then fold_left (check_entry_dim c) (concat (d0 :: dr)) w else w) in *.
      assert (F1 : w_state w1 = w_state w /\ w_timestamp w1 = w_timestamp w).
      { unfold w1. destruct (negb (skip_unique c) || negb (skip_dims c)); [|split; reflexivity].
        pose proof (fold_check_frame c (concat (d0 :: dr)) w) as F. cbv zeta in F. tauto. }
      destruct F1 as [F1 F2]. destruct HR as [A B C D E F G].
      constructor; cbn [astep w_state entry_dims w_timestamp a_strings a_members a_decls a_sets a_edims a_ts];
        rewrite ?F1, ?F2; try assumption.
      unfold each_dims_enc. rewrite entry_dims_enc. reflexivity.
    + exact HR.
  - unfold do_value in *. destruct (validate_name c w name) as [w1 ok] eqn:Hv. destruct ok; cbn [negb] in *.
    2: { exfalso. exact (validate_name_false _ _ _ _ Hv Hno). }
    apply validate_name_true in Hv. subst w1.
    destruct v as [| s0 | msgs | os u dims fl].
    + exact HR.
    + (* string property *)
      unfold do_string. cbn [astep].
      set (w1 := set_state w _).
      assert (R1 : Rel c w1 (mk_astate (a_strings a ++ [(name, JStr s0)]) (a_members a) (a_decls a) (a_sets a)
                                        (a_edims a) (a_ts a) (a_split a))).
      { destruct HR as [A B C D E F G]. unfold w1.
        constructor; cbn [set_state w_state entry_dims w_timestamp string_fields fields metrics decl dsmap pb_push pdata plen
                          a_strings a_members a_decls a_sets a_edims a_ts]; try assumption.
        rewrite A, r_cm_snoc. unfold cm. cbn [fst snd print]. reflexivity. }
      destruct (skip_unique c); [exact R1|].
      pose proof (validate_string_frame w1 name) as V. cbv zeta in V. destruct V as (V1 & V2 & V3 & _).
      apply (rel_frame c w1); assumption.
    + pose proof (fold_add_error_frame msgs name w) as V. cbv zeta in V. destruct V as (V1 & V2 & V3).
      apply (rel_frame c w); assumption.
    + apply rel_do_metric. exact HR.
Qed.

Lemma rel_fold c ftab mult e : forall w a,
  Rel c w a -> errors (fold_left (do_item c ftab mult) e w) = [] ->
  Rel c (fold_left (do_item c ftab mult) e w) (fold_left (astep c ftab mult) e a).
Proof.
  induction e as [|i e IH]; intros w a HR Hno; cbn [fold_left] in *; [exact HR|].
  apply IH; [|exact Hno]. apply rel_step; [exact HR|].
  exact (grows_nil _ _ (grows_fold_items c ftab mult e (do_item c ftab mult w i)) Hno).
Qed.

(* ================================================================ finish: buffers -> printed documents *)
From MV Require Import C16.Proofs.

Lemma write_all_vectored_accept_all bufs rec : write_all_vectored [] bufs rec = ([], rec ++ concat bufs, WOk).
Proof.
  unfold write_all_vectored. pose proof (advance_zero bufs) as Hz.
  destruct (advance bufs 0) as [|s r]; cbn [write_all].
  - cbn in Hz. rewrite <- Hz, app_nil_r. reflexivity.
  - rewrite Hz. reflexivity.
Qed.

Lemma cm_nonempty x : cm x <> [].
Proof. unfold cm, comma. discriminate. Qed.
Lemma r_cm_nil_iff l : r_cm l = [] <-> l = [].
Proof.
  split; [|intros ->; reflexivity]. destruct l as [|x r]; [reflexivity|].
  unfold r_cm. cbn [map concat]. intros H. apply app_eq_nil in H. destruct H as [H _]. destruct (cm_nonempty x H).
Qed.

Lemma bufrel_is_empty fb mb P H members decls :
  BufRel fb mb P H members decls -> pb_is_empty fb = match members with [] => true | _ => false end.
Proof.
  intros [Hf Hfp _ _ _]. unfold pb_is_empty. rewrite Hf, Hfp, app_length.
  destruct members as [|m ms].
  - cbn. rewrite PeanoNat.Nat.add_0_r. apply PeanoNat.Nat.eqb_refl.
  - apply PeanoNat.Nat.eqb_neq. intros Heq.
    assert (Hz : length (r_cm (m :: ms)) = 0) by lia.
    apply length_zero_iff_nil in Hz. apply r_cm_nil_iff in Hz. discriminate.
Qed.

(* the slice copied by extend_from_within is stable while only appends happen *)
Lemma slice_stable (data extra : bytes) st_ :
  st_ <= length data ->
  firstn (length data - st_) (skipn st_ (data ++ extra)) = skipn st_ data.
Proof.
  intros Hle. rewrite skipn_app. replace (st_ - length data) with 0 by lia. cbn [skipn].
  rewrite firstn_app. rewrite skipn_length. replace (length data - st_ - (length data - st_)) with 0 by lia.
  cbn [firstn]. rewrite app_nil_r. apply firstn_all2. rewrite skipn_length. lia.
Qed.

Lemma fold_extend_text (nss : list bytes) (data0 : bytes) p st_ (g : bytes -> bytes) :
  st_ <= length data0 ->
  forall mb, pdata mb = data0 ++ p ->
  pdata (fold_left (fun mb ns => pb_extend_within (pb_push mb (g ns)) st_ (length data0)) nss mb)
  = data0 ++ p ++ concat (map (fun ns => g ns ++ skipn st_ data0) nss).
Proof.
  intros Hle. revert p. induction nss as [|ns nss IH]; intros p mb Hmb; cbn [fold_left map concat].
  - rewrite app_nil_r. exact Hmb.
  - rewrite (IH (p ++ g ns ++ skipn st_ data0)).
    + rewrite <- !app_assoc. reflexivity.
    + cbn [pb_extend_within pb_push pdata]. rewrite Hmb.
      replace ((data0 ++ p) ++ g ns) with (data0 ++ (p ++ g ns)) by (rewrite app_assoc; reflexivity).
      rewrite slice_stable by exact Hle. rewrite <- !app_assoc. reflexivity.
Qed.

(* ---------------------------------------------------------------- printed shapes of the metadata block *)
Definition slice_text (sets : list (list bytes)) (decls : list json) : bytes :=
  bs ",""Dimensions"":[" ++ join comma (map jarr_strings sets) ++ bs "],""Metrics"":[" ++ r_decls decls ++ bs "]}".

Lemma dims_json_print sets : print (dims_json sets) = 91%N :: join comma (map jarr_strings sets) ++ [93%N].
Proof.
  unfold dims_json. rewrite print_arr, map_map. f_equal. f_equal. f_equal.
  apply map_ext. intros l. symmetry. apply jarr_strings_print.
Qed.

Lemma directive_doc_print ns sets decls :
  print (directive_doc ns sets decls) = bs "{""Namespace"":" ++ jstr ns ++ slice_text sets decls.
Proof.
  unfold directive_doc, slice_text. rewrite print_obj_cons. unfold member. cbn [fst snd map concat].
  unfold cm. cbn [fst snd]. rewrite dims_json_print, print_arr. fold (r_decls decls).
  change (print (JStr ns)) with (print_str ns). change jstr with print_str.
  unfold comma. lits. flat. reflexivity.
Qed.

Lemma aws_doc_print c ts dirs :
  print (aws_doc c ts dirs) =
  bs "{""CloudWatchMetrics"":[" ++ join comma (map print dirs) ++ lg_and_ts c ++ render_dec ts ++ bs "}".
Proof.
  unfold aws_doc, lg_and_ts. cbn [app]. rewrite print_obj_cons. unfold member. cbn [fst snd].
  rewrite print_arr.
  destruct (log_group c) as [g|]; cbn [app map concat]; unfold cm, comma; cbn [fst snd print];
    change jstr with print_str; lits; flat; reflexivity.
Qed.

Lemma join_map_print_dirs (f : bytes -> json) (ns0 : bytes) (nss : list bytes) :
  join comma (map print (map f (ns0 :: nss))) = print (f ns0) ++ concat (map (fun ns => comma ++ print (f ns)) nss).
Proof. cbn [map]. rewrite join_cons_comma, !map_map. reflexivity. Qed.

Lemma skipn_app_exact {A} (a b : list A) : skipn (length a) (a ++ b) = b.
Proof. rewrite skipn_app, PeanoNat.Nat.sub_diag, skipn_all. reflexivity. Qed.

(* one dimension-set record: the three buffers written for it are the printed document plus newline *)
Lemma set_line c ts strings ns0 nss d s :
  namespaces c = ns0 :: nss ->
  RelSet c d s ->
  pdata (ds_metrics (finish_dset c (render_dec ts) d)) ++ pdata (ds_fields (finish_dset c (render_dec ts) d)) ++
    (r_cm strings ++ bs "}" ++ [10%N])
  = print (set_doc c ts strings s) ++ [10%N].
Proof.
  intros Hns [Hk [Hf Hfp Hm Hmp Hne] Ha].
  unfold finish_dset. cbn [ds_metrics ds_fields pb_push pdata].
  set (sets := set_sets (as_each s) (as_key s)).
  assert (Hm1 : pdata (ds_metrics d) ++ bs "]}" = head0 c ++ slice_text sets (as_decls s)).
  { rewrite Hm. unfold set_head, slice_text. fold sets. rewrite <- !app_assoc. reflexivity. }
  assert (Hlen : length (head0 c) <= length (pdata (ds_metrics d) ++ bs "]}")).
  { rewrite Hm1, app_length. lia. }
  rewrite (fold_extend_text (tl (ns_enc c)) (pdata (ds_metrics d) ++ bs "]}") [] (ds_after_ns d)
            (fun ns => bs ",{""Namespace"":" ++ ns)).
  2: { rewrite Ha. exact Hlen. }
  2: { cbn [pb_push pdata]. rewrite app_nil_r. unfold pb_len. reflexivity. }
  cbn [pb_push pdata]. rewrite Ha, Hm1, skipn_app_exact. cbn [app].
  unfold set_doc. fold sets. rewrite print_obj_cons. unfold member. cbn [fst snd].
  rewrite aws_doc_print. rewrite Hns.
  change (map (fun base : list bytes => base ++ map fst (as_key s)) (as_each s)) with sets.
  rewrite (join_map_print_dirs (fun ns => directive_doc ns sets (as_decls s)) ns0 nss).
  unfold ns_enc. rewrite Hns. cbn [map tl].
  rewrite !directive_doc_print.
  unfold r_cm in *. rewrite !map_app, !concat_app. fold (keymembers (as_key s)).
  rewrite Hf. unfold head0, first_ns, ns_enc. rewrite Hns. cbn [map hd].
  rewrite map_map.
  assert (E : forall x, (bs ",{""Namespace"":" ++ jstr x) ++ slice_text sets (as_decls s)
                        = comma ++ print (directive_doc x sets (as_decls s))).
  { intros x. rewrite directive_doc_print. unfold comma. lits. flat. reflexivity. }
  rewrite (map_ext _ _ E).
  unfold r_cm. lits. flat. reflexivity.
Qed.

Definition set_nonempty (s : aset) : bool := negb (match as_members s with [] => true | _ => false end).

Lemma finish_dsets_docs c ts strings ns0 nss :
  namespaces c = ns0 :: nss ->
  forall ds sets, Forall2 (RelSet c) ds sets -> forall rec em,
  finish_dsets c (render_dec ts) (r_cm strings ++ bs "}" ++ [10%N]) ds [] rec em =
  (map (finish_dset c (render_dec ts)) ds, [],
   rec ++ concat (map (fun s => print (set_doc c ts strings s) ++ [10%N]) (filter set_nonempty sets)),
   em || existsb set_nonempty sets, WOk).
Proof.
  intros Hns. induction 1 as [|d s ds sets Hds HF IH]; intros rec em; cbn [finish_dsets map filter existsb concat].
  - rewrite app_nil_r, Bool.orb_false_r. reflexivity.
  - assert (He : pb_is_empty (ds_fields (finish_dset c (render_dec ts) d)) = negb (set_nonempty s)).
    { unfold finish_dset. cbn [ds_fields]. rewrite (bufrel_is_empty _ _ _ _ _ _ (rs_buf c d s Hds)).
      unfold set_nonempty. destruct (as_members s); reflexivity. }
    rewrite He. destruct (set_nonempty s) eqn:Hne; cbn [negb].
    + rewrite write_all_vectored_accept_all. cbn [concat]. rewrite app_nil_r.
      rewrite (set_line c ts strings ns0 nss d s Hns Hds).
      rewrite IH. cbn [map concat orb]. rewrite <- !app_assoc. rewrite Bool.orb_true_r. reflexivity.
    + rewrite IH. cbn [orb]. reflexivity.
Qed.

(* ---------------------------------------------------------------- extra directives *)
Lemma metric_def_json_print m : metric_def_json m = print (metric_def_doc m).
Proof.
  destruct m as [[name u] sr]. unfold metric_def_json, metric_def_doc. cbn [app].
  rewrite print_obj_cons. unfold member. cbn [fst snd app map concat].
  destruct sr as [r|]; destruct u as [|n]; cbn [app map concat unit_json unit_doc]; unfold cm, comma; cbn [fst snd print];
    change jstr with print_str; lits; flat; reflexivity.
Qed.

Lemma directive_json_print d : directive_json d = print (extra_directive_doc d).
Proof.
  unfold directive_json, extra_directive_doc. rewrite print_obj_cons. unfold member. cbn [fst snd map concat].
  unfold cm. cbn [fst snd]. rewrite dims_json_print, print_arr, map_map.
  rewrite (map_ext _ _ metric_def_json_print).
  change (print (JStr (d_namespace d))) with (print_str (d_namespace d)). change jstr with print_str.
  unfold comma. lits. flat. reflexivity.
Qed.

Lemma extra_directives_print c :
  extra_directives c = concat (map (fun d => comma ++ print (extra_directive_doc d)) (directives c)).
Proof.
  unfold extra_directives. induction (directives c) as [|d r IH]; [reflexivity|].
  cbn [flat_map map concat]. rewrite IH, directive_json_print. reflexivity.
Qed.

Lemma join_print_app (x : json) (A B : list json) :
  join comma (map print ((x :: A) ++ B)) =
  print x ++ concat (map (fun j => comma ++ print j) A) ++ concat (map (fun j => comma ++ print j) B).
Proof. cbn [app map]. rewrite join_cons_comma, map_map, map_app, concat_app. reflexivity. Qed.

(* the global record *)
Lemma global_line c ts ns0 nss w a dim :
  namespaces c = ns0 :: nss ->
  Rel c w a ->
  pb_clear dim = pb_new (dims_prefix c) ->
  let dims_list := match entry_dims w with Some e => e | None => each_dims_enc c end in
  let dim1 := pb_push (pb_clear dim) (join comma dims_list) in
  let mb1 := pb_push (metrics (w_state w)) (bs "]}") in
  let mb2 := fold_left (fun mb ns =>
               pb_extend_within (pb_push mb (bs ",{""Namespace"":" ++ ns ++ skipn (after_ns_index c) (pdata dim1))) 0 (pb_len mb1))
               (tl (ns_enc c)) mb1 in
  pdata dim1 ++ pdata mb2 ++ (pdata (decl (w_state w)) ++ lg_and_ts c ++ render_dec ts) ++ pdata (fields (w_state w)) ++
    (pdata (string_fields (w_state w)) ++ bs "}" ++ [10%N])
  = print (global_doc c ts a) ++ [10%N].
Proof.
  intros Hns [A B [Hf Hfp Hm Hmp Hne] D E F G] Hclr. cbv zeta.
  rewrite Hclr. cbn [pb_push pb_new pdata].
  assert (Hdl : match entry_dims w with Some e => e | None => each_dims_enc c end = map jarr_strings (base_dims c a)).
  { unfold base_dims. rewrite F. destruct (a_edims a); reflexivity. }
  rewrite Hdl.
  set (J := join comma (map jarr_strings (base_dims c a))).
  assert (Hdp : dims_prefix c = head0 c ++ dims_after_ns).
  { unfold dims_prefix, head0. rewrite <- app_assoc. reflexivity. }
  assert (Hai : after_ns_index c = length (head0 c)).
  { unfold after_ns_index. rewrite Hdp, app_length. lia. }
  assert (Hsk : skipn (after_ns_index c) (dims_prefix c ++ J) = dims_after_ns ++ J).
  { rewrite Hai, Hdp, <- app_assoc. apply skipn_app_exact. }
  rewrite Hsk.
  rewrite (fold_extend_text (tl (ns_enc c)) (pdata (metrics (w_state w)) ++ bs "]}") [] 0
            (fun ns => bs ",{""Namespace"":" ++ ns ++ dims_after_ns ++ J)).
  2: lia.
  2: { cbn [pb_push pdata]. rewrite app_nil_r. reflexivity. }
  cbn [skipn app]. rewrite Hm, Hf, A, D.
  unfold global_doc. rewrite print_obj_cons. unfold member. cbn [fst snd].
  rewrite aws_doc_print. rewrite Hns. cbn [map].
  rewrite (join_print_app (directive_doc ns0 (base_dims c a) (a_decls a))).
  rewrite !map_map. rewrite directive_doc_print.
  unfold ns_enc. rewrite Hns. cbn [map tl]. rewrite map_map.
  assert (E2 : forall x, (bs ",{""Namespace"":" ++ jstr x ++ dims_after_ns ++ J) ++ (bs "],""Metrics"":[" ++ r_decls (a_decls a)) ++ bs "]}"
                        = comma ++ print (directive_doc x (base_dims c a) (a_decls a))).
  { intros x. rewrite directive_doc_print. unfold slice_text, dims_after_ns, comma. fold J. lits. flat. reflexivity. }
  rewrite (map_ext _ _ E2).
  rewrite extra_directives_print.
  rewrite Hdp. unfold head0, first_ns, ns_enc, slice_text, dims_after_ns. rewrite Hns. cbn [map hd]. fold J.
  unfold r_cm. rewrite !map_app, !concat_app.
  lits. flat. reflexivity.
Qed.

Lemma filter_nil_existsb {A} (f : A -> bool) l :
  (match filter f l with [] => true | _ => false end) = negb (existsb f l).
Proof. induction l as [|x r IH]; [reflexivity|]. cbn. destruct (f x); [reflexivity | exact IH]. Qed.

(* ================================================================ the refinement theorem *)
Theorem format_prints_docs c ns0 nss mult e now ftab s' out :
  namespaces c = ns0 :: nss ->
  format c (fresh c) mult e now ftab [] = (s', ROk, out) ->
  out = concat (map (fun d => print d ++ [10%N]) (emf_docs c mult e now ftab)).
Proof.
  intros Hns Hf. unfold format in Hf.
  pose proof (finish_ok_no_errors _ _ _ _ _ _ _ _ Hf) as [Hno Hmiss].
  set (w := fold_left (do_item c ftab mult) e (init_writer c (st (fresh c)))) in *.
  pose proof (rel_fold c ftab mult e _ _ (rel_init c) Hno) as HR. fold w in HR.
  fold (abuild c ftab mult e) in HR. set (a := abuild c ftab mult e) in *.
  unfold finish in Hf.
  destruct (errors w ++ (if negb (skip_dims c) && negb (unroutable w) then missing_dim_errors w else [])) as [|x xs];
    [|discriminate].
  pose proof HR as [A B C D E F G].
  set (tsn := match w_timestamp w with Some t => millis t | None => now end) in *.
  assert (Hsf : pdata (pb_push (string_fields (w_state w)) (bs "}" ++ [10%N])) = r_cm (a_strings a) ++ bs "}" ++ [10%N]).
  { cbn [pb_push pdata]. rewrite A. reflexivity. }
  rewrite Hsf in Hf.
  rewrite (finish_dsets_docs c tsn (a_strings a) ns0 nss Hns _ _ E) in Hf.
  cbn [orb app] in Hf.
  rewrite (bufrel_is_empty _ _ _ _ _ _ C) in Hf.
  unfold emf_docs. fold a. rewrite <- G. fold tsn.
  change (fun s : aset => negb match as_members s with [] => true | _ :: _ => false end) with set_nonempty.
  rewrite filter_nil_existsb.
  rewrite map_app, concat_app, map_map.
  destruct (negb (existsb set_nonempty (a_sets a)) || negb match a_members a with [] => true | _ :: _ => false end) eqn:Hc.
  - rewrite write_all_vectored_accept_all in Hf.
    pose proof (f_equal snd Hf) as Ho. cbn [snd] in Ho. subst out. clear Hf.
    f_equal. cbn [concat map]. rewrite !app_nil_r. rewrite <- A.
    pose proof (global_line c tsn ns0 nss w a (dimensions (fresh c)) Hns HR (pb_clear_new _)) as GL.
    cbv zeta in GL. exact GL.
  - pose proof (f_equal snd Hf) as Ho. cbn [snd] in Ho. subst out.
    cbn [map concat]. rewrite app_nil_r. reflexivity.
Qed.
