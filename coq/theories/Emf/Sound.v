(* C08, soundness clause: with the uniqueness and name checks on, an accepted entry that routes no metric to a
   dimension-set record yields a record without two members of one name.  (With per-metric dimensions the clause is
   refuted: see Props/C08.v, known finding C08-dim-key-unvalidated.) *)
From Coq Require Import String.
From Coq Require Import List NArith ZArith Bool Lia Permutation ListDec.
From MV Require Import Common.Sx Common.Bytes Json.Json Emf.Model Emf.Spec Emf.Validate Emf.Complete Emf.Content.
Import ListNotations.

Definition sm (v : vcall) : Prop := match v with VString _ | VMetric _ _ _ _ => True | _ => False end.
Definition value_names (e : entry) : list bytes :=
  flat_map (fun i => match i with IValue n (VString _) | IValue n (VMetric _ _ _ _) => [n] | _ => [] end) e.

Lemma bytes_eq_dec : forall a b : bytes, {a = b} + {a <> b}.
Proof. apply list_eq_dec. apply N.eq_dec. Qed.

Lemma in_names_split n e : In n (value_names e) -> exists e2 v2 e3, e = e2 ++ IValue n v2 :: e3 /\ sm v2.
Proof.
  induction e as [|i r IH]; [intros []|]. unfold value_names. cbn [flat_map]. fold (value_names r). intros H.
  apply in_app_or in H as [H | H].
  - destruct i as [| |m [| s | | os u d fl]]; try contradiction; destruct H as [<- | []].
    + exists [], (VString s), r. split; [reflexivity | exact I].
    + exists [], (VMetric os u d fl), r. split; [reflexivity | exact I].
  - destruct (IH H) as (e2 & v2 & e3 & -> & Hs). exists (i :: e2), v2, e3. split; [reflexivity | exact Hs].
Qed.

Lemma names_dup_split e : ~ NoDup (value_names e) ->
  exists e1 n v1 e2 v2 e3, e = e1 ++ IValue n v1 :: e2 ++ IValue n v2 :: e3 /\ sm v1 /\ sm v2.
Proof.
  induction e as [|i r IH]; [intros H; exfalso; apply H; constructor|].
  unfold value_names. cbn [flat_map]. fold (value_names r). intros H.
  assert (Hcases : (exists n v, i = IValue n v /\ sm v /\ In n (value_names r)) \/ ~ NoDup (value_names r)).
  { destruct i as [| |m [| s | | os u d fl]]; cbn [app] in H; try (right; exact H).
    - destruct (in_dec bytes_eq_dec m (value_names r)) as [Hin | Hn].
      + left. exists m, (VString s). repeat split; assumption.
      + right. intros Hnd. apply H. constructor; assumption.
    - destruct (in_dec bytes_eq_dec m (value_names r)) as [Hin | Hn].
      + left. exists m, (VMetric os u d fl). repeat split; assumption.
      + right. intros Hnd. apply H. constructor; assumption. }
  destruct Hcases as [(n & v & -> & Hs & Hin) | Hr].
  - destruct (in_names_split n r Hin) as (e2 & v2 & e3 & -> & Hs2).
    exists [], n, v, e2, v2, e3. repeat split; assumption.
  - destruct (IH Hr) as (e1 & n & v1 & e2 & v2 & e3 & -> & H1 & H2).
    exists (i :: e1), n, v1, e2, v2, e3. repeat split; assumption.
Qed.

Definition no_routing (e : entry) : Prop :=
  forall name os u dims fl, In (IValue name (VMetric os u dims fl)) e -> dims = [].

Lemma accepted_names_nodup c s mult e now ftab script s' out :
  skip_unique c = false -> no_routing e -> has_unroutable e = false ->
  format c s mult e now ftab script = (s', ROk, out) -> NoDup (value_names e).
Proof.
  intros Hu Hnr Hun Hf.
  destruct (NoDup_dec bytes_eq_dec (value_names e)) as [Hnd | Hd]; [exact Hnd|]. exfalso.
  destruct (names_dup_split e Hd) as (e1 & n & v1 & e2 & v2 & e3 & -> & H1 & H2).
  assert (Hrej : rejected c s mult (e1 ++ IValue n v1 :: e2 ++ IValue n v2 :: e3) now ftab script).
  { assert (Hun1 : has_unroutable (e1 ++ IValue n v1 :: e2) = false).
    { rewrite has_unroutable_app in Hun. apply orb_false_elim in Hun as [Ha Hb].
      rewrite has_unroutable_app. rewrite Ha. cbn [orb].
      change (IValue n v1 :: e2 ++ IValue n v2 :: e3) with ((IValue n v1 :: e2) ++ IValue n v2 :: e3) in Hb.
      rewrite has_unroutable_app in Hb. apply orb_false_elim in Hb as [Hb _]. exact Hb. }
    assert (Hun0 : has_unroutable e1 = false).
    { rewrite has_unroutable_app in Hun1. apply orb_false_elim in Hun1. tauto. }
    destruct v1 as [| a | | os u d fl]; try contradiction; destruct v2 as [| b | | os' u' d' fl']; try contradiction.
    - apply dup_string_string_rejected. exact Hu.
    - apply dup_string_metric_rejected; assumption.
    - assert (d = []) by (eapply Hnr; apply in_or_app; right; left; reflexivity). subst d.
      apply dup_metric_string_rejected; assumption.
    - assert (d = []) by (eapply Hnr; apply in_or_app; right; left; reflexivity). subst d.
      assert (d' = []).
      { eapply Hnr. apply in_or_app. right. right. apply in_or_app. right. left. reflexivity. }
      subst d'. apply dup_metric_metric_rejected; assumption. }
  destruct Hrej as (s2 & msgs & Hr). rewrite Hr in Hf. discriminate.
Qed.

Lemma accepted_no_reserved c s mult e now ftab script s' out n v :
  skip_names c = false -> format c s mult e now ftab script = (s', ROk, out) ->
  In (IValue n v) e -> n <> [] /\ n <> bs "_aws".
Proof.
  intros Hs Hf Hin. apply in_split in Hin as (e1 & e2 & ->).
  split; intros ->.
  - destruct (bad_name_rejected c s mult e1 [] v e2 now ftab script Hs (or_introl eq_refl)) as (s2 & m & Hr).
    rewrite Hr in Hf. discriminate.
  - destruct (bad_name_rejected c s mult e1 (bs "_aws") v e2 now ftab script Hs (or_intror eq_refl)) as (s2 & m & Hr).
    rewrite Hr in Hf. discriminate.
Qed.

Lemma gmember_names_in ftab mult e n : In n (map fst (gmembers ftab mult e)) -> In n (value_names e).
Proof.
  unfold gmembers, value_names. induction e as [|i r IH]; [intros []|]. cbn [flat_map]. rewrite map_app. intros H.
  apply in_app_or in H as [H | H]; apply in_or_app.
  - left. destruct i as [| |m [| s | | os u d fl]]; try contradiction.
    destruct (metric_value ftab mult os); [|contradiction]. destruct H as [<- | []]. left. reflexivity.
  - right. apply IH. exact H.
Qed.
Lemma string_names_in e n : In n (map fst (strings_of e)) -> In n (value_names e).
Proof.
  unfold strings_of, value_names. induction e as [|i r IH]; [intros []|]. cbn [flat_map]. rewrite map_app. intros H.
  apply in_app_or in H as [H | H]; apply in_or_app.
  - left. destruct i as [| |m [| s | | os u d fl]]; try contradiction. destruct H as [<- | []]. left. reflexivity.
  - right. apply IH. exact H.
Qed.

Lemma member_names_nodup ftab mult e :
  NoDup (value_names e) -> NoDup (map fst (gmembers ftab mult e) ++ map fst (strings_of e)).
Proof.
  induction e as [|i r IH]; [intros _; constructor|].
  unfold value_names, gmembers, strings_of. cbn [flat_map]. fold (value_names r) (gmembers ftab mult r) (strings_of r).
  destruct i as [| |m [| s | | os u d fl]]; cbn [app map]; try exact IH.
  - (* string *)
    intros H. inversion H as [|? ? Hn Hnd]; subst. specialize (IH Hnd).
    apply (Permutation_NoDup (l := m :: map fst (gmembers ftab mult r) ++ map fst (strings_of r))).
    + apply Permutation_middle.
    + constructor; [|exact IH]. intros Hin. apply Hn. apply in_app_or in Hin as [Hin | Hin];
        [eapply gmember_names_in | apply string_names_in]; eassumption.
  - (* metric *)
    intros H. inversion H as [|? ? Hn Hnd]; subst. specialize (IH Hnd).
    destruct (metric_value ftab mult os); cbn [app map fst]; [|exact IH].
    constructor; [|exact IH]. intros Hin. apply Hn. apply in_app_or in Hin as [Hin | Hin];
      [eapply gmember_names_in | apply string_names_in]; eassumption.
Qed.

(* the soundness clause for entries without per-metric routing *)
Theorem sound_without_routing c s mult e now ftab script s' out :
  skip_unique c = false -> skip_names c = false ->
  no_routing e -> has_unroutable e = false ->
  format c s mult e now ftab script = (s', ROk, out) ->
  exists a, emf_docs c mult e now ftab = [global_doc c (doc_ts e now) a] /\
            NoDup (map fst (members_of (global_doc c (doc_ts e now) a))).
Proof.
  intros Hu Hs Hnr Hun Hf.
  assert (Hg : all_global c e) by (right; exact Hnr).
  destruct (global_only_docs c mult e now ftab Hg) as (a & Hd & Hm & _ & Hst).
  exists a. split; [exact Hd|]. unfold global_doc. cbn [members_of map fst]. rewrite map_app, Hm, Hst.
  pose proof (accepted_names_nodup c s mult e now ftab script s' out Hu Hnr Hun Hf) as Hnd.
  constructor; [|apply member_names_nodup; exact Hnd].
  intros Hin. apply in_app_or in Hin.
  assert (Hv : In (bs "_aws") (value_names e)) by (destruct Hin as [Hin | Hin]; [eapply gmember_names_in | apply string_names_in]; eassumption).
  destruct (in_names_split _ _ Hv) as (e2 & v2 & e3 & -> & _).
  destruct (accepted_no_reserved c s mult _ now ftab script s' out (bs "_aws") v2 Hs Hf) as [_ Hne].
  - apply in_or_app. right. left. reflexivity.
  - apply Hne. reflexivity.
Qed.
