(* C16 at the level of a whole entry: whatever the writer does, what it has received is a prefix of the entry's
   records as an all-accepting writer receives them, and is exactly those records when the call reports success. *)
From Coq Require Import String.
From Coq Require Import List NArith ZArith Bool Lia.
From MV Require Import Common.Sx Common.Bytes Emf.Model C16.Proofs Emf.Refine.
Import ListNotations.

Definition is_prefix (a b : bytes) : Prop := exists rest, a ++ rest = b.
Lemma is_prefix_refl a : is_prefix a a. Proof. exists []. apply app_nil_r. Qed.
Lemma is_prefix_trans a b c : is_prefix a b -> is_prefix b c -> is_prefix a c.
Proof. intros [x Hx] [y Hy]. exists (x ++ y). rewrite app_assoc, Hx. exact Hy. Qed.
Lemma is_prefix_app a x : is_prefix a (a ++ x). Proof. exists x. reflexivity. Qed.

(* an all-accepting writer only ever appends *)
Lemma finish_dsets_accept_extends c ts sf ds : forall rec em,
  exists X em', finish_dsets c ts sf ds [] rec em = (map (finish_dset c ts) ds, [], rec ++ X, em', WOk).
Proof.
  induction ds as [|d r IH]; intros rec em; cbn [finish_dsets map].
  - exists [], em. rewrite app_nil_r. reflexivity.
  - destruct (pb_is_empty (ds_fields (finish_dset c ts d))).
    + destruct (IH rec em) as (X & em' & ->). exists X, em'. reflexivity.
    + rewrite write_all_vectored_accept_all.
      destruct (IH (rec ++ concat [pdata (ds_metrics (finish_dset c ts d)); pdata (ds_fields (finish_dset c ts d)); sf]) true) as (X & em' & ->).
      eexists (_ ++ X), em'. rewrite <- app_assoc. reflexivity.
Qed.

Lemma write_vectored_vs_accept script bufs rec :
  let '(sc, rec1, res) := write_all_vectored script bufs rec in
  is_prefix rec1 (rec ++ concat bufs) /\ (res = WOk -> rec1 = rec ++ concat bufs).
Proof.
  pose proof (write_all_vectored_prefix script bufs rec) as H.
  destruct (write_all_vectored script bufs rec) as [[sc rec1] res]. destruct H as [[rest H1] H2].
  split; [exists rest; exact H1 | exact H2].
Qed.

Lemma finish_dsets_vs_accept c ts sf ds : forall script rec em,
  let '(ds1, sc1, rec1, em1, res1) := finish_dsets c ts sf ds script rec em in
  let '(ds2, sc2, rec2, em2, res2) := finish_dsets c ts sf ds [] rec em in
  is_prefix rec1 rec2 /\ (res1 = WOk -> rec1 = rec2 /\ em1 = em2 /\ ds1 = ds2).
Proof.
  induction ds as [|d r IH]; intros script rec em; cbn [finish_dsets].
  - split; [apply is_prefix_refl | auto].
  - destruct (pb_is_empty (ds_fields (finish_dset c ts d))).
    + specialize (IH script rec em).
      destruct (finish_dsets c ts sf r script rec em) as [[[[ds1 sc1] rec1] em1] res1].
      destruct (finish_dsets c ts sf r [] rec em) as [[[[ds2 sc2] rec2] em2] res2].
      destruct IH as [I1 I2]. split; [exact I1|]. intros H. destruct (I2 H) as (-> & -> & ->). auto.
    + set (bufs := [pdata (ds_metrics (finish_dset c ts d)); pdata (ds_fields (finish_dset c ts d)); sf]).
      pose proof (write_vectored_vs_accept script bufs rec) as HW.
      rewrite write_all_vectored_accept_all.
      destruct (write_all_vectored script bufs rec) as [[sc rec'] res]. destruct HW as [W1 W2].
      destruct res.
      * (* this line was written completely: continue with the same received bytes *)
        rewrite (W2 eq_refl). specialize (IH sc (rec ++ concat bufs) true).
        destruct (finish_dsets c ts sf r sc (rec ++ concat bufs) true) as [[[[ds1 sc1] rec1] em1] res1].
        destruct (finish_dsets c ts sf r [] (rec ++ concat bufs) true) as [[[[ds2 sc2] rec2] em2] res2].
        destruct IH as [I1 I2]. split; [exact I1|]. intros H. destruct (I2 H) as (-> & -> & ->). auto.
      * destruct (finish_dsets_accept_extends c ts sf r (rec ++ concat bufs) true) as (X & em' & ->).
        split; [|discriminate]. eapply is_prefix_trans; [exact W1 | apply is_prefix_app].
      * destruct (finish_dsets_accept_extends c ts sf r (rec ++ concat bufs) true) as (X & em' & ->).
        split; [|discriminate]. eapply is_prefix_trans; [exact W1 | apply is_prefix_app].
Qed.

Definition out_of (x : fstate * result * bytes) : bytes := snd x.
Definition res_of (x : fstate * result * bytes) : result := snd (fst x).

Theorem finish_vs_accept c now w dim cnt script :
  let a := finish c now w dim cnt script in
  let b := finish c now w dim cnt [] in
  (forall m, res_of b = RValidation m -> res_of a = RValidation m /\ out_of a = []) /\
  (res_of b = ROk ->
     is_prefix (out_of a) (out_of b) /\
     (res_of a = ROk -> out_of a = out_of b) /\
     (exists z, res_of a = ROk \/ res_of a = RIo z)).
Proof.
  cbv zeta. unfold finish, out_of, res_of.
  destruct (errors w ++ _) as [|x xs].
  2: { split; [intros m H; cbn in *; split; [exact H | reflexivity] | cbn; discriminate]. }
  set (ts := render_dec _). set (sf := pdata (pb_push (string_fields (w_state w)) _)).
  pose proof (finish_dsets_vs_accept c ts sf (dsmap (w_state w)) script [] false) as HD.
  destruct (finish_dsets_accept_extends c ts sf (dsmap (w_state w)) [] false) as (X & em' & HA).
  rewrite HA in *. cbn [app] in *.
  destruct (finish_dsets c ts sf (dsmap (w_state w)) script [] false) as [[[[ds1 sc1] rec1] em1] res1].
  destruct HD as [D1 D2].
  split.
  { intros m H. exfalso.
    destruct (negb em' || negb (pb_is_empty (fields (w_state w)))); [|cbn in H; discriminate].
    rewrite write_all_vectored_accept_all in H. cbn in H. discriminate. }
  intros _.
  destruct res1.
  - destruct (D2 eq_refl) as (-> & -> & ->).
    destruct (negb em' || negb (pb_is_empty (fields (w_state w)))).
    + set (bufs := [_; _; _; _; _]).
      pose proof (write_vectored_vs_accept sc1 bufs X) as HW.
      rewrite write_all_vectored_accept_all.
      destruct (write_all_vectored sc1 bufs X) as [[sc2 rec2] res2]. destruct HW as [W1 W2].
      destruct res2; cbn [fst snd].
      * split; [rewrite (W2 eq_refl); apply is_prefix_refl|]. split; [intros _; exact (W2 eq_refl)|]. exists false. left. reflexivity.
      * split; [exact W1|]. split; [discriminate|]. exists true. right. reflexivity.
      * split; [exact W1|]. split; [discriminate|]. exists false. right. reflexivity.
    + cbn [fst snd]. split; [apply is_prefix_refl|]. split; [auto|]. exists false. left. reflexivity.
  - destruct (negb em' || negb (pb_is_empty (fields (w_state w)))).
    + rewrite write_all_vectored_accept_all. cbn [fst snd].
      split; [eapply is_prefix_trans; [exact D1 | apply is_prefix_app]|]. split; [discriminate|]. exists true. right. reflexivity.
    + cbn [fst snd]. split; [exact D1|]. split; [discriminate|]. exists true. right. reflexivity.
  - destruct (negb em' || negb (pb_is_empty (fields (w_state w)))).
    + rewrite write_all_vectored_accept_all. cbn [fst snd].
      split; [eapply is_prefix_trans; [exact D1 | apply is_prefix_app]|]. split; [discriminate|]. exists false. right. reflexivity.
    + cbn [fst snd]. split; [exact D1|]. split; [discriminate|]. exists false. right. reflexivity.
Qed.
