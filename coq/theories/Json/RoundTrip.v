(* The executable parser inverts the printer: parse (print j) = Some j for every well-formed value.
   (The parser is the predicate applied to the implementation's bytes; this ties it to the printer and hence,
   through the EMF refinement theorem, to the reference documents.) *)
From Coq Require Import List NArith Bool Lia.
From MV Require Import Common.Sx Common.Bytes Json.Json Json.Valid.
Import ListNotations.
Local Open Scope N_scope.

(* what may follow a value inside printed text: nothing, or one of , ] } *)
Definition stopper (rest : bytes) : Prop :=
  match rest with [] => True | c :: _ => c = 44 \/ c = 93 \/ c = 125 \/ c = 10 end.

Lemma stopper_facts rest : stopper rest ->
  match rest with
  | [] => True
  | c :: _ => is_digit c = false /\ (c =? 45) = false /\ (c =? 46) = false /\ (c =? 101) = false /\ (c =? 69) = false /\
              (c =? 43) = false
  end.
Proof. destruct rest as [|c r]; [auto|]. intros [-> | [-> | [-> | ->]]]; repeat split; reflexivity. Qed.

(* ---------------------------------------------------------------- numbers *)
Lemma take_digits_app s rest : stopper rest ->
  take_digits (s ++ rest) = (fst (take_digits s), snd (take_digits s) ++ rest).
Proof.
  intros Hs. induction s as [|c r IH]; cbn [app take_digits fst snd].
  - pose proof (stopper_facts rest Hs) as F. destruct rest as [|c r]; [reflexivity|].
    cbn [take_digits]. destruct F as (F & _). rewrite F. reflexivity.
  - destruct (is_digit c); [|reflexivity]. rewrite IH. destruct (take_digits r). reflexivity.
Qed.

Lemma lex_frac_app s rest : stopper rest ->
  lex_frac (s ++ rest) = match lex_frac s with Some (a, b) => Some (a, b ++ rest) | None => None end.
Proof.
  intros Hs. pose proof (stopper_facts rest Hs) as F. destruct s as [|c r]; cbn [app lex_frac].
  - destruct rest as [|c r]; [reflexivity|]. cbn [lex_frac]. destruct F as (_ & _ & F & _). rewrite F. reflexivity.
  - destruct (c =? 46); [|reflexivity]. rewrite (take_digits_app r rest Hs). destruct (take_digits r) as [fd r'].
    cbn [fst snd]. destruct (is_nil fd); reflexivity.
Qed.

Lemma lex_exp_app s rest : stopper rest ->
  lex_exp (s ++ rest) = match lex_exp s with Some (a, b) => Some (a, b ++ rest) | None => None end.
Proof.
  intros Hs. pose proof (stopper_facts rest Hs) as F. destruct s as [|c r]; cbn [app lex_exp].
  - destruct rest as [|c r]; [reflexivity|]. cbn [lex_exp]. destruct F as (_ & _ & _ & F1 & F2 & _). rewrite F1, F2. reflexivity.
  - destruct ((c =? 101) || (c =? 69)); [|reflexivity].
    destruct r as [|c2 r']; cbn [app].
    + (* the exponent letter is the last character of s: rest follows *)
      destruct rest as [|c3 r3]; cbn [take_digits is_nil]; [reflexivity|].
      destruct F as (Fd & F45 & _ & _ & _ & F43). rewrite F43, F45. cbn [orb take_digits]. rewrite Fd. reflexivity.
    + destruct ((c2 =? 43) || (c2 =? 45)).
      * rewrite (take_digits_app r' rest Hs). destruct (take_digits r') as [ed r2]. cbn [fst snd]. destruct (is_nil ed); reflexivity.
      * change (c2 :: r' ++ rest) with ((c2 :: r') ++ rest). rewrite (take_digits_app (c2 :: r') rest Hs).
        destruct (take_digits (c2 :: r')) as [ed r2]. cbn [fst snd]. destruct (is_nil ed); reflexivity.
Qed.

Lemma lex_sign_app s rest : stopper rest ->
  lex_sign (s ++ rest) = (fst (lex_sign s), snd (lex_sign s) ++ rest).
Proof.
  intros Hs. pose proof (stopper_facts rest Hs) as F. destruct s as [|c r]; cbn [app lex_sign fst snd].
  - destruct rest as [|c r]; [reflexivity|]. cbn [lex_sign]. destruct F as (_ & F & _). rewrite F. reflexivity.
  - destruct (c =? 45); reflexivity.
Qed.

Lemma lex_number_app s rest : stopper rest ->
  lex_number (s ++ rest) = match lex_number s with Some (a, b) => Some (a, b ++ rest) | None => None end.
Proof.
  intros Hs. unfold lex_number. rewrite (lex_sign_app s rest Hs). destruct (lex_sign s) as [sign s1]. cbn [fst snd].
  rewrite (take_digits_app s1 rest Hs). destruct (take_digits s1) as [int s2]. cbn [fst snd].
  destruct int as [|d more]; [reflexivity|].
  destruct ((d =? 48) && negb (is_nil more)); [reflexivity|].
  rewrite (lex_frac_app s2 rest Hs). destruct (lex_frac s2) as [[ftxt s3]|]; [|reflexivity].
  rewrite (lex_exp_app s3 rest Hs). destruct (lex_exp s3) as [[etxt s4]|]; reflexivity.
Qed.

Lemma number_followed t rest : number_text t -> stopper rest -> lex_number (t ++ rest) = Some (t, rest).
Proof. intros Ht Hs. rewrite (lex_number_app t rest Hs), Ht. reflexivity. Qed.

(* the first character of a number text is '-' or a digit: not whitespace, not a structural character *)
Lemma number_first t : number_text t -> exists c r, t = c :: r /\ ((c =? 45) = true \/ is_digit c = true).
Proof.
  unfold number_text, lex_number. destruct t as [|c r]; [cbn; discriminate|]. intros H.
  exists c, r. split; [reflexivity|]. cbn [lex_sign] in H.
  destruct (c =? 45) eqn:E; [left; reflexivity|]. right.
  cbn [take_digits] in H. destruct (is_digit c); [reflexivity | discriminate].
Qed.

(* ---------------------------------------------------------------- strings *)
Lemma hex_val_digit n : n < 16 -> hex_val (hex_digit n) = Some n.
Proof.
  intros H. unfold hex_digit, hex_val, is_digit. destruct (n <? 10) eqn:E.
  - apply N.ltb_lt in E. replace ((48 <=? 48 + n) && (48 + n <=? 57))%bool with true.
    + f_equal. lia.
    + symmetry. apply andb_true_intro. split; apply N.leb_le; lia.
  - apply N.ltb_ge in E. replace ((48 <=? 87 + n) && (87 + n <=? 57))%bool with false.
    + replace ((97 <=? 87 + n) && (87 + n <=? 102))%bool with true; [f_equal; lia|].
      symmetry. apply andb_true_intro. split; apply N.leb_le; lia.
    + symmetry. apply andb_false_intro2. apply N.leb_gt. lia.
Qed.

Lemma lex_string_escape s : forall rest fuel,
  (length (escape s) < fuel)%nat -> lex_string fuel (escape s ++ 34 :: rest) = Some (s, rest).
Proof.
  induction s as [|c r IH]; intros rest fuel Hf.
  - destruct fuel; [cbn in Hf; lia|]. reflexivity.
  - unfold escape in *. cbn [flat_map] in *. rewrite app_length in Hf. rewrite <- app_assoc.
    set (tl_ := flat_map escape_byte r) in *. unfold escape_byte in *.
    assert (Hsimple : forall e ch, simple_escape e = Some ch -> forall fuel, (2 + length tl_ < fuel)%nat ->
              lex_string fuel ([92; e] ++ tl_ ++ 34 :: rest) =
              match lex_string (pred fuel) (tl_ ++ 34 :: rest) with Some (t, rest') => Some (ch :: t, rest') | None => None end).
    { intros e ch He f Hlt. destruct f; [lia|]. cbn [app lex_string pred]. cbn [N.eqb Pos.eqb]. rewrite He. reflexivity. }
    destruct (c =? 34) eqn:E1.
    { apply N.eqb_eq in E1. subst c. cbn [length] in Hf. rewrite (Hsimple 34 34 eq_refl) by lia.
      rewrite IH by (destruct fuel; cbn; lia). reflexivity. }
    destruct (c =? 92) eqn:E2.
    { apply N.eqb_eq in E2. subst c. cbn [length] in Hf. rewrite (Hsimple 92 92 eq_refl) by lia.
      rewrite IH by (destruct fuel; cbn; lia). reflexivity. }
    destruct (c =? 8) eqn:E3.
    { apply N.eqb_eq in E3. subst c. cbn [length] in Hf. rewrite (Hsimple 98 8 eq_refl) by lia.
      rewrite IH by (destruct fuel; cbn; lia). reflexivity. }
    destruct (c =? 12) eqn:E4.
    { apply N.eqb_eq in E4. subst c. cbn [length] in Hf. rewrite (Hsimple 102 12 eq_refl) by lia.
      rewrite IH by (destruct fuel; cbn; lia). reflexivity. }
    destruct (c =? 10) eqn:E5.
    { apply N.eqb_eq in E5. subst c. cbn [length] in Hf. rewrite (Hsimple 110 10 eq_refl) by lia.
      rewrite IH by (destruct fuel; cbn; lia). reflexivity. }
    destruct (c =? 13) eqn:E6.
    { apply N.eqb_eq in E6. subst c. cbn [length] in Hf. rewrite (Hsimple 114 13 eq_refl) by lia.
      rewrite IH by (destruct fuel; cbn; lia). reflexivity. }
    destruct (c =? 9) eqn:E7.
    { apply N.eqb_eq in E7. subst c. cbn [length] in Hf. rewrite (Hsimple 116 9 eq_refl) by lia.
      rewrite IH by (destruct fuel; cbn; lia). reflexivity. }
    destruct (c <? 32) eqn:E8.
    { (* \u00XX *)
      apply N.ltb_lt in E8. cbn [length] in Hf. destruct fuel; [lia|].
      cbn [app lex_string]. cbn [N.eqb Pos.eqb simple_escape].
      change (hex_val 48) with (Some 0).
      assert (Hq : c / 16 < 16) by (apply N.div_lt_upper_bound; lia).
      assert (Hm : c mod 16 < 16) by (apply N.mod_lt; lia).
      rewrite (hex_val_digit _ Hq), (hex_val_digit _ Hm).
      assert (Hcp : 0 * 4096 + 0 * 256 + c / 16 * 16 + c mod 16 = c).
      { pose proof (N.div_mod c 16). lia. }
      rewrite Hcp.
      assert (Hs : ((55296 <=? c) && (c <=? 57343))%bool = false) by (apply andb_false_intro1; apply N.leb_gt; lia).
      rewrite Hs. rewrite IH by lia.
      unfold utf8_bmp. assert (H128 : (c <? 128) = true) by (apply N.ltb_lt; lia). rewrite H128. reflexivity. }
    (* an ordinary character *)
    cbn [length] in Hf. destruct fuel; [lia|]. cbn [app lex_string]. rewrite E1, E2, E8.
    rewrite IH by lia. reflexivity.
Qed.

Lemma lex_print_str s rest : lex_string (Datatypes.S (length (escape s ++ 34 :: rest))) (escape s ++ 34 :: rest) = Some (s, rest).
Proof. apply lex_string_escape. rewrite app_length. cbn. lia. Qed.

(* ---------------------------------------------------------------- values *)
Fixpoint jsize (j : json) : nat :=
  match j with
  | JArr l => Datatypes.S ((fix go (l : list json) : nat := match l with [] => 0%nat | x :: r => (Datatypes.S (jsize x) + go r)%nat end) l)
  | JObj m => Datatypes.S ((fix go (m : list (bytes * json)) : nat := match m with [] => 0%nat | kv :: r => (Datatypes.S (jsize (snd kv)) + go r)%nat end) m)
  | _ => 1%nat
  end.
Definition lsize (l : list json) : nat :=
  (fix go (l : list json) : nat := match l with [] => 0%nat | x :: r => (Datatypes.S (jsize x) + go r)%nat end) l.
Definition msize (m : list (bytes * json)) : nat :=
  (fix go (m : list (bytes * json)) : nat := match m with [] => 0%nat | kv :: r => (Datatypes.S (jsize (snd kv)) + go r)%nat end) m.
Lemma jsize_arr l : jsize (JArr l) = Datatypes.S (lsize l). Proof. reflexivity. Qed.
Lemma jsize_obj m : jsize (JObj m) = Datatypes.S (msize m). Proof. reflexivity. Qed.
Lemma jsize_pos j : (1 <= jsize j)%nat. Proof. destruct j; cbn; lia. Qed.

(* the first character of printed text decides the parser's dispatch and is never whitespace *)
Definition first_kind (c : N) : Prop := is_ws c = false /\ c <> 93 /\ c <> 125 /\ c <> 44.

Lemma print_first j : wf j -> exists c r, print j = c :: r /\ first_kind c /\
  match j with
  | JNull => c = 110 | JBool true => c = 116 | JBool false => c = 102 | JStr _ => c = 34
  | JArr _ => c = 91 | JObj _ => c = 123
  | JNum _ => (c =? 45) = true \/ is_digit c = true
  end.
Proof.
  destruct j as [| [|] | t | s | l | m]; intros Hwf; cbn [print].
  1-3: eexists _, _; split; [reflexivity | split; [repeat split; try reflexivity; discriminate | reflexivity]].
  - destruct (number_first t Hwf) as (c & r & -> & Hc). exists c, r. split; [reflexivity|]. split; [|exact Hc].
    destruct Hc as [Hc | Hc].
    + apply N.eqb_eq in Hc. subst c. repeat split; try reflexivity; discriminate.
    + unfold is_digit in Hc. apply andb_prop in Hc as [H1 H2]. apply N.leb_le in H1, H2.
      repeat split; try lia. unfold is_ws.
      repeat (apply orb_false_intro); apply N.eqb_neq; lia.
  - unfold print_str. eexists _, _; split; [reflexivity | split; [repeat split; try reflexivity; discriminate | reflexivity]].
  - eexists _, _; split; [reflexivity | split; [repeat split; try reflexivity; discriminate | reflexivity]].
  - eexists _, _; split; [reflexivity | split; [repeat split; try reflexivity; discriminate | reflexivity]].
Qed.

Lemma skip_ws_first c r : is_ws c = false -> skip_ws (c :: r) = c :: r.
Proof. intros H. cbn [skip_ws]. rewrite H. reflexivity. Qed.

Definition P (j : json) : Prop :=
  wf j -> forall fuel rest, (jsize j <= fuel)%nat -> stopper rest -> parse_value fuel (print j ++ rest) = Some (j, rest).

Lemma stopper_arr_tail r rest : stopper (arr_tail r false ++ 93 :: rest).
Proof. destruct r as [|y r']; cbn; auto. Qed.
Lemma stopper_obj_tail r rest : stopper (obj_tail r false ++ 125 :: rest).
Proof. destruct r as [|[k v] r']; cbn; auto. Qed.

Lemma arr_tail_false_cons y r : arr_tail (y :: r) false = 44 :: print y ++ arr_tail r false.
Proof. reflexivity. Qed.
Lemma obj_tail_false_cons k v r : obj_tail ((k, v) :: r) false = 44 :: print_str k ++ [58] ++ print v ++ obj_tail r false.
Proof. reflexivity. Qed.

Lemma elems_ok f : forall r x n acc rest,
  Forall P (x :: r) -> wf_list (x :: r) ->
  (length (x :: r) <= n)%nat -> Forall (fun y => jsize y <= f)%nat (x :: r) ->
  elems_loop (parse_value f) n (print x ++ arr_tail r false ++ 93 :: rest) acc = Some (JArr (rev acc ++ x :: r), rest).
Proof.
  induction r as [|y r IH]; intros x n acc rest HP Hwf Hn Hsz.
  - inversion HP as [|? ? Px _]; subst. destruct Hwf as [Hwx _]. inversion Hsz as [|? ? Sx _]; subst.
    destruct n; [cbn in Hn; lia|]. cbn [elems_loop arr_tail app].
    rewrite (Px Hwx f (93 :: rest) Sx) by (cbn; auto).
    cbn [skip_ws is_ws N.eqb Pos.eqb orb]. cbn [rev]. reflexivity.
  - inversion HP as [|? ? Px HPr]; subst. destruct Hwf as [Hwx Hwr]. inversion Hsz as [|? ? Sx Szr]; subst.
    destruct n; [cbn in Hn; lia|]. cbn [elems_loop].
    rewrite (Px Hwx f (arr_tail (y :: r) false ++ 93 :: rest) Sx (stopper_arr_tail (y :: r) rest)).
    rewrite arr_tail_false_cons. cbn [app skip_ws is_ws N.eqb Pos.eqb orb].
    rewrite <- app_assoc. rewrite (IH y n (x :: acc) rest HPr Hwr); [|cbn in *; lia | exact Szr].
    cbn [rev]. rewrite <- app_assoc. reflexivity.
Qed.

Lemma members_ok f : forall r k v n acc rest,
  Forall (fun kv => P (snd kv)) ((k, v) :: r) -> wf_members ((k, v) :: r) ->
  (length ((k, v) :: r) <= n)%nat -> Forall (fun kv => jsize (snd kv) <= f)%nat ((k, v) :: r) ->
  members_loop (parse_value f) n (print_str k ++ [58] ++ print v ++ obj_tail r false ++ 125 :: rest) acc
  = Some (JObj (rev acc ++ (k, v) :: r), rest).
Proof.
  induction r as [|[k2 v2] r IH]; intros k v n acc rest HP Hwf Hn Hsz.
  - inversion HP as [|? ? Pv _]; subst. destruct Hwf as [Hwv _]. inversion Hsz as [|? ? Sv _]; subst. cbn [snd] in *.
    destruct n; [cbn in Hn; lia|]. cbn [members_loop]. unfold print_str. cbn [app skip_ws is_ws N.eqb Pos.eqb orb].
    rewrite <- app_assoc. cbn [app]. rewrite lex_print_str.
    cbn [skip_ws is_ws N.eqb Pos.eqb orb obj_tail app].
    rewrite (Pv Hwv f (125 :: rest) Sv) by (cbn; auto).
    cbn [skip_ws is_ws N.eqb Pos.eqb orb rev]. reflexivity.
  - inversion HP as [|? ? Pv HPr]; subst. destruct Hwf as [Hwv Hwr]. inversion Hsz as [|? ? Sv Szr]; subst. cbn [snd] in *.
    destruct n; [cbn in Hn; lia|]. cbn [members_loop]. unfold print_str at 1. cbn [app skip_ws is_ws N.eqb Pos.eqb orb].
    rewrite <- app_assoc. cbn [app]. rewrite lex_print_str.
    cbn [skip_ws is_ws N.eqb Pos.eqb orb].
    rewrite (Pv Hwv f (obj_tail ((k2, v2) :: r) false ++ 125 :: rest) Sv (stopper_obj_tail ((k2, v2) :: r) rest)).
    rewrite obj_tail_false_cons. cbn [app skip_ws is_ws N.eqb Pos.eqb orb].
    replace ((print_str k2 ++ 58 :: print v2 ++ obj_tail r false) ++ 125 :: rest)
      with (print_str k2 ++ [58] ++ print v2 ++ obj_tail r false ++ 125 :: rest)
      by (rewrite <- !app_assoc; cbn [app]; rewrite <- !app_assoc; reflexivity).
    rewrite (IH k2 v2 n ((k, v) :: acc) rest HPr Hwr); [|cbn in *; lia | exact Szr].
    cbn [rev]. rewrite <- app_assoc. reflexivity.
Qed.

Lemma lsize_cons x r : lsize (x :: r) = (Datatypes.S (jsize x) + lsize r)%nat.
Proof. reflexivity. Qed.
Lemma msize_cons kv r : msize (kv :: r) = (Datatypes.S (jsize (snd kv)) + msize r)%nat.
Proof. reflexivity. Qed.
Lemma lsize_bounds l : (length l <= lsize l)%nat /\ Forall (fun y => jsize y <= lsize l)%nat l.
Proof.
  induction l as [|x r [I1 I2]]; [split; [cbn; lia | constructor]|].
  rewrite lsize_cons. split; [cbn [length]; lia|]. constructor; [lia|].
  eapply Forall_impl; [|exact I2]. cbn. intros; lia.
Qed.
Lemma msize_bounds m : (length m <= msize m)%nat /\ Forall (fun kv => jsize (snd kv) <= msize m)%nat m.
Proof.
  induction m as [|x r [I1 I2]]; [split; [cbn; lia | constructor]|].
  rewrite msize_cons. split; [cbn [length]; lia|]. constructor; [lia|].
  eapply Forall_impl; [|exact I2]. cbn. intros; lia.
Qed.
Lemma lsize_facts l f : (lsize l <= f)%nat -> (length l <= f)%nat /\ Forall (fun y => jsize y <= f)%nat l.
Proof.
  intros H. destruct (lsize_bounds l) as [B1 B2]. split; [lia|]. eapply Forall_impl; [|exact B2]. cbn. intros; lia.
Qed.
Lemma msize_facts m f : (msize m <= f)%nat -> (length m <= f)%nat /\ Forall (fun kv => jsize (snd kv) <= f)%nat m.
Proof.
  intros H. destruct (msize_bounds m) as [B1 B2]. split; [lia|]. eapply Forall_impl; [|exact B2]. cbn. intros; lia.
Qed.

Theorem parse_value_print : forall j, P j.
Proof.
  apply (json_ind' P); unfold P.
  - intros _ fuel rest Hf _. destruct fuel; [cbn in Hf; lia|]. reflexivity.
  - intros [|] _ fuel rest Hf _; (destruct fuel; [cbn in Hf; lia|]); reflexivity.
  - (* number *)
    intros t Hwf fuel rest Hf Hs. destruct fuel; [cbn in Hf; lia|].
    destruct (print_first (JNum t) Hwf) as (c & r & Hp & (Hws & H93 & H125 & H44) & Hc). cbn [print] in Hp. subst t.
    cbn [print parse_value app]. rewrite (skip_ws_first c (r ++ rest) Hws).
    assert (Hne : (c =? 110) = false /\ (c =? 116) = false /\ (c =? 102) = false /\ (c =? 34) = false /\
                  (c =? 91) = false /\ (c =? 123) = false).
    { destruct Hc as [Hc | Hc].
      - apply N.eqb_eq in Hc. subst c. repeat split; reflexivity.
      - unfold is_digit in Hc. apply andb_prop in Hc as [H1 H2]. apply N.leb_le in H1, H2.
        repeat split; apply N.eqb_neq; lia. }
    destruct Hne as (E1 & E2 & E3 & E4 & E5 & E6). rewrite E1, E2, E3, E4, E5, E6.
    change (c :: r ++ rest) with ((c :: r) ++ rest). rewrite (number_followed (c :: r) rest Hwf Hs). reflexivity.
  - (* string *)
    intros s _ fuel rest Hf _. destruct fuel; [cbn in Hf; lia|].
    cbn [print parse_value]. unfold print_str. cbn [app skip_ws is_ws N.eqb Pos.eqb orb].
    rewrite <- app_assoc. cbn [app]. rewrite lex_print_str. reflexivity.
  - (* array *)
    intros l HF Hwf fuel rest Hf Hs. change (wf (JArr l)) with (wf_list l) in Hwf.
    rewrite jsize_arr in Hf. destruct fuel as [|f]; [lia|].
    rewrite print_arr_tail. cbn [parse_value app skip_ws is_ws N.eqb Pos.eqb orb].
    destruct l as [|x r].
    + cbn [arr_tail app skip_ws is_ws N.eqb Pos.eqb orb]. reflexivity.
    + destruct (lsize_facts (x :: r) f ltac:(lia)) as [Hlen Hsz].
      assert (Hwx : wf x) by (destruct Hwf; assumption).
      destruct (print_first x Hwx) as (c & r0 & Hp & (Hws & H93 & H125 & H44) & _).
      cbn [arr_tail app]. fold arr_tail. rewrite <- app_assoc.
      pose proof (elems_ok f r x f [] rest HF Hwf Hlen Hsz) as HE.
      rewrite Hp in *. cbn [app] in *. rewrite (skip_ws_first c _ Hws).
      assert (E93 : (c =? 93) = false) by (apply N.eqb_neq; exact H93). rewrite E93.
      rewrite <- app_assoc. cbn [rev app] in HE. exact HE.
  - (* object *)
    intros m HF Hwf fuel rest Hf Hs. change (wf (JObj m)) with (wf_members m) in Hwf.
    rewrite jsize_obj in Hf. destruct fuel as [|f]; [lia|].
    rewrite print_obj_tail. cbn [parse_value app skip_ws is_ws N.eqb Pos.eqb orb].
    destruct m as [|[k v] r].
    + cbn [obj_tail app skip_ws is_ws N.eqb Pos.eqb orb]. reflexivity.
    + destruct (msize_facts ((k, v) :: r) f ltac:(lia)) as [Hlen Hsz].
      cbn [obj_tail app]. fold obj_tail.
      pose proof (members_ok f r k v f [] rest HF Hwf Hlen Hsz) as HE.
      unfold print_str in *. cbn [app skip_ws is_ws N.eqb Pos.eqb orb] in *.
      rewrite <- !app_assoc in *. cbn [app] in *. rewrite <- !app_assoc in *. exact HE.
Qed.

(* size is bounded by the printed length, so the fuel [parse] supplies always suffices *)
Lemma print_nonempty j : wf j -> (1 <= length (print j))%nat.
Proof. intros H. destruct (print_first j H) as (c & r & -> & _). cbn. lia. Qed.

Lemma jsize_le_length : forall j, wf j -> (jsize j <= length (print j))%nat.
Proof.
  apply (json_ind' (fun j => wf j -> (jsize j <= length (print j))%nat)).
  - intros _. cbn. lia.
  - intros [|] _; cbn; lia.
  - intros t H. pose proof (print_nonempty (JNum t) H). cbn in *. lia.
  - intros s _. cbn. lia.
  - intros l HF Hwf. change (wf (JArr l)) with (wf_list l) in Hwf. rewrite jsize_arr, print_arr_tail.
    cbn [length]. rewrite app_length. cbn [length].
    assert (G : forall l b, Forall (fun j => wf j -> (jsize j <= length (print j))%nat) l -> wf_list l ->
                (lsize l <= length (arr_tail l b) + (if b then 1 else 0))%nat).
    { induction l0 as [|x r IHl]; intros b HF0 Hw; [cbn; lia|].
      inversion HF0 as [|? ? Hx HFr]; subst. destruct Hw as [Hwx Hwr].
      rewrite lsize_cons. cbn [arr_tail]. fold arr_tail.
      specialize (IHl false HFr Hwr). specialize (Hx Hwx).
      destruct b; cbn [app length]; rewrite ?app_length; cbn [length]; cbv beta iota in IHl; lia. }
    specialize (G l true HF Hwf). cbv beta iota in G. lia.
  - intros m HF Hwf. change (wf (JObj m)) with (wf_members m) in Hwf. rewrite jsize_obj, print_obj_tail.
    cbn [length]. rewrite app_length. cbn [length].
    assert (G : forall m b, Forall (fun kv : bytes * json => wf (snd kv) -> (jsize (snd kv) <= length (print (snd kv)))%nat) m -> wf_members m ->
                (msize m <= length (obj_tail m b) + (if b then 1 else 0))%nat).
    { induction m0 as [|[k v] r IHm]; intros b HF0 Hw; [cbn; lia|].
      inversion HF0 as [|? ? Hv HFr]; subst. destruct Hw as [Hwv Hwr]. cbn [snd] in *.
      rewrite msize_cons. cbn [obj_tail snd]. fold obj_tail.
      specialize (IHm false HFr Hwr). specialize (Hv Hwv).
      destruct b; cbn [app length]; rewrite ?app_length; cbn [length]; rewrite ?app_length; cbn [length]; cbv beta iota in IHm; lia. }
    specialize (G m true HF Hwf). cbv beta iota in G. lia.
Qed.

(* the document-level statement *)
Theorem parse_print : forall j, wf j -> parse (print j) = Some j.
Proof.
  intros j Hwf. unfold parse.
  pose proof (parse_value_print j Hwf (Datatypes.S (length (print j))) []) as H.
  rewrite app_nil_r in H. rewrite H; [reflexivity | | exact I].
  pose proof (jsize_le_length j Hwf). lia.
Qed.


(* a line = printed document + newline parses to the document as well (trailing whitespace is skipped) *)
Theorem parse_print_line : forall j, wf j -> parse (print j ++ [10]) = Some j.
Proof.
  intros j Hwf. unfold parse.
  rewrite (parse_value_print j Hwf (Datatypes.S (length (print j ++ [10]))) [10]).
  - reflexivity.
  - pose proof (jsize_le_length j Hwf). rewrite app_length. lia.
  - cbn. auto.
Qed.
