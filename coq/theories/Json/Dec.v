(* itoa: the decimal rendering of every natural number is a JSON number token. *)
From Coq Require Import List NArith Bool DecimalN DecimalFacts Decimal.
From MV Require Import Common.Sx Common.Bytes Json.Json Json.Valid.
Import ListNotations.
Local Open Scope N_scope.

Lemma take_digits_uint u : take_digits (bytes_of_uint u) = (bytes_of_uint u, []).
Proof. induction u; cbn [bytes_of_uint take_digits]; try reflexivity; cbn; rewrite IHu; reflexivity. Qed.

Lemma nzhead_not_D0 d u : nzhead d <> D0 u.
Proof. induction d; cbn; try discriminate. exact IHd. Qed.

Lemma to_uint_normal n : unorm (N.to_uint n) = N.to_uint n.
Proof. rewrite <- (DecimalN.Unsigned.to_of (N.to_uint n)), DecimalN.Unsigned.of_to. reflexivity. Qed.

Lemma unorm_shape d : unorm d = d -> d = D0 Nil \/ (d <> Nil /\ forall u, d <> D0 u).
Proof.
  unfold unorm. destruct (nzhead d) eqn:E; intros H;
    [left; symmetry; exact H | exfalso; exact (nzhead_not_D0 d _ E) | ..];
    right; subst d; split; try discriminate; intros u0 Hu; discriminate.
Qed.

Lemma render_dec_number n : number_text (render_dec n).
Proof.
  unfold number_text, render_dec. set (d := N.to_uint n).
  destruct (unorm_shape d (to_uint_normal n)) as [-> | [Hnn Hnz]]; [reflexivity|].
  unfold lex_number.
  destruct d as [|u|u|u|u|u|u|u|u|u|u]; try congruence; try (exfalso; exact (Hnz u eq_refl));
    cbn [bytes_of_uint]; cbn [take_digits is_digit N.leb N.compare Pos.compare Pos.compare_cont andb];
    rewrite take_digits_uint; cbn; rewrite List.app_nil_r; reflexivity.
Qed.
