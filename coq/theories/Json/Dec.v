(* itoa: the decimal rendering of every natural number is a JSON number token. *)
From Coq Require Import List NArith Bool DecimalN DecimalFacts Decimal.
From MV Require Import Common.Sx Common.Bytes Json.Json Json.Valid.
Import ListNotations.
Local Open Scope N_scope.

Lemma take_digits_uint u : take_digits (bytes_of_uint u) = (bytes_of_uint u, []).
Proof. induction u; cbn [bytes_of_uint take_digits]; try reflexivity; cbn; rewrite IHu; reflexivity. Qed.

Lemma nzhead_not_D0 d u : nzhead d <> D0 u.
Proof. induction d; cbn; try discriminate. exact IHd. Qed.

Lemma to_uint_normal n : unorm (N.to_uint n) = N.to_uint n.
Proof. rewrite <- (DecimalN.Unsigned.to_of (N.to_uint n)), DecimalN.Unsigned.of_to. reflexivity. Qed.

Lemma unorm_shape d : unorm d = d -> d = D0 Nil \/ (d <> Nil /\ forall u, d <> D0 u).
Proof.
  unfold unorm. destruct (nzhead d) eqn:E; intros H;
    [left; symmetry; exact H | exfalso; exact (nzhead_not_D0 d _ E) | ..];
    right; subst d; split; try discriminate; intros u0 Hu; discriminate.
Qed.

Lemma lex_number_digits c u :
  is_digit c = true -> c <> 48 -> lex_number (c :: bytes_of_uint u) = Some (c :: bytes_of_uint u, []).
Proof.
  intros Hd Hz. unfold lex_number, lex_sign.
  assert (H45 : (c =? 45) = false).
  { apply N.eqb_neq. intros ->. discriminate Hd. }
  rewrite H45. cbn [take_digits]. rewrite Hd, take_digits_uint.
  assert (H48 : (c =? 48) = false) by (apply N.eqb_neq; exact Hz).
  rewrite H48. cbn [andb lex_frac lex_exp app]. rewrite List.app_nil_r. reflexivity.
Qed.

Lemma render_dec_number n : number_text (render_dec n).
Proof.
  unfold number_text, render_dec. set (d := N.to_uint n).
  destruct (unorm_shape d (to_uint_normal n)) as [-> | [Hnn Hnz]]; [reflexivity|].
  destruct d as [|u|u|u|u|u|u|u|u|u|u]; try congruence; try (exfalso; exact (Hnz u eq_refl));
    cbn [bytes_of_uint]; apply lex_number_digits; try reflexivity; discriminate.
Qed.
