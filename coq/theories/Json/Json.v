(* JSON: abstract syntax, compact printer, and a recursive-descent parser over bytes (RFC 8259 syntax;
   numbers are kept as validated text, objects keep member order and duplicates). No proofs here. *)
From Coq Require Import List NArith Bool.
From MV Require Import Common.Sx Common.Bytes.
Import ListNotations.
Local Open Scope N_scope.

Inductive json :=
| JNull
| JBool (b : bool)
| JNum (text : bytes)
| JStr (s : bytes)              (* decoded content: bytes of the UTF-8 string *)
| JArr (l : list json)
| JObj (m : list (bytes * json)).

(* ---------------------------------------------------------------- printing (serde_json compact form) *)
Definition hex_digit (n : N) : N := if n <? 10 then 48 + n else 87 + n.
Definition escape_byte (c : N) : bytes :=
  if c =? 34 then [92; 34]
  else if c =? 92 then [92; 92]
  else if c =? 8 then [92; 98]
  else if c =? 12 then [92; 102]
  else if c =? 10 then [92; 110]
  else if c =? 13 then [92; 114]
  else if c =? 9 then [92; 116]
  else if c <? 32 then [92; 117; 48; 48; hex_digit (c / 16); hex_digit (c mod 16)]
  else [c].
Definition escape (s : bytes) : bytes := flat_map escape_byte s.
Definition print_str (s : bytes) : bytes := 34 :: escape s ++ [34].

Fixpoint print (j : json) : bytes :=
  match j with
  | JNull => [110; 117; 108; 108]
  | JBool true => [116; 114; 117; 101]
  | JBool false => [102; 97; 108; 115; 101]
  | JNum t => t
  | JStr s => print_str s
  | JArr l =>
      91 :: (fix go (l : list json) (first : bool) : bytes :=
               match l with
               | [] => []
               | x :: r => (if first then [] else [44]) ++ print x ++ go r false
               end) l true ++ [93]
  | JObj m =>
      123 :: (fix go (m : list (bytes * json)) (first : bool) : bytes :=
                match m with
                | [] => []
                | (k, v) :: r => (if first then [] else [44]) ++ print_str k ++ [58] ++ print v ++ go r false
                end) m true ++ [125]
  end.

(* ---------------------------------------------------------------- number token recogniser *)
Definition is_digit (c : N) : bool := (48 <=? c) && (c <=? 57).
Fixpoint take_digits (s : bytes) : bytes * bytes :=
  match s with
  | c :: r => if is_digit c then let '(d, rest) := take_digits r in (c :: d, rest) else ([], s)
  | [] => ([], [])
  end.
Definition is_nil {A} (l : list A) : bool := match l with [] => true | _ => false end.

(* optional sign *)
Definition lex_sign (s : bytes) : bytes * bytes :=
  match s with c :: r => if c =? 45 then ([45], r) else ([], s) | [] => ([], s) end.
(* optional fraction: "." 1*digit *)
Definition lex_frac (s : bytes) : option (bytes * bytes) :=
  match s with
  | c :: r => if c =? 46 then let '(fd, r') := take_digits r in if is_nil fd then None else Some (46 :: fd, r')
              else Some ([], s)
  | [] => Some ([], s)
  end.
(* optional exponent: ("e"|"E") ["+"|"-"] 1*digit *)
Definition lex_exp (s : bytes) : option (bytes * bytes) :=
  match s with
  | c :: r =>
      if (c =? 101) || (c =? 69) then
        let '(sg, r1) := match r with
                         | c2 :: r' => if (c2 =? 43) || (c2 =? 45) then ([c2], r') else ([], r)
                         | [] => ([], r) end in
        let '(ed, r2) := take_digits r1 in
        if is_nil ed then None else Some (c :: sg ++ ed, r2)
      else Some ([], s)
  | [] => Some ([], s)
  end.
(* number = [ "-" ] ( "0" | digit1-9 *digit ) [ frac ] [ exp ] *)
Definition lex_number (s : bytes) : option (bytes * bytes) :=
  let '(sign, s1) := lex_sign s in
  let '(int, s2) := take_digits s1 in
  match int with
  | [] => None
  | d :: more =>
    if (d =? 48) && negb (is_nil more) then None else
    match lex_frac s2 with
    | None => None
    | Some (ftxt, s3) =>
      match lex_exp s3 with
      | None => None
      | Some (etxt, s4) => Some (sign ++ int ++ ftxt ++ etxt, s4)
      end
    end
  end.

(* ---------------------------------------------------------------- string token *)
Definition hex_val (c : N) : option N :=
  if is_digit c then Some (c - 48)
  else if (97 <=? c) && (c <=? 102) then Some (c - 87)
  else if (65 <=? c) && (c <=? 70) then Some (c - 55)
  else None.

(* UTF-8 encoding of a code point below 0x10000 (what \uXXXX can denote without surrogate pairs) *)
Definition utf8_bmp (cp : N) : bytes :=
  if cp <? 128 then [cp]
  else if cp <? 2048 then [192 + cp / 64; 128 + cp mod 64]
  else [224 + cp / 4096; 128 + (cp / 64) mod 64; 128 + cp mod 64].

(* the character an escape letter denotes *)
Definition simple_escape (e : N) : option N :=
  if e =? 34 then Some 34 else if e =? 92 then Some 92 else if e =? 47 then Some 47
  else if e =? 98 then Some 8 else if e =? 102 then Some 12 else if e =? 110 then Some 10
  else if e =? 114 then Some 13 else if e =? 116 then Some 9 else None.

(* after the opening quote: returns decoded content and the rest after the closing quote.
   Raw control characters are rejected; \uD800-\uDFFF (surrogates) are rejected (the formatter never emits them). *)
Fixpoint lex_string (fuel : nat) (s : bytes) : option (bytes * bytes) :=
  match fuel with
  | O => None
  | Datatypes.S fuel' =>
    match s with
    | [] => None
    | c :: r =>
      if c =? 34 then Some ([], r)
      else if c =? 92 then
        match r with
        | [] => None
        | e :: r1 =>
          match simple_escape e with
          | Some ch => match lex_string fuel' r1 with Some (t, rest) => Some (ch :: t, rest) | None => None end
          | None =>
            if e =? 117 then
              match r1 with
              | a :: b :: c3 :: d :: r' =>
                match hex_val a, hex_val b, hex_val c3, hex_val d with
                | Some a', Some b', Some c', Some d' =>
                  let cp := a' * 4096 + b' * 256 + c' * 16 + d' in
                  if (55296 <=? cp) && (cp <=? 57343) then None else
                  match lex_string fuel' r' with
                  | Some (t, rest) => Some (utf8_bmp cp ++ t, rest)
                  | None => None
                  end
                | _, _, _, _ => None
                end
              | _ => None
              end
            else None
          end
        end
      else if c <? 32 then None
      else match lex_string fuel' r with Some (t, rest) => Some (c :: t, rest) | None => None end
    end
  end.

(* ---------------------------------------------------------------- values *)
Definition is_ws (c : N) : bool := (c =? 32) || (c =? 9) || (c =? 10) || (c =? 13).
Fixpoint skip_ws (s : bytes) : bytes :=
  match s with c :: r => if is_ws c then skip_ws r else s | [] => [] end.

Fixpoint strip_prefix (p s : bytes) : option bytes :=
  match p, s with
  | [], _ => Some s
  | a :: p', b :: s' => if a =? b then strip_prefix p' s' else None
  | _ :: _, [] => None
  end.

(* the loops over array elements / object members, parametric in the parser for one value;
   [n] bounds the number of iterations *)
Fixpoint elems_loop (pv : bytes -> option (json * bytes)) (n : nat) (s : bytes) (acc : list json) : option (json * bytes) :=
  match n with
  | O => None
  | Datatypes.S n' =>
    match pv s with
    | Some (v, rest) =>
      match skip_ws rest with
      | c :: rest' => if c =? 44 then elems_loop pv n' rest' (v :: acc)
                      else if c =? 93 then Some (JArr (rev (v :: acc)), rest')
                      else None
      | [] => None
      end
    | None => None
    end
  end.

Fixpoint members_loop (pv : bytes -> option (json * bytes)) (n : nat) (s : bytes) (acc : list (bytes * json)) : option (json * bytes) :=
  match n with
  | O => None
  | Datatypes.S n' =>
    match skip_ws s with
    | q :: ks =>
      if q =? 34 then
        match lex_string (Datatypes.S (length ks)) ks with
        | Some (k, rest) =>
          match skip_ws rest with
          | c :: rest1 =>
            if c =? 58 then
              match pv rest1 with
              | Some (v, rest2) =>
                match skip_ws rest2 with
                | c2 :: rest3 => if c2 =? 44 then members_loop pv n' rest3 ((k, v) :: acc)
                                 else if c2 =? 125 then Some (JObj (rev ((k, v) :: acc)), rest3)
                                 else None
                | [] => None
                end
              | None => None
              end
            else None
          | [] => None
          end
        | None => None
        end
      else None
    | [] => None
    end
  end.

Fixpoint parse_value (fuel : nat) (s : bytes) : option (json * bytes) :=
  match fuel with
  | O => None
  | Datatypes.S fuel' =>
    match skip_ws s with
    | [] => None
    | c :: r =>
      if c =? 110 then match strip_prefix [110; 117; 108; 108] (c :: r) with Some r' => Some (JNull, r') | None => None end
      else if c =? 116 then match strip_prefix [116; 114; 117; 101] (c :: r) with Some r' => Some (JBool true, r') | None => None end
      else if c =? 102 then match strip_prefix [102; 97; 108; 115; 101] (c :: r) with Some r' => Some (JBool false, r') | None => None end
      else if c =? 34 then match lex_string (Datatypes.S (length r)) r with Some (t, rest) => Some (JStr t, rest) | None => None end
      else if c =? 91 then
        match skip_ws r with
        | c2 :: rest => if c2 =? 93 then Some (JArr [], rest) else elems_loop (parse_value fuel') fuel' (c2 :: rest) []
        | [] => None
        end
      else if c =? 123 then
        match skip_ws r with
        | c2 :: rest => if c2 =? 125 then Some (JObj [], rest) else members_loop (parse_value fuel') fuel' (c2 :: rest) []
        | [] => None
        end
      else match lex_number (c :: r) with Some (t, rest) => Some (JNum t, rest) | None => None end
    end
  end.

(* a complete document: one value, only whitespace after it *)
Definition parse (s : bytes) : option json :=
  match parse_value (Datatypes.S (length s)) s with
  | Some (j, rest) => match skip_ws rest with [] => Some j | _ => None end
  | None => None
  end.

(* ---------------------------------------------------------------- helpers on parsed documents *)
Fixpoint obj_get (m : list (bytes * json)) (k : bytes) : option json :=
  match m with
  | [] => None
  | (k', v) :: r => if bytes_eqb k' k then Some v else obj_get r k
  end.
Fixpoint has_dup (l : list bytes) : bool :=
  match l with
  | [] => false
  | x :: r => existsb (bytes_eqb x) r || has_dup r
  end.
Definition is_int_text (t : bytes) : bool :=
  match t with [] => false | _ => forallb is_digit t end.
