(* JSON: abstract syntax, compact printer, and a recursive-descent parser over bytes (RFC 8259 syntax;
   numbers are kept as validated text, objects keep member order and duplicates). No proofs here. *)
From Coq Require Import List NArith Bool.
From MV Require Import Common.Sx Common.Bytes.
Import ListNotations.
Local Open Scope N_scope.

Inductive json :=
| JNull
| JBool (b : bool)
| JNum (text : bytes)
| JStr (s : bytes)              (* decoded content: bytes of the UTF-8 string *)
| JArr (l : list json)
| JObj (m : list (bytes * json)).

(* ---------------------------------------------------------------- printing (serde_json compact form) *)
Definition hex_digit (n : N) : N := if n <? 10 then 48 + n else 87 + n.
Definition escape_byte (c : N) : bytes :=
  if c =? 34 then [92; 34]
  else if c =? 92 then [92; 92]
  else if c =? 8 then [92; 98]
  else if c =? 12 then [92; 102]
  else if c =? 10 then [92; 110]
  else if c =? 13 then [92; 114]
  else if c =? 9 then [92; 116]
  else if c <? 32 then [92; 117; 48; 48; hex_digit (c / 16); hex_digit (c mod 16)]
  else [c].
Definition escape (s : bytes) : bytes := flat_map escape_byte s.
Definition print_str (s : bytes) : bytes := 34 :: escape s ++ [34].

Fixpoint print (j : json) : bytes :=
  match j with
  | JNull => [110; 117; 108; 108]
  | JBool true => [116; 114; 117; 101]
  | JBool false => [102; 97; 108; 115; 101]
  | JNum t => t
  | JStr s => print_str s
  | JArr l =>
      91 :: (fix go (l : list json) (first : bool) : bytes :=
               match l with
               | [] => []
               | x :: r => (if first then [] else [44]) ++ print x ++ go r false
               end) l true ++ [93]
  | JObj m =>
      123 :: (fix go (m : list (bytes * json)) (first : bool) : bytes :=
                match m with
                | [] => []
                | (k, v) :: r => (if first then [] else [44]) ++ print_str k ++ [58] ++ print v ++ go r false
                end) m true ++ [125]
  end.

(* ---------------------------------------------------------------- number token recogniser *)
Definition is_digit (c : N) : bool := (48 <=? c) && (c <=? 57).
Fixpoint take_digits (s : bytes) : bytes * bytes :=
  match s with
  | c :: r => if is_digit c then let '(d, rest) := take_digits r in (c :: d, rest) else ([], s)
  | [] => ([], [])
  end.
(* number = [ "-" ] ( "0" | digit1-9 *digit ) [ "." 1*digit ] [ ("e"|"E") ["+"|"-"] 1*digit ] *)
Definition lex_number (s : bytes) : option (bytes * bytes) :=
  let '(sign, s1) := match s with 45 :: r => ([45], r) | _ => ([], s) end in
  let '(int, s2) := take_digits s1 in
  match int with
  | [] => None
  | d :: more =>
    if (d =? 48) && negb (match more with [] => true | _ => false end) then None else
    let frac :=
      match s2 with
      | 46 :: r => let '(fd, r') := take_digits r in
                   match fd with [] => None | _ => Some (46 :: fd, r') end
      | _ => Some ([], s2)
      end in
    match frac with
    | None => None
    | Some (ftxt, s3) =>
      let exp :=
        match s3 with
        | c :: r =>
          if (c =? 101) || (c =? 69) then
            let '(sg, r1) := match r with
                             | 43 :: r' => ([43], r')
                             | 45 :: r' => ([45], r')
                             | _ => ([], r) end in
            let '(ed, r2) := take_digits r1 in
            match ed with [] => None | _ => Some (c :: sg ++ ed, r2) end
          else Some ([], s3)
        | [] => Some ([], s3)
        end in
      match exp with
      | None => None
      | Some (etxt, s4) => Some (sign ++ int ++ ftxt ++ etxt, s4)
      end
    end
  end.

(* ---------------------------------------------------------------- string token *)
Definition hex_val (c : N) : option N :=
  if is_digit c then Some (c - 48)
  else if (97 <=? c) && (c <=? 102) then Some (c - 87)
  else if (65 <=? c) && (c <=? 70) then Some (c - 55)
  else None.

(* UTF-8 encoding of a code point below 0x10000 (what \uXXXX can denote without surrogate pairs) *)
Definition utf8_bmp (cp : N) : bytes :=
  if cp <? 128 then [cp]
  else if cp <? 2048 then [192 + cp / 64; 128 + cp mod 64]
  else [224 + cp / 4096; 128 + (cp / 64) mod 64; 128 + cp mod 64].

(* after the opening quote: returns decoded content and the rest after the closing quote.
   Raw control characters are rejected; \uD800-\uDFFF (surrogates) are rejected (the formatter never emits them). *)
Fixpoint lex_string (fuel : nat) (s : bytes) : option (bytes * bytes) :=
  match fuel with
  | O => None
  | Datatypes.S fuel' =>
    match s with
    | [] => None
    | 34 :: r => Some ([], r)
    | 92 :: e :: r =>
        let simple (c : N) := match lex_string fuel' r with Some (t, rest) => Some (c :: t, rest) | None => None end in
        if e =? 34 then simple 34
        else if e =? 92 then simple 92
        else if e =? 47 then simple 47
        else if e =? 98 then simple 8
        else if e =? 102 then simple 12
        else if e =? 110 then simple 10
        else if e =? 114 then simple 13
        else if e =? 116 then simple 9
        else if e =? 117 then
          match r with
          | a :: b :: c :: d :: r' =>
            match hex_val a, hex_val b, hex_val c, hex_val d with
            | Some a', Some b', Some c', Some d' =>
              let cp := a' * 4096 + b' * 256 + c' * 16 + d' in
              if (55296 <=? cp) && (cp <=? 57343) then None else
              match lex_string fuel' r' with
              | Some (t, rest) => Some (utf8_bmp cp ++ t, rest)
              | None => None
              end
            | _, _, _, _ => None
            end
          | _ => None
          end
        else None
    | c :: r =>
        if c <? 32 then None
        else match lex_string fuel' r with Some (t, rest) => Some (c :: t, rest) | None => None end
    end
  end.

(* ---------------------------------------------------------------- values *)
Definition is_ws (c : N) : bool := (c =? 32) || (c =? 9) || (c =? 10) || (c =? 13).
Fixpoint skip_ws (s : bytes) : bytes :=
  match s with c :: r => if is_ws c then skip_ws r else s | [] => [] end.

Fixpoint strip_prefix (p s : bytes) : option bytes :=
  match p, s with
  | [], _ => Some s
  | a :: p', b :: s' => if a =? b then strip_prefix p' s' else None
  | _ :: _, [] => None
  end.

Fixpoint parse_value (fuel : nat) (s : bytes) : option (json * bytes) :=
  match fuel with
  | O => None
  | Datatypes.S fuel' =>
    let s := skip_ws s in
    match s with
    | [] => None
    | 110 :: _ => match strip_prefix [110; 117; 108; 108] s with Some r => Some (JNull, r) | None => None end
    | 116 :: _ => match strip_prefix [116; 114; 117; 101] s with Some r => Some (JBool true, r) | None => None end
    | 102 :: _ => match strip_prefix [102; 97; 108; 115; 101] s with Some r => Some (JBool false, r) | None => None end
    | 34 :: r => match lex_string (Datatypes.S (length r)) r with Some (t, rest) => Some (JStr t, rest) | None => None end
    | 91 :: r =>
        let r := skip_ws r in
        match r with
        | 93 :: rest => Some (JArr [], rest)
        | _ =>
          (fix elems (n : nat) (s : bytes) (acc : list json) : option (json * bytes) :=
             match n with
             | O => None
             | Datatypes.S n' =>
               match parse_value fuel' s with
               | Some (v, rest) =>
                 match skip_ws rest with
                 | 44 :: rest' => elems n' rest' (v :: acc)
                 | 93 :: rest' => Some (JArr (rev (v :: acc)), rest')
                 | _ => None
                 end
               | None => None
               end
             end) fuel' r []
        end
    | 123 :: r =>
        let r := skip_ws r in
        match r with
        | 125 :: rest => Some (JObj [], rest)
        | _ =>
          (fix members (n : nat) (s : bytes) (acc : list (bytes * json)) : option (json * bytes) :=
             match n with
             | O => None
             | Datatypes.S n' =>
               match skip_ws s with
               | 34 :: ks =>
                 match lex_string (Datatypes.S (length ks)) ks with
                 | Some (k, rest) =>
                   match skip_ws rest with
                   | 58 :: rest1 =>
                     match parse_value fuel' rest1 with
                     | Some (v, rest2) =>
                       match skip_ws rest2 with
                       | 44 :: rest3 => members n' rest3 ((k, v) :: acc)
                       | 125 :: rest3 => Some (JObj (rev ((k, v) :: acc)), rest3)
                       | _ => None
                       end
                     | None => None
                     end
                   | _ => None
                   end
                 | None => None
                 end
               | _ => None
               end
             end) fuel' r []
        end
    | _ => match lex_number s with Some (t, rest) => Some (JNum t, rest) | None => None end
    end
  end.

(* a complete document: one value, only whitespace after it *)
Definition parse (s : bytes) : option json :=
  match parse_value (Datatypes.S (length s)) s with
  | Some (j, rest) => match skip_ws rest with [] => Some j | _ => None end
  | None => None
  end.

(* ---------------------------------------------------------------- helpers on parsed documents *)
Fixpoint obj_get (m : list (bytes * json)) (k : bytes) : option json :=
  match m with
  | [] => None
  | (k', v) :: r => if bytes_eqb k' k then Some v else obj_get r k
  end.
Fixpoint has_dup (l : list bytes) : bool :=
  match l with
  | [] => false
  | x :: r => existsb (bytes_eqb x) r || has_dup r
  end.
Definition is_int_text (t : bytes) : bool :=
  match t with [] => false | _ => forallb is_digit t end.
