(* RFC 8259 syntax (the whitespace-free subset) as an inductive specification, and: everything the printer emits
   for a well-formed value is derivable in it. *)
From Coq Require Import List NArith Bool Lia.
From MV Require Import Common.Sx Common.Bytes Json.Json.
Import ListNotations.
Local Open Scope N_scope.

(* number = [ "-" ] int [ frac ] [ exp ] : the whole text is consumed by the number lexer *)
Definition number_text (t : bytes) : Prop := lex_number t = Some (t, []).

(* the characters of a JSON string body: unescaped (>= 0x20, not quote, not backslash) or an escape sequence *)
Inductive str_body : bytes -> Prop :=
| sb_nil : str_body []
| sb_char c r : 32 <= c -> c <> 34 -> c <> 92 -> str_body r -> str_body (c :: r)
| sb_esc e r : In e [34; 92; 47; 98; 102; 110; 114; 116] -> str_body r -> str_body (92 :: e :: r)
| sb_u a b c d r : hex_val a <> None -> hex_val b <> None -> hex_val c <> None -> hex_val d <> None ->
                   str_body r -> str_body (92 :: 117 :: a :: b :: c :: d :: r).

Inductive value : bytes -> Prop :=
| v_null : value [110; 117; 108; 108]
| v_true : value [116; 114; 117; 101]
| v_false : value [102; 97; 108; 115; 101]
| v_num t : number_text t -> value t
| v_str b : str_body b -> value (34 :: b ++ [34])
| v_arr_empty : value [91; 93]
| v_arr x xs : value x -> elements xs -> value (91 :: x ++ xs ++ [93])
| v_obj_empty : value [123; 125]
| v_obj k x ms : str_body k -> value x -> members ms -> value (123 :: (34 :: k ++ [34]) ++ [58] ++ x ++ ms ++ [125])
with elements : bytes -> Prop :=
| e_nil : elements []
| e_cons x xs : value x -> elements xs -> elements (44 :: x ++ xs)
with members : bytes -> Prop :=
| m_nil : members []
| m_cons k x ms : str_body k -> value x -> members ms -> members (44 :: (34 :: k ++ [34]) ++ [58] ++ x ++ ms).

(* well-formed abstract values: number texts are numbers *)
Fixpoint wf (j : json) : Prop :=
  match j with
  | JNum t => number_text t
  | JArr l => (fix all (l : list json) : Prop := match l with [] => True | x :: r => wf x /\ all r end) l
  | JObj m => (fix all (m : list (bytes * json)) : Prop := match m with [] => True | (_, v) :: r => wf v /\ all r end) m
  | _ => True
  end.

Lemma hex_digit_val n : n < 16 -> hex_val (hex_digit n) <> None.
Proof.
  intros H. unfold hex_digit, hex_val, is_digit.
  destruct (n <? 10) eqn:E.
  - apply N.ltb_lt in E. replace ((48 <=? 48 + n) && (48 + n <=? 57))%bool with true; [discriminate|].
    symmetry. apply andb_true_intro. split; apply N.leb_le; lia.
  - apply N.ltb_ge in E.
    replace ((48 <=? 87 + n) && (87 + n <=? 57))%bool with false.
    + replace ((97 <=? 87 + n) && (87 + n <=? 102))%bool with true; [discriminate|].
      symmetry. apply andb_true_intro. split; apply N.leb_le; lia.
    + symmetry. apply andb_false_intro2. apply N.leb_gt. lia.
Qed.

Lemma escape_body s : str_body (escape s).
Proof.
  induction s as [|c r IH]; [constructor|].
  unfold escape in *. cbn [flat_map]. unfold escape_byte.
  destruct (c =? 34) eqn:E1; [cbn [app]; apply sb_esc; [cbn; tauto | exact IH]|].
  destruct (c =? 92) eqn:E2; [cbn [app]; apply sb_esc; [cbn; tauto | exact IH]|].
  destruct (c =? 8) eqn:E3; [cbn [app]; apply sb_esc; [cbn; tauto | exact IH]|].
  destruct (c =? 12) eqn:E4; [cbn [app]; apply sb_esc; [cbn; tauto | exact IH]|].
  destruct (c =? 10) eqn:E5; [cbn [app]; apply sb_esc; [cbn; tauto | exact IH]|].
  destruct (c =? 13) eqn:E6; [cbn [app]; apply sb_esc; [cbn; tauto | exact IH]|].
  destruct (c =? 9) eqn:E7; [cbn [app]; apply sb_esc; [cbn; tauto | exact IH]|].
  destruct (c <? 32) eqn:E8.
  - cbn [app]. apply N.ltb_lt in E8. apply sb_u; try exact IH; try discriminate.
    + apply hex_digit_val. apply N.div_lt_upper_bound; lia.
    + apply hex_digit_val. apply N.mod_lt. lia.
  - cbn [app]. apply N.ltb_ge in E8. apply N.eqb_neq in E1, E2. apply sb_char; try assumption.
Qed.

Lemma print_str_value s : value (print_str s).
Proof. unfold print_str. apply v_str. apply escape_body. Qed.

(* nested induction principle for json *)
Section JsonInd.
  Variable P : json -> Prop.
  Hypothesis Hnull : P JNull.
  Hypothesis Hbool : forall b, P (JBool b).
  Hypothesis Hnum : forall t, P (JNum t).
  Hypothesis Hstr : forall s, P (JStr s).
  Hypothesis Harr : forall l, Forall P l -> P (JArr l).
  Hypothesis Hobj : forall m, Forall (fun kv => P (snd kv)) m -> P (JObj m).
  Fixpoint json_ind' (j : json) : P j :=
    match j with
    | JNull => Hnull
    | JBool b => Hbool b
    | JNum t => Hnum t
    | JStr s => Hstr s
    | JArr l => Harr l ((fix go (l : list json) : Forall P l :=
                           match l with [] => Forall_nil _ | x :: r => Forall_cons _ (json_ind' x) (go r) end) l)
    | JObj m => Hobj m ((fix go (m : list (bytes * json)) : Forall (fun kv => P (snd kv)) m :=
                           match m with [] => Forall_nil _ | kv :: r => Forall_cons _ (json_ind' (snd kv)) (go r) end) m)
    end.
End JsonInd.

Definition arr_tail := fix go (l : list json) (first : bool) : bytes :=
  match l with [] => [] | x :: r => (if first then [] else [44]) ++ print x ++ go r false end.
Definition obj_tail := fix go (m : list (bytes * json)) (first : bool) : bytes :=
  match m with [] => [] | (k, v) :: r => (if first then [] else [44]) ++ print_str k ++ [58] ++ print v ++ go r false end.
Lemma print_arr_tail l : print (JArr l) = 91 :: arr_tail l true ++ [93].
Proof. reflexivity. Qed.
Lemma print_obj_tail m : print (JObj m) = 123 :: obj_tail m true ++ [125].
Proof. reflexivity. Qed.

Definition wf_list (l : list json) : Prop :=
  (fix all (l : list json) : Prop := match l with [] => True | x :: r => wf x /\ all r end) l.
Definition wf_members (m : list (bytes * json)) : Prop :=
  (fix all (m : list (bytes * json)) : Prop := match m with [] => True | (_, v) :: r => wf v /\ all r end) m.

Lemma print_compact : forall j, wf j -> value (print j).
Proof.
  apply (json_ind' (fun j => wf j -> value (print j))).
  - intros _. apply v_null.
  - intros [|] _; [apply v_true | apply v_false].
  - intros t Hwf. apply v_num. exact Hwf.
  - intros s _. apply print_str_value.
  - intros l HF Hwf. change (wf (JArr l)) with (wf_list l) in Hwf. rewrite print_arr_tail.
    assert (Hgo : forall l, Forall (fun j => wf j -> value (print j)) l -> wf_list l -> elements (arr_tail l false)).
    { induction 1 as [|x r Hx HFr IHl]; intros Hl; [constructor|].
      destruct Hl as [Hwx Hr]. cbn [arr_tail app]. fold arr_tail. apply e_cons; [apply Hx; exact Hwx | apply IHl; exact Hr]. }
    destruct l as [|x r]; [apply v_arr_empty|].
    inversion HF as [|? ? Hx HFr]; subst. destruct Hwf as [Hwx Hr].
    cbn [arr_tail app]. fold arr_tail. rewrite <- app_assoc.
    apply v_arr; [apply Hx; exact Hwx | apply Hgo; assumption].
  - intros m HF Hwf. change (wf (JObj m)) with (wf_members m) in Hwf. rewrite print_obj_tail.
    assert (Hgo : forall m, Forall (fun kv : bytes * json => wf (snd kv) -> value (print (snd kv))) m -> wf_members m ->
                  members (obj_tail m false)).
    { induction 1 as [|[k v] r Hv HFr IHm]; intros Hm; [constructor|].
      destruct Hm as [Hwv Hr]. cbn [obj_tail app]. fold obj_tail. unfold print_str.
      change (44 :: (34 :: escape k ++ [34]) ++ 58 :: print v ++ obj_tail r false)
        with (44 :: (34 :: escape k ++ [34]) ++ [58] ++ print v ++ obj_tail r false).
      apply m_cons; [apply escape_body | apply Hv; exact Hwv | apply IHm; exact Hr]. }
    destruct m as [|[k v] r]; [apply v_obj_empty|].
    inversion HF as [|? ? Hv HFr]; subst. destruct Hwf as [Hwv Hr].
    cbn [obj_tail app]. fold obj_tail. unfold print_str at 1.
    replace (123 :: ((34 :: escape k ++ [34]) ++ 58 :: print v ++ obj_tail r false) ++ [125])
      with (123 :: (34 :: escape k ++ [34]) ++ [58] ++ print v ++ obj_tail r false ++ [125]).
    2: { cbn [app]. rewrite <- !app_assoc. cbn [app]. rewrite <- !app_assoc. reflexivity. }
    apply v_obj; [apply escape_body | apply Hv; exact Hwv | apply Hgo; assumption].
Qed.
