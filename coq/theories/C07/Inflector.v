(* C07 — the Inflector 0.11.4 algorithms the macro calls (to_pascal_case / to_snake_case / to_kebab_case),
   for ASCII input.  Source mirrored: Inflector-0.11.4/src/cases/case/mod.rs (to_case_snake_like,
   to_case_camel_like and their helpers), cases/{pascalcase,snakecase,kebabcase}/mod.rs.
   This file is an *external crate's* model: it is validated differentially against the real crate on
   every run and is only a Section variable in the C07 theorems. *)
From Coq Require Import List NArith Bool String Ascii.
From MV Require Import Common.Sx.
Import ListNotations.
Local Open Scope N_scope.

(* ---- ASCII character classes (char::is_alphanumeric etc. restricted to bytes < 128) ---- *)
Definition is_lower (c : N) : bool := (97 <=? c) && (c <=? 122).
Definition is_upper (c : N) : bool := (65 <=? c) && (c <=? 90).
Definition is_digit (c : N) : bool := (48 <=? c) && (c <=? 57).
Definition is_alnum (c : N) : bool := is_lower c || is_upper c || is_digit c.
Definition to_lower (c : N) : N := if is_upper c then c + 32 else c.
Definition to_upper (c : N) : N := if is_lower c then c - 32 else c.
(* fn char_is_uppercase(c) = c == c.to_ascii_uppercase(): true for everything that is not a-z (digits too) *)
Definition char_is_uppercase (c : N) : bool := N.eqb c (to_upper c).

Fixpoint drop_while (p : N -> bool) (s : bytes) : bytes :=
  match s with
  | [] => []
  | c :: r => if p c then drop_while p r else s
  end.
(* fn trim_right = trim_end_matches(is_not_alphanumeric) *)
Definition trim_right (s : bytes) : bytes := rev (drop_while (fun c => negb (is_alnum c)) (rev s)).

(* ---- to_case_snake_like(s, sep, "lower") ----
   [orig] is the untrimmed string: next_or_previous_char_is_lowercase indexes it (default 'A' = 65). *)
Definition next_or_prev_lower (orig : bytes) (i : nat) : bool :=
  is_lower (nth (S i) orig 65) || is_lower (nth (pred i) orig 65).

Fixpoint snake_go (sep : N) (orig rest : bytes) (i : nat) (first : bool) : bytes :=
  match rest with
  | [] => []
  | c :: r =>
    if negb (is_alnum c) then
      (if first then snake_go sep orig r (S i) true
       else sep :: snake_go sep orig r (S i) true)
    else if negb first && char_is_uppercase c && next_or_prev_lower orig i then
      sep :: to_lower c :: snake_go sep orig r (S i) false
    else
      to_lower c :: snake_go sep orig r (S i) false
  end.
Definition to_snake_like (sep : N) (s : bytes) : bytes := snake_go sep s (trim_right s) 0 true.

(* ---- to_case_camel_like with the options of to_pascal_case:
   new_word = true, last_char = ' ', first_word = false, has_seperator = false, inverted = false.
   Note that last_char is only updated in the final (lower-casing) branch. ---- *)
Fixpoint camel_go (rest : bytes) (new_word : bool) (last_char : N) (found : bool) : bytes :=
  match rest with
  | [] => []
  | c :: r =>
    if negb (is_alnum c) && found then camel_go r true last_char found
    else if negb found && negb (is_alnum c) then camel_go r new_word last_char found
    else if is_digit c then c :: camel_go r true last_char true
    else if new_word || (is_lower last_char && is_upper c && negb (N.eqb last_char 32)) then
      to_upper c :: camel_go r false last_char true
    else to_lower c :: camel_go r new_word c true
  end.

Definition to_pascal_case (s : bytes) : bytes := camel_go (trim_right s) true 32 false.
Definition to_snake_case (s : bytes) : bytes := to_snake_like 95 s.
Definition to_kebab_case (s : bytes) : bytes := to_snake_like 45 s.

(* string literals for examples *)
Definition bs (s : string) : bytes := map N_of_ascii (list_ascii_of_string s).
