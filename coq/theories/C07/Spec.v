(* C07 — what the user is promised (macro documentation: the tables and the "Metric Names" section of
   metrique-macro/src/lib.rs, "Renaming metric fields" in metrique/README.md).

   The emitted entry is described by ONE walk over the type that carries two things downwards:
     st  — the style in force: the nearest explicit rename_all on the path from the root (Preserve at the root);
     acc — the flatten prefixes collected so far, each already inflected in the style in force where it was
           declared (exact prefixes verbatim);
   and yields one row per non-ignored field.  The written items and the sample group are both projections of
   these rows, so they use the same names by construction.

   Field name      = acc ++ (explicit `name`                                  — never inflected
                            | st(prefix ++ ident)                             — container `prefix`
                            | exact_prefix ++ st(ident)                       — container `exact_prefix`
                            | st(ident))
   Flatten prefix  : acc' = acc ++ (st'(prefix) forced to end in the style's delimiter | exact_prefix)
   Tag name        = acc ++ (name_exact | as a field whose identifier is the tag's `name`)
   Tag value / value(string) variant = explicit variant `name` | the container's OWN rename_all of the variant
   Value           = what the closed field writes; a declared unit replaces the unit; absent Options: nothing. *)
From Coq Require Import List NArith Bool.
From MV Require Import Common.Sx C07.Model.
Import ListNotations.
Local Open Scope N_scope.

(* concat.rs promises plain concatenation, whatever the length *)
Fixpoint c_flat (t : cstr) : bytes :=
  match t with CLeaf s => s | CCat a b => c_flat a ++ c_flat b end.

Section Spec.
Variables pascal snake kebab : bytes -> bytes.

Definition infl (st : style) (x : bytes) : bytes :=
  match st with Preserve => x | Pascal => pascal x | Snake => snake x | Kebab => kebab x end.
Definition with_delim (x : bytes) (c : N) : bytes :=
  match rev x with
  | l :: _ => if N.eqb l c then x else x ++ [c]
  | [] => [c]
  end.
(* an inflectable flatten prefix: README "Prefixes will be inflected to the case metrics are emitted in" *)
Definition infl_prefix (st : style) (p : bytes) : bytes :=
  match st with
  | Preserve => p
  | Pascal => pascal p
  | Snake => with_delim (snake p) 95
  | Kebab => with_delim (kebab p) 45
  end.

Definition in_force (ra st : style) : style := match ra with Preserve => st | _ => ra end.

Definition field_name (st : style) (pfx : option prefix) (name : option bytes) (ident : bytes) : bytes :=
  match name, pfx with
  | Some n, _ => n
  | None, None => infl st ident
  | None, Some (PInfl p) => infl st (p ++ ident)
  | None, Some (PExact e) => e ++ infl st ident
  end.
Definition flat_prefix (st : style) (p : option prefix) : bytes :=
  match p with
  | None => []
  | Some (PInfl q) => infl_prefix st q
  | Some (PExact e) => e
  end.
Definition tag_name (st : style) (pfx : option prefix) (t : tag) : bytes :=
  if tg_exact t then tg_name t else field_name st pfx None (tg_name t).
Definition variant_label (ra : style) (name : option bytes) (ident : bytes) : bytes :=
  match name with Some n => n | None => infl ra ident end.

(* the closed value of a leaf; a declared unit replaces the unit of a metric *)
Definition with_unit (u : option N) (v : vcall) : vcall :=
  match u, v with
  | Some u, VMetric o _ d f => VMetric o u d f
  | _, _ => v
  end.
Fixpoint sp_leaf (l : leaf) : vcall :=
  match l with
  | LNum o u => VMetric o u [] false
  | LStr s => VString s
  | LEnum ra vs i => let v := nth i vs ([], None) in VString (variant_label ra (snd v) (fst v))
  | LVal u inner => with_unit u (sp_leaf inner)
  | LOpt true inner => sp_leaf inner
  | LOpt false _ => VNone
  | LWrap w inner => wrap_value w (sp_leaf inner)
  | LFmt inner => format_value (sp_leaf inner)
  end.
Fixpoint sp_group (l : leaf) : bytes :=
  match l with
  | LStr s => s
  | LEnum ra vs i => let v := nth i vs ([], None) in variant_label ra (snd v) (fst v)
  | LVal _ inner => sp_group inner
  | _ => []
  end.

(* Declaring a unit is only meaningful (and, for the ratios this property covers, value-preserving) on a
   metric whose own unit is None or already that unit; other conversions are property C19's. *)
Definition unit_compatible (u : option N) (v : vcall) : bool :=
  match u, v with
  | None, _ => true
  | Some _, VNone => true
  | Some u, VMetric _ u0 _ _ => (u0 =? 0) || (u0 =? u)
  | Some _, _ => false
  end.
Fixpoint leaf_units_ok (l : leaf) : bool :=
  match l with
  | LVal u inner => leaf_units_ok inner && unit_compatible u (sp_leaf inner)
  | LOpt _ inner => leaf_units_ok inner
  | LWrap _ inner => leaf_units_ok inner
  | LFmt inner => leaf_units_ok inner
  | _ => true
  end.

Inductive sitem := STimestamp (t : N) | SValue (name : bytes) (v : vcall).
(* an absent value (Option::None) contributes nothing *)
Definition present (it : sitem) : list sitem :=
  match it with SValue _ VNone => [] | _ => [it] end.

Inductive row :=
| RTimestamp (t : N)
| RValue (name : bytes) (v : vcall) (group : option bytes)   (* one per non-ignored field / tag *)
| RGroup (name value : bytes).                                (* sample-group pair of a hand-written Entry *)

(* a wrapped flattened child: every value it writes gets the wrapper's dimensions / flag; names and sample
   groups are the child's *)
Definition wrap_row (w : wrapper) (r : row) : row :=
  match r with
  | RValue n v g => RValue n (wrap_value w v) g
  | _ => r
  end.

Fixpoint sp_entry (d : edef) (st : style) (acc : bytes) {struct d} : list row :=
  match d with
  | EStruct ra pfx fs => sp_fields (in_force ra st) pfx fs acc
  | EEnum ra pfx tg vs i => sp_variants (in_force ra st) ra pfx tg vs i acc
  end
with sp_fields (st : style) (pfx : option prefix) (fs : fields) (acc : bytes) {struct fs} : list row :=
  match fs with
  | FNil => []
  | FCons id k r => sp_field st pfx id k acc ++ sp_fields st pfx r acc
  end
with sp_field (st : style) (pfx : option prefix) (id : bytes) (k : fkind) (acc : bytes) {struct k} : list row :=
  match k with
  | KField name unit sg v =>
      [RValue (acc ++ field_name st pfx name id) (with_unit unit (sp_leaf v)) (if sg then Some (sp_group v) else None)]
  | KFlatten p o d =>
      match o with
      | OptNone => []
      | Wrapped w => map (wrap_row w) (sp_entry d st (acc ++ flat_prefix st p))
      | _ => sp_entry d st (acc ++ flat_prefix st p)
      end
  | KFlattenEntry raw rawsg =>
      map (fun nv => RValue (fst nv) (snd nv) None) raw ++ map (fun ng => RGroup (fst ng) (snd ng)) rawsg
  | KTimestamp t => [RTimestamp t]
  | KIgnore => []
  end
with sp_variants (st ra : style) (pfx : option prefix) (tg : option tag) (vs : variants) (i : nat) (acc : bytes)
       {struct vs} : list row :=
  match vs with
  | VNil => []
  | VCons id name d r =>
      match i with
      | O => (match tg with
              | None => []
              | Some t => [RValue (acc ++ tag_name st pfx t) (VString (variant_label ra name id))
                                  (if tg_sg t then Some (variant_label ra name id) else None)]
              end) ++ sp_vdata st pfx d acc
      | S j => sp_variants st ra pfx tg r j acc
      end
  end
with sp_vdata (st : style) (pfx : option prefix) (d : vdata) (acc : bytes) {struct d} : list row :=
  match d with
  | DUnit => []
  | DTuple fs => sp_fields st pfx fs acc
  | DStruct fs => sp_fields st pfx fs acc
  end.

(* the EntryWriter calls a row stands for (one per non-ignored field), and what a formatter sees of them:
   (name, value) of every PRESENT value, and the timestamp *)
Definition row_calls (r : row) : list sitem :=
  match r with
  | RTimestamp t => [STimestamp t]
  | RValue n v _ => [SValue n v]
  | RGroup _ _ => []
  end.
Definition row_items (r : row) : list sitem := flat_map present (row_calls r).
Definition row_groups (r : row) : list (bytes * bytes) :=
  match r with
  | RValue n _ (Some g) => [(n, g)]
  | RGroup n g => [(n, g)]
  | _ => []
  end.
Definition spec_rows (d : edef) : list row := sp_entry d Preserve [].
Definition spec_calls (d : edef) : list sitem := flat_map row_calls (spec_rows d).
Definition spec_items (d : edef) : list sitem := flat_map row_items (spec_rows d).
Definition spec_groups (d : edef) : list (bytes * bytes) := flat_map row_groups (spec_rows d).

(* the number of non-ignored fields reached through present flattened children (a tag is a field, a
   hand-written flattened Entry counts for the calls it makes) *)
Fixpoint n_calls (d : edef) {struct d} : nat :=
  match d with
  | EStruct _ _ fs => n_fields fs
  | EEnum _ _ tg vs i => n_variants tg vs i
  end
with n_fields (fs : fields) {struct fs} : nat :=
  match fs with
  | FNil => O
  | FCons _ k r => (n_kind k + n_fields r)%nat
  end
with n_kind (k : fkind) {struct k} : nat :=
  match k with
  | KField _ _ _ _ => 1%nat
  | KFlatten _ OptNone _ => O
  | KFlatten _ _ d => n_calls d
  | KFlattenEntry raw _ => length raw
  | KTimestamp _ => 1%nat
  | KIgnore => O
  end
with n_variants (tg : option tag) (vs : variants) (i : nat) {struct vs} : nat :=
  match vs with
  | VNil => O
  | VCons _ _ d r =>
      match i with
      | O => ((match tg with Some _ => 1 | None => 0 end) + n_vdata d)%nat
      | S j => n_variants tg r j
      end
  end
with n_vdata (d : vdata) {struct d} : nat :=
  match d with
  | DUnit => O
  | DTuple fs => n_fields fs
  | DStruct fs => n_fields fs
  end.

(* declared units are compatible everywhere in the tree *)
Fixpoint units_ok (d : edef) {struct d} : bool :=
  match d with
  | EStruct _ _ fs => fields_units_ok fs
  | EEnum _ _ _ vs _ => variants_units_ok vs
  end
with fields_units_ok (fs : fields) {struct fs} : bool :=
  match fs with
  | FNil => true
  | FCons _ k r => kind_units_ok k && fields_units_ok r
  end
with kind_units_ok (k : fkind) {struct k} : bool :=
  match k with
  | KField _ unit _ v => leaf_units_ok v && unit_compatible unit (sp_leaf v)
  | KFlatten _ _ d => units_ok d
  | _ => true
  end
with variants_units_ok (vs : variants) {struct vs} : bool :=
  match vs with
  | VNil => true
  | VCons _ _ d r => vdata_units_ok d && variants_units_ok r
  end
with vdata_units_ok (d : vdata) {struct d} : bool :=
  match d with
  | DUnit => true
  | DTuple fs => fields_units_ok fs
  | DStruct fs => fields_units_ok fs
  end.

End Spec.

(* ---- the shape of the known finding (sample-group names of flattened children lack the flatten prefix) ----
   [no_groups d]: no sample-group declaration anywhere in d (conservatively: in any variant);
   [sg_safe d]  : no flatten PREFIX sits above a sample-group declaration. *)
Fixpoint no_groups (d : edef) {struct d} : bool :=
  match d with
  | EStruct _ _ fs => fields_no_groups fs
  | EEnum _ _ tg vs _ => (match tg with Some t => negb (tg_sg t) | None => true end) && variants_no_groups vs
  end
with fields_no_groups (fs : fields) {struct fs} : bool :=
  match fs with
  | FNil => true
  | FCons _ k r => kind_no_groups k && fields_no_groups r
  end
with kind_no_groups (k : fkind) {struct k} : bool :=
  match k with
  | KField _ _ sg _ => negb sg
  | KFlatten _ _ d => no_groups d
  | KFlattenEntry _ rawsg => match rawsg with [] => true | _ => false end
  | _ => true
  end
with variants_no_groups (vs : variants) {struct vs} : bool :=
  match vs with
  | VNil => true
  | VCons _ _ d r => vdata_no_groups d && variants_no_groups r
  end
with vdata_no_groups (d : vdata) {struct d} : bool :=
  match d with
  | DUnit => true
  | DTuple fs => fields_no_groups fs
  | DStruct fs => fields_no_groups fs
  end.

Fixpoint sg_safe (d : edef) {struct d} : bool :=
  match d with
  | EStruct _ _ fs => fields_sg_safe fs
  | EEnum _ _ _ vs _ => variants_sg_safe vs
  end
with fields_sg_safe (fs : fields) {struct fs} : bool :=
  match fs with
  | FNil => true
  | FCons _ k r => kind_sg_safe k && fields_sg_safe r
  end
with kind_sg_safe (k : fkind) {struct k} : bool :=
  match k with
  | KFlatten None _ d => sg_safe d
  | KFlatten (Some _) _ d => no_groups d
  | _ => true
  end
with variants_sg_safe (vs : variants) {struct vs} : bool :=
  match vs with
  | VNil => true
  | VCons _ _ d r => vdata_sg_safe d && variants_sg_safe r
  end
with vdata_sg_safe (d : vdata) {struct d} : bool :=
  match d with
  | DUnit => true
  | DTuple fs => fields_sg_safe fs
  | DStruct fs => fields_sg_safe fs
  end.

(* every name a hand-written flattened Entry uses is a short static string (they are handed to the writer as they
   are; only macro-generated names go through const_str_value) *)
Fixpoint raw_short (d : edef) {struct d} : bool :=
  match d with
  | EStruct _ _ fs => fields_raw_short fs
  | EEnum _ _ _ vs _ => variants_raw_short vs
  end
with fields_raw_short (fs : fields) {struct fs} : bool :=
  match fs with
  | FNil => true
  | FCons _ k r => kind_raw_short k && fields_raw_short r
  end
with kind_raw_short (k : fkind) {struct k} : bool :=
  match k with
  | KFlatten _ _ d => raw_short d
  | KFlattenEntry raw _ => forallb (fun nv : bytes * vcall => blen (fst nv) <=? 100) raw
  | _ => true
  end
with variants_raw_short (vs : variants) {struct vs} : bool :=
  match vs with
  | VNil => true
  | VCons _ _ d r => vdata_raw_short d && variants_raw_short r
  end
with vdata_raw_short (d : vdata) {struct d} : bool :=
  match d with
  | DUnit => true
  | DTuple fs => fields_raw_short fs
  | DStruct fs => fields_raw_short fs
  end.
(* a written name is a borrowed constant exactly when it is at most 100 bytes long *)
Definition cow_kind_ok (it : item) : Prop :=
  match it with
  | ITimestamp _ => True
  | IValue n b _ => b = (blen n <=? 100)
  end.

(* what the implementation's observation is compared with: the written items with the Cow kind dropped
   ([strip]) and absent values removed *)
Definition strip (it : item) : sitem :=
  match it with ITimestamp t => STimestamp t | IValue n _ v => SValue n v end.
Definition observe (its : list item) : list sitem := flat_map present (map strip its).
