(* C07 — wire codec: s-expressions <-> metric type trees / observations, and the entry points. *)
(* DISPATCH 700 c07_inflect *)
(* DISPATCH 701 c07_concat *)
(* DISPATCH 702 c07_model *)
(* DISPATCH 703 c07_spec_holds *)
(* DISPATCH 704 c07_spec_rows *)
(* DISPATCH 705 c07_model_asfound *)
(* DISPATCH 706 c07_groups_hold *)
(* DISPATCH 707 c07_cow_kind_holds *)
(* DISPATCH 708 c07_groups_prefixed_hold *)
From Coq Require Import List ZArith NArith Bool.
From MV Require Import Common.Sx C07.Inflector C07.Model C07.Spec.
Import ListNotations.

(* The revision of the repository the correspondence is run against: tag naming repaired (fix: commit),
   sample-group namespace of flattened children as found (known finding). *)
Definition repo_fixed_tag : bool := true.
Definition repo_fixed_sg : bool := false.
Definition repo_fixed_wrap : bool := true.

Definition dec_style (x : sx) : style :=
  match sx_z x with 1%Z => Pascal | 2%Z => Snake | 3%Z => Kebab | _ => Preserve end.
Definition dec_obytes (x : sx) : option bytes := sx_option sx_bytes x.
Definition dec_prefix (x : sx) : option prefix :=
  sx_option (fun y => match sx_tag y with 0%Z => PInfl (sx_bytes (sx_arg y 0)) | _ => PExact (sx_bytes (sx_arg y 0)) end) x.
Definition dec_obs (k p : sx) : obs := match sx_z k with 0%Z => OU (sx_n p) | _ => OF (sx_n p) end.
Definition dec_pairs (x : sx) : list (bytes * bytes) :=
  map (fun y => (sx_bytes (sx_nth y 0), sx_bytes (sx_nth y 1))) (sx_list x).
Definition enc_pairs (l : list (bytes * bytes)) : sx := L (map (fun p => L [B (fst p); B (snd p)]) l).
Definition dec_vcall (x : sx) : vcall :=
  match sx_tag x with
  | 0%Z => VNone
  | 1%Z => VString (sx_bytes (sx_arg x 0))
  | 2%Z => VMetric (dec_obs (sx_arg x 0) (sx_arg x 1)) (sx_n (sx_arg x 2)) (dec_pairs (sx_arg x 3)) (sx_bool (sx_arg x 4))
  | _ => VInvalid
  end.
(* wrapper: (0 ((k v) ...)) WithDimensions | (1) ForceFlag *)
Definition dec_wrapper (x : sx) : wrapper :=
  match sx_tag x with 0%Z => WDims (dec_pairs (sx_arg x 0)) | _ => WForced end.
Definition enc_obs (o : obs) : list sx := match o with OU n => [A 0%Z; of_n n] | OF b => [A 1%Z; of_n b] end.
Definition enc_vcall (v : vcall) : sx :=
  match v with
  | VNone => tagged 0 []
  | VString s => tagged 1 [B s]
  | VMetric o u d f => tagged 2 (enc_obs o ++ [of_n u; enc_pairs d; of_bool f])
  | VInvalid => tagged 3 []
  end.

Fixpoint dec_leaf (fuel : nat) (x : sx) : leaf :=
  match fuel with
  | O => LStr []
  | S f =>
    match sx_tag x with
    | 0%Z => LNum (dec_obs (sx_arg x 0) (sx_arg x 1)) (sx_n (sx_arg x 2))
    | 5%Z => LWrap (dec_wrapper (sx_arg x 0)) (dec_leaf f (sx_arg x 1))
    | 6%Z => LFmt (dec_leaf f (sx_arg x 0))
    | 1%Z => LStr (sx_bytes (sx_arg x 0))
    | 2%Z => LEnum (dec_style (sx_arg x 0))
                   (map (fun v => (sx_bytes (sx_nth v 0), dec_obytes (sx_nth v 1))) (sx_list (sx_arg x 1)))
                   (sx_nat (sx_arg x 2))
    | 3%Z => LVal (sx_option sx_n (sx_arg x 0)) (dec_leaf f (sx_arg x 1))
    | _ => LOpt (sx_bool (sx_arg x 0)) (dec_leaf f (sx_arg x 1))
    end
  end.

Definition dec_tag (x : sx) : tag := Tag (sx_bool (sx_nth x 0)) (sx_bytes (sx_nth x 1)) (sx_bool (sx_nth x 2)).
(* 0 plain | 1 Some | 2 None | (3 wrapper) *)
Definition dec_optmode (x : sx) : optmode :=
  match sx_tag x with 1%Z => OptSome | 2%Z => OptNone | 3%Z => Wrapped (dec_wrapper (sx_arg x 0)) | _ => Plain end.

Fixpoint dec_edef (fuel : nat) (x : sx) {struct fuel} : edef :=
  match fuel with
  | O => EStruct Preserve None FNil
  | S f =>
    match sx_tag x with
    | 0%Z => EStruct (dec_style (sx_arg x 0)) (dec_prefix (sx_arg x 1)) (dec_fields f (sx_list (sx_arg x 2)))
    | _ => EEnum (dec_style (sx_arg x 0)) (dec_prefix (sx_arg x 1)) (sx_option dec_tag (sx_arg x 2))
                 (dec_variants f (sx_list (sx_arg x 3))) (sx_nat (sx_arg x 4))
    end
  end
with dec_fields (fuel : nat) (l : list sx) {struct fuel} : fields :=
  match fuel with
  | O => FNil
  | S f =>
    match l with
    | [] => FNil
    | y :: r => FCons (sx_bytes (sx_nth y 0)) (dec_kind f (sx_nth y 1)) (dec_fields f r)
    end
  end
with dec_kind (fuel : nat) (x : sx) {struct fuel} : fkind :=
  match fuel with
  | O => KIgnore
  | S f =>
    match sx_tag x with
    | 0%Z => KField (dec_obytes (sx_arg x 0)) (sx_option sx_n (sx_arg x 1)) (sx_bool (sx_arg x 2)) (dec_leaf 64 (sx_arg x 3))
    | 1%Z => KFlatten (dec_prefix (sx_arg x 0)) (dec_optmode (sx_arg x 1)) (dec_edef f (sx_arg x 2))
    | 2%Z => KFlattenEntry (map (fun y => (sx_bytes (sx_nth y 0), dec_vcall (sx_nth y 1))) (sx_list (sx_arg x 0)))
                           (map (fun y => (sx_bytes (sx_nth y 0), sx_bytes (sx_nth y 1))) (sx_list (sx_arg x 1)))
    | 3%Z => KTimestamp (sx_n (sx_arg x 0))
    | _ => KIgnore
    end
  end
with dec_variants (fuel : nat) (l : list sx) {struct fuel} : variants :=
  match fuel with
  | O => VNil
  | S f =>
    match l with
    | [] => VNil
    | y :: r => VCons (sx_bytes (sx_nth y 0)) (dec_obytes (sx_nth y 1)) (dec_vdata f (sx_nth y 2)) (dec_variants f r)
    end
  end
with dec_vdata (fuel : nat) (x : sx) {struct fuel} : vdata :=
  match fuel with
  | O => DUnit
  | S f =>
    match sx_tag x with
    | 0%Z => DUnit
    | 1%Z => DTuple (dec_fields f (sx_list (sx_arg x 0)))
    | _ => DStruct (dec_fields f (sx_list (sx_arg x 0)))
    end
  end.

(* fuel: one unit per constructor on a path; lists are consumed one element per unit *)
(* a tree case is (72 edef) *)
Definition dec_case (x : sx) : edef := dec_edef (Nat.mul 20 20) (sx_arg x 0).

Definition enc_item (it : item) : sx :=
  match it with
  | ITimestamp t => tagged 0 [of_n t]
  | IValue n b v => tagged 1 [B n; of_bool b; enc_vcall v]
  end.
Definition dec_item (x : sx) : item :=
  match sx_tag x with
  | 0%Z => ITimestamp (sx_n (sx_arg x 0))
  | _ => IValue (sx_bytes (sx_arg x 0)) (sx_bool (sx_arg x 1)) (dec_vcall (sx_arg x 2))
  end.
Definition enc_group (g : bytes * bytes) : sx := L [B (fst g); B (snd g)].
Definition dec_group (x : sx) : bytes * bytes := (sx_bytes (sx_nth x 0), sx_bytes (sx_nth x 1)).
Definition enc_sitem (it : sitem) : sx :=
  match it with
  | STimestamp t => tagged 0 [of_n t]
  | SValue n v => tagged 1 [B n; enc_vcall v]
  end.

(* ---- 702: the mechanism model: what RootEntry::write / sample_group do with the recording writer ---- *)
Definition run_model (ftag fsg fwrap : bool) (x : sx) : sx :=
  let d := dec_case x in
  L [L (map enc_item (root_write to_pascal_case to_snake_case to_kebab_case ftag d));
     L (map enc_group (root_sg to_pascal_case to_snake_case to_kebab_case ftag fsg fwrap d))].
Definition c07_model (x : sx) : sx := run_model repo_fixed_tag repo_fixed_sg repo_fixed_wrap x.
Definition c07_model_asfound (x : sx) : sx := run_model false false false x.

(* ---- 703: the property predicate on (case, implementation output): 1, or else what was expected ---- *)
Definition bytes_eqb (s t : bytes) : bool := if list_eq_dec N.eq_dec s t then true else false.
Fixpoint list_eqb {T} (eqb : T -> T -> bool) (a b : list T) : bool :=
  match a, b with
  | [], [] => true
  | x :: r, y :: s => eqb x y && list_eqb eqb r s
  | _, _ => false
  end.
Definition group_eqb (a b : bytes * bytes) : bool := bytes_eqb (fst a) (fst b) && bytes_eqb (snd a) (snd b).

Definition vcall_eqb (a b : vcall) : bool :=
  match a, b with
  | VNone, VNone => true
  | VString s, VString t => if list_eq_dec N.eq_dec s t then true else false
  | VMetric (OU n) u d f, VMetric (OU m) w e g =>
      N.eqb n m && N.eqb u w && list_eqb group_eqb d e && Bool.eqb f g
  | VMetric (OF n) u d f, VMetric (OF m) w e g =>
      N.eqb n m && N.eqb u w && list_eqb group_eqb d e && Bool.eqb f g
  | VInvalid, VInvalid => true
  | _, _ => false
  end.
Definition sitem_eqb (a b : sitem) : bool :=
  match a, b with
  | STimestamp t, STimestamp u => N.eqb t u
  | SValue n v, SValue m w => bytes_eqb n m && vcall_eqb v w
  | _, _ => false
  end.
Definition spec_of (d : edef) : list sitem * list (bytes * bytes) :=
  (spec_items to_pascal_case to_snake_case to_kebab_case d, spec_groups to_pascal_case to_snake_case to_kebab_case d).
(* written items: names, values, units *)
Definition c07_spec_holds (x : sx) : sx :=
  let d := dec_case (sx_nth x 0) in
  let imp := sx_nth x 1 in
  let items := observe (map dec_item (sx_list (sx_nth imp 0))) in
  let sp := spec_of d in
  if list_eqb sitem_eqb items (fst sp) then A 1%Z
  else L (map enc_sitem (fst sp)).
(* 706 / 708: sample-group pairs, split by tree class so that the known finding (trees in which a flatten prefix
   sits above a sample-group declaration, [sg_safe d = false]) cannot crowd out a failure on the other trees *)
Definition groups_check (want_safe : bool) (x : sx) : sx :=
  let d := dec_case (sx_nth x 0) in
  let imp := sx_nth x 1 in
  let groups := map dec_group (sx_list (sx_nth imp 1)) in
  let sp := spec_of d in
  if negb (Bool.eqb (sg_safe d) want_safe) then A 1%Z
  else if list_eqb group_eqb groups (snd sp) then A 1%Z
  else L (map enc_group (snd sp)).
Definition c07_groups_hold (x : sx) : sx := groups_check true x.
Definition c07_groups_prefixed_hold (x : sx) : sx := groups_check false x.
(* 707: a written name is a borrowed constant exactly when it is at most 100 bytes long (c07_concat_borrowed) *)
Definition c07_cow_kind_holds (x : sx) : sx :=
  let imp := sx_nth x 1 in
  let items := map dec_item (sx_list (sx_nth imp 0)) in
  if forallb (fun it => match it with
                        | ITimestamp _ => true
                        | IValue n b _ => Bool.eqb b (N.leb (blen n) 100)
                        end) items
  then A 1%Z else A 0%Z.
(* 704 (diagnostic): the specification's items and groups for a case *)
Definition c07_spec_rows (x : sx) : sx :=
  let sp := spec_of (dec_case x) in L [L (map enc_sitem (fst sp)); L (map enc_group (snd sp))].

(* ---- 700: Inflector: (70 mode style bytes); mode 0 = NameStyle::apply, 1 = NameStyle::apply_prefix ---- *)
Definition c07_inflect (x : sx) : sx :=
  let st := dec_style (sx_arg x 1) in
  let s := sx_bytes (sx_arg x 2) in
  match sx_z (sx_arg x 0) with
  | 0%Z => B (apply to_pascal_case to_snake_case to_kebab_case st s)
  | _ => B (apply_prefix to_pascal_case to_snake_case to_kebab_case st s)
  end.

(* ---- 701: const_str_value of a concatenation tree (71 t), t = (0 bytes) | (1 a b) ---- *)
Fixpoint dec_cstr (fuel : nat) (x : sx) : cstr :=
  match fuel with
  | O => CLeaf []
  | S f => match sx_tag x with
           | 0%Z => CLeaf (sx_bytes (sx_arg x 0))
           | _ => CCat (dec_cstr f (sx_arg x 0)) (dec_cstr f (sx_arg x 1))
           end
  end.
Definition c07_concat (x : sx) : sx :=
  let r := const_str_value (dec_cstr 200 (sx_arg x 0)) in L [B (fst r); of_bool (snd r)].
