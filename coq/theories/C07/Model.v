(* C07 — mechanism model of #[metrics] naming.

   What the code does (metrique-macro/src/{inflect,entry_impl,entry_impl/*,enums,value_impl}.rs,
   metrique-core/src/{namestyle,concat}.rs), in three layers:

   1. expansion time (proc macro): for every field / tag / flatten prefix, FOUR strings are computed, one
      per style (Preserve, Pascal, Snake, Kebab) — [four], [metric_name], [apply_prefix], [tag_names];
   2. type level: the name style handed down by the parent is a type NS = (style selector, prefix chain);
      `make_ns` switches the selector when the container has its own rename_all, `AppendPrefix` extends
      the chain, `Inflect` selects one of the four strings and prepends the chain — [ns], [make_ns],
      [inflect], [inflect_affix], [append_prefix];
   3. run time: `const_str_value` materialises the concatenation tree: the constant when every
      concatenation node is at most 100 bytes long, a heap string built by `extend` otherwise — [cstr],
      [have_val], [maybe_val], [extend], [const_str_value].

   The Inflector crate is a Section variable here (three functions on byte strings). *)
From Coq Require Import List NArith Bool.
From MV Require Import Common.Sx.
Import ListNotations.
Local Open Scope N_scope.

Inductive style := Preserve | Pascal | Snake | Kebab.
Inductive prefix := PInfl (p : bytes) | PExact (p : bytes).

(* ---------------------------------------------------------------- concat.rs *)
Inductive cstr := CLeaf (s : bytes) | CCat (a b : cstr).

Definition blen (s : bytes) : N := N.of_nat (length s).

Fixpoint c_len (t : cstr) : N :=                       (* MaybeConstStr::LEN *)
  match t with CLeaf s => blen s | CCat a b => c_len a + c_len b end.
Fixpoint have_val (t : cstr) : bool :=                 (* MaybeConstStr::HAVE_VAL *)
  match t with
  | CLeaf _ => true
  | CCat a b => have_val a && have_val b && (c_len a + c_len b <=? 100)
  end.
(* MaybeConstStr::MAYBE_VAL: the `match S::MAYBE_VAL.len() + T::MAYBE_VAL.len() { 0..=100 => concatenation, _ => "" }` *)
Fixpoint maybe_val (t : cstr) : bytes :=
  match t with
  | CLeaf s => s
  | CCat a b => let x := maybe_val a in let y := maybe_val b in
                if blen x + blen y <=? 100 then x ++ y else []
  end.
Fixpoint extend (t : cstr) (into : bytes) : bytes :=   (* MaybeConstStr::extend: push_str in order *)
  match t with CLeaf s => into ++ s | CCat a b => extend b (extend a into) end.
(* const_str_value: (string, is it Cow::Borrowed) *)
Definition const_str_value (t : cstr) : bytes * bool :=
  if have_val t then (maybe_val t, true) else (extend t [], false).

(* ---------------------------------------------------------------- values *)
Inductive obs := OU (n : N) | OF (bits : N).            (* Observation::Unsigned / Floating (f64 bit pattern) *)
Inductive vcall :=                                      (* what a Value does with its ValueWriter *)
| VNone                                                 (* nothing (absent Option) *)
| VString (s : bytes)
| VMetric (o : obs) (u : N) (dims : list (bytes * bytes)) (forced : bool)
                                                        (* one observation, unit code (0 = Unit::None), dimensions,
                                                           whether the ForceFlag test option is set *)
| VInvalid.                                             (* ValueWriter::error *)

Inductive item :=                                       (* calls on the EntryWriter *)
| ITimestamp (t : N)
| IValue (name : bytes) (borrowed : bool) (v : vcall).

(* WithUnit<V, U>::write for the conversions of ratio 1 (V::Unit = None, or V::Unit = U); the other ratios
   are property C19's subject and outside this model: they are reported as VInvalid so that a case using them
   can never be mistaken for covered. *)
Definition attach (u : N) (v : vcall) : vcall :=
  match v with
  | VMetric o u0 d f => if (u0 =? 0) || (u0 =? u) then VMetric o u d f else VInvalid
  | VString _ => VInvalid                               (* "can't apply a unit to a string value" *)
  | VNone => VNone
  | VInvalid => VInvalid
  end.
Definition attach_opt (u : option N) (v : vcall) : vcall :=
  match u with None => v | Some u => attach u v end.

(* the value wrappers of metrique-writer-core that close_value_impls.rs lets through #[metrics]:
   WithDimensions<V, N> appends its dimensions to a metric's (strings are left alone), ForceFlag<V, F> merges its
   flag into a metric's flags (merging two set flags panics: the generator never nests ForceFlag). *)
Inductive wrapper := WDims (ds : list (bytes * bytes)) | WForced.
Definition wrap_value (w : wrapper) (v : vcall) : vcall :=
  match v, w with
  | VMetric o u d f, WDims ds => VMetric o u (d ++ ds) f
  | VMetric o u d f, WForced => VMetric o u d true
  | _, _ => v
  end.
Definition wrap_item (w : wrapper) (it : item) : item :=
  match it with
  | ITimestamp t => ITimestamp t
  | IValue n b v => IValue n b (wrap_value w v)
  end.

(* #[metrics(format = F)]: the value is written by F::format_value on the closed field instead of by the field's
   own Value impl.  The formatter is user code; the generated programs use one test formatter, PlusOne: u64 n is
   written as the metric n+1 (wrapping) with unit Count; it is lifted over Option (None writes nothing). *)
Definition format_value (v : vcall) : vcall :=
  match v with
  | VMetric (OU n) _ _ _ => VMetric (OU ((n + 1) mod 18446744073709551616)) 1 [] false
  | _ => v
  end.

Section Naming.
Variables pascal snake kebab : bytes -> bytes.          (* the Inflector crate *)
(* Which revision of the code is modelled.  Three independent repairs, one flag each, each consulted in exactly
   one place:
     fixed_tag — the enum tag's four per-style names ([tag_names]): false = the code as found, true = after the
                 repository's `fix:` commit (the state the correspondence runs against);
     fixed_sg  — the namespace a flattened child's sample_group() gets ([flatten_sg_ns]): false = the code as it
                 is (as found AND now: the repair needs two insta snapshots regenerated, so it is delivered as a
                 known finding), true = the proposed repair (docs/C07-sample-group-repair.patch);
     fixed_wrap — whether `InflectableEntry for WithDimensions<T, N> / ForceFlag<T, F>` forward sample_group()
                 ([sg_field], flatten of a wrapped child): false = as found (the trait's default: nothing), true =
                 after the repository's second `fix:` commit. *)
Variables fixed_tag fixed_sg fixed_wrap : bool.

(* ---------------------------------------------------------------- inflect.rs *)
Definition apply (s : style) (x : bytes) : bytes :=     (* NameStyle::apply *)
  match s with Preserve => x | Pascal => pascal x | Snake => snake x | Kebab => kebab x end.
Definition ends_with (x : bytes) (c : N) : bool :=
  match rev x with l :: _ => N.eqb l c | [] => false end.
Definition apply_prefix (s : style) (x : bytes) : bytes :=   (* NameStyle::apply_prefix *)
  match s with
  | Preserve => x
  | Pascal => pascal x
  | Snake => let r := snake x in if ends_with r 95 then r else r ++ [95]
  | Kebab => let r := kebab x in if ends_with r 45 then r else r ++ [45]
  end.
Definition prefix_apply (p : prefix) (base : bytes) (s : style) : bytes :=   (* Prefix::apply *)
  match p with
  | PExact e => e ++ apply s base
  | PInfl q => apply s (q ++ base)
  end.
(* fn metric_name(root_attrs, name_style, field) *)
Definition metric_name (pfx : option prefix) (s : style) (name_override : option bytes) (ident : bytes) : bytes :=
  match name_override with
  | Some n => n
  | None => match pfx with
            | Some p => prefix_apply p ident s
            | None => apply s ident
            end
  end.
(* fn inflect_no_prefix(root_attrs, variant): the container's OWN rename_all, never the inherited style *)
Definition variant_name (ra : style) (name_override : option bytes) (ident : bytes) : bytes :=
  match name_override with Some n => n | None => apply ra ident end.

(* the four ConstStr structs make_inflect_base emits, and the selection the NameStyle impls perform *)
Record four := Four { f_id : bytes; f_pascal : bytes; f_snake : bytes; f_kebab : bytes }.
Definition mk4 (name_fn : style -> bytes) : four :=
  Four (name_fn Preserve) (name_fn Pascal) (name_fn Snake) (name_fn Kebab).
Definition sel4 (s : style) (f : four) : bytes :=
  match s with Preserve => f_id f | Pascal => f_pascal f | Snake => f_snake f | Kebab => f_kebab f end.

(* ---------------------------------------------------------------- namestyle.rs *)
Record ns := NS { ns_style : style; ns_prefix : cstr }.     (* Identity<P> | PascalCase<P> | SnakeCase<P> | KebabCase<P> *)
Definition ns_root : ns := NS Preserve (CLeaf []).          (* InflectableEntry's default: Identity<EmptyConstStr> *)
Definition make_ns (ra : style) (n : ns) : ns :=            (* entry_impl.rs make_ns: NS | NS::PascalCase | ... *)
  match ra with Preserve => n | _ => NS ra (ns_prefix n) end.
Definition inflect (n : ns) (f : four) : cstr := CCat (ns_prefix n) (CLeaf (sel4 (ns_style n) f)).
Definition inflect_affix (n : ns) (f : four) : cstr := CLeaf (sel4 (ns_style n) f).
Definition append_prefix (n : ns) (t : cstr) : ns := NS (ns_style n) (CCat (ns_prefix n) t).
(* Prefix::append_to = make_inflect_prefix | make_exact_prefix *)
Definition append_to (p : option prefix) (n : ns) : ns :=
  match p with
  | None => n
  | Some (PInfl q) => append_prefix n (inflect_affix n (mk4 (fun s => apply_prefix s q)))
  | Some (PExact e) => append_prefix n (CLeaf e)
  end.

(* ---------------------------------------------------------------- metric types with one inhabitant each *)
(* leaf (Value) types, each carrying the value of the instance under test *)
Inductive leaf :=
| LNum (o : obs) (u : N)                                 (* integer / bool / float / Duration: what the primitive writes *)
| LStr (s : bytes)                                       (* &'static str, String *)
| LEnum (ra : style) (vs : list (bytes * option bytes)) (i : nat)   (* #[metrics(value(string))] enum, variant i *)
| LVal (unit : option N) (inner : leaf)                  (* #[metrics(value)] newtype; unit declared on its field *)
| LOpt (present : bool) (inner : leaf)                   (* Option<T> *)
| LWrap (w : wrapper) (inner : leaf)                     (* WithDimensions<T, N> / ForceFlag<T, F> *)
| LFmt (inner : leaf).                                   (* the field carries #[metrics(format = PlusOne)] *)

Fixpoint leaf_call (l : leaf) : vcall :=
  match l with
  | LNum o u => VMetric o u [] false
  | LStr s => VString s
  | LEnum ra vs i => let v := nth i vs ([], None) in VString (variant_name ra (snd v) (fst v))
  | LVal u inner => attach_opt u (leaf_call inner)
  | LOpt true inner => leaf_call inner
  | LOpt false _ => VNone
  | LWrap w inner => wrap_value w (leaf_call inner)
  | LFmt inner => format_value (leaf_call inner)           (* FormattedValue<_, PlusOne, _>::write *)
  end.
(* SampleGroup::as_sample_group *)
Fixpoint leaf_sg (l : leaf) : bytes :=
  match l with
  | LStr s => s
  | LEnum ra vs i => let v := nth i vs ([], None) in variant_name ra (snd v) (fst v)
  | LVal _ inner => leaf_sg inner
  | _ => []
  end.

(* flatten of Child / Some(child) / None::<Child> / WithDimensions<Child, N> / ForceFlag<Child, F> *)
Inductive optmode := Plain | OptSome | OptNone | Wrapped (w : wrapper).
Record tag := Tag { tg_exact : bool; tg_name : bytes; tg_sg : bool }.

Inductive edef :=
| EStruct (ra : style) (pfx : option prefix) (fs : fields)
| EEnum (ra : style) (pfx : option prefix) (tg : option tag) (vs : variants) (chosen : nat)
with fields :=
| FNil
| FCons (ident : bytes) (k : fkind) (r : fields)
with fkind :=
| KField (name : option bytes) (unit : option N) (sg : bool) (v : leaf)
| KFlatten (p : option prefix) (o : optmode) (d : edef)
| KFlattenEntry (raw : list (bytes * vcall)) (rawsg : list (bytes * bytes))   (* a hand-written Entry: fixed calls *)
| KTimestamp (t : N)
| KIgnore
with variants :=
| VNil
| VCons (ident : bytes) (name : option bytes) (d : vdata) (r : variants)
with vdata :=
| DUnit
| DTuple (fs : fields)                                   (* unnamed: flatten / flatten_entry / ignore only *)
| DStruct (fs : fields).

(* Tag::field_name + the name_fn of generate_write_arms / generate_sample_group_arms.
   As found: ONE string is computed with the container's own rename_all (Prefix::apply / NameStyle::apply, or
   the exact name), and the four per-style strings are `style.apply` of THAT string — so an exact name and an
   exact container prefix are inflected after all, and an inflectable name is inflected twice.
   Repaired: the four strings are computed per style from the declaration, exactly like a field's; an exact
   tag name is the same constant in all four. *)
Definition tag_field_name_v0 (ra : style) (pfx : option prefix) (t : tag) : bytes :=
  if tg_exact t then tg_name t
  else match pfx with
       | Some p => prefix_apply p (tg_name t) ra
       | None => apply ra (tg_name t)
       end.
Definition tag_names (ra : style) (pfx : option prefix) (t : tag) : four :=
  if fixed_tag
  then mk4 (fun s => if tg_exact t then tg_name t else metric_name pfx s None (tg_name t))
  else mk4 (fun s => apply s (tag_field_name_v0 ra pfx t)).

(* the namespace collect_field_sample_group / collect_tuple_sample_group hand to a flattened child.
   As it is: make_ns(rename_all) only — the flatten prefix is dropped; proposed repair: the same namespace the
   write path uses. *)
Definition flatten_sg_ns (p : option prefix) (n : ns) : ns :=
  if fixed_sg then append_to p n else n.

Definition named (c : cstr) (v : vcall) : item :=
  let r := const_str_value c in IValue (fst r) (snd r) v.

(* ---------------------------------------------------------------- InflectableEntry::<NS>::write *)
Fixpoint op_write (d : edef) (n : ns) {struct d} : list item :=
  match d with
  | EStruct ra pfx fs => op_fields ra pfx fs n
  | EEnum ra pfx tg vs i => op_variants ra pfx tg vs i n
  end
with op_fields (ra : style) (pfx : option prefix) (fs : fields) (n : ns) {struct fs} : list item :=
  match fs with
  | FNil => []
  | FCons id k r => op_field ra pfx id k n ++ op_fields ra pfx r n
  end
with op_field (ra : style) (pfx : option prefix) (id : bytes) (k : fkind) (n : ns) {struct k} : list item :=
  match k with
  | KField name unit _ v =>
      [named (inflect (make_ns ra n) (mk4 (fun s => metric_name pfx s name id))) (attach_opt unit (leaf_call v))]
  | KFlatten p o d =>
      match o with
      | OptNone => []
      | Wrapped w => map (wrap_item w) (op_write d (append_to p (make_ns ra n)))   (* the EntryWriter wrappers *)
      | _ => op_write d (append_to p (make_ns ra n))
      end
  | KFlattenEntry raw _ => map (fun nv => IValue (fst nv) true (snd nv)) raw
  | KTimestamp t => [ITimestamp t]
  | KIgnore => []
  end
with op_variants (ra : style) (pfx : option prefix) (tg : option tag) (vs : variants) (i : nat) (n : ns)
       {struct vs} : list item :=
  match vs with
  | VNil => []
  | VCons id name d r =>
      match i with
      | O => (match tg with
              | None => []
              | Some t => [named (inflect (make_ns ra n) (tag_names ra pfx t)) (VString (variant_name ra name id))]
              end) ++ op_vdata ra pfx d n
      | S j => op_variants ra pfx tg r j n
      end
  end
with op_vdata (ra : style) (pfx : option prefix) (d : vdata) (n : ns) {struct d} : list item :=
  match d with
  | DUnit => []
  | DTuple fs => op_fields ra pfx fs n
  | DStruct fs => op_fields ra pfx fs n
  end.

(* ---------------------------------------------------------------- InflectableEntry::<NS>::sample_group *)
Fixpoint op_sg (d : edef) (n : ns) {struct d} : list (bytes * bytes) :=
  match d with
  | EStruct ra pfx fs => sg_fields ra pfx fs n
  | EEnum ra pfx tg vs i => sg_variants ra pfx tg vs i n
  end
with sg_fields (ra : style) (pfx : option prefix) (fs : fields) (n : ns) {struct fs} : list (bytes * bytes) :=
  match fs with
  | FNil => []
  | FCons id k r => sg_field ra pfx id k n ++ sg_fields ra pfx r n
  end
with sg_field (ra : style) (pfx : option prefix) (id : bytes) (k : fkind) (n : ns) {struct k} : list (bytes * bytes) :=
  match k with
  | KField name _ true v =>
      [(fst (const_str_value (inflect (make_ns ra n) (mk4 (fun s => metric_name pfx s name id)))), leaf_sg v)]
  | KField _ _ false _ => []
  | KFlatten p o d =>
      match o with
      | OptNone => []
      | Wrapped _ => if fixed_wrap then op_sg d (flatten_sg_ns p (make_ns ra n)) else []
      | _ => op_sg d (flatten_sg_ns p (make_ns ra n))
      end
  | KFlattenEntry _ rawsg => rawsg
  | KTimestamp _ => []
  | KIgnore => []
  end
with sg_variants (ra : style) (pfx : option prefix) (tg : option tag) (vs : variants) (i : nat) (n : ns)
       {struct vs} : list (bytes * bytes) :=
  match vs with
  | VNil => []
  | VCons id name d r =>
      match i with
      | O => (match tg with
              | Some t => if tg_sg t
                          then [(fst (const_str_value (inflect (make_ns ra n) (tag_names ra pfx t))), variant_name ra name id)]
                          else []
              | None => []
              end) ++ sg_vdata ra pfx d n
      | S j => sg_variants ra pfx tg r j n
      end
  end
with sg_vdata (ra : style) (pfx : option prefix) (d : vdata) (n : ns) {struct d} : list (bytes * bytes) :=
  match d with
  | DUnit => []
  | DTuple fs => sg_fields ra pfx fs n
  | DStruct fs => sg_fields ra pfx fs n
  end.

(* RootEntry<M>: Entry::write / Entry::sample_group with the default NS *)
Definition root_write (d : edef) : list item := op_write d ns_root.
Definition root_sg (d : edef) : list (bytes * bytes) := op_sg d ns_root.

End Naming.
