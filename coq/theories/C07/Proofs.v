(* C07 — proofs: const concatenation = concatenation; the operational denotation (four pre-inflected
   strings + type-level style/prefix state + const_str_value) refines the declarative naming function for every
   type tree of any depth; counts; sample groups; and the refutations for the code as found. *)
From Coq Require Import List NArith Bool Lia String.
From MV Require Import Common.Sx C07.Inflector C07.Model C07.Spec.
Import ListNotations.
Local Open Scope N_scope.

(* ================================================================= concat.rs *)

Lemma blen_app : forall a b, blen (a ++ b) = blen a + blen b.
Proof. intros. unfold blen. rewrite app_length. lia. Qed.

Lemma c_len_flat : forall t, c_len t = blen (c_flat t).
Proof.
  induction t as [s | a IHa b IHb]; cbn [c_len c_flat]; [reflexivity|].
  rewrite blen_app. lia.
Qed.

Lemma extend_flat : forall t into, extend t into = into ++ c_flat t.
Proof.
  induction t as [s | a IHa b IHb]; intros into; cbn [extend c_flat]; [reflexivity|].
  rewrite IHa, IHb. now rewrite app_assoc.
Qed.

Lemma maybe_val_flat : forall t, have_val t = true -> maybe_val t = c_flat t.
Proof.
  induction t as [s | a IHa b IHb]; intros H; cbn [have_val maybe_val c_flat] in *; [reflexivity|].
  apply andb_true_iff in H. destruct H as [H Hlen]. apply andb_true_iff in H. destruct H as [Ha Hb].
  rewrite (IHa Ha), (IHb Hb). rewrite <- !c_len_flat. now rewrite Hlen.
Qed.

(* the constant exists exactly when the whole string is a single ConstStr or at most 100 bytes long *)
Lemma have_val_spec : forall t,
  have_val t = match t with CLeaf _ => true | CCat _ _ => c_len t <=? 100 end.
Proof.
  induction t as [s | a IHa b IHb]; [reflexivity|].
  cbn [have_val c_len]. rewrite IHa, IHb.
  destruct (c_len a + c_len b <=? 100) eqn:E.
  - apply N.leb_le in E. rewrite andb_true_r.
    assert (Ha : (match a with CLeaf _ => true | CCat _ _ => c_len a <=? 100 end) = true).
    { destruct a; [reflexivity|]. apply N.leb_le. lia. }
    assert (Hb : (match b with CLeaf _ => true | CCat _ _ => c_len b <=? 100 end) = true).
    { destruct b; [reflexivity|]. apply N.leb_le. lia. }
    now rewrite Ha, Hb.
  - now rewrite andb_false_r.
Qed.

Theorem const_str_value_flat : forall t, fst (const_str_value t) = c_flat t.
Proof.
  intros t. unfold const_str_value. destruct (have_val t) eqn:H; cbn [fst].
  - now apply maybe_val_flat.
  - now rewrite extend_flat.
Qed.

Theorem const_str_value_borrowed : forall t,
  snd (const_str_value t) = match t with CLeaf _ => true | CCat _ _ => blen (c_flat t) <=? 100 end.
Proof.
  intros t. unfold const_str_value. rewrite have_val_spec.
  destruct t; [reflexivity|]. rewrite <- c_len_flat. now destruct (c_len (CCat t1 t2) <=? 100).
Qed.

(* ================================================================= naming *)

Scheme edef_mind := Induction for edef Sort Prop
  with fields_mind := Induction for fields Sort Prop
  with fkind_mind := Induction for fkind Sort Prop
  with variants_mind := Induction for variants Sort Prop
  with vdata_mind := Induction for vdata Sort Prop.
Combined Scheme tree_mutind from edef_mind, fields_mind, fkind_mind, variants_mind, vdata_mind.

Section Refinement.
Variables pascal snake kebab : bytes -> bytes.
(* the sample-group repair flag: the write path does not depend on it; the sample-group refinement holds
   unconditionally with the repair and, without it, for trees free of the known shape ([sg_safe]) *)
Variable fsg : bool.

Notation apply := (apply pascal snake kebab).
Notation apply_prefix := (apply_prefix pascal snake kebab).
Notation metric_name := (metric_name pascal snake kebab).
Notation variant_name := (variant_name pascal snake kebab).
Notation infl := (infl pascal snake kebab).
Notation infl_prefix := (infl_prefix pascal snake kebab).
Notation field_name := (field_name pascal snake kebab).
Notation flat_prefix := (flat_prefix pascal snake kebab).
Notation tag_name := (tag_name pascal snake kebab).
Notation variant_label := (variant_label pascal snake kebab).
Notation sp_leaf := (sp_leaf pascal snake kebab).
Notation sp_group := (sp_group pascal snake kebab).
Notation leaf_units_ok := (leaf_units_ok pascal snake kebab).
Notation leaf_call := (leaf_call pascal snake kebab).
Notation leaf_sg := (leaf_sg pascal snake kebab).

Lemma apply_infl : forall s x, apply s x = infl s x.
Proof. now destruct s. Qed.

Lemma sel4_mk4 : forall s f, sel4 s (mk4 f) = f s.
Proof. now destruct s. Qed.

Lemma with_delim_ends : forall r c,
  (if ends_with r c then r else r ++ [c]) = with_delim r c.
Proof.
  intros r c. unfold ends_with, with_delim.
  destruct (rev r) as [|l q] eqn:E.
  - assert (r = []) as -> by (rewrite <- (rev_involutive r), E; reflexivity). reflexivity.
  - reflexivity.
Qed.

Lemma apply_prefix_infl : forall s x, apply_prefix s x = infl_prefix s x.
Proof. destruct s; intros x; cbn; try reflexivity; apply with_delim_ends. Qed.

Lemma metric_name_field_name : forall pfx s name id, metric_name pfx s name id = field_name s pfx name id.
Proof.
  intros pfx s name id. unfold Model.metric_name, Spec.field_name, prefix_apply.
  destruct name as [n|]; [reflexivity|]. destruct pfx as [[p|e]|]; now rewrite ?apply_infl.
Qed.

Lemma variant_name_label : forall ra name id, variant_name ra name id = variant_label ra name id.
Proof. intros. unfold Model.variant_name, Spec.variant_label. destruct name; [reflexivity|apply apply_infl]. Qed.

Lemma make_ns_style : forall ra n, ns_style (make_ns ra n) = in_force ra (ns_style n).
Proof. now destruct ra. Qed.
Lemma make_ns_prefix : forall ra n, ns_prefix (make_ns ra n) = ns_prefix n.
Proof. now destruct ra. Qed.

Lemma append_to_style : forall p n, ns_style (append_to pascal snake kebab p n) = ns_style n.
Proof. now destruct p as [[q|e]|]. Qed.
Lemma append_to_prefix : forall p n,
  c_flat (ns_prefix (append_to pascal snake kebab p n)) = c_flat (ns_prefix n) ++ flat_prefix (ns_style n) p.
Proof.
  destruct p as [[q|e]|]; intros n; cbn [append_to append_prefix inflect_affix ns_prefix c_flat Spec.flat_prefix].
  - now rewrite sel4_mk4, apply_prefix_infl.
  - reflexivity.
  - now rewrite app_nil_r.
Qed.

Lemma inflect_flat : forall n f, c_flat (inflect n f) = c_flat (ns_prefix n) ++ sel4 (ns_style n) f.
Proof. reflexivity. Qed.

(* ---- values ---- *)
Lemma attach_compat : forall u v, unit_compatible u v = true -> attach_opt u v = with_unit u v.
Proof.
  intros [u|] v H; [|reflexivity].
  destruct v as [| s | o u0 d f |]; cbn in *; try discriminate; try reflexivity.
  now rewrite H.
Qed.

Lemma leaf_call_spec : forall l, leaf_units_ok l = true -> leaf_call l = sp_leaf l.
Proof.
  induction l as [o u | s | ra vs i | u inner IH | p inner IH | w inner IH | inner IH]; intros H;
    cbn [Model.leaf_call Spec.sp_leaf Spec.leaf_units_ok] in *; try reflexivity.
  - apply andb_true_iff in H. destruct H as [H1 H2]. rewrite (IH H1). now apply attach_compat.
  - destruct p; [now apply IH | reflexivity].
  - now rewrite (IH H).
  - now rewrite (IH H).
Qed.

Lemma leaf_sg_spec : forall l, leaf_sg l = sp_group l.
Proof.
  induction l as [o u | s | ra vs i | u inner IH | p inner IH | w inner IH | inner IH]; cbn [Model.leaf_sg Spec.sp_group]; try reflexivity; try exact IH.
Qed.

Theorem field_value_spec : forall unit v,
  leaf_units_ok v = true -> unit_compatible unit (sp_leaf v) = true ->
  attach_opt unit (leaf_call v) = with_unit unit (sp_leaf v).
Proof. intros unit v H1 H2. rewrite (leaf_call_spec v H1). now apply attach_compat. Qed.

(* ---- calls ---- *)
Definition calls (its : list item) : list sitem := map strip its.
Definition rows_calls (rs : list row) : list sitem := flat_map row_calls rs.
Definition rows_groups (rs : list row) : list (bytes * bytes) := flat_map row_groups rs.

Lemma rows_calls_app : forall a b, rows_calls (a ++ b) = rows_calls a ++ rows_calls b.
Proof. intros. unfold rows_calls. now rewrite flat_map_app. Qed.
Lemma rows_groups_app : forall a b, rows_groups (a ++ b) = rows_groups a ++ rows_groups b.
Proof. intros. unfold rows_groups. now rewrite flat_map_app. Qed.
Lemma calls_app : forall a b, calls (a ++ b) = calls a ++ calls b.
Proof. intros. unfold calls. now rewrite map_app. Qed.

Lemma strip_named : forall c v, strip (named c v) = SValue (c_flat c) v.
Proof. intros. unfold named. cbn [strip]. now rewrite const_str_value_flat. Qed.

Lemma raw_calls : forall raw rawsg,
  calls (map (fun nv : bytes * vcall => IValue (fst nv) true (snd nv)) raw)
  = rows_calls (map (fun nv : bytes * vcall => RValue (fst nv) (snd nv) None) raw
                ++ map (fun ng : bytes * bytes => RGroup (fst ng) (snd ng)) rawsg).
Proof.
  intros raw rawsg. rewrite rows_calls_app.
  assert (E2 : rows_calls (map (fun ng : bytes * bytes => RGroup (fst ng) (snd ng)) rawsg) = []).
  { induction rawsg as [|x r IH]; [reflexivity|]. cbn. exact IH. }
  rewrite E2, app_nil_r.
  induction raw as [|x r IH]; [reflexivity|]. cbn. f_equal. exact IH.
Qed.
Lemma raw_groups : forall (raw : list (bytes * vcall)) (rawsg : list (bytes * bytes)),
  rawsg = rows_groups (map (fun nv : bytes * vcall => RValue (fst nv) (snd nv) None) raw
                       ++ map (fun ng : bytes * bytes => RGroup (fst ng) (snd ng)) rawsg).
Proof.
  intros raw rawsg. rewrite rows_groups_app.
  assert (E1 : rows_groups (map (fun nv : bytes * vcall => RValue (fst nv) (snd nv) None) raw) = []).
  { induction raw as [|x r IH]; [reflexivity|]. cbn. exact IH. }
  rewrite E1. cbn [app].
  induction rawsg as [|[n g] r IH]; [reflexivity|]. cbn. f_equal. exact IH.
Qed.

Definition wrap_sitem (w : wrapper) (it : sitem) : sitem :=
  match it with STimestamp t => STimestamp t | SValue n v => SValue n (wrap_value w v) end.
Lemma calls_wrap : forall w its, calls (map (wrap_item w) its) = map (wrap_sitem w) (calls its).
Proof.
  intros w its. unfold calls. rewrite !map_map. apply map_ext. now intros [t|n b v].
Qed.
Lemma rows_calls_wrap : forall w rs, rows_calls (map (wrap_row w) rs) = map (wrap_sitem w) (rows_calls rs).
Proof.
  intros w rs. unfold rows_calls. induction rs as [|r rs IH]; [reflexivity|].
  cbn [map flat_map]. rewrite map_app, IH. now destruct r.
Qed.
Lemma rows_groups_wrap : forall w rs, rows_groups (map (wrap_row w) rs) = rows_groups rs.
Proof.
  intros w rs. unfold rows_groups. induction rs as [|r rs IH]; [reflexivity|].
  cbn [map flat_map]. rewrite IH. now destruct r.
Qed.

Notation op_write := (op_write pascal snake kebab true).
Notation op_fields := (op_fields pascal snake kebab true).
Notation op_field := (op_field pascal snake kebab true).
Notation op_variants := (op_variants pascal snake kebab true).
Notation op_vdata := (op_vdata pascal snake kebab true).
Notation op_sg := (op_sg pascal snake kebab true fsg true).
Notation sg_fields := (sg_fields pascal snake kebab true fsg true).
Notation sg_field := (sg_field pascal snake kebab true fsg true).
Notation sg_variants := (sg_variants pascal snake kebab true fsg true).
Notation sg_vdata := (sg_vdata pascal snake kebab true fsg true).
Notation sp_entry := (sp_entry pascal snake kebab).
Notation sp_fields := (sp_fields pascal snake kebab).
Notation sp_field := (sp_field pascal snake kebab).
Notation sp_variants := (sp_variants pascal snake kebab).
Notation sp_vdata := (sp_vdata pascal snake kebab).
Notation units_ok := (units_ok pascal snake kebab).
Notation fields_units_ok := (fields_units_ok pascal snake kebab).
Notation kind_units_ok := (kind_units_ok pascal snake kebab).
Notation variants_units_ok := (variants_units_ok pascal snake kebab).
Notation vdata_units_ok := (vdata_units_ok pascal snake kebab).

Definition acc (n : ns) : bytes := c_flat (ns_prefix n).

Lemma tag_names_spec : forall ra pfx t s,
  sel4 s (tag_names pascal snake kebab true ra pfx t) = tag_name s pfx t.
Proof.
  intros. unfold tag_names, Spec.tag_name. rewrite sel4_mk4.
  destruct (tg_exact t); [reflexivity|]. apply metric_name_field_name.
Qed.

(* unfolding equations (cbn does not refold the other members of the mutual blocks) *)
Lemma op_fields_cons : forall ra pfx id k r n,
  op_fields ra pfx (FCons id k r) n = op_field ra pfx id k n ++ op_fields ra pfx r n.
Proof. reflexivity. Qed.
Lemma sg_fields_cons : forall ra pfx id k r n,
  sg_fields ra pfx (FCons id k r) n = sg_field ra pfx id k n ++ sg_fields ra pfx r n.
Proof. reflexivity. Qed.
Lemma sp_fields_cons : forall st pfx id k r a,
  sp_fields st pfx (FCons id k r) a = sp_field st pfx id k a ++ sp_fields st pfx r a.
Proof. reflexivity. Qed.
Lemma op_field_flatten : forall ra pfx id p o d n,
  op_field ra pfx id (KFlatten p o d) n
  = match o with
    | OptNone => []
    | Wrapped w => map (wrap_item w) (op_write d (append_to pascal snake kebab p (make_ns ra n)))
    | _ => op_write d (append_to pascal snake kebab p (make_ns ra n))
    end.
Proof. reflexivity. Qed.
Lemma sg_field_flatten : forall ra pfx id p o d n,
  sg_field ra pfx id (KFlatten p o d) n
  = match o with OptNone => [] | _ => op_sg d (flatten_sg_ns pascal snake kebab fsg p (make_ns ra n)) end.
Proof. reflexivity. Qed.
Lemma sp_field_flatten : forall st pfx id p o d a,
  sp_field st pfx id (KFlatten p o d) a
  = match o with
    | OptNone => []
    | Wrapped w => map (wrap_row w) (sp_entry d st (a ++ flat_prefix st p))
    | _ => sp_entry d st (a ++ flat_prefix st p)
    end.
Proof. reflexivity. Qed.
Lemma op_variants_cons : forall ra pfx tg id name d r i n,
  op_variants ra pfx tg (VCons id name d r) i n
  = match i with
    | O => (match tg with
            | None => []
            | Some t => [named (inflect (make_ns ra n) (tag_names pascal snake kebab true ra pfx t))
                               (VString (variant_name ra name id))]
            end) ++ op_vdata ra pfx d n
    | S j => op_variants ra pfx tg r j n
    end.
Proof. reflexivity. Qed.
Lemma sg_variants_cons : forall ra pfx tg id name d r i n,
  sg_variants ra pfx tg (VCons id name d r) i n
  = match i with
    | O => (match tg with
            | Some t => if tg_sg t
                        then [(fst (const_str_value (inflect (make_ns ra n) (tag_names pascal snake kebab true ra pfx t))),
                               variant_name ra name id)]
                        else []
            | None => []
            end) ++ sg_vdata ra pfx d n
    | S j => sg_variants ra pfx tg r j n
    end.
Proof. reflexivity. Qed.
Lemma sp_variants_cons : forall st ra pfx tg id name d r i a,
  sp_variants st ra pfx tg (VCons id name d r) i a
  = match i with
    | O => (match tg with
            | None => []
            | Some t => [RValue (a ++ tag_name st pfx t) (VString (variant_label ra name id))
                                (if tg_sg t then Some (variant_label ra name id) else None)]
            end) ++ sp_vdata st pfx d a
    | S j => sp_variants st ra pfx tg r j a
    end.
Proof. reflexivity. Qed.

Lemma flatten_sg_ns_on : forall p n, fsg = true -> flatten_sg_ns pascal snake kebab fsg p n = append_to pascal snake kebab p n.
Proof. intros p n E. unfold flatten_sg_ns. now rewrite E. Qed.
Lemma flatten_sg_ns_off : forall p n, fsg = false -> flatten_sg_ns pascal snake kebab fsg p n = n.
Proof. intros p n E. unfold flatten_sg_ns. now rewrite E. Qed.

Lemma or_andb : forall a b c : bool, (a = true \/ b && c = true) -> (a = true \/ b = true) /\ (a = true \/ c = true).
Proof. intros a b c [H|H]; [now split; left|]. apply andb_true_iff in H. destruct H. now split; right. Qed.

(* where nothing declares a sample group, nothing is reported — by the mechanism and by the specification *)
Definition tag_quiet (tg : option tag) : Prop := match tg with Some t => tg_sg t = false | None => True end.
Lemma no_groups_all :
  (forall d, no_groups d = true ->
     (forall n, op_sg d n = []) /\ (forall st a, rows_groups (sp_entry d st a) = [])) /\
  (forall fs, fields_no_groups fs = true ->
     (forall ra pfx n, sg_fields ra pfx fs n = []) /\ (forall st pfx a, rows_groups (sp_fields st pfx fs a) = [])) /\
  (forall k, kind_no_groups k = true ->
     (forall ra pfx id n, sg_field ra pfx id k n = []) /\ (forall st pfx id a, rows_groups (sp_field st pfx id k a) = [])) /\
  (forall vs, variants_no_groups vs = true ->
     (forall ra pfx tg i n, tag_quiet tg -> sg_variants ra pfx tg vs i n = []) /\
     (forall st ra pfx tg i a, tag_quiet tg -> rows_groups (sp_variants st ra pfx tg vs i a) = [])) /\
  (forall d, vdata_no_groups d = true ->
     (forall ra pfx n, sg_vdata ra pfx d n = []) /\ (forall st pfx a, rows_groups (sp_vdata st pfx d a) = [])).
Proof.
  apply tree_mutind.
  - (* EStruct *) intros ra pfx fs IH H. cbn in H. destruct (IH H) as [A B]. split; intros; [apply A | apply B].
  - (* EEnum *) intros ra pfx tg vs IH i H. cbn in H. apply andb_true_iff in H. destruct H as [Ht Hv].
    destruct (IH Hv) as [A B].
    assert (Q : tag_quiet tg). { destruct tg as [t|]; cbn in *; [now apply negb_true_iff in Ht | exact I]. }
    split; intros; [now apply A | now apply B].
  - (* FNil *) intros _. split; reflexivity.
  - (* FCons *) intros id k IHk r IHr H. cbn in H. apply andb_true_iff in H. destruct H as [Hk Hr].
    destruct (IHk Hk) as [K1 K2]. destruct (IHr Hr) as [R1 R2]. split; intros.
    + rewrite sg_fields_cons, K1, R1. reflexivity.
    + rewrite sp_fields_cons, rows_groups_app, K2, R2. reflexivity.
  - (* KField *) intros name unit sg v H. cbn in H. apply negb_true_iff in H. subst sg. split; reflexivity.
  - (* KFlatten *) intros p o d IH H. cbn in H. destruct (IH H) as [A B]. split; intros.
    + rewrite sg_field_flatten. destruct o; try reflexivity; apply A.
    + rewrite sp_field_flatten. destruct o; try reflexivity; rewrite ?rows_groups_wrap; apply B.
  - (* KFlattenEntry *) intros raw rawsg H. cbn in H. destruct rawsg; [|discriminate]. split; intros.
    + reflexivity.
    + cbn [Spec.sp_field]. now rewrite <- raw_groups.
  - (* KTimestamp *) intros. split; reflexivity.
  - (* KIgnore *) intros. split; reflexivity.
  - (* VNil *) intros _. split; reflexivity.
  - (* VCons *) intros id name d IHd r IHr H. cbn in H. apply andb_true_iff in H. destruct H as [Hd Hr].
    destruct (IHd Hd) as [D1 D2]. destruct (IHr Hr) as [R1 R2]. split; intros.
    + rewrite sg_variants_cons. destruct i as [|j]; [|now apply R1]. rewrite D1.
      destruct tg as [t|]; [|reflexivity]. cbn in H. now rewrite H.
    + rewrite sp_variants_cons. destruct i as [|j]; [|now apply R2]. rewrite rows_groups_app, D2.
      destruct tg as [t|]; [|reflexivity]. cbn in H. now rewrite H.
  - (* DUnit *) intros _. split; reflexivity.
  - (* DTuple *) intros fs IH H. cbn in H. destruct (IH H) as [A B]. split; intros; [apply A | apply B].
  - (* DStruct *) intros fs IH H. cbn in H. destruct (IH H) as [A B]. split; intros; [apply A | apply B].
Qed.

(* The refinement, for writes and for sample groups at once. *)
Lemma refine_all :
  (forall d, forall n, units_ok d = true ->
     calls (op_write d n) = rows_calls (sp_entry d (ns_style n) (acc n)) /\
     ((fsg = true \/ sg_safe d = true) -> op_sg d n = rows_groups (sp_entry d (ns_style n) (acc n)))) /\
  (forall fs, forall ra pfx n, fields_units_ok fs = true ->
     calls (op_fields ra pfx fs n) = rows_calls (sp_fields (in_force ra (ns_style n)) pfx fs (acc n)) /\
     ((fsg = true \/ fields_sg_safe fs = true) ->
      sg_fields ra pfx fs n = rows_groups (sp_fields (in_force ra (ns_style n)) pfx fs (acc n)))) /\
  (forall k, forall ra pfx id n, kind_units_ok k = true ->
     calls (op_field ra pfx id k n) = rows_calls (sp_field (in_force ra (ns_style n)) pfx id k (acc n)) /\
     ((fsg = true \/ kind_sg_safe k = true) ->
      sg_field ra pfx id k n = rows_groups (sp_field (in_force ra (ns_style n)) pfx id k (acc n)))) /\
  (forall vs, forall ra pfx tg i n, variants_units_ok vs = true ->
     calls (op_variants ra pfx tg vs i n) = rows_calls (sp_variants (in_force ra (ns_style n)) ra pfx tg vs i (acc n)) /\
     ((fsg = true \/ variants_sg_safe vs = true) ->
      sg_variants ra pfx tg vs i n = rows_groups (sp_variants (in_force ra (ns_style n)) ra pfx tg vs i (acc n)))) /\
  (forall d, forall ra pfx n, vdata_units_ok d = true ->
     calls (op_vdata ra pfx d n) = rows_calls (sp_vdata (in_force ra (ns_style n)) pfx d (acc n)) /\
     ((fsg = true \/ vdata_sg_safe d = true) ->
      sg_vdata ra pfx d n = rows_groups (sp_vdata (in_force ra (ns_style n)) pfx d (acc n)))).
Proof.
  apply tree_mutind.
  - (* EStruct *) intros ra pfx fs IH n H. cbn in H. destruct (IH ra pfx n H) as [A B]. split; [exact A | exact B].
  - (* EEnum *) intros ra pfx tg vs IH i n H. cbn in H. destruct (IH ra pfx tg i n H) as [A B]. split; [exact A | exact B].
  - (* FNil *) intros. cbn. split; reflexivity.
  - (* FCons *)
    intros id k IHk r IHr ra pfx n H. cbn in H. apply andb_true_iff in H. destruct H as [Hk Hr].
    rewrite op_fields_cons, sg_fields_cons, sp_fields_cons.
    destruct (IHk ra pfx id n Hk) as [K1 K2]. destruct (IHr ra pfx n Hr) as [R1 R2].
    rewrite calls_app, rows_calls_app, rows_groups_app. split; [now rewrite K1, R1|].
    intros G. cbn in G. apply or_andb in G. destruct G as [Gk Gr]. now rewrite (K2 Gk), (R2 Gr).
  - (* KField *)
    intros name unit sg v ra pfx id n H. cbn in H. apply andb_true_iff in H. destruct H as [H1 H2].
    cbn [Model.op_field Model.sg_field Spec.sp_field].
    assert (Ename : c_flat (inflect (make_ns ra n) (mk4 (fun s => metric_name pfx s name id)))
                    = acc n ++ field_name (in_force ra (ns_style n)) pfx name id).
    { rewrite inflect_flat, make_ns_prefix, make_ns_style, sel4_mk4. now rewrite metric_name_field_name. }
    split.
    + cbn [calls map rows_calls flat_map row_calls app]. rewrite strip_named, Ename.
      now rewrite (field_value_spec unit v H1 H2).
    + intros _. destruct sg; cbn [rows_groups flat_map row_groups app]; [|reflexivity].
      now rewrite const_str_value_flat, Ename, leaf_sg_spec.
  - (* KFlatten *)
    intros p o d IH ra pfx id n H. cbn in H.
    rewrite op_field_flatten, sg_field_flatten, sp_field_flatten.
    destruct (IH (append_to pascal snake kebab p (make_ns ra n)) H) as [W G].
    unfold acc in *. rewrite append_to_style, append_to_prefix, make_ns_style, make_ns_prefix in W, G.
    split; [destruct o; try reflexivity; try exact W; now rewrite calls_wrap, rows_calls_wrap, W|].
    intros S.
    assert (Goal : op_sg d (flatten_sg_ns pascal snake kebab fsg p (make_ns ra n))
                   = rows_groups (sp_entry d (in_force ra (ns_style n))
                                    (c_flat (ns_prefix n) ++ flat_prefix (in_force ra (ns_style n)) p))).
    { destruct (Bool.bool_dec fsg true) as [E|E].
      - rewrite (flatten_sg_ns_on _ _ E). apply G. now left.
      - apply not_true_is_false in E. rewrite (flatten_sg_ns_off _ _ E).
        destruct S as [S|S]; [congruence|]. destruct p as [q|]; cbn in S.
        + destruct (proj1 no_groups_all d S) as [A B]. now rewrite A, B.
        + cbn [append_to] in G. apply G. now right. }
    destruct o; try reflexivity; rewrite ?rows_groups_wrap; exact Goal.
  - (* KFlattenEntry *)
    intros raw rawsg ra pfx id n _. cbn [Model.op_field Model.sg_field Spec.sp_field].
    split; [apply raw_calls | intros _; apply raw_groups].
  - (* KTimestamp *) intros. split; reflexivity.
  - (* KIgnore *) intros. split; reflexivity.
  - (* VNil *) intros. split; reflexivity.
  - (* VCons *)
    intros id name d IHd r IHr ra pfx tg i n H. cbn in H. apply andb_true_iff in H. destruct H as [Hd Hr].
    rewrite op_variants_cons, sg_variants_cons, sp_variants_cons.
    destruct i as [|j].
    2:{ destruct (IHr ra pfx tg j n Hr) as [A B]. split; [exact A|]. intros G. cbn in G. apply or_andb in G. now apply B. }
    destruct (IHd ra pfx n Hd) as [D1 D2].
    rewrite calls_app, rows_calls_app, rows_groups_app, D1.
    assert (Ename : forall t, c_flat (inflect (make_ns ra n) (tag_names pascal snake kebab true ra pfx t))
                    = acc n ++ tag_name (in_force ra (ns_style n)) pfx t).
    { intros t. rewrite inflect_flat, make_ns_prefix, make_ns_style. now rewrite tag_names_spec. }
    split.
    + destruct tg as [t|]; [|reflexivity].
      cbn [calls map rows_calls flat_map row_calls app]. rewrite strip_named, Ename. now rewrite variant_name_label.
    + intros G. cbn in G. apply or_andb in G. destruct G as [Gd _]. rewrite (D2 Gd).
      destruct tg as [t|]; [|reflexivity].
      destruct (tg_sg t); cbn [rows_groups flat_map row_groups app]; [|reflexivity].
      now rewrite const_str_value_flat, Ename, variant_name_label.
  - (* DUnit *) intros. split; reflexivity.
  - (* DTuple *) intros fs IH ra pfx n H. cbn in H. destruct (IH ra pfx n H) as [A B]. split; [exact A | exact B].
  - (* DStruct *) intros fs IH ra pfx n H. cbn in H. destruct (IH ra pfx n H) as [A B]. split; [exact A | exact B].
Qed.

Theorem refine_calls : forall d, units_ok d = true ->
  map strip (root_write pascal snake kebab true d) = spec_calls pascal snake kebab d.
Proof. intros d H. destruct refine_all as [R _]. exact (proj1 (R d ns_root H)). Qed.

Theorem refine_items : forall d, units_ok d = true ->
  observe (root_write pascal snake kebab true d) = spec_items pascal snake kebab d.
Proof.
  intros d H. unfold observe. rewrite (refine_calls d H). unfold spec_calls, spec_items, row_items.
  induction (spec_rows pascal snake kebab d) as [|r rs IH]; [reflexivity|].
  cbn [flat_map]. rewrite flat_map_app. now rewrite IH.
Qed.

Theorem refine_groups : forall d, units_ok d = true -> (fsg = true \/ sg_safe d = true) ->
  root_sg pascal snake kebab true fsg true d = spec_groups pascal snake kebab d.
Proof. intros d H G. destruct refine_all as [R _]. exact (proj2 (R d ns_root H) G). Qed.

(* every sample-group pair carries the name of an item the same entry writes (or comes from a hand-written
   flattened Entry, which is free to say anything) *)
Theorem groups_use_written_names : forall d n g, units_ok d = true -> (fsg = true \/ sg_safe d = true) ->
  In (n, g) (root_sg pascal snake kebab true fsg true d) ->
  (exists b v, In (IValue n b v) (root_write pascal snake kebab true d)) \/
  In (RGroup n g) (spec_rows pascal snake kebab d).
Proof.
  intros d n g H G Hin. rewrite (refine_groups d H G) in Hin.
  unfold spec_groups in Hin. apply in_flat_map in Hin. destruct Hin as [r [Hr Hg]].
  destruct r as [t | nm v [gr|] | nm gr]; cbn in Hg; try contradiction.
  - destruct Hg as [Hg|[]]. inversion Hg; subst. left.
    assert (Hc : In (SValue n v) (spec_calls pascal snake kebab d)).
    { unfold spec_calls. apply in_flat_map. exists (RValue n v (Some g)). split; [exact Hr|now left]. }
    rewrite <- (refine_calls d H) in Hc. apply in_map_iff in Hc. destruct Hc as [it [Hs Hi]].
    destruct it as [t|nm b w]; cbn in Hs; [discriminate|]. inversion Hs; subst. now exists b, v.
  - destruct Hg as [Hg|[]]. inversion Hg; subst. now right.
Qed.

(* ---- counts: exactly one EntryWriter call per non-ignored field (both revisions of the code) ---- *)
Lemma count_all : forall fixed,
  (forall d, forall n, List.length (Model.op_write pascal snake kebab fixed d n) = n_calls d) /\
  (forall fs, forall ra pfx n, List.length (Model.op_fields pascal snake kebab fixed ra pfx fs n) = n_fields fs) /\
  (forall k, forall ra pfx id n, List.length (Model.op_field pascal snake kebab fixed ra pfx id k n) = n_kind k) /\
  (forall vs, forall ra pfx tg i n, List.length (Model.op_variants pascal snake kebab fixed ra pfx tg vs i n) = n_variants tg vs i) /\
  (forall d, forall ra pfx n, List.length (Model.op_vdata pascal snake kebab fixed ra pfx d n) = n_vdata d).
Proof.
  intros fixed. apply tree_mutind; intros; cbn; try reflexivity; try easy.
  - rewrite app_length. now rewrite H, H0.
  - destruct o; try apply H; try reflexivity. rewrite map_length. apply H.
  - now rewrite map_length.
  - destruct i as [|j]; [|apply H0]. rewrite app_length, H. now destruct tg.
Qed.

Theorem one_call_per_field : forall fixed d,
  List.length (root_write pascal snake kebab fixed d) = n_calls d.
Proof. intros. exact (proj1 (count_all fixed) d ns_root). Qed.

(* absent values contribute nothing, everything else is seen exactly once *)
Theorem observe_drops_exactly_absent : forall its,
  observe its = map strip (filter (fun it => match it with IValue _ _ VNone => false | _ => true end) its).
Proof.
  induction its as [|it r IH]; [reflexivity|].
  unfold observe in *. cbn [map flat_map filter]. rewrite IH.
  destruct it as [t|n b v]; [reflexivity|]. destruct v; reflexivity.
Qed.

(* ---- Cow kind: a name is borrowed exactly when it is at most 100 bytes long (either revision of the tag code) ---- *)
Lemma named_ok : forall n f v, cow_kind_ok (named (inflect n f) v).
Proof.
  intros. unfold named, cow_kind_ok. rewrite const_str_value_borrowed, const_str_value_flat. reflexivity.
Qed.

Lemma cow_all : forall ftag,
  (forall d, forall n, raw_short d = true -> Forall cow_kind_ok (Model.op_write pascal snake kebab ftag d n)) /\
  (forall fs, forall ra pfx n, fields_raw_short fs = true -> Forall cow_kind_ok (Model.op_fields pascal snake kebab ftag ra pfx fs n)) /\
  (forall k, forall ra pfx id n, kind_raw_short k = true -> Forall cow_kind_ok (Model.op_field pascal snake kebab ftag ra pfx id k n)) /\
  (forall vs, forall ra pfx tg i n, variants_raw_short vs = true -> Forall cow_kind_ok (Model.op_variants pascal snake kebab ftag ra pfx tg vs i n)) /\
  (forall d, forall ra pfx n, vdata_raw_short d = true -> Forall cow_kind_ok (Model.op_vdata pascal snake kebab ftag ra pfx d n)).
Proof.
  intros ftag. apply tree_mutind.
  - intros ra pfx fs IH n H. cbn in H. exact (IH ra pfx n H).
  - intros ra pfx tg vs IH i n H. cbn in H. exact (IH ra pfx tg i n H).
  - intros. constructor.
  - intros id k IHk r IHr ra pfx n H. cbn in H. apply andb_true_iff in H. destruct H as [Hk Hr].
    change (Forall cow_kind_ok (Model.op_field pascal snake kebab ftag ra pfx id k n
                                ++ Model.op_fields pascal snake kebab ftag ra pfx r n)).
    apply Forall_app. split; [now apply IHk | now apply IHr].
  - intros name unit sg v ra pfx id n _. cbn [Model.op_field]. constructor; [apply named_ok | constructor].
  - intros p o d IH ra pfx id n H. cbn in H.
    change (Forall cow_kind_ok (match o with
                                | OptNone => []
                                | Wrapped w => map (wrap_item w) (Model.op_write pascal snake kebab ftag d (append_to pascal snake kebab p (make_ns ra n)))
                                | _ => Model.op_write pascal snake kebab ftag d (append_to pascal snake kebab p (make_ns ra n))
                                end)).
    destruct o; try constructor; try (now apply IH).
    apply Forall_map. eapply Forall_impl; [|now apply IH]. now intros [t|nm b v].
  - intros raw rawsg ra pfx id n H. cbn in H. cbn [Model.op_field].
    induction raw as [|x r IH]; [constructor|]. cbn in H. apply andb_true_iff in H. destruct H as [Hx Hr].
    cbn [map]. constructor; [|now apply IH]. cbn. now rewrite Hx.
  - intros. cbn [Model.op_field]. constructor; [exact I | constructor].
  - intros. constructor.
  - intros. constructor.
  - intros id name d IHd r IHr ra pfx tg i n H. cbn in H. apply andb_true_iff in H. destruct H as [Hd Hr].
    change (Forall cow_kind_ok
      (match i with
       | O => (match tg with
               | None => []
               | Some t => [named (inflect (make_ns ra n) (tag_names pascal snake kebab ftag ra pfx t))
                                  (VString (variant_name ra name id))]
               end) ++ Model.op_vdata pascal snake kebab ftag ra pfx d n
       | S j => Model.op_variants pascal snake kebab ftag ra pfx tg r j n
       end)).
    destruct i as [|j]; [|now apply IHr].
    apply Forall_app. split; [|now apply IHd].
    destruct tg as [t|]; [|constructor]. constructor; [apply named_ok | constructor].
  - intros. constructor.
  - intros fs IH ra pfx n H. cbn in H. exact (IH ra pfx n H).
  - intros fs IH ra pfx n H. cbn in H. exact (IH ra pfx n H).
Qed.

Theorem cow_kind : forall ftag d, raw_short d = true ->
  Forall cow_kind_ok (root_write pascal snake kebab ftag d).
Proof. intros ftag d H. exact (proj1 (cow_all ftag) d ns_root H). Qed.

End Refinement.

(* ================================================================= the code as found: refutations *)

Definition P := to_pascal_case.
Definition S_ := to_snake_case.
Definition K := to_kebab_case.

(* (a) a flattened child with a flatten prefix: written "foo_op", sample group says "op".
   No inflection is involved: the refutation holds for every Inflector. *)
Definition witness_group_prefix : edef :=
  EStruct Preserve None
    (FCons (bs "child") (KFlatten (Some (PExact (bs "foo_"))) Plain
       (EStruct Preserve None (FCons (bs "op") (KField None None true (LStr (bs "Get"))) FNil))) FNil).

Lemma group_prefix_refuted : forall pascal snake kebab ftag fwrap,
  root_sg pascal snake kebab ftag false fwrap witness_group_prefix = [(bs "op", bs "Get")] /\
  spec_groups pascal snake kebab witness_group_prefix = [(bs "foo_op", bs "Get")] /\
  observe (root_write pascal snake kebab ftag witness_group_prefix) = [SValue (bs "foo_op") (VString (bs "Get"))] /\
  units_ok pascal snake kebab witness_group_prefix = true /\ sg_safe witness_group_prefix = false.
Proof. intros. vm_compute. repeat split. Qed.

(* (b) tag(name_exact = "MyOp") under rename_all = "snake_case" is written as "my_op" *)
Definition witness_tag_exact : edef :=
  EEnum Snake None (Some (Tag true (bs "MyOp") false)) (VCons (bs "Read") None DUnit VNil) 0.
Lemma tag_exact_refuted_as_found :
  observe (root_write P S_ K false witness_tag_exact) = [SValue (bs "my_op") (VString (bs "read"))] /\
  spec_items P S_ K witness_tag_exact = [SValue (bs "MyOp") (VString (bs "read"))].
Proof. vm_compute. split; reflexivity. Qed.

(* (c) a container exact_prefix is inflected in the tag's name: "API:" ++ ... becomes "api_..." *)
Definition witness_tag_exact_prefix : edef :=
  EEnum Snake (Some (PExact (bs "API:"))) (Some (Tag false (bs "Operation") false))
        (VCons (bs "Read") None (DStruct (FCons (bs "Bytes") (KField None None false (LNum (OU 1) 0)) FNil)) VNil) 0.
Lemma tag_exact_prefix_refuted_as_found :
  observe (root_write P S_ K false witness_tag_exact_prefix)
    = [SValue (bs "api_operation") (VString (bs "read")); SValue (bs "API:bytes") (VMetric (OU 1) 0 [] false)] /\
  spec_items P S_ K witness_tag_exact_prefix
    = [SValue (bs "API:operation") (VString (bs "read")); SValue (bs "API:bytes") (VMetric (OU 1) 0 [] false)].
Proof. vm_compute. split; reflexivity. Qed.

(* (d) an inflectable tag name is inflected twice, and Inflector is not idempotent:
   kebab("ApiCacheS3") = "api-cache-s3" but kebab("api-cache-s3") = "api-cache-s-3" *)
Definition witness_tag_twice : edef :=
  EEnum Kebab None (Some (Tag false (bs "ApiCacheS3") false)) (VCons (bs "Read") None DUnit VNil) 0.
Lemma tag_twice_refuted_as_found :
  observe (root_write P S_ K false witness_tag_twice) = [SValue (bs "api-cache-s-3") (VString (bs "read"))] /\
  spec_items P S_ K witness_tag_twice = [SValue (bs "api-cache-s3") (VString (bs "read"))].
Proof. vm_compute. split; reflexivity. Qed.

(* (e) a flattened child wrapped in WithDimensions / ForceFlag: the wrappers' InflectableEntry impls did not forward
   sample_group(), so the child's sample group vanished (for every Inflector) *)
Definition witness_wrapped_group : edef :=
  EStruct Preserve None
    (FCons (bs "child") (KFlatten None (Wrapped (WDims [(bs "k", bs "v")]))
       (EStruct Preserve None
          (FCons (bs "op") (KField None None true (LStr (bs "Get")))
          (FCons (bs "n") (KField None None false (LNum (OU 1) 0)) FNil)))) FNil).
Lemma wrapped_group_refuted_as_found : forall pascal snake kebab ftag fsg,
  root_sg pascal snake kebab ftag fsg false witness_wrapped_group = [] /\
  spec_groups pascal snake kebab witness_wrapped_group = [(bs "op", bs "Get")] /\
  observe (root_write pascal snake kebab ftag witness_wrapped_group)
    = [SValue (bs "op") (VString (bs "Get")); SValue (bs "n") (VMetric (OU 1) 0 [(bs "k", bs "v")] false)] /\
  root_sg pascal snake kebab ftag fsg true witness_wrapped_group = [(bs "op", bs "Get")].
Proof. intros. vm_compute. destruct fsg; repeat split. Qed.

(* ================================================================= trees used by the pinned Examples *)
(* metrique/README.md "Combining renaming strategies" (+ an absent Option, a unit, a value(string) enum) *)
Definition readme_combined : edef :=
  EStruct Kebab None
    (FCons (bs "foo_bar") (KField None None false (LNum (OU 1) 0))
    (FCons (bs "overridden_field") (KField (Some (bs "custom_name")) None false (LStr (bs "x")))
    (FCons (bs "nested") (KFlatten (Some (PInfl (bs "his-"))) Plain
       (EStruct Pascal (Some (PInfl (bs "api_")))
          (FCons (bs "latency") (KField None (Some 4) false (LNum (OU 5) 0))
          (FCons (bs "response_time") (KField (Some (bs "exact_name")) None false (LOpt false (LNum (OU 0) 0)))
          (FCons (bs "operation") (KField None None true (LEnum Snake [(bs "CountDucks", None)] 0)) FNil)))))
     FNil))).


(* the examples of the macro documentation, names only *)
Definition names_of (its : list item) : list bytes :=
  flat_map (fun it => match it with IValue n _ _ => [n] | ITimestamp _ => [] end) its.
Definition sub_ducks : edef :=
  EStruct Preserve None
    (FCons (bs "request_latency") (KField None None false (LNum (OF 0) 4))
    (FCons (bs "number_of_ducks") (KField (Some (bs "NDucks")) None false (LNum (OU 0) 0)) FNil)).
Definition run_names (d : edef) : list bytes := names_of (root_write to_pascal_case to_snake_case to_kebab_case true d).
Definition spec_names (d : edef) : list bytes :=
  flat_map (fun it => match it with SValue n _ => [n] | STimestamp _ => [] end)
           (spec_items to_pascal_case to_snake_case to_kebab_case d).

