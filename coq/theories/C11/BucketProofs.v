(* C11 — the bucket layout of histogram::Config::new(4, n): range, partition, inverse, error bound.
   All statements are for every value (no bound other than the configuration's own maximum). *)
From Coq Require Import List NArith ZArith Bool Lia.
From MV Require Import C11.Model.
Import ListNotations.
Local Open Scope N_scope.
(* N.div / N.modulo are zified to Z.quot / Z.rem, which lia only understands with this hook *)
Ltac Zify.zify_post_hook ::= Z.to_euclidean_division_equations.

(* ------------------------------------------------------------ powers of two *)

Lemma shl1 a : N.shiftl 1 a = 2 ^ a.
Proof. apply N.shiftl_1_l. Qed.

Lemma pow2_pos a : 0 < 2 ^ a.
Proof. apply N.neq_0_lt_0, N.pow_nonzero; discriminate. Qed.

Lemma pow2_split a b : b <= a -> 2 ^ a = 2 ^ b * 2 ^ (a - b).
Proof. intros H. rewrite <- N.pow_add_r. f_equal. lia. Qed.

Lemma pow2_S a : 2 ^ (a + 1) = 2 * 2 ^ a.
Proof. rewrite N.add_1_r, N.pow_succ_r'. reflexivity. Qed.

Lemma pow2_mono a b : a <= b -> 2 ^ a <= 2 ^ b.
Proof. intros. apply N.pow_le_mono_r; lia. Qed.

(* ------------------------------------------------------------ closed forms *)

(* the formula of index_to_upper_bound without the special case for the last index *)
Definition upper_raw (i : N) : N :=
  let g := i / 16 in let h := i mod 16 in
  if g <? 1 then h else 2 ^ (g + 3) + 2 ^ (g - 1) * (h + 1) - 1.
Definition lower_cf (i : N) : N :=
  let g := i / 16 in let h := i mod 16 in
  if g <? 1 then h else 2 ^ (g + 3) + 2 ^ (g - 1) * h.

Lemma sub_div_mod i : i - i / 16 * 16 = i mod 16.
Proof.
  pose proof (N.div_mod i 16 ltac:(discriminate)).
  generalize dependent (i / 16). generalize dependent (i mod 16). intros. lia.
Qed.

Lemma lower_closed i : index_to_lower_bound i = lower_cf i.
Proof.
  unfold index_to_lower_bound, lower_cf, grouping_power.
  rewrite !shl1, N.shiftr_div_pow2. change (2 ^ 4) with 16. rewrite sub_div_mod.
  destruct (i / 16 <? 1) eqn:E; [reflexivity|]. apply N.ltb_ge in E.
  replace (4 + i / 16 - 1) with (i / 16 + 3) by lia. reflexivity.
Qed.

Lemma upper_closed_not_last n i : i <> total_buckets n - 1 -> index_to_upper_bound n i = upper_raw i.
Proof.
  intros Hi. unfold index_to_upper_bound, upper_raw, grouping_power.
  fold (total_buckets n).
  destruct (i =? total_buckets n - 1) eqn:E; [apply N.eqb_eq in E; contradiction|].
  rewrite !shl1, N.shiftr_div_pow2. change (2 ^ 4) with 16. rewrite sub_div_mod.
  destruct (i / 16 <? 1) eqn:E1; [lia|]. apply N.ltb_ge in E1.
  replace (4 + i / 16 - 1) with (i / 16 + 3) by lia. reflexivity.
Qed.

(* the special case only avoids the u64 overflow of the general formula: over N both agree *)
Lemma upper_last n : 5 <= n -> upper_raw (total_buckets n - 1) = max_value n.
Proof.
  intros Hn. unfold total_buckets, upper_bin_count, lower_bin_count, cutoff_power, upper_bin_divisions, max_value.
  replace (32 + (n - 5) * 16 - 1) with ((n - 4) * 16 + 15) by lia.
  unfold upper_raw.
  assert (Hq : ((n - 4) * 16 + 15) / 16 = n - 4) by lia.
  assert (Hr : ((n - 4) * 16 + 15) mod 16 = 15) by lia.
  rewrite Hq, Hr.
  destruct (n - 4 <? 1) eqn:E.
  - apply N.ltb_lt in E. lia.
  - apply N.ltb_ge in E.
    replace (n - 4 + 3) with (n - 1) by lia.
    replace (n - 4 - 1) with (n - 5) by lia. change (15 + 1) with (2 ^ 4).
    rewrite <- N.pow_add_r. replace (n - 5 + 4) with (n - 1) by lia.
    replace n with (n - 1 + 1) at 3 by lia. rewrite pow2_S. lia.
Qed.

Lemma upper_closed n i : 5 <= n -> index_to_upper_bound n i = upper_raw i.
Proof.
  intros Hn. destruct (N.eq_dec i (total_buckets n - 1)) as [->|Hne].
  - rewrite upper_last by assumption. unfold index_to_upper_bound. fold (total_buckets n).
    rewrite N.eqb_refl. reflexivity.
  - apply upper_closed_not_last; assumption.
Qed.

(* value_to_index above the linear range: 16 * (p - 3) + (v - 2^p) / 2^(p - 4) with p = log2 v *)
Lemma index_big n v : 32 <= v -> v <= max_value n ->
  value_to_index n v = Some (16 * (N.log2 v - 3) + (v - 2 ^ N.log2 v) / 2 ^ (N.log2 v - 4)).
Proof.
  intros Hv Hm. unfold value_to_index, cutoff_value, lower_bin_count, cutoff_power, upper_bin_divisions, grouping_power.
  destruct (v <? 32) eqn:E; [apply N.ltb_lt in E; lia|].
  destruct (max_value n <? v) eqn:E2; [apply N.ltb_lt in E2; lia|].
  rewrite shl1, N.shiftr_div_pow2.
  assert (5 <= N.log2 v). { change 5 with (N.log2 32). apply N.log2_le_mono. assumption. }
  f_equal. lia.
Qed.

Lemma index_small n v : v < 32 -> value_to_index n v = Some v.
Proof.
  intros Hv. unfold value_to_index, cutoff_value. apply N.ltb_lt in Hv. rewrite Hv. reflexivity.
Qed.

(* ------------------------------------------------------------ the decomposition v = 2^p + r *)

Lemma log2_decomp v : 0 < v -> 2 ^ N.log2 v <= v /\ v < 2 * 2 ^ N.log2 v.
Proof.
  intros H. pose proof (N.log2_spec v H) as [A B]. rewrite N.pow_succ_r' in B. split; assumption.
Qed.

(* for v >= 32: index i = 16 (p-3) + o with o < 16, and i/16 = p-3, i mod 16 = o *)
Lemma big_offset v : 32 <= v ->
  let p := N.log2 v in let w := 2 ^ (p - 4) in let o := (v - 2 ^ p) / w in
  5 <= p /\ 2 ^ p = 16 * w /\ 0 < w /\ o < 16 /\ w * o <= v - 2 ^ p /\ v - 2 ^ p < w * o + w /\ 2 ^ p <= v.
Proof.
  intros Hv p w o.
  assert (Hp : 5 <= p). { change 5 with (N.log2 32). apply N.log2_le_mono. assumption. }
  assert (Hw : 0 < w) by apply pow2_pos.
  assert (H16 : 2 ^ p = 16 * w).
  { unfold w. change 16 with (2 ^ 4). rewrite <- N.pow_add_r. f_equal. lia. }
  destruct (log2_decomp v ltac:(lia)) as [A B]. fold p in A, B.
  pose proof (N.mul_div_le (v - 2 ^ p) w ltac:(lia)) as D1.
  pose proof (N.mul_succ_div_gt (v - 2 ^ p) w ltac:(lia)) as D2.
  fold o in D1, D2.
  assert (o < 16).
  { apply N.div_lt_upper_bound; lia. }
  repeat split; try assumption; lia.
Qed.

Lemma divmod16 g o : o < 16 -> (16 * g + o) / 16 = g /\ (16 * g + o) mod 16 = o.
Proof.
  intros Ho. split.
  - rewrite N.mul_comm, N.div_add_l by discriminate. rewrite N.div_small by assumption. lia.
  - rewrite N.add_comm, N.mul_comm, N.mod_add by discriminate. apply N.mod_small; assumption.
Qed.

(* ------------------------------------------------------------ range *)

(* c11_index_range: every value lies between the bounds of the bucket it is counted in *)
Theorem index_range n v i : 5 <= n -> value_to_index n v = Some i ->
  i < total_buckets n /\ index_to_lower_bound i <= v /\ v <= index_to_upper_bound n i.
Proof.
  intros Hn Hi. rewrite lower_closed, upper_closed by assumption.
  destruct (N.lt_ge_cases v 32) as [Hs|Hb].
  - rewrite index_small in Hi by assumption. injection Hi as <-.
    unfold total_buckets, lower_bin_count, lower_cf, upper_raw.
    split; [lia|].
    destruct (v / 16 <? 1) eqn:E.
    + apply N.ltb_lt in E. assert (v / 16 = 0) by lia. apply N.div_small_iff in H; [|discriminate].
      rewrite N.mod_small by assumption. lia.
    + apply N.ltb_ge in E.
      assert (Hg : v / 16 = 1).
      { assert (v / 16 < 2) by (apply N.div_lt_upper_bound; lia). lia. }
      rewrite Hg. change (2 ^ (1 + 3)) with 16. change (2 ^ (1 - 1)) with 1.
      pose proof (N.div_mod v 16 ltac:(discriminate)). lia.
  - assert (Hm : v <= max_value n).
    { unfold value_to_index, cutoff_value in Hi. destruct (v <? 32) eqn:E; [apply N.ltb_lt in E; lia|].
      destruct (max_value n <? v) eqn:E2; [discriminate|]. apply N.ltb_ge in E2. assumption. }
    rewrite index_big in Hi by assumption.
    assert (Hi' : i = 16 * (N.log2 v - 3) + (v - 2 ^ N.log2 v) / 2 ^ (N.log2 v - 4)) by congruence.
    clear Hi. subst i.
    pose proof (big_offset v Hb) as (Hp & H16 & Hw & Ho & D1 & D2 & Hle).
    set (p := N.log2 v) in *. set (w := 2 ^ (p - 4)) in *. set (o := (v - 2 ^ p) / w) in *.
    assert (Hpn : p < n).
    { apply N.log2_lt_pow2; [lia|]. unfold max_value in Hm. pose proof (pow2_pos n). lia. }
    split.
    { unfold total_buckets, lower_bin_count, upper_bin_count, cutoff_power, upper_bin_divisions. clearbody o w p. lia. }
    unfold lower_cf, upper_raw.
    destruct (divmod16 (p - 3) o Ho) as [-> ->].
    destruct (p - 3 <? 1) eqn:E; [apply N.ltb_lt in E; lia|].
    replace (p - 3 + 3) with p by lia. replace (p - 3 - 1) with (p - 4) by lia. fold w.
    rewrite H16. clearbody o w p. lia.
Qed.

(* ------------------------------------------------------------ inverse: every value inside a bucket's
   bounds is counted in that bucket *)

Lemma bucket_shape i : 32 <= i ->
  let g := i / 16 in let h := i mod 16 in let u := 2 ^ (g - 2) in
  2 <= g /\ h < 16 /\ i = 16 * g + h /\ 0 < u /\ 2 ^ (g - 1) = 2 * u /\ 2 ^ (g + 3) = 32 * u.
Proof.
  intros Hi g h u.
  assert (Hg : 2 <= g). { unfold g. change 2 with (32 / 16). apply N.div_le_mono; [discriminate|assumption]. }
  assert (Hh : h < 16) by (apply N.mod_lt; discriminate).
  pose proof (N.div_mod i 16 ltac:(discriminate)) as Hdm. fold g h in Hdm.
  repeat split; try assumption.
  - apply pow2_pos.
  - unfold u. replace (g - 1) with (g - 2 + 1) by lia. apply pow2_S.
  - unfold u. change 32 with (2 ^ 5). rewrite <- N.pow_add_r. f_equal. lia.
Qed.

Theorem index_of_bucket n i v : 5 <= n -> i < total_buckets n ->
  index_to_lower_bound i <= v -> v <= index_to_upper_bound n i -> value_to_index n v = Some i.
Proof.
  intros Hn Hi. rewrite lower_closed, upper_closed by assumption.
  unfold lower_cf, upper_raw. intros Hlo Hhi.
  destruct (N.lt_ge_cases i 32) as [Hs|Hb].
  - (* linear part: lower = upper = i *)
    assert (v = i).
    { destruct (i / 16 <? 1) eqn:E.
      - apply N.ltb_lt in E. assert (i / 16 = 0) by lia. apply N.div_small_iff in H; [|discriminate].
        rewrite N.mod_small in Hlo, Hhi by assumption. lia.
      - apply N.ltb_ge in E.
        assert (Hg : i / 16 = 1).
        { assert (i / 16 < 2) by (apply N.div_lt_upper_bound; lia). lia. }
        rewrite Hg in Hlo, Hhi. change (2 ^ (1 + 3)) with 16 in *. change (2 ^ (1 - 1)) with 1 in *.
        pose proof (N.div_mod i 16 ltac:(discriminate)). lia. }
    subst v. apply index_small. assumption.
  - pose proof (bucket_shape i Hb) as (Hg & Hh & Hdm & Hu & H1 & H3).
    set (g := i / 16) in *. set (h := i mod 16) in *. set (u := 2 ^ (g - 2)) in *.
    destruct (g <? 1) eqn:E; [apply N.ltb_lt in E; lia|].
    rewrite H1, H3 in Hlo, Hhi.
    assert (Hgn : g + 3 < n).
    { unfold total_buckets, lower_bin_count, upper_bin_count, cutoff_power, upper_bin_divisions in Hi. lia. }
    assert (Hlog : N.log2 v = g + 3).
    { apply N.log2_unique; [lia|]. rewrite N.pow_succ_r', H3. clearbody g h u. nia. }
    assert (Hmax : v <= max_value n).
    { unfold max_value.
      assert (2 ^ (g + 4) <= 2 ^ n) by (apply pow2_mono; lia).
      replace (g + 4) with (g + 3 + 1) in H by lia. rewrite pow2_S, H3 in H. nia. }
    rewrite index_big by (assumption || nia).
    rewrite Hlog. replace (g + 3 - 3) with g by lia. replace (g + 3 - 4) with (g - 1) by lia.
    rewrite H1, H3. f_equal. rewrite Hdm. f_equal.
    symmetry. apply N.div_unique with (r := v - 32 * u - 2 * u * h); nia.
Qed.

Corollary index_of_lower n i : 5 <= n -> i < total_buckets n -> value_to_index n (index_to_lower_bound i) = Some i.
Proof.
  intros Hn Hi. apply index_of_bucket; try assumption; [lia|].
  rewrite lower_closed, upper_closed by assumption. unfold lower_cf, upper_raw.
  destruct (i / 16 <? 1); [lia|]. pose proof (pow2_pos (i / 16 - 1)). nia.
Qed.

(* lower <= upper, consecutive buckets are adjacent, the first starts at 0, the last ends at the maximum:
   the buckets partition [0, 2^n) *)
Theorem bounds_ordered n i : 5 <= n -> index_to_lower_bound i <= index_to_upper_bound n i.
Proof.
  intros Hn. rewrite lower_closed, upper_closed by assumption. unfold lower_cf, upper_raw.
  destruct (i / 16 <? 1); [lia|]. pose proof (pow2_pos (i / 16 - 1)). nia.
Qed.

Theorem buckets_adjacent n i : 5 <= n -> index_to_upper_bound n i + 1 = index_to_lower_bound (i + 1).
Proof.
  intros Hn. rewrite lower_closed, upper_closed by assumption. unfold lower_cf, upper_raw.
  pose proof (N.div_mod i 16 ltac:(discriminate)) as Hdm.
  assert (Hh : i mod 16 < 16) by (apply N.mod_lt; discriminate).
  set (g := i / 16) in *. set (h := i mod 16) in *.
  destruct (N.eq_dec h 15) as [H15|H15].
  - assert (Hq : (i + 1) / 16 = g + 1 /\ (i + 1) mod 16 = 0).
    { replace (i + 1) with (16 * (g + 1) + 0) by lia. apply divmod16. lia. }
    destruct Hq as [-> ->].
    destruct (g + 1 <? 1) eqn:E1; [apply N.ltb_lt in E1; lia|].
    replace (g + 1 - 1) with g by lia. rewrite N.mul_0_r, N.add_0_r.
    destruct (g <? 1) eqn:E.
    + apply N.ltb_lt in E. assert (g = 0) by lia. subst g. rewrite H. rewrite H15. reflexivity.
    + apply N.ltb_ge in E. rewrite H15.
      replace (g + 1 + 3) with (g - 1 + 5) by lia. replace (g + 3) with (g - 1 + 4) by lia.
      rewrite !N.pow_add_r. pose proof (pow2_pos (g - 1)).
      change (2 ^ 5) with 32. change (2 ^ 4) with 16. lia.
  - assert (Hq : (i + 1) / 16 = g /\ (i + 1) mod 16 = h + 1).
    { replace (i + 1) with (16 * g + (h + 1)) by lia. apply divmod16. lia. }
    destruct Hq as [-> ->].
    destruct (g <? 1); [lia|]. pose proof (pow2_pos (g - 1)). pose proof (pow2_pos (g + 3)). nia.
Qed.

Theorem first_lower : index_to_lower_bound 0 = 0.
Proof. reflexivity. Qed.

Theorem last_upper n : index_to_upper_bound n (total_buckets n - 1) = max_value n.
Proof. unfold index_to_upper_bound. fold (total_buckets n). rewrite N.eqb_refl. reflexivity. Qed.

(* all the intermediate values of the bound formulas fit in u64 for n = 64, i.e. the N arithmetic of the
   model is the u64 arithmetic of the code (for the last index the code takes the special case) *)
Theorem upper_fits n i : 5 <= n -> i < total_buckets n -> index_to_upper_bound n i <= max_value n.
Proof.
  intros Hn Hi.
  destruct (N.eq_dec i (total_buckets n - 1)) as [->|Hne]; [rewrite last_upper; lia|].
  assert (Hi1 : i + 1 < total_buckets n) by lia.
  pose proof (buckets_adjacent n i Hn) as Hadj.
  pose proof (index_of_lower n (i + 1) Hn Hi1) as Hidx.
  unfold value_to_index in Hidx.
  destruct (index_to_lower_bound (i + 1) <? cutoff_value) eqn:E.
  - apply N.ltb_lt in E. unfold cutoff_value in E. unfold max_value.
    assert (2 ^ 5 <= 2 ^ n) by (apply pow2_mono; assumption). change (2 ^ 5) with 32 in H. lia.
  - destruct (max_value n <? index_to_lower_bound (i + 1)) eqn:E2; [discriminate|].
    apply N.ltb_ge in E2. lia.
Qed.

(* monotone: larger values never land in an earlier bucket *)
Theorem index_monotone n v v' i i' : 5 <= n -> v <= v' ->
  value_to_index n v = Some i -> value_to_index n v' = Some i' -> i <= i'.
Proof.
  intros Hn Hv Hi Hi'.
  destruct (N.le_gt_cases i i') as [|Hgt]; [assumption|exfalso].
  pose proof (index_range n v i Hn Hi) as (Hb & Hlo & Hhi).
  pose proof (index_range n v' i' Hn Hi') as (Hb' & Hlo' & Hhi').
  (* upper i' < lower i because lower is increasing along adjacency *)
  assert (Hmono : forall k j, index_to_upper_bound n j < index_to_lower_bound (j + 1 + N.of_nat k)).
  { induction k; intros j.
    - rewrite N.add_0_r. rewrite <- buckets_adjacent with (n := n) by assumption. lia.
    - specialize (IHk (j + 1)).
      pose proof (bounds_ordered n (j + 1) Hn). pose proof (buckets_adjacent n j Hn).
      replace (j + 1 + N.of_nat (Datatypes.S k)) with (j + 1 + 1 + N.of_nat k) by lia. lia. }
  specialize (Hmono (N.to_nat (i - i' - 1)) i').
  replace (i' + 1 + N.of_nat (N.to_nat (i - i' - 1))) with i in Hmono by lia. lia.
Qed.

(* ------------------------------------------------------------ midpoints and the error bound *)

Lemma midpoint_same a b : a <= b -> midpoint' a b = midpoint a b.
Proof.
  intros H. unfold midpoint, midpoint'.
  replace (a + b) with ((b - a) + a * 2) by lia. rewrite N.div_add by discriminate. lia.
Qed.

Theorem mid_in_bucket n i : 5 <= n -> index_to_lower_bound i <= bucket_mid n i <= index_to_upper_bound n i.
Proof.
  intros Hn. unfold bucket_mid, midpoint. pose proof (bounds_ordered n i Hn).
  split.
  - apply N.div_le_lower_bound; lia.
  - apply N.div_le_upper_bound; lia.
Qed.

(* c11_reagg, integer core: the midpoint of a bucket is counted in that bucket again *)
Theorem index_of_mid n i : 5 <= n -> i < total_buckets n -> value_to_index n (bucket_mid n i) = Some i.
Proof.
  intros Hn Hi. pose proof (mid_in_bucket n i Hn). apply index_of_bucket; tauto.
Qed.

(* closed form of the midpoint *)
Lemma mid_closed n i : 5 <= n ->
  bucket_mid n i = if i <? 32 then i else 2 ^ (i / 16 + 3) + 2 ^ (i / 16 - 1) * (i mod 16) + 2 ^ (i / 16 - 2) - 1.
Proof.
  intros Hn. unfold bucket_mid, midpoint. rewrite lower_closed, upper_closed by assumption.
  unfold lower_cf, upper_raw.
  destruct (i <? 32) eqn:E32.
  - apply N.ltb_lt in E32.
    destruct (i / 16 <? 1) eqn:E.
    + apply N.ltb_lt in E. assert (i / 16 = 0) by lia. apply N.div_small_iff in H; [|discriminate].
      rewrite N.mod_small by assumption. replace (i + i) with (i * 2) by lia. apply N.div_mul. discriminate.
    + apply N.ltb_ge in E.
      assert (Hg : i / 16 = 1).
      { assert (i / 16 < 2) by (apply N.div_lt_upper_bound; lia). lia. }
      rewrite Hg. change (2 ^ (1 + 3)) with 16. change (2 ^ (1 - 1)) with 1.
      pose proof (N.div_mod i 16 ltac:(discriminate)).
      replace (16 + 1 * (i mod 16) + (16 + 1 * (i mod 16 + 1) - 1)) with (i * 2) by lia.
      apply N.div_mul. discriminate.
  - apply N.ltb_ge in E32.
    pose proof (bucket_shape i E32) as (Hg & Hh & Hdm & Hu & H1 & H3).
    set (g := i / 16) in *. set (h := i mod 16) in *. set (u := 2 ^ (g - 2)) in *.
    destruct (g <? 1) eqn:E; [apply N.ltb_lt in E; lia|].
    rewrite H1, H3.
    symmetry. apply N.div_unique with (r := 1); nia.
Qed.

(* The error of reporting the midpoint: s = a/d is the (rational) scaled value, v = floor s the integer the
   code buckets; m the midpoint reported for it.  |m - s| <= s/32 + 1, in cross-multiplied form. *)
Theorem mid_error n a d i : 5 <= n -> 0 < d -> value_to_index n (a / d) = Some i ->
  let m := bucket_mid n i in
  32 * (m * d) <= 33 * a + 32 * d /\ 31 * a <= 32 * (m * d) + 32 * d.
Proof.
  intros Hn Hd Hi m.
  pose proof (index_range n (a / d) i Hn Hi) as (Hb & Hlo & Hhi).
  pose proof (N.mul_div_le a d ltac:(lia)) as D1.
  pose proof (N.mul_succ_div_gt a d ltac:(lia)) as D2.
  set (v := a / d) in *.
  unfold m. rewrite mid_closed by assumption.
  rewrite lower_closed in Hlo. rewrite upper_closed in Hhi by assumption. unfold lower_cf, upper_raw in *.
  destruct (i <? 32) eqn:E32.
  - apply N.ltb_lt in E32.
    assert (v = i).
    { destruct (N.lt_ge_cases v 32) as [Hs|Hbg].
      - rewrite index_small in Hi by assumption. congruence.
      - exfalso.
        assert (Hm : v <= max_value n).
        { unfold value_to_index, cutoff_value in Hi. destruct (v <? 32) eqn:E; [apply N.ltb_lt in E; lia|].
          destruct (max_value n <? v) eqn:E2; [discriminate|]. apply N.ltb_ge in E2. assumption. }
        rewrite index_big in Hi by assumption.
        assert (Hi' : i = 16 * (N.log2 v - 3) + (v - 2 ^ N.log2 v) / 2 ^ (N.log2 v - 4)) by congruence.
        assert (5 <= N.log2 v). { change 5 with (N.log2 32). apply N.log2_le_mono. assumption. }
        clear - Hi' H E32. generalize dependent ((v - 2 ^ N.log2 v) / 2 ^ (N.log2 v - 4)). intros. lia. }
    subst i. clearbody v. nia.
  - apply N.ltb_ge in E32.
    pose proof (bucket_shape i E32) as (Hg & Hh & Hdm & Hu & H1 & H3).
    set (g := i / 16) in *. set (h := i mod 16) in *. set (u := 2 ^ (g - 2)) in *.
    destruct (g <? 1) eqn:E; [apply N.ltb_lt in E; lia|].
    rewrite H1, H3 in *.
    (* lo = 32u + 2uh <= v <= lo + 2u - 1, m = lo + u - 1, v*d <= a < (v+1)*d *)
    set (lo := 32 * u + 2 * u * h) in *.
    assert (Hlo32 : 32 * u <= lo) by (unfold lo; nia).
    assert (A1 : lo * d <= a) by nia.
    assert (A2 : a < (lo + 2 * u) * d) by nia.
    assert (A3 : 32 * (u * d) <= a) by nia.
    split; nia.
Qed.

(* The property's wording.  x = a/d is the recorded value (any non-negative rational, in particular every
   finite double), the code buckets v = floor (1024 x), and reports m / 1024. *)
Theorem reported_within_16th n a d i : 5 <= n -> 0 < d -> d <= 32 * a ->
  value_to_index n (1024 * a / d) = Some i ->
  let m := bucket_mid n i in
  16 * (m * d) <= 17 * (1024 * a) /\ 15 * (1024 * a) <= 16 * (m * d).
Proof.
  intros Hn Hd Hx Hi m. destruct (mid_error n (1024 * a) d i Hn Hd Hi) as [H1 H2]. fold m in H1, H2. split; lia.
Qed.

Theorem reported_within_1024th n a d i : 5 <= n -> 0 < d -> 32 * a < d ->
  value_to_index n (1024 * a / d) = Some i ->
  let m := bucket_mid n i in
  m * d <= 1024 * a /\ 1024 * a < m * d + d.
Proof.
  intros Hn Hd Hx Hi m.
  assert (Hv : 1024 * a / d < 32).
  { apply N.div_lt_upper_bound; lia. }
  rewrite index_small in Hi by assumption.
  assert (Hi' : i = 1024 * a / d) by congruence. clear Hi.
  unfold m. rewrite mid_closed by assumption. rewrite Hi'.
  apply N.ltb_lt in Hv. rewrite Hv.
  pose proof (N.mul_div_le (1024 * a) d ltac:(lia)).
  pose proof (N.mul_succ_div_gt (1024 * a) d ltac:(lia)).
  split; nia.
Qed.
