(* C11 — SortAndMerge: the drained runs are strictly ascending, expand to the sorted non-NaN input, and each
   run is represented by the first recorded of its equal values. *)
From Coq Require Import List NArith ZArith Bool Lia Permutation Sorted.
From MV Require Import C11.Model.
Import ListNotations.
Local Open Scope N_scope.

Arguments okey : simpl never.

Definition key_le (a b : N) : Prop := (okey a <= okey b)%Z.
Definition run_lt (p q : N * N) : Prop := (okey (fst p) < okey (fst q))%Z.

(* ------------------------------------------------------------ the sort *)

Lemma insert_perm x l : Permutation (insert_by x l) (x :: l).
Proof.
  induction l as [|y r IH]; simpl; [reflexivity|].
  destruct (okey x <=? okey y)%Z; [reflexivity|].
  rewrite IH. apply perm_swap.
Qed.

Theorem sort_perm l : Permutation (sort_by_key l) l.
Proof. induction l; simpl; [reflexivity|]. rewrite insert_perm. constructor. assumption. Qed.

Lemma insert_sorted x l : StronglySorted key_le l -> StronglySorted key_le (insert_by x l).
Proof.
  induction 1 as [|y r HS IH HF]; simpl.
  - constructor; constructor.
  - destruct (okey x <=? okey y)%Z eqn:E.
    + apply Z.leb_le in E. constructor; [constructor; assumption|].
      constructor; [exact E|]. rewrite Forall_forall in *. intros z Hz. specialize (HF z Hz). unfold key_le in *. lia.
    + apply Z.leb_gt in E. constructor; [assumption|].
      rewrite Forall_forall in *. intros z Hz.
      apply (Permutation_in _ (insert_perm x r)) in Hz. destruct Hz as [<-|Hz]; [unfold key_le; lia|auto].
Qed.

Theorem sort_sorted l : StronglySorted key_le (sort_by_key l).
Proof. induction l; simpl; [constructor|]. apply insert_sorted. assumption. Qed.

(* stability: values with the same key keep their recording order *)
Lemma insert_filter k x l :
  filter (fun y => (okey y =? k)%Z) (insert_by x l) =
  if (okey x =? k)%Z then x :: filter (fun y => (okey y =? k)%Z) l else filter (fun y => (okey y =? k)%Z) l.
Proof.
  induction l as [|y r IH]; simpl.
  - destruct (okey x =? k)%Z; reflexivity.
  - destruct (okey x <=? okey y)%Z eqn:E; simpl.
    + destruct (okey x =? k)%Z; reflexivity.
    + apply Z.leb_gt in E. rewrite IH.
      destruct (okey x =? k)%Z eqn:Ex; [|reflexivity].
      apply Z.eqb_eq in Ex. destruct (okey y =? k)%Z eqn:Ey; [apply Z.eqb_eq in Ey; lia|reflexivity].
Qed.

Theorem sort_stable k l :
  filter (fun y => (okey y =? k)%Z) (sort_by_key l) = filter (fun y => (okey y =? k)%Z) l.
Proof.
  induction l as [|x r IH]; simpl; [reflexivity|]. rewrite insert_filter, IH. reflexivity.
Qed.

(* ------------------------------------------------------------ the run-length loop *)

Definition expand (out : list (N * N)) : list Z :=
  concat (map (fun p => repeat (okey (fst p)) (N.to_nat (snd p))) out).
Definition runs_total (out : list (N * N)) : N := fold_right (fun p acc => snd p + acc) 0 out.

Lemma repeat_snoc {A} (x : A) k : repeat x (Datatypes.S k) = repeat x k ++ [x].
Proof. induction k; simpl; [reflexivity|]. f_equal. exact IHk. Qed.

Lemma merge_loop_expand l : forall cur cnt, cnt + N.of_nat (length l) < 2 ^ 64 ->
  StronglySorted key_le (cur :: l) ->
  expand (merge_loop cur cnt l) = repeat (okey cur) (N.to_nat cnt) ++ map okey l.
Proof.
  induction l as [|v r IH]; intros cur cnt Hb HS; simpl.
  - unfold expand. simpl. rewrite !app_nil_r. reflexivity.
  - simpl in Hb.
    assert (HSr : StronglySorted key_le (cur :: r)).
    { inversion HS as [|? ? H1 H2]; subst. inversion H1; subst. inversion H2; subst. constructor; assumption. }
    destruct (okey v =? okey cur)%Z eqn:E.
    + apply Z.eqb_eq in E. rewrite N.min_l by lia.
      rewrite IH by (assumption || lia).
      replace (N.to_nat (cnt + 1)) with (Datatypes.S (N.to_nat cnt)) by lia.
      rewrite repeat_snoc, <- app_assoc. simpl. rewrite E. reflexivity.
    + unfold expand. simpl. fold (expand (merge_loop v 1 r)).
      rewrite IH.
      * reflexivity.
      * lia.
      * inversion HS; assumption.
Qed.

Lemma merge_loop_total l : forall cur cnt, cnt + N.of_nat (length l) < 2 ^ 64 ->
  runs_total (merge_loop cur cnt l) = cnt + N.of_nat (length l).
Proof.
  induction l as [|v r IH]; intros cur cnt Hb; simpl in *; [lia|].
  destruct (okey v =? okey cur)%Z.
  - rewrite N.min_l by lia. rewrite IH by lia. lia.
  - simpl. rewrite IH by lia. lia.
Qed.

Lemma merge_loop_sorted l : forall cur cnt, StronglySorted key_le (cur :: l) ->
  StronglySorted run_lt (merge_loop cur cnt l) /\
  Forall (fun p => (okey cur <= okey (fst p))%Z) (merge_loop cur cnt l).
Proof.
  induction l as [|v r IH]; intros cur cnt HS; simpl.
  - split; [constructor; constructor|]. constructor; [simpl; lia|constructor].
  - assert (HSr : StronglySorted key_le (cur :: r)).
    { inversion HS as [|? ? H1 H2]; subst. inversion H1; subst. inversion H2; subst. constructor; assumption. }
    assert (Hcv : (okey cur <= okey v)%Z).
    { inversion HS as [|? ? H1 H2]; subst. inversion H2; subst. assumption. }
    destruct (okey v =? okey cur)%Z eqn:E.
    + apply IH. assumption.
    + apply Z.eqb_neq in E.
      assert (HSv : StronglySorted key_le (v :: r)) by (inversion HS; assumption).
      destruct (IH v 1 HSv) as [S1 F1]. split.
      * constructor; [assumption|]. rewrite Forall_forall in *. intros p Hp. specialize (F1 p Hp).
        unfold run_lt. simpl. lia.
      * constructor; [simpl; lia|]. rewrite Forall_forall in *. intros p Hp. specialize (F1 p Hp). lia.
Qed.

(* the representative of each run is the first value of its key in the (sorted) list, counts are positive *)
Lemma merge_loop_repr l : forall cur cnt p, 0 < cnt -> In p (merge_loop cur cnt l) ->
  0 < snd p /\ (fst p = cur \/ In (fst p) l).
Proof.
  induction l as [|v r IH]; intros cur cnt p Hc Hin; simpl in *.
  - destruct Hin as [<-|[]]. simpl. auto.
  - destruct (okey v =? okey cur)%Z.
    + apply IH in Hin; [|lia]. destruct Hin as [H1 H2]. split; [assumption|]. tauto.
    + destruct Hin as [<-|Hin]; [simpl; auto|].
      destruct (IH v 1 p ltac:(lia) Hin) as [H1 H2]. split; [assumption|].
      destruct H2 as [H2|H2]; [right; left; symmetry; exact H2|right; right; exact H2].
Qed.

(* ------------------------------------------------------------ sort_merge *)

Lemma filter_length_le {A} (f : A -> bool) l : (length (filter f l) <= length l)%nat.
Proof. induction l; simpl; [lia|]. destruct (f a); simpl; lia. Qed.

Definition non_nan (values : list N) : list N := filter (fun v => negb (is_nan_bits v)) values.

Lemma filter_sorted f l : StronglySorted key_le l -> StronglySorted key_le (filter f l).
Proof.
  induction 1; simpl; [constructor|].
  destruct (f a); [|assumption]. constructor; [assumption|].
  apply Forall_forall. intros x Hx. apply filter_In in Hx. destruct Hx as [Hx _].
  rewrite Forall_forall in H0. auto.
Qed.

(* c11_sort_merge (1): strictly ascending, so equal values are merged into one run *)
Theorem sort_merge_ascending values : StronglySorted run_lt (sort_merge values).
Proof.
  unfold sort_merge.
  pose proof (filter_sorted (fun v => negb (is_nan_bits v)) _ (sort_sorted values)) as HS.
  destruct (filter _ (sort_by_key values)) as [|first r]; [constructor|].
  apply merge_loop_sorted. assumption.
Qed.

(* c11_sort_merge (2): the runs expand to exactly the sorted non-NaN recorded values *)
Theorem sort_merge_expand values : N.of_nat (length values) < 2 ^ 64 ->
  expand (sort_merge values) = map okey (non_nan (sort_by_key values)).
Proof.
  intros Hb. unfold sort_merge, non_nan.
  pose proof (filter_sorted (fun v => negb (is_nan_bits v)) _ (sort_sorted values)) as HS.
  assert (Hlen : (length (filter (fun v => negb (is_nan_bits v)) (sort_by_key values)) <= length values)%nat).
  { rewrite <- (Permutation_length (sort_perm values)). apply filter_length_le. }
  destruct (filter _ (sort_by_key values)) as [|first r]; [reflexivity|].
  simpl in Hlen. rewrite merge_loop_expand; [reflexivity| |assumption]. lia.
Qed.

(* c11_count for SortAndMerge: the occurrences add up to the number of non-NaN recorded values *)
Theorem sort_merge_total values : N.of_nat (length values) < 2 ^ 64 ->
  runs_total (sort_merge values) = N.of_nat (length (non_nan values)).
Proof.
  intros Hb. unfold sort_merge.
  assert (Hperm : Permutation (non_nan (sort_by_key values)) (non_nan values)).
  { unfold non_nan. clear Hb. pose proof (sort_perm values) as HP.
    induction HP; simpl.
    - constructor.
    - destruct (negb (is_nan_bits x)); [constructor|]; assumption.
    - destruct (negb (is_nan_bits x)), (negb (is_nan_bits y)); try reflexivity. apply perm_swap.
    - etransitivity; eassumption. }
  rewrite <- (Permutation_length Hperm). unfold non_nan.
  assert (Hlen : (length (filter (fun v => negb (is_nan_bits v)) (sort_by_key values)) <= length values)%nat).
  { rewrite <- (Permutation_length (sort_perm values)). apply filter_length_le. }
  destruct (filter _ (sort_by_key values)) as [|first r]; [reflexivity|].
  simpl in *. rewrite merge_loop_total by lia. lia.
Qed.

(* c11_sort_merge (3): every run has a positive count and is labelled with one of the recorded non-NaN
   values; runs have distinct keys, so each non-NaN recorded value belongs to exactly one run *)
Theorem sort_merge_runs values p : In p (sort_merge values) ->
  0 < snd p /\ In (fst p) values /\ is_nan_bits (fst p) = false.
Proof.
  unfold sort_merge. intros Hin.
  destruct (filter (fun v => negb (is_nan_bits v)) (sort_by_key values)) as [|first r] eqn:E; [contradiction|].
  destruct (merge_loop_repr r first 1 p ltac:(lia) Hin) as [H1 H2]. split; [assumption|].
  assert (Hf : In (fst p) (first :: r)) by (destruct H2 as [->|H2]; [left; reflexivity|right; assumption]).
  rewrite <- E in Hf. apply filter_In in Hf. destruct Hf as [Hs Hn].
  split; [|apply negb_true_iff in Hn; assumption].
  apply (Permutation_in _ (sort_perm values)). assumption.
Qed.

(* NaN sorts after everything else (OrderedFloat: NaN is the greatest value) *)
Lemma okey_nan_greatest b : is_nan_bits b = false -> (okey b < nan_key)%Z.
Proof.
  unfold okey, nan_key. intros H. rewrite H.
  assert (Hm : N.land b (2 ^ 63 - 1) < 2 ^ 63).
  { change (2 ^ 63 - 1) with (N.ones 63). rewrite N.land_ones. apply N.mod_lt. discriminate. }
  destruct (N.testbit b 63); lia.
Qed.
