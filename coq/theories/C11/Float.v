(* C11 — mechanism model, floating-point layer (Flocq binary64, bit-exact).

   metrique-aggregation/src/histogram.rs: scale_up / scale_down, the saturating `as u64` after
   `.min(u64::MAX as f64)`, the observation capture of add_value (Unsigned, Floating, Repeated -> mean with
   occurrences), the Repeated { total, occurrences } written on drain, re-aggregation of a closed histogram;
   metrique-writer-core/src/value/primitive.rs: Duration -> milliseconds; unit.rs: Convert::convert.
   A float travels as its IEEE-754 bit pattern (N); NaN results are canonicalised on output. *)
From Coq Require Import List NArith ZArith Bool.
From Flocq Require Import Core.Core IEEE754.Binary IEEE754.Bits.
From Flocq Require IEEE754.BinarySingleNaN.
Notation mode_NE := BinarySingleNaN.mode_NE.
From MV Require Import C11.Model.
Import ListNotations.
Local Open Scope N_scope.

Definition f64 := binary64.
Definition of_bits (b : N) : f64 := b64_of_bits (Z.of_N b).
Definition canonical_nan : N := 9221120237041090560.      (* 0x7ff8000000000000 *)
Definition to_bits (x : f64) : N :=
  match x with
  | B754_nan _ _ _ _ _ => canonical_nan
  | _ => Z.to_N (bits_of_b64 x)
  end.

Definition fmul (a b : f64) : f64 := b64_mult mode_NE a b.
Definition fdiv (a b : f64) : f64 := b64_div mode_NE a b.
Definition fadd (a b : f64) : f64 := b64_plus mode_NE a b.

(* `v as f64` for an unsigned integer: round to nearest, ties to even *)
Definition of_u64 (v : N) : f64 :=
  binary_normalize 53 1024 (eq_refl Lt) (eq_refl Lt) mode_NE (Z.of_N v) 0 false.

Definition u64_max : N := 2 ^ 64 - 1.
(* `x as u64`: truncates toward zero, saturates, NaN -> 0 *)
Definition to_u64 (x : f64) : N :=
  match x with
  | B754_zero _ _ _ => 0
  | B754_infinity _ _ s => if s then 0 else u64_max
  | B754_nan _ _ _ _ _ => 0
  | B754_finite _ _ s m e _ =>
      if s then 0
      else N.min u64_max (match e with
                          | Z0 => Npos m
                          | Zpos p => Npos m * 2 ^ Npos p
                          | Zneg p => Npos m / 2 ^ Npos p
                          end)
  end.
(* `x as u32`, same rules *)
Definition to_u32 (x : f64) : N := N.min (2 ^ 32 - 1) (to_u64 x).

Definition is_nan_f (x : f64) : bool := match x with B754_nan _ _ _ _ _ => true | _ => false end.
(* f64::min: if one argument is NaN the other is returned *)
Definition fmin (a b : f64) : f64 :=
  if is_nan_f a then b else if is_nan_f b then a
  else match b64_compare a b with Some Gt => b | _ => a end.

Definition f1024 : f64 := of_u64 1024.
Definition f2p64 : f64 := of_u64 u64_max.                  (* u64::MAX as f64 = 2^64 *)

Definition scale_up (x : f64) : f64 := fmul x f1024.
Definition scale_down (x : f64) : f64 := fdiv x f1024.

(* the u64 that record_many buckets: scale_up(value).min(u64::MAX as f64) as u64 *)
Definition scaled_u64 (x : f64) : N := to_u64 (fmin (scale_up x) f2p64).

(* ---------------------------------------------------------------- observations *)

Inductive obs :=
| OUnsigned (v : N)
| OFloating (bits : N)
| ORepeated (total_bits : N) (occ : N).

(* Convert::convert with RATIO given by its bits; RATIO == 1.0 returns the observation unchanged *)
Definition one_bits : N := 4607182418800017408.            (* 0x3ff0000000000000 *)
Definition convert (ratio : N) (o : obs) : obs :=
  if ratio =? one_bits then o
  else match o with
       | OUnsigned u => OFloating (to_bits (fmul (of_u64 u) (of_bits ratio)))
       | OFloating f => OFloating (to_bits (fmul (of_bits f) (of_bits ratio)))
       | ORepeated t occ => ORepeated (to_bits (fmul (of_bits t) (of_bits ratio))) occ
       end.

(* Duration::as_secs_f64() * 1000.0 *)
Definition duration_millis (secs nanos : N) : N :=
  to_bits (fmul (fadd (of_u64 secs) (fdiv (of_u64 nanos) (of_u64 1000000000))) (of_u64 1000)).

(* what one observation makes the strategy record: (value, count); Repeated with 0 occurrences is skipped *)
Definition capture (o : obs) : option (f64 * N) :=
  match o with
  | OUnsigned v => Some (of_u64 v, 1)
  | OFloating b => Some (of_bits b, 1)
  | ORepeated t occ => if 0 <? occ then Some (fdiv (of_bits t) (of_u64 occ), occ) else None
  end.

(* ---------------------------------------------------------------- the strategies *)

(* exponential (both variants): the integer-layer record of one captured observation *)
Definition exp_rec (o : obs) : list rec :=
  match capture o with
  | Some (x, c) => [(scaled_u64 x, c)]
  | None => []
  end.

(* drain: midpoint as f64 / 1024, Repeated { total: midpoint * count as f64, occurrences: count } *)
Definition exp_obs (p : N * N) : obs :=
  let midf := scale_down (of_u64 (fst p)) in
  ORepeated (to_bits (fmul midf (of_u64 (snd p)))) (snd p).
Definition exp_drain (h : hist) : list obs := map exp_obs (drain_mids 64 h).

Definition exp_close (os : list obs) : list obs := exp_drain (hist_run 64 (flat_map exp_rec os)).

(* SortAndMerge: record_many extends the vector; drain sorts, drops NaN, merges equal values *)
Definition sm_values (os : list obs) : list N :=
  fold_left (fun acc o => match capture o with
                          | Some (x, c) => sm_record acc (to_bits x) c
                          | None => acc
                          end) os [].
Definition sm_obs (p : N * N) : obs :=
  ORepeated (to_bits (fmul (of_bits (fst p)) (of_u64 (snd p)))) (snd p).
Definition sm_close (os : list obs) : list obs := map sm_obs (sort_merge (sm_values os)).

(* ---------------------------------------------------------------- sources (the T of Histogram<T, S>) *)

Inductive source :=
| SObs (o : obs)                          (* T = Observation, u64 (Unsigned), f64 (Floating) *)
| SDuration (secs nanos : N)              (* T = Duration: Floating(millis) *)
| SConv (ratio : N) (s : source).         (* T = WithUnit<_, U>: Convert::convert on every observation *)

Fixpoint source_obs (s : source) : list obs :=
  match s with
  | SObs o => [o]
  | SDuration secs nanos => [OFloating (duration_millis secs nanos)]
  | SConv ratio s' => map (convert ratio) (source_obs s')
  end.

Inductive strategy := Exponential | AtomicExponential | SortMerge.

Definition close (st : strategy) (srcs : list source) : list obs :=
  let os := flat_map source_obs srcs in
  match st with
  | Exponential | AtomicExponential => exp_close os
  | SortMerge => sm_close os
  end.

(* re-aggregation: AggregateValue<HistogramClosed<T>>::insert replays the closed observations into a fresh
   histogram of strategy st2 (the same capture rules), which is then closed *)
Definition reaggregate (st1 st2 : strategy) (srcs : list (list source)) : list obs :=
  let closed := flat_map (close st1) srcs in
  match st2 with
  | Exponential | AtomicExponential => exp_close closed
  | SortMerge => sm_close closed
  end.
