(* C11 — specification: what a user of the histograms is promised, as executable predicates over exact
   rationals.  Nothing here mentions buckets, indices or midpoints.

   exponential strategies: the closed distribution is a list of (total, occurrences) in strictly ascending
     reported value total/occurrences; there is an assignment of every recorded occurrence to one reported
     occurrence (a transport plan) such that a recorded value x is reported within x/16 (within 1/1024 when
     x < 1/32); so in particular the occurrence totals agree.
     Outside the property's domain the promise is only where the occurrence is counted: negative values as 0,
     values >= 2^54 (and +inf, NaN) at the top of the range.
   sort-and-merge: strictly ascending runs, one per distinct non-NaN recorded value, with the number of times
     that value was recorded. *)
From Coq Require Import List NArith ZArith QArith Qabs Bool.
From MV Require Import C11.Model.
Import ListNotations.

(* ---------------------------------------------------------------- binary64 bit patterns as rationals *)

Inductive fval := FNaN | FInf (neg : bool) | FFin (q : Q).

Definition pow2Q (e : Z) : Q :=
  match e with
  | Z0 => 1
  | Zpos p => inject_Z (2 ^ Zpos p)
  | Zneg p => 1 # (2 ^ p)
  end.

Definition decode (b : N) : fval :=
  let neg := N.testbit b 63 in
  let ex := N.land (N.shiftr b 52) 2047 in
  let frac := N.land b (2 ^ 52 - 1) in
  if (ex =? 2047)%N then (if (frac =? 0)%N then FInf neg else FNaN)
  else
    let m := if (ex =? 0)%N then frac else (frac + 2 ^ 52)%N in
    let e := if (ex =? 0)%N then (-1074)%Z else (Z.of_N ex - 1075)%Z in
    let q := inject_Z (Z.of_N m) * pow2Q e in
    FFin (Qred (if neg then - q else q)).

(* ---------------------------------------------------------------- recorded and reported occurrences *)

(* an observation handed to add_value, decoded: what was recorded, how many times *)
Inductive sobs := SU (v : N) | SF (bits : N) | SR (total_bits : N) (occ : N).

(* where a recorded value must be reported *)
Inductive place := PZero | PVal (x : Q) | PTop.

Definition place_of (v : fval) : place :=
  match v with
  | FNaN => PTop
  | FInf true => PZero
  | FInf false => PTop
  | FFin q => if Qle_bool q 0 then PZero
              else if Qle_bool (inject_Z (2 ^ 54)) q then PTop else PVal q
  end.

Definition qdiv_n (q : Q) (n : N) : Q := Qred (q / inject_Z (Z.of_N n)).

Definition fval_div (v : fval) (n : N) : fval :=
  match v with FFin q => FFin (qdiv_n q n) | other => other end.

(* (place, count) of one observation; Repeated with no occurrences records nothing *)
Definition recorded (o : sobs) : option (place * N) :=
  match o with
  | SU v => Some (place_of (FFin (inject_Z (Z.of_N v))), 1%N)
  | SF b => Some (place_of (decode b), 1%N)
  | SR t occ => if (0 <? occ)%N then Some (place_of (fval_div (decode t) occ), occ) else None
  end.

(* identical observations are grouped first (multiplicity), so that the predicates stay cheap on long inputs *)
Definition sobs_eqb (a b : sobs) : bool :=
  match a, b with
  | SU x, SU y => (x =? y)%N
  | SF x, SF y => (x =? y)%N
  | SR t c, SR t' c' => (t =? t')%N && (c =? c')%N
  | _, _ => false
  end.
Fixpoint bump (o : sobs) (l : list (sobs * N)) : list (sobs * N) :=
  match l with
  | [] => [(o, 1%N)]
  | (p, k) :: r => if sobs_eqb o p then (p, (k + 1)%N) :: r else (p, k) :: bump o r
  end.
Definition compress (ins : list sobs) : list (sobs * N) := fold_left (fun acc o => bump o acc) ins [].
Definition recorded_m (ok : sobs * N) : option (place * N) :=
  match recorded (fst ok) with Some (p, c) => Some (p, (c * snd ok)%N) | None => None end.

Definition place_le (a b : place) : bool :=
  match a, b with
  | PZero, _ => true
  | _, PTop => true
  | PVal x, PVal y => Qle_bool x y
  | PVal _, PZero => false
  | PTop, _ => false
  end.

(* merge sort (n log n comparisons of exact rationals) *)
Fixpoint merge_places (fuel : nat) (a b : list (place * N)) : list (place * N) :=
  match fuel with
  | O => a ++ b
  | Datatypes.S f =>
    match a, b with
    | [], _ => b
    | _, [] => a
    | x :: a', y :: b' => if place_le (fst x) (fst y) then x :: merge_places f a' b else y :: merge_places f a b'
    end
  end.
Fixpoint split_places (l : list (place * N)) : list (place * N) * list (place * N) :=
  match l with
  | x :: y :: r => let '(a, b) := split_places r in (x :: a, y :: b)
  | other => (other, [])
  end.
Fixpoint sort_places_fuel (fuel : nat) (l : list (place * N)) : list (place * N) :=
  match fuel with
  | O => l
  | Datatypes.S f =>
    match l with
    | [] | [_] => l
    | _ => let '(a, b) := split_places l in
           merge_places (length l) (sort_places_fuel f a) (sort_places_fuel f b)
    end
  end.
Definition sort_places (l : list (place * N)) : list (place * N) := sort_places_fuel (length l) l.

(* a reported observation: Repeated { total, occurrences } *)
Definition reported_value (total_bits occ : N) : option Q :=
  match decode total_bits with
  | FFin t => if (0 <? occ)%N then Some (qdiv_n t occ) else None
  | _ => None
  end.

(* the promised accuracy, with the stated float tolerance 2^-50 relative to the reported value *)
Definition tol (r : Q) : Q := Qabs r * (1 # (2 ^ 50)).
Definition admissible (p : place) (r : Q) : bool :=
  match p with
  | PZero => Qle_bool (Qabs r) 0
  | PTop => Qle_bool (inject_Z (2 ^ 53)) r
  | PVal x =>
      let bound := if Qle_bool (1 # 32) x then x / 16 else 1 # 1024 in
      Qle_bool (Qabs (r - x)) (bound + tol r)
  end.

(* the plan: recorded occurrences (ascending) are poured into the reported ones (ascending) *)
Fixpoint pour (fuel : nat) (ins : list (place * N)) (outs : list (Q * N)) : bool :=
  match fuel with
  | O => false
  | Datatypes.S fuel' =>
    match ins, outs with
    | [], [] => true
    | [], _ :: _ => false
    | _ :: _, [] => false
    | (p, c) :: ins', (r, cap) :: outs' =>
        if admissible p r then
          match (c ?= cap)%N with
          | Lt => pour fuel' ins' ((r, cap - c)%N :: outs')
          | Eq => pour fuel' ins' outs'
          | Gt => pour fuel' ((p, c - cap)%N :: ins') outs'
          end
        else false
    end
  end.

Fixpoint strictly_ascending (l : list Q) : bool :=
  match l with
  | a :: ((b :: _) as r) => negb (Qle_bool b a) && strictly_ascending r
  | _ => true
  end.

Fixpoint all_some {A} (l : list (option A)) : option (list A) :=
  match l with
  | [] => Some []
  | Some x :: r => match all_some r with Some r' => Some (x :: r') | None => None end
  | None :: _ => None
  end.

Fixpoint keep_some {A} (l : list (option A)) : list A :=
  match l with
  | [] => []
  | Some x :: r => x :: keep_some r
  | None :: r => keep_some r
  end.

(* the exponential promise *)
Definition exp_holds (ins : list sobs) (outs : list (N * N)) : bool :=
  match all_some (map (fun o => reported_value (fst o) (snd o)) outs) with
  | None => false                                  (* a non-finite total or zero occurrences *)
  | Some rs =>
      let recs := sort_places (filter (fun pc => (0 <? snd pc)%N) (keep_some (map recorded_m (compress ins)))) in
      strictly_ascending rs &&
      pour (length recs + length outs + 1) recs (combine rs (map snd outs))
  end.

(* ---------------------------------------------------------------- sort-and-merge *)

(* recorded values as keys with multiplicity *)
Definition sm_key (v : fval) : option Q :=
  match v with FFin q => Some q | FInf true => Some (- inject_Z (2 ^ 2000)) | FInf false => Some (inject_Z (2 ^ 2000)) | FNaN => None end.

Definition sm_recorded (ok : sobs * N) : list (option Q * N) :=
  match fst ok with
  | SU v => [(Some (inject_Z (Z.of_N v)), snd ok)]
  | SF b => [(sm_key (decode b), snd ok)]
  | SR t occ => []      (* means are float quotients: covered by the mechanism comparison only *)
  end.

Definition count_key (k : Q) (l : list (option Q * N)) : N :=
  fold_right (fun p acc => match fst p with
                           | Some q => if Qeq_bool q k then (snd p + acc)%N else acc
                           | None => acc
                           end) 0%N l.

Definition has_repeated (ins : list sobs) : bool :=
  existsb (fun o => match o with SR _ _ => true | _ => false end) ins.

(* a reported run (total, occ) stands for the value v with total = v * occ; with occ = 1 it is total itself.
   The value of a run is recovered exactly as total / occ only when that division is exact, so the predicate
   is stated on keys that are recorded: run value r matches recorded key k when |r - k| <= 2^-50 |k|. *)
Definition close_to (r k : Q) : bool := Qle_bool (Qabs (r - k)) (Qabs k * (1 # (2 ^ 50))).

(* integers above 2^53 are rounded by `as f64` before they are stored: outside the exactness condition *)
Definition exact_ints (ins : list sobs) : bool :=
  forallb (fun o => match o with SU v => (v <=? 2 ^ 53)%N | _ => true end) ins.

(* Two different recorded values closer than 2^-48 (relative) cannot be told apart from the totals of their
   runs (total = value * count is rounded): such inputs are left to the bit-exact mechanism comparison. *)
Definition apart (a b : Q) : bool :=
  Qeq_bool a b || negb (Qle_bool (Qabs (a - b)) ((Qabs a + Qabs b) * (1 # (2 ^ 48)))).
Fixpoint well_separated (l : list Q) : bool :=
  match l with
  | [] => true
  | a :: r => forallb (apart a) r && well_separated r
  end.

(* products value * count stay finite when |value| <= 2^1000 and the count fits in u64 *)
Definition moderate (l : list (option Q * N)) : bool :=
  forallb (fun p => match fst p with Some q => Qle_bool (Qabs q) (inject_Z (2 ^ 1000)) | None => true end) l.

Definition sm_holds (ins : list sobs) (outs : list (N * N)) : bool :=
  if has_repeated ins then true else
  let recs := flat_map sm_recorded (compress ins) in
  if negb (moderate recs && exact_ints ins && well_separated (keep_some (map fst recs))) then true else
  let runs := map (fun o => (match decode (fst o) with
                             | FFin t => Some (qdiv_n t (snd o))
                             | FInf neg => sm_key (FInf neg)
                             | FNaN => None
                             end, snd o)) outs in
  match all_some (map fst runs) with
  | None => false
  | Some rs =>
      strictly_ascending rs &&
      forallb (fun o => (0 <? snd o)%N) outs &&
      (* every recorded non-NaN value has a run with its multiplicity *)
      forallb (fun p => match fst p with
                        | None => true
                        | Some k => existsb (fun run => match fst run with
                                                        | Some r => close_to r k && (snd run =? count_key k recs)%N
                                                        | None => false
                                                        end) runs
                        end) recs &&
      (* and there is nothing else: totals agree *)
      (fold_right (fun o acc => (snd o + acc)%N) 0%N outs =?
       fold_right (fun p acc => match fst p with Some _ => (snd p + acc)%N | None => acc end) 0%N recs)%N
  end.

(* ---------------------------------------------------------------- re-aggregation *)

Definition run_value (o : N * N) : option Q :=
  match decode (fst o) with
  | FFin t => if (0 <? snd o)%N then Some (qdiv_n t (snd o)) else None
  | _ => None
  end.

(* re-aggregating closed histograms into the same kind of strategy changes neither counts nor reported
   values: the final runs are the closed runs with equal reported values merged, nothing else *)
Definition reagg_holds (check_separation : bool) (closed final : list (N * N)) : bool :=
  match all_some (map run_value closed), all_some (map run_value final) with
  | Some cs, Some fs =>
      if check_separation && negb (well_separated cs) then true else
      let crs := combine cs (map snd closed) in
      let frs := combine fs (map snd final) in
      strictly_ascending fs &&
      forallb (fun cr => existsb (fun fr =>
                 close_to (fst fr) (fst cr) &&
                 (snd fr =? fold_right (fun cr' acc => if close_to (fst cr') (fst cr) then (snd cr' + acc)%N else acc) 0%N crs)%N)
               frs) crs &&
      (fold_right (fun o acc => (snd o + acc)%N) 0%N final =? fold_right (fun o acc => (snd o + acc)%N) 0%N closed)%N
  | _, _ => false
  end.

(* ---------------------------------------------------------------- the layout, per value *)

(* a value v counted in a bucket reported as [lo, hi] with midpoint mid: inside the bounds, and the midpoint
   is within v/32 + 1 of it (the scaled form of the 6.25% / 1/1024 promise) *)
Definition layout_holds (v lo hi mid : N) : bool :=
  ((lo <=? v) && (v <=? hi) && (lo <=? mid) && (mid <=? hi) &&
   (32 * (mid - v) <=? v + 32) && (32 * (v - mid) <=? v + 32))%N.
