(* C11 — mechanism model, integer layer (no floating point here; see Float.v).

   (1) crate `histogram` 0.11.4, src/config.rs: Config::new(4, n) with n = 64 (metrique-aggregation) or
       n = 32 (metrique-metricsrs): value_to_index / index_to_lower_bound / index_to_upper_bound, transcribed
       literally (shifts, leading-zero count = N.log2, the special case for the last index).
   (2) src/standard.rs + src/atomic.rs: the bucket array, `add` (wrapping_add resp. fetch_add on one slot),
       iteration over (range, count), `drain`.
   (3) metrique-aggregation/src/histogram.rs: ExponentialAggregationStrategy::drain (non-empty buckets ->
       midpoint, count) and SortAndMerge (stable sort by OrderedFloat, skip NaN, run-length merge with `==`),
       over the integer keys of the floats.
   Everything is over unbounded N; the places where the code computes in u64 are `wrap64`. *)
From Coq Require Import List NArith ZArith Bool.
Import ListNotations.
Local Open Scope N_scope.

(* ---------------------------------------------------------------- Config::new(4, n) *)

Definition grouping_power : N := 4.
Definition cutoff_power : N := 5.                       (* grouping_power + 1 *)
Definition cutoff_value : N := 32.                      (* 2^cutoff_power *)
Definition lower_bin_count : N := 32.
Definition upper_bin_divisions : N := 16.               (* 2^grouping_power *)
Definition upper_bin_count (n : N) : N := (n - cutoff_power) * upper_bin_divisions.
Definition total_buckets (n : N) : N := lower_bin_count + upper_bin_count n.
Definition max_value (n : N) : N := 2 ^ n - 1.           (* u64::MAX for n = 64 *)

(* Config::value_to_index; None = Err(OutOfRange) *)
Definition value_to_index (n v : N) : option N :=
  if v <? cutoff_value then Some v
  else if max_value n <? v then None
  else
    let power := N.log2 v in                            (* 63 - leading_zeros *)
    let log_bin := power - cutoff_power in
    let offset := N.shiftr (v - N.shiftl 1 power) (power - grouping_power) in
    Some (lower_bin_count + log_bin * upper_bin_divisions + offset).

Definition index_to_lower_bound (i : N) : N :=
  let g := N.shiftr i grouping_power in
  let h := i - g * N.shiftl 1 grouping_power in
  if g <? 1 then h
  else N.shiftl 1 (grouping_power + g - 1) + N.shiftl 1 (g - 1) * h.

Definition index_to_upper_bound (n i : N) : N :=
  if i =? lower_bin_count + upper_bin_count n - 1 then max_value n
  else
    let g := N.shiftr i grouping_power in
    let h := i - g * N.shiftl 1 grouping_power + 1 in
    if g <? 1 then h - 1
    else N.shiftl 1 (grouping_power + g - 1) + N.shiftl 1 (g - 1) * h - 1.

(* u64::midpoint (rounds down); metrics_histogram.rs's start + (end - start) / 2 is [midpoint'] *)
Definition midpoint (a b : N) : N := (a + b) / 2.
Definition midpoint' (a b : N) : N := a + (b - a) / 2.

Definition bucket_mid (n i : N) : N := midpoint (index_to_lower_bound i) (index_to_upper_bound n i).

(* ---------------------------------------------------------------- the bucket array *)

Definition wrap64 (x : N) : N := x mod 2 ^ 64.
Definition wrap32 (x : N) : N := x mod 2 ^ 32.

Definition hist := list N.                               (* Box<[u64]> / Box<[AtomicU64]> *)
Definition hist_empty (n : N) : hist := repeat 0 (N.to_nat (total_buckets n)).

Fixpoint upd (l : list N) (i : nat) (f : N -> N) : list N :=
  match l, i with
  | [], _ => []
  | x :: r, O => f x :: r
  | x :: r, Datatypes.S j => x :: upd r j f
  end.

(* Histogram::add / AtomicHistogram::add: one slot += count (wrapping); Err leaves the array untouched
   (the callers `.ok()` it). *)
Definition hist_add (n : N) (h : hist) (v c : N) : hist :=
  match value_to_index n v with
  | Some i => upd h (N.to_nat i) (fun x => wrap64 (x + c))
  | None => h
  end.

(* one recorded item at this layer: the u64 the value was converted to, and the count *)
Definition rec := (N * N)%type.
Definition hist_record (n : N) (h : hist) (r : rec) : hist := hist_add n h (fst r) (snd r).
Definition hist_run (n : N) (rs : list rec) : hist := fold_left (hist_record n) rs (hist_empty n).

(* iteration: (index, count) for every slot, in index order *)
Fixpoint indexed_from (i : N) (l : list N) : list (N * N) :=
  match l with
  | [] => []
  | c :: r => (i, c) :: indexed_from (i + 1) r
  end.
Definition indexed (h : hist) : list (N * N) := indexed_from 0 h.

(* .iter().filter(|b| b.count() > 0).map(|b| (midpoint(range), count)) *)
Definition nonempty (h : hist) : list (N * N) := filter (fun p => 0 <? snd p) (indexed h).
Definition drain_mids (n : N) (h : hist) : list (N * N) :=
  map (fun p => (bucket_mid n (fst p), snd p)) (nonempty h).

(* ---------------------------------------------------------------- concurrent recording (atomic variant)

   Every add_value of the atomic strategy is one fetch_add on one slot.  Threads are lists of records; a
   schedule is a list of thread numbers; one step performs the next record of the chosen thread. *)
Fixpoint pick {T} (ts : list (list T)) (t : nat) : option (T * list (list T)) :=
  match ts, t with
  | [], _ => None
  | [] :: r, O => None
  | (x :: q) :: r, O => Some (x, q :: r)
  | q :: r, Datatypes.S j => match pick r j with Some (x, r') => Some (x, q :: r') | None => None end
  end.
Fixpoint conc_run (n : N) (h : hist) (ts : list (list rec)) (sched : list nat) : hist * list (list rec) :=
  match sched with
  | [] => (h, ts)
  | t :: r => match pick ts t with
              | Some (x, ts') => conc_run n (hist_record n h x) ts' r
              | None => conc_run n h ts r
              end
  end.

(* ---------------------------------------------------------------- SortAndMerge over float keys

   A float travels as its IEEE-754 bit pattern.  OrderedFloat's order (NaN greatest, all NaN equal,
   -0 = +0) and f64's `==` on non-NaN values are the order and equality of the sign-magnitude key. *)
Definition is_nan_bits (b : N) : bool :=
  let mag := N.land b (2 ^ 63 - 1) in 2 ^ 52 * 2047 <? mag.
Definition nan_key : Z := (2 ^ 63)%Z.
Definition okey (b : N) : Z :=
  if is_nan_bits b then nan_key
  else let mag := Z.of_N (N.land b (2 ^ 63 - 1)) in
       if N.testbit b 63 then (- mag)%Z else mag.

(* stable insertion sort by key = slice::sort_by_key (a stable sort; the result of a stable sort is unique) *)
Fixpoint insert_by (x : N) (l : list N) : list N :=
  match l with
  | [] => [x]
  | y :: r => if (okey x <=? okey y)%Z then x :: y :: r else y :: insert_by x r
  end.
Fixpoint sort_by_key (l : list N) : list N :=
  match l with
  | [] => []
  | x :: r => insert_by x (sort_by_key r)
  end.

(* the run-length loop: current_value, current_count, pushed observations *)
Fixpoint merge_loop (cur cnt : N) (l : list N) : list (N * N) :=
  match l with
  | [] => [(cur, cnt)]
  | v :: r => if (okey v =? okey cur)%Z
              then merge_loop cur (N.min (cnt + 1) (2 ^ 64 - 1)) r     (* saturating_add *)
              else (cur, cnt) :: merge_loop v 1 r
  end.
Definition sort_merge (values : list N) : list (N * N) :=
  match filter (fun v => negb (is_nan_bits v)) (sort_by_key values) with
  | [] => []
  | first :: r => merge_loop first 1 r
  end.

(* record_many for SortAndMerge: extend with `count` copies (count as usize) *)
Definition sm_record (values : list N) (v c : N) : list N := values ++ repeat v (N.to_nat c).
