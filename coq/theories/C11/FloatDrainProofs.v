(* C11 — the float side of the drain: when midpoint * count < 2^53 every float operation between the bucket
   and its re-recording is exact, so the mean of the written observation scales back to the midpoint
   (the exactness condition of c11_reagg_exact, proved from the numeric condition). *)
From Coq Require Import List NArith ZArith Bool Lia Reals Lra SpecFloat.
From Flocq Require Import Core.Core Calc.Operations IEEE754.Binary IEEE754.Bits.
From Flocq Require IEEE754.BinarySingleNaN.
From MV Require Import C11.Model C11.Float C11.FloatProofs C11.ReaggProofs.
Import ListNotations.

Local Notation fexp := (FLT_exp (3 - 1024 - 53) 53).
Local Notation B2R64 := (B2R 53 1024).
Local Open Scope R_scope.
Local Instance prec53' : Prec_gt_0 53 := eq_refl.

(* a binary64 that is finite, non-negative, with real value r *)
Definition is_val (x : binary64) (r : R) : Prop :=
  B2R64 x = r /\ is_finite 53 1024 x = true /\ Bsign 53 1024 x = false.

Lemma finite_not_nan (x : binary64) : is_finite 53 1024 x = true -> is_nan 53 1024 x = false.
Proof. destruct x; simpl; intros; try discriminate; reflexivity. Qed.

(* m * 2^e with |m| < 2^53 and e >= -1074 is representable *)
Lemma format_int_pow (m e : Z) : (Z.abs m < 2 ^ 53)%Z -> (-1074 <= e)%Z ->
  generic_format radix2 fexp (IZR m * bpow radix2 e).
Proof.
  intros Hm He. apply generic_format_FLT. exists (Float radix2 m e); [reflexivity|exact Hm|simpl; lia].
Qed.

Lemma small_lt_emax (m e : Z) : (Z.abs m < 2 ^ 53)%Z -> (e <= 0)%Z -> Rabs (IZR m * bpow radix2 e) < bpow radix2 1024.
Proof.
  intros Hm He. rewrite Rabs_mult. rewrite (Rabs_pos_eq (bpow radix2 e)) by apply bpow_ge_0.
  rewrite <- abs_IZR.
  apply Rle_lt_trans with (IZR (Z.abs m) * 1).
  - apply Rmult_le_compat_l; [apply IZR_le; lia|]. change 1 with (bpow radix2 0). apply bpow_le. assumption.
  - rewrite Rmult_1_r. apply Rlt_trans with (bpow radix2 53).
    + change (bpow radix2 53) with (IZR (2 ^ 53)). apply IZR_lt. assumption.
    + apply bpow_lt. lia.
Qed.

Lemma of_u64_exact (m : N) : (m < 2 ^ 53)%N -> is_val (of_u64 m) (IZR (Z.of_N m)).
Proof.
  intros Hm. unfold of_u64.
  pose proof (binary_normalize_correct 53 1024 (eq_refl Lt) (eq_refl Lt) mode_NE (Z.of_N m) 0 false) as H.
  change (SpecFloat.fexp 53 1024) with fexp in H.
  assert (HF : F2R (Float radix2 (Z.of_N m) 0) = IZR (Z.of_N m)) by (unfold F2R; simpl; ring).
  rewrite HF in H.
  assert (Habs : (Z.abs (Z.of_N m) < 2 ^ 53)%Z) by lia.
  assert (Hround : round radix2 fexp (BinarySingleNaN.round_mode mode_NE) (IZR (Z.of_N m)) = IZR (Z.of_N m)).
  { apply round_generic; [apply BinarySingleNaN.valid_rnd_round_mode|].
    replace (IZR (Z.of_N m)) with (IZR (Z.of_N m) * bpow radix2 0) by (simpl; ring). apply format_int_pow; lia. }
  rewrite Hround in H. rewrite Rlt_bool_true in H.
  - destruct H as (H1 & H2 & H3). split; [exact H1|]. split; [exact H2|]. rewrite H3.
    destruct (Rcompare_spec (IZR (Z.of_N m)) 0) as [Hlt| |]; try reflexivity.
    exfalso. apply (lt_IZR _ 0) in Hlt. lia.
  - replace (IZR (Z.of_N m)) with (IZR (Z.of_N m) * bpow radix2 0) by (simpl; ring). apply small_lt_emax; lia.
Qed.

Lemma fmul_exact (x y : binary64) rx ry : is_val x rx -> is_val y ry ->
  generic_format radix2 fexp (rx * ry) -> Rabs (rx * ry) < bpow radix2 1024 -> is_val (fmul x y) (rx * ry).
Proof.
  intros (Hx & Fx & Sx) (Hy & Fy & Sy) Hfmt Hlt. unfold fmul, b64_mult.
  match goal with |- context [Bmult 53 1024 ?hp ?hm ?nan ?md x y] =>
    pose proof (Bmult_correct 53 1024 hp hm nan md x y) as H end.
  change (SpecFloat.fexp 53 1024) with fexp in H. rewrite Hx, Hy in H.
  rewrite round_generic in H by (try apply BinarySingleNaN.valid_rnd_round_mode; assumption).
  rewrite Rlt_bool_true in H by assumption.
  destruct H as (H1 & H2 & H3). split; [exact H1|]. split; [rewrite H2, Fx, Fy; reflexivity|].
  rewrite H3, Sx, Sy; [reflexivity|]. apply finite_not_nan. rewrite H2, Fx, Fy. reflexivity.
Qed.

Lemma fdiv_exact (x y : binary64) rx ry : is_val x rx -> is_val y ry -> ry <> 0 ->
  generic_format radix2 fexp (rx / ry) -> Rabs (rx / ry) < bpow radix2 1024 -> is_val (fdiv x y) (rx / ry).
Proof.
  intros (Hx & Fx & Sx) (Hy & Fy & Sy) Hnz Hfmt Hlt. unfold fdiv, b64_div.
  match goal with |- context [Bdiv 53 1024 ?hp ?hm ?nan ?md x y] =>
    pose proof (Bdiv_correct 53 1024 hp hm nan md x y) as H end.
  change (SpecFloat.fexp 53 1024) with fexp in H. rewrite Hx, Hy in H. specialize (H Hnz).
  rewrite round_generic in H by (try apply BinarySingleNaN.valid_rnd_round_mode; assumption).
  rewrite Rlt_bool_true in H by assumption.
  destruct H as (H1 & H2 & H3). split; [exact H1|]. split; [rewrite H2, Fx; reflexivity|].
  rewrite H3, Sx, Sy; [reflexivity|]. apply finite_not_nan. rewrite H2, Fx. reflexivity.
Qed.

Lemma f1024_val : is_val f1024 1024.
Proof. split; [apply f1024_R|]. split; vm_compute; reflexivity. Qed.

Lemma of_bits_to_bits (x : binary64) : is_finite 53 1024 x = true -> of_bits (to_bits x) = x.
Proof.
  intros Hf. unfold of_bits.
  assert (Hb : to_bits x = Z.to_N (bits_of_b64 x)) by (destruct x; simpl in Hf; try discriminate; reflexivity).
  rewrite Hb. unfold b64_of_bits, bits_of_b64.
  pose proof (bits_of_binary_float_range 52 11 eq_refl eq_refl x) as Hr.
  rewrite Z2N.id by lia.
  exact (binary_float_of_bits_of_binary_float 52 11 eq_refl eq_refl eq_refl x).
Qed.

Lemma div1024 (m : Z) : IZR m / 1024 = IZR m * bpow radix2 (-10).
Proof. unfold Rdiv. f_equal. Qed.

(* the exactness condition of c11_reagg_exact from the numeric condition *)
Theorem scales_back_exact (mid c : N) : (0 < c)%N -> (c < 2 ^ 53)%N -> (mid * c < 2 ^ 53)%N -> mean_scales_back (mid, c).
Proof.
  intros Hc Hc53 Hmc.
  assert (Hmid : (mid < 2 ^ 53)%N) by nia.
  set (M := IZR (Z.of_N mid)). set (C := IZR (Z.of_N c)).
  assert (HC : C <> 0). { unfold C. apply not_0_IZR. lia. }
  pose proof (of_u64_exact mid Hmid) as V1. fold M in V1.
  assert (V2 : is_val (scale_down (of_u64 mid)) (M / 1024)).
  { unfold scale_down. apply fdiv_exact; [exact V1|exact f1024_val|lra| |].
    - unfold M. rewrite div1024. apply format_int_pow; lia.
    - unfold M. rewrite div1024. apply small_lt_emax; lia. }
  pose proof (of_u64_exact c Hc53) as V3. fold C in V3.
  assert (Hprod : M / 1024 * C = IZR (Z.of_N (mid * c)) * bpow radix2 (-10)).
  { unfold M, C. rewrite N2Z.inj_mul, mult_IZR, div1024. ring. }
  assert (V4 : is_val (fmul (scale_down (of_u64 mid)) (of_u64 c)) (M / 1024 * C)).
  { apply fmul_exact; [exact V2|exact V3| |].
    - rewrite Hprod. apply format_int_pow; lia.
    - rewrite Hprod. apply small_lt_emax; lia. }
  unfold mean_scales_back, exp_obs, exp_rec, capture. cbn [fst snd].
  apply N.ltb_lt in Hc. rewrite Hc.
  rewrite of_bits_to_bits by (destruct V4 as (_ & F & _); exact F).
  assert (V5 : is_val (fdiv (fmul (scale_down (of_u64 mid)) (of_u64 c)) (of_u64 c)) (M / 1024)).
  { replace (M / 1024) with (M / 1024 * C / C) by (field; exact HC).
    apply fdiv_exact; [exact V4|exact V3|exact HC| |].
    - replace (M / 1024 * C / C) with (M / 1024) by (field; exact HC). unfold M. rewrite div1024. apply format_int_pow; lia.
    - replace (M / 1024 * C / C) with (M / 1024) by (field; exact HC). unfold M. rewrite div1024. apply small_lt_emax; lia. }
  destruct V5 as (R5 & F5 & S5).
  f_equal. f_equal.
  apply N2Z.inj. rewrite (scaled_u64_floor _ F5 S5).
  - rewrite R5. replace (M / 1024 * 1024) with M by field. unfold M. apply Zfloor_IZR.
  - rewrite R5. replace (M / 1024 * 1024) with M by field. unfold M.
    apply Rlt_trans with (bpow radix2 53).
    + change (bpow radix2 53) with (IZR (2 ^ 53)). apply IZR_lt. lia.
    + apply bpow_lt. lia.
Qed.

Local Close Scope R_scope.
Local Open Scope N_scope.
From MV Require Import C11.HistProofs.

(* c11_reagg_exact with its hypothesis discharged: if every non-empty bucket holds fewer than 2^53 occurrences
   and midpoint * count < 2^53, closing, re-aggregating into the same strategy and closing changes nothing *)
Theorem reaggregate_exact_numeric h : length h = N.to_nat (total_buckets 64) -> (forall i, nth i h 0 < 2 ^ 64) ->
  (forall m c, In (m, c) (drain_mids 64 h) -> c < 2 ^ 53 /\ m * c < 2 ^ 53) ->
  exp_close (exp_drain h) = exp_drain h.
Proof.
  intros Hlen Hb Hnum. apply reaggregate_exact_obs; try assumption.
  apply Forall_forall. intros [m c] Hin.
  destruct (Hnum m c Hin) as [Hc Hmc].
  apply drain_contents in Hin. destruct Hin as (i & _ & _ & Hpos & _).
  apply scales_back_exact; assumption.
Qed.
