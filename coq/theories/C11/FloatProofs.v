(* C11 — tying the float layer to the integer theorems: for every finite non-negative double x with
   1024 x < 2^64, the integer that record_many buckets is exactly floor (1024 x). *)
From Coq Require Import List NArith ZArith Bool Lia Reals Lra SpecFloat.
From Flocq Require Import Core.Core Calc.Operations IEEE754.Binary IEEE754.Bits.
From Flocq Require IEEE754.BinarySingleNaN.
From MV Require Import C11.Model C11.Float.
Import ListNotations.

Local Notation fexp := (FLT_exp (3 - 1024 - 53) 53).
Local Notation B2R64 := (B2R 53 1024).
Local Open Scope R_scope.

Local Instance prec53 : Prec_gt_0 53 := eq_refl.

Lemma format_mul_pow2 x (e : Z) : (0 <= e)%Z ->
  generic_format radix2 fexp x -> generic_format radix2 fexp (x * bpow radix2 e).
Proof.
  intros He Hx.
  apply (FLT_format_generic radix2 (3 - 1024 - 53) 53) in Hx.
  destruct Hx as [f Hf Hm Hexp].
  apply generic_format_FLT.
  exists (Float radix2 (Fnum f) (Fexp f + e)).
  - rewrite Hf. unfold F2R. simpl. rewrite bpow_plus. ring.
  - exact Hm.
  - simpl. lia.
Qed.

Lemma B2R_of_SF (x : binary64) s m e : B2SF 53 1024 x = S754_finite s m e ->
  B2R64 x = IZR (cond_Zopp s (Zpos m)) * bpow radix2 e.
Proof. destruct x; simpl; intros H; try discriminate. injection H as -> -> ->. reflexivity. Qed.

Lemma f1024_R : B2R64 f1024 = 1024.
Proof.
  rewrite (B2R_of_SF f1024 false 4503599627370496 (-42)) by (vm_compute; reflexivity).
  simpl cond_Zopp. change (Zpos 4503599627370496) with (radix2 ^ 52)%Z. rewrite IZR_Zpower by lia.
  rewrite <- bpow_plus. simpl. lra.
Qed.

Lemma f2p64_R : B2R64 f2p64 = bpow radix2 64.
Proof.
  rewrite (B2R_of_SF f2p64 false 4503599627370496 12) by (vm_compute; reflexivity).
  simpl cond_Zopp. change (Zpos 4503599627370496) with (radix2 ^ 52)%Z. rewrite IZR_Zpower by lia.
  rewrite <- bpow_plus. reflexivity.
Qed.

Lemma pow10_R : bpow radix2 10 = 1024.
Proof. simpl. lra. Qed.

Lemma scale_up_exact (x : binary64) : is_finite 53 1024 x = true ->
  Rabs (B2R64 x * 1024) < bpow radix2 1024 ->
  B2R64 (scale_up x) = B2R64 x * 1024 /\ is_finite 53 1024 (scale_up x) = true /\
  (is_nan 53 1024 (scale_up x) = false -> Bsign 53 1024 (scale_up x) = Bsign 53 1024 x).
Proof.
  intros Hfin Hlt. unfold scale_up, fmul, b64_mult.
  match goal with |- context [Bmult 53 1024 ?hp ?hm ?nan ?md x f1024] =>
    pose proof (Bmult_correct 53 1024 hp hm nan md x f1024) as H end.
  rewrite f1024_R in H.
  assert (Hround : round radix2 fexp (BinarySingleNaN.round_mode mode_NE) (B2R64 x * 1024) = B2R64 x * 1024).
  { apply round_generic; [apply BinarySingleNaN.valid_rnd_round_mode|].
    rewrite <- pow10_R. apply format_mul_pow2; [lia|]. apply generic_format_B2R. }
  change (SpecFloat.fexp 53 1024) with fexp in H.
  rewrite Hround in H. rewrite Rlt_bool_true in H by exact Hlt.
  assert (Hs : Bsign 53 1024 f1024 = false) by (vm_compute; reflexivity).
  assert (Hf : is_finite 53 1024 f1024 = true) by (vm_compute; reflexivity).
  rewrite Hs, Hf in H.
  destruct H as (H1 & H2 & H3). split; [exact H1|]. split.
  - rewrite H2, Hfin. reflexivity.
  - intros Hn. rewrite (H3 Hn). destruct (Bsign 53 1024 x); reflexivity.
Qed.

Lemma to_u64_floor (y : binary64) : is_finite 53 1024 y = true -> Bsign 53 1024 y = false ->
  B2R64 y < bpow radix2 64 -> Z.of_N (to_u64 y) = Zfloor (B2R64 y).
Proof.
  intros Hfin Hs Hlt. destruct y as [s|s|s pl Hpl|s m e Hb]; simpl in Hfin, Hs; try discriminate.
  - simpl. symmetry. apply (Zfloor_IZR 0).
  - subst s. unfold to_u64. simpl B2R in *. unfold F2R in *. simpl Fnum in *. simpl Fexp in *. simpl cond_Zopp in *.
    destruct e as [|p|p].
    + change (bpow radix2 0) with 1 in *. rewrite Rmult_1_r in *. rewrite Zfloor_IZR.
      assert (Zpos m < 2 ^ 64)%Z.
      { apply lt_IZR. change (2 ^ 64)%Z with (radix2 ^ 64)%Z. rewrite IZR_Zpower by lia. exact Hlt. }
      unfold u64_max. lia.
    + assert (Hval : IZR (Zpos m) * bpow radix2 (Zpos p) = IZR (Zpos m * 2 ^ Zpos p)).
      { rewrite mult_IZR. f_equal. }
      rewrite Hval in *. rewrite Zfloor_IZR.
      assert (Zpos m * 2 ^ Zpos p < 2 ^ 64)%Z.
      { apply lt_IZR. change (2 ^ 64)%Z with (radix2 ^ 64)%Z. rewrite IZR_Zpower by lia. exact Hlt. }
      assert (Hn : Z.of_N (Npos m * 2 ^ Npos p) = (Zpos m * 2 ^ Zpos p)%Z).
      { rewrite N2Z.inj_mul, N2Z.inj_pow. reflexivity. }
      unfold u64_max. lia.
    + assert (Hval : IZR (Zpos m) * bpow radix2 (Zneg p) = IZR (Zpos m) / IZR (2 ^ Zpos p)).
      { change (Zneg p) with (- Zpos p)%Z. rewrite bpow_opp. change 2%Z with (radix2 : Z).
        rewrite IZR_Zpower by lia. reflexivity. }
      rewrite Hval in *. rewrite Zfloor_div by (apply Z.pow_nonzero; lia).
      assert (Hn : Z.of_N (Npos m / 2 ^ Npos p) = (Zpos m / 2 ^ Zpos p)%Z).
      { rewrite N2Z.inj_div, N2Z.inj_pow. reflexivity. }
      assert (Zpos m / 2 ^ Zpos p < 2 ^ 64)%Z.
      { apply lt_IZR. replace (IZR (2 ^ 64)) with (bpow radix2 64) by (symmetry; apply (IZR_Zpower radix2 64); lia).
        eapply Rle_lt_trans; [|exact Hlt].
        rewrite <- (Zfloor_div (Zpos m) (2 ^ Zpos p)) by (apply Z.pow_nonzero; lia). apply Zfloor_lb. }
      unfold u64_max. lia.
Qed.

Lemma fmin_below (y : binary64) : is_finite 53 1024 y = true -> B2R64 y < bpow radix2 64 -> fmin y f2p64 = y.
Proof.
  intros Hfin Hlt. unfold fmin.
  assert (Hn : is_nan_f y = false) by (destruct y; simpl in *; try discriminate; reflexivity).
  rewrite Hn.
  assert (Hn2 : is_nan_f f2p64 = false) by (vm_compute; reflexivity).
  rewrite Hn2. unfold b64_compare.
  rewrite Bcompare_correct; [|exact Hfin|vm_compute; reflexivity].
  rewrite f2p64_R. rewrite Rcompare_Lt by exact Hlt. reflexivity.
Qed.

(* the integer that record_many buckets: floor (1024 x), for every finite non-negative double below 2^54 *)
Theorem scaled_u64_floor (x : binary64) : is_finite 53 1024 x = true -> Bsign 53 1024 x = false ->
  B2R64 x * 1024 < bpow radix2 64 -> Z.of_N (scaled_u64 x) = Zfloor (B2R64 x * 1024).
Proof.
  intros Hfin Hs Hlt.
  assert (Hpos : 0 <= B2R64 x).
  { destruct x as [s|s|s pl Hpl|s m e Hb]; simpl in *; try discriminate; try lra.
    subst s. apply F2R_ge_0. simpl. lia. }
  assert (Habs : Rabs (B2R64 x * 1024) < bpow radix2 1024).
  { rewrite Rabs_pos_eq by lra. eapply Rlt_trans; [exact Hlt|]. apply bpow_lt. lia. }
  destruct (scale_up_exact x Hfin Habs) as (H1 & H2 & H3).
  unfold scaled_u64. rewrite fmin_below by (rewrite ?H1; assumption).
  rewrite <- H1. apply to_u64_floor; [assumption| |rewrite H1; assumption].
  rewrite H3; [assumption|].
  destruct (scale_up x); simpl in *; try discriminate; reflexivity.
Qed.

(* in the terms of the layout theorems: if x denotes the rational a/d, the bucketed integer is 1024*a/d *)
Corollary scaled_u64_rational (x : binary64) (a d : N) : is_finite 53 1024 x = true -> Bsign 53 1024 x = false ->
  (0 < d)%N -> B2R64 x = IZR (Z.of_N a) / IZR (Z.of_N d) -> B2R64 x * 1024 < bpow radix2 64 ->
  scaled_u64 x = (1024 * a / d)%N.
Proof.
  intros Hfin Hs Hd Hx Hlt. apply N2Z.inj. rewrite (scaled_u64_floor x Hfin Hs Hlt).
  rewrite Hx. replace (IZR (Z.of_N a) / IZR (Z.of_N d) * 1024) with (IZR (1024 * Z.of_N a) / IZR (Z.of_N d)).
  - rewrite Zfloor_div by lia. rewrite N2Z.inj_div, N2Z.inj_mul. reflexivity.
  - rewrite mult_IZR. field. apply not_0_IZR. lia.
Qed.

Local Close Scope R_scope.
Local Open Scope N_scope.
From MV Require Import C11.BucketProofs C11.HistProofs.

Lemma to_u64_le (y : binary64) : to_u64 y <= u64_max.
Proof.
  unfold to_u64, u64_max. destruct y as [s|s|s pl Hpl|s m e Hb]; try lia.
  - destruct s; lia.
  - destruct s; [lia|]. apply N.le_min_l.
Qed.

(* the accuracy clause for actual doubles: x = a/d finite, non-negative, below 2^54, recorded through
   scale_up / min / as u64 / value_to_index, is reported at midpoint/1024 within x/16 (x >= 1/32) *)
Theorem float_reported_within_16th (x : binary64) (a d : N) :
  is_finite 53 1024 x = true -> Bsign 53 1024 x = false -> 0 < d ->
  B2R 53 1024 x = (IZR (Z.of_N a) / IZR (Z.of_N d))%R -> (B2R 53 1024 x * 1024 < bpow radix2 64)%R ->
  d <= 32 * a ->
  exists i, value_to_index 64 (scaled_u64 x) = Some i /\
            16 * (bucket_mid 64 i * d) <= 17 * (1024 * a) /\ 15 * (1024 * a) <= 16 * (bucket_mid 64 i * d).
Proof.
  intros Hfin Hs Hd Hx Hlt Hge.
  assert (Hle : scaled_u64 x <= max_value 64) by (unfold scaled_u64; apply to_u64_le).
  destruct (index_total 64 _ Hle) as [i Hi]. exists i. split; [exact Hi|].
  rewrite (scaled_u64_rational x a d Hfin Hs Hd Hx Hlt) in Hi.
  apply (reported_within_16th 64 a d i); try assumption; lia.
Qed.

(* ... and within 1/1024 below x when x < 1/32 *)
Theorem float_reported_within_1024th (x : binary64) (a d : N) :
  is_finite 53 1024 x = true -> Bsign 53 1024 x = false -> 0 < d ->
  B2R 53 1024 x = (IZR (Z.of_N a) / IZR (Z.of_N d))%R -> (B2R 53 1024 x * 1024 < bpow radix2 64)%R ->
  32 * a < d ->
  exists i, value_to_index 64 (scaled_u64 x) = Some i /\
            bucket_mid 64 i * d <= 1024 * a /\ 1024 * a < bucket_mid 64 i * d + d.
Proof.
  intros Hfin Hs Hd Hx Hlt Hsmall.
  assert (Hle : scaled_u64 x <= max_value 64) by (unfold scaled_u64; apply to_u64_le).
  destruct (index_total 64 _ Hle) as [i Hi]. exists i. split; [exact Hi|].
  rewrite (scaled_u64_rational x a d Hfin Hs Hd Hx Hlt) in Hi.
  apply (reported_within_1024th 64 a d i); try assumption; lia.
Qed.

(* the premises are satisfiable: the double 1.5 is 3/2 *)
Definition one_and_half : binary64 := of_bits 4609434218613702656.
Lemma float_example_premises :
  is_finite 53 1024 one_and_half = true /\ Bsign 53 1024 one_and_half = false /\
  B2R 53 1024 one_and_half = (IZR (Z.of_N 3) / IZR (Z.of_N 2))%R /\
  (B2R 53 1024 one_and_half * 1024 < bpow radix2 64)%R /\ scaled_u64 one_and_half = 1536.
Proof.
  assert (HR : B2R 53 1024 one_and_half = (3 / 2)%R).
  { rewrite (B2R_of_SF one_and_half false 6755399441055744 (-52)) by (vm_compute; reflexivity).
    simpl cond_Zopp. change (Zpos 6755399441055744) with (3 * radix2 ^ 51)%Z. rewrite mult_IZR, IZR_Zpower by lia.
    rewrite Rmult_assoc, <- bpow_plus. simpl. lra. }
  split; [vm_compute; reflexivity|]. split; [vm_compute; reflexivity|].
  split; [rewrite HR; simpl; lra|]. split; [|vm_compute; reflexivity].
  rewrite HR. apply Rlt_trans with (bpow radix2 11); [simpl; lra|apply bpow_lt; lia].
Qed.
