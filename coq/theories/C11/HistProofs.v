(* C11 — the bucket array: what a slot holds after any record sequence, count conservation, permutation
   invariance, every interleaving of concurrent recording, the drained list. *)
From Coq Require Import List NArith ZArith Bool Lia Permutation Sorted.
From MV Require Import C11.Model C11.BucketProofs.
Import ListNotations.
Local Open Scope N_scope.
Ltac Zify.zify_post_hook ::= Z.to_euclidean_division_equations.

Definition hsum (l : list N) : N := fold_right N.add 0 l.
Definition total_count (rs : list rec) : N := fold_right (fun r acc => snd r + acc) 0 rs.
(* occurrences recorded for bucket i *)
Definition count_in (n i : N) (rs : list rec) : N :=
  fold_right (fun r acc => match value_to_index n (fst r) with
                           | Some j => if j =? i then snd r + acc else acc
                           | None => acc
                           end) 0 rs.

Lemma upd_length l i f : length (upd l i f) = length l.
Proof. revert i; induction l; intros [|i]; simpl; auto. Qed.

Lemma upd_nth_same l i f : (i < length l)%nat -> nth i (upd l i f) 0 = f (nth i l 0).
Proof. revert i; induction l; intros [|i] H; simpl in *; try lia; auto. apply IHl. lia. Qed.

Lemma upd_nth_other l i j f : i <> j -> nth j (upd l i f) 0 = nth j l 0.
Proof. revert i j; induction l; intros [|i] [|j] H; simpl in *; try congruence; auto. Qed.

Lemma upd_out l i f : (length l <= i)%nat -> upd l i f = l.
Proof. revert i; induction l; intros [|i] H; simpl in *; try lia; auto. f_equal. apply IHl. lia. Qed.

Lemma hsum_upd l i f : (i < length l)%nat -> hsum (upd l i f) + nth i l 0 = hsum l + f (nth i l 0).
Proof.
  revert i; induction l; intros [|i] H; simpl in *; try lia.
  specialize (IHl i ltac:(lia)). lia.
Qed.

Lemma nth_le_hsum l i : nth i l 0 <= hsum l.
Proof. revert i; induction l; intros [|i]; simpl; try lia. specialize (IHl i). lia. Qed.

Lemma wrap64_small x : x < 2 ^ 64 -> wrap64 x = x.
Proof. intros. unfold wrap64. apply N.mod_small. assumption. Qed.

Lemma wrap64_add x y : wrap64 (wrap64 x + y) = wrap64 (x + y).
Proof. unfold wrap64. rewrite N.add_mod_idemp_l by (apply N.pow_nonzero; discriminate). reflexivity. Qed.

Lemma hist_empty_length n : length (hist_empty n) = N.to_nat (total_buckets n).
Proof. apply repeat_length. Qed.

Lemma hist_record_length n h r : length (hist_record n h r) = length h.
Proof. unfold hist_record, hist_add. destruct (value_to_index n (fst r)); [apply upd_length|reflexivity]. Qed.

Lemma fold_record_length n rs h : length (fold_left (hist_record n) rs h) = length h.
Proof. revert h; induction rs; intros; simpl; [reflexivity|]. rewrite IHrs. apply hist_record_length. Qed.

Lemma nth_hist_empty n i : nth i (hist_empty n) 0 = 0.
Proof. unfold hist_empty. generalize (N.to_nat (total_buckets n)). intros k. revert i. induction k; intros [|i]; simpl; auto. Qed.

(* ------------------------------------------------------------ what a slot holds *)

(* after any record sequence, slot i holds (mod 2^64) what it held before plus the counts of the records
   whose value is indexed to i *)
Lemma slot_after n (Hn : 5 <= n) rs : forall h i, length h = N.to_nat (total_buckets n) ->
  wrap64 (nth (N.to_nat i) (fold_left (hist_record n) rs h) 0) = wrap64 (nth (N.to_nat i) h 0 + count_in n i rs).
Proof.
  induction rs as [|r rs IH]; intros h i Hlen; simpl.
  - rewrite N.add_0_r. reflexivity.
  - rewrite IH by (rewrite hist_record_length; assumption).
    unfold hist_record, hist_add.
    destruct (value_to_index n (fst r)) as [j|] eqn:Hj; [|reflexivity].
    pose proof (index_range n _ _ Hn Hj) as (Hjb & _).
    destruct (N.eqb_spec j i) as [->|Hne].
    + rewrite upd_nth_same by lia.
      rewrite wrap64_add. f_equal. lia.
    + rewrite upd_nth_other by lia. reflexivity.
Qed.

Lemma slots_wrapped n rs : forall h, (forall i, nth i h 0 < 2 ^ 64) ->
  forall i, nth i (fold_left (hist_record n) rs h) 0 < 2 ^ 64.
Proof.
  induction rs as [|r rs IH]; intros h Hh i; simpl; [apply Hh|].
  apply IH. intros k. unfold hist_record, hist_add.
  destruct (value_to_index n (fst r)) as [j|]; [|apply Hh].
  destruct (Nat.eq_dec (N.to_nat j) k) as [<-|Hne].
  - destruct (Nat.lt_ge_cases (N.to_nat j) (length h)).
    + rewrite upd_nth_same by assumption. unfold wrap64. apply N.mod_lt. apply N.pow_nonzero. discriminate.
    + rewrite upd_out by assumption. apply Hh.
  - rewrite upd_nth_other by assumption. apply Hh.
Qed.

(* closed form of a slot of the histogram built from the empty one *)
Theorem slot_closed n rs i : 5 <= n ->
  nth (N.to_nat i) (hist_run n rs) 0 = wrap64 (count_in n i rs).
Proof.
  intros Hn. unfold hist_run.
  pose proof (slot_after n Hn rs (hist_empty n) i (hist_empty_length n)) as H.
  rewrite nth_hist_empty, N.add_0_l in H. rewrite <- H.
  symmetry. apply wrap64_small. apply slots_wrapped. intros k. rewrite nth_hist_empty. reflexivity.
Qed.

(* ------------------------------------------------------------ permutation invariance *)

Lemma count_in_perm n i rs rs' : Permutation rs rs' -> count_in n i rs = count_in n i rs'.
Proof.
  induction 1; simpl; try congruence.
  - rewrite IHPermutation. reflexivity.
  - destruct (value_to_index n (fst x)) as [jx|], (value_to_index n (fst y)) as [jy|];
      try destruct (jx =? i); try destruct (jy =? i); lia.
Qed.

Lemma list_ext (l l' : list N) : length l = length l' -> (forall i, nth i l 0 = nth i l' 0) -> l = l'.
Proof.
  revert l'; induction l; intros [|b l'] Hlen H; simpl in *; try discriminate; [reflexivity|].
  f_equal; [apply (H O)|]. apply IHl; [lia|]. intros i. apply (H (Datatypes.S i)).
Qed.

Lemma nth_beyond (l : list N) i : (length l <= i)%nat -> nth i l 0 = 0.
Proof. intros. apply nth_overflow. assumption. Qed.

(* c11_permutation: the bucket array (hence everything drained from it) does not depend on the order in
   which the observations were recorded *)
Theorem hist_run_perm n rs rs' : 5 <= n -> Permutation rs rs' -> hist_run n rs = hist_run n rs'.
Proof.
  intros Hn HP. apply list_ext.
  - unfold hist_run. rewrite !fold_record_length. reflexivity.
  - intros k.
    destruct (Nat.lt_ge_cases k (N.to_nat (total_buckets n))) as [Hk|Hk].
    + replace k with (N.to_nat (N.of_nat k)) by lia.
      rewrite !slot_closed by assumption. f_equal. apply count_in_perm. assumption.
    + rewrite !nth_beyond; [reflexivity| |]; unfold hist_run; rewrite fold_record_length, hist_empty_length; assumption.
Qed.

(* ------------------------------------------------------------ count conservation *)

Lemma fold_record_hsum n (Hn : 5 <= n) rs : forall h, length h = N.to_nat (total_buckets n) ->
  Forall (fun r => fst r <= max_value n) rs ->
  hsum h + total_count rs < 2 ^ 64 ->
  hsum (fold_left (hist_record n) rs h) = hsum h + total_count rs.
Proof.
  induction rs as [|r rs IH]; intros h Hlen Hv Hb; simpl in *; [lia|].
  inversion Hv as [|? ? Hr Hv']; subst.
  assert (Hstep : hsum (hist_record n h r) = hsum h + snd r).
  { unfold hist_record, hist_add.
    destruct (value_to_index n (fst r)) as [j|] eqn:Hj.
    - pose proof (index_range n _ _ Hn Hj) as (Hjb & _).
      pose proof (hsum_upd h (N.to_nat j) (fun x => wrap64 (x + snd r)) ltac:(lia)) as Hu.
      pose proof (nth_le_hsum h (N.to_nat j)).
      cbv beta in Hu. rewrite wrap64_small in Hu by lia. lia.
    - exfalso. unfold value_to_index in Hj.
      destruct (fst r <? cutoff_value); [discriminate|].
      destruct (max_value n <? fst r) eqn:E; [apply N.ltb_lt in E; lia|discriminate]. }
  rewrite IH; try assumption.
  - lia.
  - rewrite hist_record_length. assumption.
  - lia.
Qed.

Lemma hsum_empty n : hsum (hist_empty n) = 0.
Proof. unfold hist_empty. induction (N.to_nat (total_buckets n)); simpl; auto. Qed.

(* c11_count (array): the slots add up to the number of recorded occurrences *)
Theorem hist_run_total n rs : 5 <= n -> Forall (fun r => fst r <= max_value n) rs -> total_count rs < 2 ^ 64 ->
  hsum (hist_run n rs) = total_count rs.
Proof.
  intros Hn Hv Hb. unfold hist_run. rewrite fold_record_hsum; try assumption.
  - rewrite hsum_empty. lia.
  - apply hist_empty_length.
  - rewrite hsum_empty. lia.
Qed.

(* draining keeps every occurrence: the counts of the drained (midpoint, count) pairs add up to the slots *)
Definition drained_total (d : list (N * N)) : N := fold_right (fun p acc => snd p + acc) 0 d.

Lemma nonempty_total_from k h :
  drained_total (filter (fun p => 0 <? snd p) (indexed_from k h)) = hsum h.
Proof.
  revert k; induction h as [|c h IH]; intros k; simpl; [reflexivity|].
  destruct (0 <? c) eqn:E; simpl.
  - rewrite IH. reflexivity.
  - apply N.ltb_ge in E. rewrite IH. lia.
Qed.

Lemma drained_total_map n l : drained_total (map (fun p => (bucket_mid n (fst p), snd p)) l) = drained_total l.
Proof. induction l; simpl; congruence. Qed.

Theorem drain_total n h : drained_total (drain_mids n h) = hsum h.
Proof. unfold drain_mids, nonempty, indexed. rewrite drained_total_map. apply nonempty_total_from. Qed.

(* c11_count: total occurrence count of the closed distribution = number of recorded occurrences *)
Theorem drain_conserves_count n rs : 5 <= n -> Forall (fun r => fst r <= max_value n) rs -> total_count rs < 2 ^ 64 ->
  drained_total (drain_mids n (hist_run n rs)) = total_count rs.
Proof. intros. rewrite drain_total. apply hist_run_total; assumption. Qed.

(* ------------------------------------------------------------ what is drained *)

Lemma in_indexed_from k h i c : In (i, c) (indexed_from k h) <->
  k <= i /\ (N.to_nat (i - k) < length h)%nat /\ nth (N.to_nat (i - k)) h 0 = c.
Proof.
  revert k; induction h as [|x h IH]; intros k; simpl.
  - split; [tauto|]. intros (_ & H & _). lia.
  - rewrite IH. split.
    + intros [H|(H1 & H2 & H3)].
      * injection H as <- <-. replace (k - k) with 0 by lia. simpl. repeat split; lia.
      * replace (N.to_nat (i - k)) with (Datatypes.S (N.to_nat (i - (k + 1)))) by lia. simpl. repeat split; try lia; try assumption.
    + intros (H1 & H2 & H3).
      destruct (N.eq_dec i k) as [->|Hne].
      * left. replace (k - k) with 0 in H3 by lia. simpl in H3. congruence.
      * right. replace (N.to_nat (i - k)) with (Datatypes.S (N.to_nat (i - (k + 1)))) in H2, H3 by lia.
        simpl in H3. repeat split; try lia; try assumption.
Qed.

(* the drained list contains exactly the non-empty buckets, each with its midpoint and its slot value *)
Theorem drain_contents n h m c : In (m, c) (drain_mids n h) <->
  exists i, (N.to_nat i < length h)%nat /\ nth (N.to_nat i) h 0 = c /\ 0 < c /\ m = bucket_mid n i.
Proof.
  unfold drain_mids, nonempty, indexed. rewrite in_map_iff. split.
  - intros ([i c'] & Heq & Hin). simpl in Heq. injection Heq as <- <-.
    apply filter_In in Hin. destruct Hin as [Hin Hpos]. simpl in Hpos. apply N.ltb_lt in Hpos.
    apply in_indexed_from in Hin. rewrite N.sub_0_r in Hin. destruct Hin as (_ & H2 & H3).
    exists i. auto.
  - intros (i & H1 & H2 & H3 & ->). exists (i, c). split; [reflexivity|].
    apply filter_In. split; [|simpl; apply N.ltb_lt; assumption].
    apply in_indexed_from. rewrite N.sub_0_r. repeat split; try assumption. lia.
Qed.

(* every recorded observation is found in the drained list: its bucket is reported with the bucket's
   midpoint and a count that includes it (no wrap-around hypothesis: the bucket received < 2^64) *)
Theorem recorded_is_reported n rs v c i : 5 <= n -> In (v, c) rs -> 0 < c ->
  value_to_index n v = Some i -> count_in n i rs < 2 ^ 64 ->
  In (bucket_mid n i, count_in n i rs) (drain_mids n (hist_run n rs)) /\ c <= count_in n i rs.
Proof.
  intros Hn Hin Hc Hi Hb.
  assert (Hle : c <= count_in n i rs).
  { clear Hb. induction rs as [|r rs IH]; simpl in *; [contradiction|].
    destruct Hin as [->|Hin]; simpl.
    - rewrite Hi, N.eqb_refl. lia.
    - specialize (IH Hin). destruct (value_to_index n (fst r)) as [j|]; [destruct (j =? i)|]; lia. }
  split; [|assumption].
  apply drain_contents. exists i.
  pose proof (index_range n v i Hn Hi) as (Hib & _).
  repeat split.
  - unfold hist_run. rewrite fold_record_length, hist_empty_length. lia.
  - rewrite slot_closed by assumption. apply wrap64_small. assumption.
  - lia.
Qed.

(* midpoints increase strictly with the bucket index: the drained list is in ascending value order *)
Lemma mid_lt_next n i : 5 <= n -> bucket_mid n i < bucket_mid n (i + 1).
Proof.
  intros Hn. pose proof (mid_in_bucket n i Hn). pose proof (mid_in_bucket n (i + 1) Hn).
  pose proof (buckets_adjacent n i Hn). lia.
Qed.

Lemma mid_strict_mono n i j : 5 <= n -> i < j -> bucket_mid n i < bucket_mid n j.
Proof.
  intros Hn Hij. replace j with (i + 1 + N.of_nat (N.to_nat (j - i - 1))) by lia.
  generalize (N.to_nat (j - i - 1)). intros k. induction k.
  - rewrite N.add_0_r. apply mid_lt_next. assumption.
  - eapply N.lt_trans; [apply IHk|].
    replace (i + 1 + N.of_nat (Datatypes.S k)) with (i + 1 + N.of_nat k + 1) by lia. apply mid_lt_next. assumption.
Qed.

Lemma indexed_from_lb k h p : In p (indexed_from k h) -> k <= fst p.
Proof. destruct p as [i c]. intros H. apply in_indexed_from in H. simpl. tauto. Qed.

Lemma indexed_from_sorted k h : StronglySorted (fun p q : N * N => fst p < fst q) (indexed_from k h).
Proof.
  revert k; induction h as [|c h IH]; intros k; simpl; constructor.
  - apply IH.
  - apply Forall_forall. intros p Hp. apply indexed_from_lb in Hp. simpl. lia.
Qed.

Lemma StronglySorted_filter {A} (R : A -> A -> Prop) f l : StronglySorted R l -> StronglySorted R (filter f l).
Proof.
  induction 1; simpl; [constructor|].
  destruct (f a); [|assumption]. constructor; [assumption|].
  apply Forall_forall. intros x Hx. apply filter_In in Hx. destruct Hx as [Hx _].
  rewrite Forall_forall in H0. auto.
Qed.

Theorem drain_ascending n h : 5 <= n -> StronglySorted (fun p q : N * N => fst p < fst q) (drain_mids n h).
Proof.
  intros Hn. unfold drain_mids, nonempty, indexed.
  pose proof (StronglySorted_filter _ (fun p : N * N => 0 <? snd p) _ (indexed_from_sorted 0 h)) as HS.
  induction HS; simpl; constructor; [assumption|].
  apply Forall_forall. intros q Hq. apply in_map_iff in Hq. destruct Hq as (p & <- & Hp). simpl.
  rewrite Forall_forall in H. apply mid_strict_mono; auto.
Qed.

(* ------------------------------------------------------------ concurrent recording *)

Lemma pick_perm {T} (ts : list (list T)) t x ts' : pick ts t = Some (x, ts') ->
  Permutation (concat ts) (x :: concat ts').
Proof.
  revert t ts'; induction ts as [|q r IH]; intros [|t] ts' H; simpl in *; try discriminate.
  - destruct q as [|y q]; [discriminate|]. injection H as <- <-. simpl. reflexivity.
  - assert (H' : match pick r t with Some (x, r') => Some (x, q :: r') | None => None end = Some (x, ts'))
      by (destruct q; exact H).
    clear H. destruct (pick r t) as [[y r']|] eqn:E; [|discriminate]. injection H' as <- <-. simpl.
    specialize (IH _ _ E). rewrite IH. symmetry. apply Permutation_middle.
Qed.

(* every schedule performs some of the threads' records, each at most once, in some order *)
Lemma conc_run_spec n sched : forall h ts h' ts', conc_run n h ts sched = (h', ts') ->
  exists done, Permutation (concat ts) (done ++ concat ts') /\ h' = fold_left (hist_record n) done h.
Proof.
  induction sched as [|t sched IH]; intros h ts h' ts' H; simpl in H.
  - injection H as <- <-. exists []. split; reflexivity.
  - destruct (pick ts t) as [[x ts1]|] eqn:E.
    + destruct (IH _ _ _ _ H) as (done & HP & ->). exists (x :: done). split; [|reflexivity].
      rewrite (pick_perm _ _ _ _ E). simpl. constructor. assumption.
    + apply IH. assumption.
Qed.

(* c11_permutation, concurrent form: whatever the interleaving of the threads' fetch_adds, once every
   thread has finished the array equals the one built sequentially from the threads' records *)
Theorem conc_run_complete n ts sched h' ts' : 5 <= n ->
  conc_run n (hist_empty n) ts sched = (h', ts') -> concat ts' = [] ->
  h' = hist_run n (concat ts).
Proof.
  intros Hn H Hdone. destruct (conc_run_spec n sched _ _ _ _ H) as (done & HP & ->).
  rewrite Hdone, app_nil_r in HP. fold (hist_run n done). symmetry. apply hist_run_perm; assumption.
Qed.

(* ------------------------------------------------------------ the property's accuracy clause, end to end *)

Lemma index_total n v : v <= max_value n -> exists i, value_to_index n v = Some i.
Proof.
  intros H. unfold value_to_index. destruct (v <? cutoff_value); [eauto|].
  destruct (max_value n <? v) eqn:E; [apply N.ltb_lt in E; lia|eauto].
Qed.

(* x = a/d >= 1/32 recorded c times (as the integer floor (1024 x)): the closed distribution reports a bucket
   with at least c occurrences at a value m/1024 with |m/1024 - x| <= x/16 *)
Theorem observation_within_16th n rs a d c : 5 <= n -> 0 < d -> d <= 32 * a -> 0 < c ->
  1024 * a / d <= max_value n -> In (1024 * a / d, c) rs ->
  (forall i, count_in n i rs < 2 ^ 64) ->
  exists m k, In (m, k) (drain_mids n (hist_run n rs)) /\ c <= k /\
              16 * (m * d) <= 17 * (1024 * a) /\ 15 * (1024 * a) <= 16 * (m * d).
Proof.
  intros Hn Hd Hx Hc Hmax Hin Hb.
  destruct (index_total n _ Hmax) as [i Hi].
  destruct (recorded_is_reported n rs _ c i Hn Hin Hc Hi (Hb i)) as [H1 H2].
  exists (bucket_mid n i), (count_in n i rs). split; [assumption|]. split; [assumption|].
  apply reported_within_16th; assumption.
Qed.

(* x = a/d < 1/32: reported at m/1024 with 0 <= x - m/1024 < 1/1024 *)
Theorem observation_within_1024th n rs a d c : 5 <= n -> 0 < d -> 32 * a < d -> 0 < c ->
  In (1024 * a / d, c) rs ->
  (forall i, count_in n i rs < 2 ^ 64) ->
  exists m k, In (m, k) (drain_mids n (hist_run n rs)) /\ c <= k /\
              m * d <= 1024 * a /\ 1024 * a < m * d + d.
Proof.
  intros Hn Hd Hx Hc Hin Hb.
  assert (Hv : 1024 * a / d < 32) by (apply N.div_lt_upper_bound; lia).
  assert (Hi : value_to_index n (1024 * a / d) = Some (1024 * a / d)) by (apply index_small; assumption).
  destruct (recorded_is_reported n rs _ c _ Hn Hin Hc Hi (Hb _)) as [H1 H2].
  exists (bucket_mid n (1024 * a / d)), (count_in n (1024 * a / d) rs). split; [assumption|]. split; [assumption|].
  apply reported_within_1024th; assumption.
Qed.
