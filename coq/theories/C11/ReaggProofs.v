(* C11 — re-aggregation of a closed exponential histogram.

   Integer core (no floats): replaying the drained (midpoint, count) pairs into an empty histogram rebuilds the
   same bucket array.  With floats: the same holds under the explicit exactness condition that the mean
   total / occurrences scales back to the midpoint; a witness shows the condition cannot be dropped. *)
From Coq Require Import List NArith ZArith Bool Lia.
From MV Require Import C11.Model C11.BucketProofs C11.HistProofs C11.Float.
Import ListNotations.
Local Open Scope N_scope.
Ltac Zify.zify_post_hook ::= Z.to_euclidean_division_equations.

Definition mids_of (n : N) (l : list (N * N)) : list (N * N) := map (fun p => (bucket_mid n (fst p), snd p)) l.

(* slot i of the array whose first slot has index k, 0 outside *)
Definition slot_at (k : N) (h : list N) (i : N) : N :=
  if (k <=? i) && (i <? k + N.of_nat (length h)) then nth (N.to_nat (i - k)) h 0 else 0.

Lemma slot_at_cons k c h i : slot_at k (c :: h) i = (if k =? i then c else 0) + slot_at (k + 1) h i.
Proof.
  unfold slot_at. change (length (c :: h)) with (Datatypes.S (length h)).
  destruct (N.eqb_spec k i) as [->|Hne].
  - destruct (N.leb_spec i i); [|lia]. destruct (N.ltb_spec i (i + N.of_nat (Datatypes.S (length h)))); [|lia].
    destruct (N.leb_spec (i + 1) i); [lia|]. cbn [andb]. replace (i - i) with 0 by lia. cbn [N.to_nat nth]. lia.
  - destruct (N.leb_spec k i), (N.leb_spec (k + 1) i); try lia; cbn [andb]; [|reflexivity].
    assert (Heq : k + N.of_nat (Datatypes.S (length h)) = k + 1 + N.of_nat (length h)) by lia. rewrite Heq.
    destruct (N.ltb_spec i (k + 1 + N.of_nat (length h))); [|reflexivity].
    replace (N.to_nat (i - k)) with (Datatypes.S (N.to_nat (i - (k + 1)))) by lia. cbn [nth]. lia.
Qed.

(* occurrences that the drained pairs of the slots k, k+1, ... put back into bucket i *)
Lemma count_in_drained n (Hn : 5 <= n) h : forall k i, k + N.of_nat (length h) <= total_buckets n ->
  count_in n i (mids_of n (filter (fun p => 0 <? snd p) (indexed_from k h))) = slot_at k h i.
Proof.
  induction h as [|c h IH]; intros k i Hk.
  - simpl. unfold slot_at. simpl. destruct (k <=? i), (i <? k + 0); simpl; try reflexivity. destruct (N.to_nat (i - k)); reflexivity.
  - simpl length in Hk. rewrite slot_at_cons. cbn [indexed_from filter snd].
    assert (IH' := IH (k + 1) i ltac:(lia)).
    destruct (0 <? c) eqn:Ec.
    + cbn [mids_of map]. fold (mids_of n (filter (fun p => 0 <? snd p) (indexed_from (k + 1) h))).
      cbn [count_in fold_right fst snd].
      fold (count_in n i (mids_of n (filter (fun p => 0 <? snd p) (indexed_from (k + 1) h)))).
      rewrite index_of_mid by lia. rewrite IH'. destruct (k =? i); lia.
    + apply N.ltb_ge in Ec. assert (c = 0) by lia. subst c. rewrite IH'. destruct (k =? i); lia.
Qed.

(* c11_reagg, integer core: replaying what was drained rebuilds the bucket array *)
Theorem rerecord_drained n h : 5 <= n -> length h = N.to_nat (total_buckets n) ->
  (forall i, nth i h 0 < 2 ^ 64) ->
  hist_run n (drain_mids n h) = h.
Proof.
  intros Hn Hlen Hb. apply list_ext.
  - unfold hist_run. rewrite fold_record_length, hist_empty_length. auto.
  - intros k.
    destruct (Nat.lt_ge_cases k (N.to_nat (total_buckets n))) as [Hk|Hk].
    + replace k with (N.to_nat (N.of_nat k)) by lia.
      rewrite slot_closed by assumption.
      unfold drain_mids, nonempty, indexed. fold (mids_of n (filter (fun p => 0 <? snd p) (indexed_from 0 h))).
      rewrite count_in_drained by (assumption || lia). unfold slot_at.
      destruct (N.leb_spec 0 (N.of_nat k)); [|lia].
      destruct (N.ltb_spec (N.of_nat k) (0 + N.of_nat (length h))); [|lia].
      simpl andb. rewrite N.sub_0_r. apply wrap64_small. apply Hb.
    + rewrite !nth_beyond; [reflexivity|lia|].
      unfold hist_run. rewrite fold_record_length, hist_empty_length. assumption.
Qed.

(* the exactness condition: the mean of the written observation scales back to the bucket midpoint *)
Definition mean_scales_back (p : N * N) : Prop := exp_rec (exp_obs p) = [p].

(* a decidable form, for checking the condition on concrete arrays *)
Definition scales_back_b (p : N * N) : bool :=
  match exp_rec (exp_obs p) with
  | [q] => (fst q =? fst p) && (snd q =? snd p)
  | _ => false
  end.
Lemma scales_back_sound l : forallb scales_back_b l = true -> Forall mean_scales_back l.
Proof.
  intros H. apply Forall_forall. intros p Hp. rewrite forallb_forall in H. specialize (H p Hp).
  unfold scales_back_b in H. unfold mean_scales_back.
  destruct (exp_rec (exp_obs p)) as [|[v c] [|]]; try discriminate.
  apply andb_prop in H. destruct H as [H1 H2]. apply N.eqb_eq in H1, H2. simpl in H1, H2.
  destruct p as [a b]. simpl in *. subst. reflexivity.
Qed.

(* c11_reagg: under the exactness condition for every drained pair, closing, re-recording the closed
   observations into a histogram of the same strategy and closing again yields the same bucket array, hence
   the same counts and reported values *)
Theorem reaggregate_exact h : length h = N.to_nat (total_buckets 64) -> (forall i, nth i h 0 < 2 ^ 64) ->
  Forall mean_scales_back (drain_mids 64 h) ->
  hist_run 64 (flat_map exp_rec (exp_drain h)) = h.
Proof.
  intros Hlen Hb Hex.
  assert (Hflat : flat_map exp_rec (exp_drain h) = drain_mids 64 h).
  { unfold exp_drain. induction (drain_mids 64 h) as [|p l IH]; [reflexivity|].
    inversion Hex as [|? ? Hp Hl]; subst. cbn [map flat_map]. rewrite Hp, IH by assumption. reflexivity. }
  rewrite Hflat. apply rerecord_drained; [lia|assumption|assumption].
Qed.

Corollary reaggregate_exact_obs h : length h = N.to_nat (total_buckets 64) -> (forall i, nth i h 0 < 2 ^ 64) ->
  Forall mean_scales_back (drain_mids 64 h) ->
  exp_close (exp_drain h) = exp_drain h.
Proof. intros. unfold exp_close. rewrite reaggregate_exact by assumption. reflexivity. Qed.

(* the condition cannot be dropped: 2102220428323626 occurrences of a value in [18/1024, 19/1024) are closed as
   18/1024 x 2102220428323626, whose float mean is just below 18/1024: re-aggregated they are reported as
   17/1024.  (Replayed on the implementation: corpus/C11/known.sx.) *)
Definition reagg_witness : list source := [SObs (ORepeated 4810202187144817617 2102220428323626)].
Theorem reaggregate_inexact_refuted :
  reaggregate Exponential Exponential [reagg_witness] <> close Exponential reagg_witness.
Proof. vm_compute. discriminate. Qed.
