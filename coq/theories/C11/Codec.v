(* C11 — wire codec.
   case  ::= (0 n v)                          layout query: Config::new(4, n), value v
           | (1 strategy (source ...))        record the sources, close
           | (2 st1 st2 ((source ...) ...))   close one histogram of st1 per group, re-aggregate into st2, close
           | (3 strategy ((source ...) ...))  one list per thread, recorded concurrently (shared variant)
   source ::= (0 obs) | (1 secs nanos) | (2 ratio_bits source)
   obs    ::= (0 v) | (1 bits) | (2 total_bits occurrences)
   strategy: 0 exponential, 1 atomic exponential, 2 sort-and-merge
   output: for 0: (index lo hi mid) or (); otherwise the list of obs; for 2: ((closed obs ...) (final obs ...)) *)
(* DISPATCH 1100 c11_model *)
(* DISPATCH 1101 c11_spec *)
From Coq Require Import List ZArith NArith Bool.
From MV Require Import Common.Sx C11.Model C11.Float C11.Spec.
Import ListNotations.
Local Open Scope N_scope.

Definition dec_obs (x : sx) : obs :=
  match sx_tag x with
  | 0%Z => OUnsigned (sx_n (sx_arg x 0))
  | 1%Z => OFloating (sx_n (sx_arg x 0))
  | _ => ORepeated (sx_n (sx_arg x 0)) (sx_n (sx_arg x 1))
  end.
Definition enc_obs (o : obs) : sx :=
  match o with
  | OUnsigned v => tagged 0 [of_n v]
  | OFloating b => tagged 1 [of_n b]
  | ORepeated t c => tagged 2 [of_n t; of_n c]
  end.

Fixpoint dec_source_fuel (fuel : nat) (x : sx) : source :=
  match fuel with
  | O => SObs (OUnsigned 0)
  | Datatypes.S f =>
    match sx_tag x with
    | 0%Z => SObs (dec_obs (sx_arg x 0))
    | 1%Z => SDuration (sx_n (sx_arg x 0)) (sx_n (sx_arg x 1))
    | _ => SConv (sx_n (sx_arg x 0)) (dec_source_fuel f (sx_arg x 1))
    end
  end.
Definition dec_source : sx -> source := dec_source_fuel 8.

Definition dec_strategy (x : sx) : strategy :=
  match sx_z x with 0%Z => Exponential | 1%Z => AtomicExponential | _ => SortMerge end.

Definition dec_sources (x : sx) : list source := map dec_source (sx_list x).

Definition c11_model (x : sx) : sx :=
  match sx_tag x with
  | 0%Z =>
      let n := sx_n (sx_arg x 0) in
      let v := sx_n (sx_arg x 1) in
      match value_to_index n v with
      | Some i => L [of_n i; of_n (index_to_lower_bound i); of_n (index_to_upper_bound n i); of_n (bucket_mid n i)]
      | None => L []
      end
  | 1%Z => L (map enc_obs (close (dec_strategy (sx_arg x 0)) (dec_sources (sx_arg x 1))))
  | 2%Z =>
      let st1 := dec_strategy (sx_arg x 0) in
      let st2 := dec_strategy (sx_arg x 1) in
      let groups := map dec_sources (sx_list (sx_arg x 2)) in
      L [L (map enc_obs (flat_map (close st1) groups)); L (map enc_obs (reaggregate st1 st2 groups))]
  | _ => L (map enc_obs (close (dec_strategy (sx_arg x 0)) (flat_map dec_sources (sx_list (sx_arg x 1)))))
  end.

(* ---- the specification side: decoded independently of Flocq; only the unit conversion and the
   Duration -> milliseconds step (which belong to other properties) reuse the float model *)
Definition to_sobs (o : obs) : sobs :=
  match o with OUnsigned v => SU v | OFloating b => SF b | ORepeated t c => SR t c end.
Definition spec_ins (srcs : list source) : list sobs := map to_sobs (flat_map source_obs srcs).
Definition dec_outs (x : sx) : list (N * N) :=
  map (fun o => (sx_n (sx_arg o 0), sx_n (sx_arg o 1))) (sx_list x).
Definition all_repeated (x : sx) : bool := forallb (fun o => Z.eqb (sx_tag o) 2) (sx_list x).

Definition holds_for (st : strategy) (ins : list sobs) (outs : sx) : bool :=
  all_repeated outs &&
  match st with
  | SortMerge => sm_holds ins (dec_outs outs)
  | _ => exp_holds ins (dec_outs outs)
  end.

(* re-aggregation into the same kind of strategy must change nothing: the final runs are the closed ones
   with equal reported values merged *)
Definition same_kind (a b : strategy) : bool :=
  match a, b with
  | SortMerge, SortMerge => true
  | SortMerge, _ => false
  | _, SortMerge => false
  | _, _ => true
  end.

Definition c11_spec (pair : sx) : sx :=
  let x := sx_nth pair 0 in
  let imp := sx_nth pair 1 in
  of_bool
  match sx_tag x with
  | 0%Z =>
      let n := sx_n (sx_arg x 0) in
      let v := sx_n (sx_arg x 1) in
      match sx_list imp with
      | [] => max_value n <? v
      | _ => layout_holds v (sx_n (sx_nth imp 1)) (sx_n (sx_nth imp 2)) (sx_n (sx_nth imp 3))
      end
  | 1%Z => holds_for (dec_strategy (sx_arg x 0)) (spec_ins (dec_sources (sx_arg x 1))) imp
  | 2%Z =>
      let st1 := dec_strategy (sx_arg x 0) in
      let st2 := dec_strategy (sx_arg x 1) in
      let groups := map dec_sources (sx_list (sx_arg x 2)) in
      let closed := sx_nth imp 0 in
      let final := sx_nth imp 1 in
      let closed_ins := map (fun o => SR (fst o) (snd o)) (dec_outs closed) in
      all_repeated closed && all_repeated final &&
      (if same_kind st1 st2 then reagg_holds (match st1 with SortMerge => true | _ => false end) (dec_outs closed) (dec_outs final)
       else holds_for st2 closed_ins final)
  | _ => holds_for (dec_strategy (sx_arg x 0)) (spec_ins (flat_map dec_sources (sx_list (sx_arg x 1)))) imp
  end.
