(* Queue family — the ring of the mechanism model is the specification's ring (Spec.ring_push / ring_take):
   only a push and the writer's pop touch it, and they do exactly what the specification says. *)
From Coq Require Import List NArith Bool Arith Lia.
From MV Require Import Queue.Model Queue.Spec Queue.Inv Queue.Delivery.
Import ListNotations.

Theorem push_is_ring_push : forall c s t n s',
  step c s (LPush t n) = Some s' ->
  q (sh s') = fst (ring_push (cap c) (q (sh s)) (t, n)) /\
  match snd (ring_push (cap c) (q (sh s)) (t, n)) with
  | None => removed (gh s') = removed (gh s) /\ out (gh s') = out (gh s) /\ overflow (gh s') = overflow (gh s)
  | Some h => removed (gh s') = removed (gh s) ++ [(h, Displaced)] /\ out (gh s') = out (gh s) ++ [EOver] /\
              overflow (gh s') = S (overflow (gh s))
  end.
Proof.
  intros c s t n s' H. cbn [step] in H. unfold do_push in H. unfold ring_push.
  destruct ((0 <? handles (sh s)) && negb (memN t (pend (sh s)))); [|discriminate].
  destruct (length (q (sh s)) <? cap c).
  - inversion H; subst; simp_st. cbn. auto.
  - destruct (q (sh s)) as [|h r]; [discriminate|]. inversion H; subst; simp_st. cbn. auto.
Qed.

Theorem pop_is_ring_take : forall c s o s',
  pc (wr s) = WPop -> step c s (LW o) = Some s' ->
  match ring_take (q (sh s)) with
  | None => q (sh s') = [] /\ inflight (wr s') = inflight (wr s) /\ dres (wr s') = Drained /\
            pc (wr s') = drain_done (wr s) /\ removed (gh s') = removed (gh s)
  | Some (h, r) => q (sh s') = r /\ inflight (wr s') = Some h /\ pc (wr s') = WConsume /\
                   removed (gh s') = removed (gh s) ++ [(h, Popped)]
  end.
Proof.
  intros c s o s' Hpc H. cbn [step] in H. unfold wstep in H. cbv zeta in H. rewrite Hpc in H.
  unfold ring_take. destruct (q (sh s)) as [|h r] eqn:E; inversion H; subst; simp_st; auto.
Qed.

Theorem ring_untouched_otherwise : forall c s l s',
  step c s l = Some s' ->
  (forall t n, l <> LPush t n) -> (forall o, l = LW o -> pc (wr s) <> WPop) ->
  q (sh s') = q (sh s).
Proof.
  intros c s l s' H Hn Hw.
  step_inv H; simp_st; auto; try (exfalso; eapply Hn; reflexivity); try (exfalso; eapply Hw; eauto).
Qed.

(* a full ring loses its head exactly when at least `cap` newer entries follow it — pure specification fact *)
Lemma ring_push_spec : forall cap_ r e,
  0 < cap_ -> length r <= cap_ ->
  match ring_push cap_ r e with
  | (r', None) => r' = r ++ [e] /\ length r < cap_
  | (r', Some h) => exists t, r = h :: t /\ r' = t ++ [e] /\ length r = cap_
  end.
Proof.
  intros cap_ r e Hc Hl. unfold ring_push. destruct (length r <? cap_) eqn:E.
  - apply Nat.ltb_lt in E. auto.
  - apply Nat.ltb_ge in E. destruct r as [|h t]; [cbn in E; lia|]. exists t. repeat split; auto. lia.
Qed.
