(* Queue family (C01, C04, C05, C09) — the MECHANISM model of metrique-writer/src/sink/background.rs.

   A labelled transition system: one label per atomic action of one thread.  "For all schedules" is
   "for all label lists".  The primitives are modelled by their documented sequential specification
   (crossbeam ArrayQueue::force_push/pop = bounded FIFO with displace-oldest; Parker/Unparker = one
   token; std mpsc = FIFO list; tokio oneshot sender drop = completion of the FlushWait future;
   Arc = counter).  Clock reads, the stream's results and the rate limiter are oracle values carried by
   the writer label.  Ghost fields (pushed / removed / out / ...) record history and never influence
   control flow.

   Writer program counters = the points of Receiver::run between two shared-memory operations:

     WPop        drain_until_deadline: about to `queue.pop()`
     WConsume    popped entry in hand, about to `consume` (stream.next [+ in-band report], count += 1,
                 `count % 32 == 0 && now >= deadline`)
     WHandle     about to run the first half of WakerTracker::handle_waiting_wakers (count down, flush+wake)
     WRecv       in its second half: about to `flush_queue_receiver.try_recv()`
     WCheckSd1   about to load the shutdown flag (inner loop)
     WPark       about to `park_deadline` (skipped while wakers are waiting)
     WParked     blocked inside park_deadline
     WCheckTime  about to test `now >= next_flush`
     WOuterFlush about to run the periodic `flush_stream`
     WCheckSd2   about to load the shutdown flag (outer loop)
     WCheckApp   about to test `Arc::get_mut(&mut self.inner)` (no appenders left?)
     WSdFlush / WSdDrop   shut_down(): flush, drop(stream)          (its drain re-uses WPop/WConsume with sd = true)
     WExit       about to leave `run`: the waker tracker and the channel receiver are dropped
     WExited     thread finished *)
From Coq Require Import List NArith Bool Arith.
Import ListNotations.

Definition tid := N.
Definition ent := (N * N)%type.      (* (producer thread, per-thread sequence number) *)
Definition wid := N.                 (* flush request id *)

Inductive sres := ROk | RVal | RIo.                      (* result of stream.next *)
Inductive how := Popped | Displaced.
Inductive ev :=
| ENext (e : ent) (r : sres)      (* stream.next(entry) returned r *)
| EReport (r : sres)              (* stream.report_error(..) = next(MetriqueValidationError) returned r *)
| EFlush (ok : bool)              (* stream.flush() *)
| EDropStream                     (* the stream object was dropped *)
| EWake (w : wid)                 (* the FlushWait future of request w became ready *)
| EOver.                          (* recorder.increment_counter("metrique_queue_overflows", 1) *)
Inductive dresult := Drained | HitDeadline.
Inductive wpc := WPop | WConsume | WHandle | WRecv | WCheckSd1 | WPark | WParked | WCheckTime
               | WOuterFlush | WCheckSd2 | WCheckApp | WSdFlush | WSdDrop | WExit | WExited.
Inductive jstate := JHeld | JForgotten | JStored | JUnparked | JJoined.

Record config := { cap : nat;            (* queue capacity (> 0, asserted by the builder) *)
                   nosub : bool;         (* no tracing subscriber installed: in-band reports possible *)
                   extra_clone : bool }. (* run() keeps `let inner = self.inner.clone()` alive (tree before the fix) *)

Record oracle := { o_res : sres;          (* WConsume: result of stream.next for this entry *)
                   o_rep : option sres;   (* WConsume: the rate limiter let the in-band report through; its result *)
                   o_dl : bool;           (* clock: deadline reached / park timed out *)
                   o_fl : bool }.         (* result of stream.flush *)

Inductive label :=
| LPush (t : tid) (n : N)        (* Inner::push, first half: force_push (+ overflow counter) *)
| LUnpark (t : tid)              (* Inner::push / flush_async, second half: unparker.unpark() *)
| LFlushReq (t : tid) (w : wid)  (* Inner::flush_async, first half: flush_queue_sender.send(signal) *)
| LClone                         (* clone of a queue handle *)
| LDropHandle                    (* drop of a queue handle *)
| LForget                        (* BackgroundQueueJoinHandle::forget *)
| LJStore                        (* join handle drop: shutdown_signal.store(true) *)
| LJUnpark                       (* join handle drop: unparker.unpark() *)
| LJJoin                         (* join handle drop: handle.join() returns *)
| LW (o : oracle).               (* one step of the writer thread *)

Record shared := { q : list ent; token : bool; fch : list wid; shutdown : bool; handles : nat;
                   jh : jstate; pend : list tid }.
Record writer := { pc : wpc; sd : bool; inflight : option ent; count : nat; dres : dresult;
                   waiting : list wid; ebw : nat }.
Record ghost := { pushed : list ent; removed : list (ent * how); out : list ev; overflow : nat;
                  freq : list (wid * nat);      (* request id -> length of [pushed] when it was sent *)
                  sdmark : option nat;          (* length of [pushed] when the shutdown flag was stored *)
                  sdhit : bool }.               (* the shutdown drain gave up at its deadline *)
Record state := { sh : shared; wr : writer; gh : ghost }.

Definition set_q (s : shared) v := Build_shared v (token s) (fch s) (shutdown s) (handles s) (jh s) (pend s).
Definition set_token (s : shared) v := Build_shared (q s) v (fch s) (shutdown s) (handles s) (jh s) (pend s).
Definition set_fch (s : shared) v := Build_shared (q s) (token s) v (shutdown s) (handles s) (jh s) (pend s).
Definition set_shutdown (s : shared) v := Build_shared (q s) (token s) (fch s) v (handles s) (jh s) (pend s).
Definition set_handles (s : shared) v := Build_shared (q s) (token s) (fch s) (shutdown s) v (jh s) (pend s).
Definition set_jh (s : shared) v := Build_shared (q s) (token s) (fch s) (shutdown s) (handles s) v (pend s).
Definition set_pend (s : shared) v := Build_shared (q s) (token s) (fch s) (shutdown s) (handles s) (jh s) v.

Definition set_pc (w : writer) v := Build_writer v (sd w) (inflight w) (count w) (dres w) (waiting w) (ebw w).
Definition set_sd (w : writer) v := Build_writer (pc w) v (inflight w) (count w) (dres w) (waiting w) (ebw w).
Definition set_inflight (w : writer) v := Build_writer (pc w) (sd w) v (count w) (dres w) (waiting w) (ebw w).
Definition set_count (w : writer) v := Build_writer (pc w) (sd w) (inflight w) v (dres w) (waiting w) (ebw w).
Definition set_dres (w : writer) v := Build_writer (pc w) (sd w) (inflight w) (count w) v (waiting w) (ebw w).
Definition set_waiting (w : writer) v := Build_writer (pc w) (sd w) (inflight w) (count w) (dres w) v (ebw w).
Definition set_ebw (w : writer) v := Build_writer (pc w) (sd w) (inflight w) (count w) (dres w) (waiting w) v.

Definition add_out (g : ghost) (evs : list ev) :=
  Build_ghost (pushed g) (removed g) (out g ++ evs) (overflow g) (freq g) (sdmark g) (sdhit g).
Definition add_removed (g : ghost) (x : ent * how) :=
  Build_ghost (pushed g) (removed g ++ [x]) (out g) (overflow g) (freq g) (sdmark g) (sdhit g).
Definition add_pushed (g : ghost) (e : ent) :=
  Build_ghost (pushed g ++ [e]) (removed g) (out g) (overflow g) (freq g) (sdmark g) (sdhit g).
Definition inc_overflow (g : ghost) :=
  Build_ghost (pushed g) (removed g) (out g) (S (overflow g)) (freq g) (sdmark g) (sdhit g).
Definition add_freq (g : ghost) (x : wid * nat) :=
  Build_ghost (pushed g) (removed g) (out g) (overflow g) (freq g ++ [x]) (sdmark g) (sdhit g).
Definition set_sdmark (g : ghost) v :=
  Build_ghost (pushed g) (removed g) (out g) (overflow g) (freq g) v (sdhit g).
Definition set_sdhit (g : ghost) v :=
  Build_ghost (pushed g) (removed g) (out g) (overflow g) (freq g) (sdmark g) v.

Definition init : state :=
  {| sh := {| q := []; token := false; fch := []; shutdown := false; handles := 1; jh := JHeld; pend := [] |};
     wr := {| pc := WPop; sd := false; inflight := None; count := 0; dres := Drained; waiting := []; ebw := 0 |};
     gh := {| pushed := []; removed := []; out := []; overflow := 0; freq := []; sdmark := None; sdhit := false |} |}.

Definition memN (x : N) (l : list N) : bool := existsb (N.eqb x) l.
Fixpoint removeN (x : N) (l : list N) : list N :=
  match l with [] => [] | y :: r => if N.eqb x y then r else y :: removeN x r end.
Definition is_nil {T} (l : list T) : bool := match l with [] => true | _ => false end.

(* ---------------------------------------------------------------- producers / handles / join handle *)

(* ArrayQueue::force_push: append; when full, the oldest element is displaced (and the pusher bumps the
   overflow counter).  Never blocks, never fails. *)
Definition do_push (c : config) (s : state) (t : tid) (n : N) : option state :=
  let Sh := sh s in
  if (0 <? handles Sh) && negb (memN t (pend Sh)) then
    let e := (t, n) in
    if length (q Sh) <? cap c then
      Some {| sh := set_pend (set_q Sh (q Sh ++ [e])) (pend Sh ++ [t]); wr := wr s; gh := add_pushed (gh s) e |}
    else match q Sh with
         | [] => None                        (* capacity 0 is rejected by the builder *)
         | h :: r =>
           Some {| sh := set_pend (set_q Sh (r ++ [e])) (pend Sh ++ [t]); wr := wr s;
                   gh := add_out (inc_overflow (add_removed (add_pushed (gh s) e) (h, Displaced))) [EOver] |}
         end
  else None.

Definition do_unpark (s : state) (t : tid) : option state :=
  let Sh := sh s in
  if memN t (pend Sh) then
    Some {| sh := set_pend (set_token Sh true) (removeN t (pend Sh)); wr := wr s; gh := gh s |}
  else None.

(* flush_async: send the signal; after the writer has gone the receiver is dropped, `send` fails, the
   signal (and its oneshot sender) is dropped at once and the future is ready immediately. *)
Definition is_exited (p : wpc) : bool := match p with WExited => true | _ => false end.

Definition do_flushreq (s : state) (t : tid) (w : wid) : option state :=
  let Sh := sh s in
  if (0 <? handles Sh) && negb (memN t (pend Sh)) && negb (memN w (map fst (freq (gh s)))) then
    let g := add_freq (gh s) (w, length (pushed (gh s))) in
    if is_exited (pc (wr s))
    then Some {| sh := set_pend Sh (pend Sh ++ [t]); wr := wr s; gh := add_out g [EWake w] |}
    else Some {| sh := set_pend (set_fch Sh (fch Sh ++ [w])) (pend Sh ++ [t]); wr := wr s; gh := g |}
  else None.

Definition do_clone (s : state) : option state :=
  let Sh := sh s in
  if 0 <? handles Sh then Some {| sh := set_handles Sh (S (handles Sh)); wr := wr s; gh := gh s |} else None.

(* a handle can only be dropped when no thread is inside push/flush_async through it *)
Definition do_drophandle (s : state) : option state :=
  let Sh := sh s in
  if (1 <? handles Sh) || ((0 <? handles Sh) && is_nil (pend Sh)) then
    Some {| sh := set_handles Sh (pred (handles Sh)); wr := wr s; gh := gh s |}
  else None.

Definition do_forget (s : state) : option state :=
  match jh (sh s) with
  | JHeld => Some {| sh := set_jh (sh s) JForgotten; wr := wr s; gh := gh s |}
  | _ => None
  end.

Definition do_jstore (s : state) : option state :=
  match jh (sh s) with
  | JHeld => Some {| sh := set_jh (set_shutdown (sh s) true) JStored; wr := wr s;
                     gh := set_sdmark (gh s) (Some (length (pushed (gh s)))) |}
  | _ => None
  end.

Definition do_junpark (s : state) : option state :=
  match jh (sh s) with
  | JStored => Some {| sh := set_jh (set_token (sh s) true) JUnparked; wr := wr s; gh := gh s |}
  | _ => None
  end.

Definition do_jjoin (s : state) : option state :=
  match jh (sh s) with
  | JUnparked => if is_exited (pc (wr s)) then Some {| sh := set_jh (sh s) JJoined; wr := wr s; gh := gh s |}
                 else None
  | _ => None
  end.

(* ---------------------------------------------------------------- the writer thread *)

(* report_validation_error reaches the stream only without a tracing subscriber, only after a
   Validation result, and only when the (process-wide, 1/s) rate limiter lets it through. *)
Definition rep_allowed (c : config) (o : oracle) : bool :=
  match o_rep o with
  | None => true
  | Some _ => nosub c && match o_res o with RVal => true | _ => false end
  end.

Definition after_handle (w : writer) : wpc :=
  match dres w with HitDeadline => WOuterFlush | Drained => WCheckSd1 end.
Definition drain_done (w : writer) : wpc := if sd w then WSdFlush else WHandle.

(* Arc::get_mut(&mut self.inner): strong count = handles + the receiver's own reference
   (+ the clone `run` used to keep in a local). *)
Definition no_appenders (c : config) (Sh : shared) : bool :=
  (handles Sh =? 0) && negb (extra_clone c).

Definition is_drained (d : dresult) : bool := match d with Drained => true | HitDeadline => false end.

Definition wstep (c : config) (s : state) (o : oracle) : option state :=
  let Sh := sh s in let W := wr s in let G := gh s in
  match pc W with
  | WPop =>
    match q Sh with
    | [] => Some {| sh := Sh; wr := set_pc (set_dres W Drained) (drain_done W); gh := G |}
    | e :: r => Some {| sh := set_q Sh r; wr := set_pc (set_inflight W (Some e)) WConsume;
                        gh := add_removed G (e, Popped) |}
    end
  | WConsume =>
    match inflight W with
    | None => None
    | Some e =>
      if rep_allowed c o then
        let evs := ENext e (o_res o) :: match o_rep o with Some r => [EReport r] | None => [] end in
        let W1 := set_count (set_inflight W None) (S (count W)) in
        (* `count % 32 == 0 && now >= deadline` *)
        if (Nat.modulo (S (count W)) 32 =? 0) && o_dl o then
          Some {| sh := Sh; wr := set_pc (set_dres W1 HitDeadline) (drain_done W);
                  gh := set_sdhit (add_out G evs) (sdhit G || sd W) |}
        else
          Some {| sh := Sh; wr := set_pc W1 WPop; gh := add_out G evs |}
      else None
    end
  | WHandle =>
    (* first half of handle_waiting_wakers *)
    if is_nil (waiting W) then Some {| sh := Sh; wr := set_pc W WRecv; gh := G |}
    else if (ebw W - count W =? 0) || is_drained (dres W) then
      Some {| sh := Sh; wr := set_pc (set_ebw (set_waiting W []) 0) WRecv;
              gh := add_out G (EFlush (o_fl o) :: map EWake (waiting W)) |}
    else Some {| sh := Sh; wr := set_pc (set_ebw W (ebw W - count W)) (after_handle W); gh := G |}
  | WRecv =>
    (* second half: `while let Ok(w) = try_recv()`, then `entries_before_wake = capacity` *)
    match fch Sh with
    | w :: r => Some {| sh := set_fch Sh r; wr := set_waiting W (waiting W ++ [w]); gh := G |}
    | [] =>
      if is_nil (waiting W) then Some {| sh := Sh; wr := set_pc W (after_handle W); gh := G |}
      else Some {| sh := Sh; wr := set_pc (set_ebw W (cap c)) (after_handle W); gh := G |}
    end
  | WCheckSd1 =>
    if shutdown Sh then Some {| sh := Sh; wr := set_pc W WOuterFlush; gh := G |}
    else if is_nil (waiting W) then Some {| sh := Sh; wr := set_pc W WPark; gh := G |}
    else Some {| sh := Sh; wr := set_pc W WCheckTime; gh := G |}
  | WPark =>
    (* park_deadline: consume the token if present; return at once if the deadline passed; else block *)
    if token Sh then Some {| sh := set_token Sh false; wr := set_pc W WCheckTime; gh := G |}
    else if o_dl o then Some {| sh := Sh; wr := set_pc W WCheckTime; gh := G |}
    else Some {| sh := Sh; wr := set_pc W WParked; gh := G |}
  | WParked =>
    if token Sh then Some {| sh := set_token Sh false; wr := set_pc W WCheckTime; gh := G |}
    else if o_dl o then Some {| sh := Sh; wr := set_pc W WCheckTime; gh := G |}
    else None
  | WCheckTime =>
    if o_dl o then Some {| sh := Sh; wr := set_pc W WOuterFlush; gh := G |}
    else Some {| sh := Sh; wr := set_pc (set_count W 0) WPop; gh := G |}
  | WOuterFlush =>
    Some {| sh := Sh; wr := set_pc W WCheckSd2; gh := add_out G [EFlush (o_fl o)] |}
  | WCheckSd2 =>
    if shutdown Sh then Some {| sh := Sh; wr := set_pc (set_count (set_sd W true) 0) WPop; gh := G |}
    else Some {| sh := Sh; wr := set_pc W WCheckApp; gh := G |}
  | WCheckApp =>
    if no_appenders c Sh then Some {| sh := Sh; wr := set_pc (set_count (set_sd W true) 0) WPop; gh := G |}
    else Some {| sh := Sh; wr := set_pc (set_count W 0) WPop; gh := G |}
  | WSdFlush => Some {| sh := Sh; wr := set_pc W WSdDrop; gh := add_out G [EFlush (o_fl o)] |}
  | WSdDrop => Some {| sh := Sh; wr := set_pc W WExit; gh := add_out G [EDropStream] |}
  | WExit =>
    (* waker tracker and channel receiver die: every collected or still queued signal is dropped *)
    Some {| sh := set_fch Sh []; wr := set_pc (set_waiting W []) WExited;
            gh := add_out G (map EWake (waiting W ++ fch Sh)) |}
  | WExited => None
  end.

Definition step (c : config) (s : state) (l : label) : option state :=
  match l with
  | LPush t n => do_push c s t n
  | LUnpark t => do_unpark s t
  | LFlushReq t w => do_flushreq s t w
  | LClone => do_clone s
  | LDropHandle => do_drophandle s
  | LForget => do_forget s
  | LJStore => do_jstore s
  | LJUnpark => do_junpark s
  | LJJoin => do_jjoin s
  | LW o => wstep c s o
  end.

Fixpoint run (c : config) (s : state) (ls : list label) : option state :=
  match ls with
  | [] => Some s
  | l :: r => match step c s l with Some s' => run c s' r | None => None end
  end.

(* run that reports where it got stuck: (state reached, number of labels executed) *)
Fixpoint run_upto (c : config) (s : state) (ls : list label) (k : nat) : state * nat * bool :=
  match ls with
  | [] => (s, k, true)
  | l :: r => match step c s l with Some s' => run_upto c s' r (1 + k) | None => (s, k, false) end
  end.

(* ---------------------------------------------------------------- projections used by the statements *)

Fixpoint nexts (o : list ev) : list ent :=
  match o with [] => [] | ENext e _ :: r => e :: nexts r | _ :: r => nexts r end.
Fixpoint popped (r : list (ent * how)) : list ent :=
  match r with [] => [] | (e, Popped) :: t => e :: popped t | (_, Displaced) :: t => popped t end.
Fixpoint displaced (r : list (ent * how)) : list ent :=
  match r with [] => [] | (e, Displaced) :: t => e :: displaced t | (_, Popped) :: t => displaced t end.
Definition opt_list {T} (o : option T) : list T := match o with Some x => [x] | None => [] end.
Fixpoint count_over (o : list ev) : nat :=
  match o with [] => 0 | EOver :: r => S (count_over r) | _ :: r => count_over r end.
Definition by_thread (t : tid) (l : list ent) : list ent := filter (fun e => N.eqb (fst e) t) l.

(* the entries appended, in the linearisation order of their force_push, read off a schedule *)
Fixpoint pushes (ls : list label) : list ent :=
  match ls with [] => [] | LPush t n :: r => (t, n) :: pushes r | _ :: r => pushes r end.
