(* Queue family — basic lemmas and the history invariant (FIFO / exactly-once / overflow accounting). *)
From Coq Require Import List NArith Bool Arith Lia.
From MV Require Import Queue.Model.
Import ListNotations.

(* ---------------------------------------------------------------- runs *)

Lemma run_app : forall c l1 l2 s,
  run c s (l1 ++ l2) = match run c s l1 with Some s' => run c s' l2 | None => None end.
Proof.
  induction l1 as [|l r IH]; intros l2 s; cbn [run app]; [reflexivity|].
  destruct (step c s l); [apply IH|reflexivity].
Qed.

Definition reachable (c : config) (s : state) : Prop := exists ls, run c init ls = Some s.

Lemma reachable_init : forall c, reachable c init.
Proof. intros c; exists []; reflexivity. Qed.

Lemma reachable_step : forall c s l s', reachable c s -> step c s l = Some s' -> reachable c s'.
Proof.
  intros c s l s' [ls H] Hs. exists (ls ++ [l]). rewrite run_app, H. cbn [run]. now rewrite Hs.
Qed.

Lemma reachable_run : forall c ls s s', reachable c s -> run c s ls = Some s' -> reachable c s'.
Proof.
  intros c ls s s' [l0 H] Hr. exists (l0 ++ ls). now rewrite run_app, H.
Qed.

(* invariants are proved by induction over the label list, from the right *)
Lemma reachable_ind : forall c (P : state -> Prop),
  P init ->
  (forall s l s', reachable c s -> P s -> step c s l = Some s' -> P s') ->
  forall s, reachable c s -> P s.
Proof.
  intros c P H0 Hstep s [ls Hr]. revert s Hr.
  induction ls as [|l ls IH] using rev_ind; intros s Hr.
  - cbn in Hr. now inversion Hr.
  - rewrite run_app in Hr. destruct (run c init ls) as [s1|] eqn:E; [|discriminate].
    cbn [run] in Hr. destruct (step c s1 l) as [s2|] eqn:E2; [|discriminate]. inversion Hr; subst.
    eapply Hstep; [exists ls; exact E | apply IH; reflexivity | exact E2].
Qed.

Lemma run_invariant : forall c (P : state -> Prop),
  (forall s l s', P s -> step c s l = Some s' -> P s') ->
  forall ls s s', P s -> run c s ls = Some s' -> P s'.
Proof.
  intros c P Hstep. induction ls as [|l r IH]; intros s s' Hp Hr; cbn [run] in Hr.
  - now inversion Hr; subst.
  - destruct (step c s l) as [s1|] eqn:E; [|discriminate]. eapply IH; [eapply Hstep; eauto|exact Hr].
Qed.

(* ---------------------------------------------------------------- projections *)

Lemma nexts_app : forall a b, nexts (a ++ b) = nexts a ++ nexts b.
Proof. induction a as [|[] a IH]; intros b; cbn [nexts app]; rewrite ?IH; reflexivity. Qed.
Lemma popped_app : forall a b, popped (a ++ b) = popped a ++ popped b.
Proof. induction a as [|[e []] a IH]; intros b; cbn [popped app]; rewrite ?IH; reflexivity. Qed.
Lemma displaced_app : forall a b, displaced (a ++ b) = displaced a ++ displaced b.
Proof. induction a as [|[e []] a IH]; intros b; cbn [displaced app]; rewrite ?IH; reflexivity. Qed.
Lemma count_over_app : forall a b, count_over (a ++ b) = count_over a + count_over b.
Proof. induction a as [|[] a IH]; intros b; cbn [count_over app]; rewrite ?IH; reflexivity. Qed.
Lemma nexts_wakes : forall ws, nexts (map EWake ws) = [].
Proof. induction ws; cbn; auto. Qed.
Lemma count_over_wakes : forall ws, count_over (map EWake ws) = 0.
Proof. induction ws; cbn; auto. Qed.

(* ---------------------------------------------------------------- case analysis of one step *)

(* destruct only the scrutinee in head position: one goal per branch of the step function *)
Ltac break_head H :=
  repeat match type of H with
         | (if ?b then _ else _) = _ => destruct b eqn:?
         | (match ?x with _ => _ end) = _ => destruct x eqn:?
         | (let '(_, _) := ?x in _) = _ => destruct x eqn:?
         end;
  try discriminate H.

(* ... then the conditionals left inside the resulting state *)
Ltac break_inner H :=
  repeat match type of H with
         | context [if ?b then _ else _] => destruct b eqn:?
         | context [match ?x with _ => _ end] => destruct x eqn:?
         end.

Ltac step_inv H :=
  match type of H with
  | step _ ?s ?l = Some _ =>
    destruct l; cbn [step] in H;
    unfold do_push, do_unpark, do_flushreq, do_clone, do_drophandle, do_forget, do_jstore, do_junpark,
           do_jjoin, wstep in H;
    cbv zeta in H;
    break_head H; inversion H; subst; clear H
  end.

Ltac simp_st :=
  cbn [sh wr gh q token fch shutdown handles jh pend pc sd inflight count dres waiting ebw
       pushed removed out overflow freq sdmark sdhit
       set_q set_token set_fch set_shutdown set_handles set_jh set_pend
       set_pc set_sd set_inflight set_count set_dres set_waiting set_ebw
       add_out add_removed add_pushed inc_overflow add_freq set_sdmark set_sdhit
       after_handle drain_done opt_list fst snd] in *.

(* ---------------------------------------------------------------- the history invariant *)

Record hist_inv (c : config) (s : state) : Prop := {
  hi_fifo : pushed (gh s) = map fst (removed (gh s)) ++ q (sh s);
  hi_next : popped (removed (gh s)) = nexts (out (gh s)) ++ opt_list (inflight (wr s));
  hi_over : overflow (gh s) = length (displaced (removed (gh s)));
  hi_cnt : count_over (out (gh s)) = overflow (gh s);
  hi_cap : length (q (sh s)) <= cap c;
  hi_infl : inflight (wr s) = None \/ pc (wr s) = WConsume;
}.

Lemma hist_inv_init : forall c, hist_inv c init.
Proof. intros c; constructor; cbn; auto; lia. Qed.

Ltac list_norm :=
  rewrite ?map_app, ?nexts_app, ?popped_app, ?displaced_app, ?count_over_app, ?nexts_wakes,
          ?count_over_wakes, ?app_length, ?app_nil_r in *;
  cbn [map nexts popped displaced count_over length app fst snd opt_list] in *;
  rewrite <- ?app_assoc in *; cbn [app] in *.

Ltac use_eqs :=
  repeat match goal with
         | E : q _ = _ |- _ => progress (rewrite E in * )
         | E : inflight _ = _ |- _ => progress (rewrite E in * )
         | E : pc _ = _ |- _ => progress (rewrite E in * )
         end.

Ltac bool_hyps :=
  repeat match goal with
         | H : (_ <? _) = true |- _ => apply Nat.ltb_lt in H
         | H : (_ <? _) = false |- _ => apply Nat.ltb_ge in H
         | H : (_ =? _) = true |- _ => apply Nat.eqb_eq in H
         | H : (_ =? _) = false |- _ => apply Nat.eqb_neq in H
         | H : _ && _ = true |- _ => apply andb_prop in H; destruct H
         end.

Ltac split_goal_matches :=
  repeat match goal with
         | |- context [if ?b then _ else _] => destruct b
         | |- context [match ?b with _ => _ end] => destruct b
         end.

Lemma hist_inv_step : forall c s l s', hist_inv c s -> step c s l = Some s' -> hist_inv c s'.
Proof.
  intros c s l s' [H1 H2 H3 H4 H5 H6] Hs.
  step_inv Hs; simp_st; bool_hyps;
    (destruct H6 as [H6|H6]; [rewrite H6 in *|]); try congruence; use_eqs;
    constructor; simp_st; rewrite ?H6; use_eqs; list_norm;
    try solve [auto | congruence | lia | (rewrite ?H1, ?H2; list_norm; auto; congruence)
              | (unfold drain_done, after_handle; split_goal_matches; list_norm; auto; try lia; right; congruence) ].
Qed.

(* ---------------------------------------------------------------- what one step can add to the observable log *)

Inductive out_shape (c : config) (s : state) : list ev -> Prop :=
| os_none : out_shape c s []
| os_over : out_shape c s [EOver]
| os_wake1 : forall w, pc (wr s) = WExited -> out_shape c s [EWake w]
| os_next : forall e r, inflight (wr s) = Some e -> pc (wr s) = WConsume -> out_shape c s [ENext e r]
| os_next_rep : forall e r, inflight (wr s) = Some e -> pc (wr s) = WConsume -> nosub c = true ->
                out_shape c s [ENext e RVal; EReport r]
| os_flush_wake : forall b, pc (wr s) = WHandle -> waiting (wr s) <> [] ->
                  (ebw (wr s) - count (wr s) =? 0) || is_drained (dres (wr s)) = true ->
                  out_shape c s (EFlush b :: map EWake (waiting (wr s)))
| os_flush : forall b, pc (wr s) = WOuterFlush \/ pc (wr s) = WSdFlush -> out_shape c s [EFlush b]
| os_drop : pc (wr s) = WSdDrop -> out_shape c s [EDropStream]
| os_wakes : pc (wr s) = WExit -> out_shape c s (map EWake (waiting (wr s) ++ fch (sh s))).

Lemma step_out_shape : forall c s l s', step c s l = Some s' ->
  exists evs, out (gh s') = out (gh s) ++ evs /\ out_shape c s evs.
Proof.
  intros c s l s' Hs.
  step_inv Hs; simp_st;
    try (exists []; split; [now rewrite app_nil_r | constructor]);
    try (eexists; split; [reflexivity|]);
    try solve [constructor; auto].
  all: unfold rep_allowed in *;
    repeat match goal with H : context [match ?x with _ => _ end] |- _ => destruct x eqn:? end;
    try discriminate; bool_hyps.
  all: try solve [constructor; auto].
  all: try solve [apply os_flush; auto].
  all: try solve [apply os_flush_wake; auto; intros Hx; rewrite Hx in *; discriminate].
  all: try solve [apply os_next_rep; auto].
  all: try solve [apply os_wake1; destruct (pc (wr s)); try discriminate; reflexivity].
  all: discriminate.
Qed.

Lemma is_exited_true : forall p, is_exited p = true <-> p = WExited.
Proof. intros p; destruct p; cbn; split; intros; try discriminate; auto. Qed.
Lemma is_exited_false : forall p, is_exited p = false <-> p <> WExited.
Proof. intros p; destruct p; cbn; split; intros; try discriminate; try congruence; auto. Qed.

(* ---------------------------------------------------------------- control flow of the writer *)

Definition pc_succ (p p' : wpc) : Prop :=
  match p with
  | WPop => p' = WConsume \/ p' = WHandle \/ p' = WSdFlush
  | WConsume => p' = WPop \/ p' = WHandle \/ p' = WSdFlush
  | WHandle => p' = WRecv \/ p' = WCheckSd1 \/ p' = WOuterFlush
  | WRecv => p' = WRecv \/ p' = WCheckSd1 \/ p' = WOuterFlush
  | WCheckSd1 => p' = WOuterFlush \/ p' = WPark \/ p' = WCheckTime
  | WPark => p' = WCheckTime \/ p' = WParked
  | WParked => p' = WCheckTime
  | WCheckTime => p' = WOuterFlush \/ p' = WPop
  | WOuterFlush => p' = WCheckSd2
  | WCheckSd2 => p' = WPop \/ p' = WCheckApp
  | WCheckApp => p' = WPop
  | WSdFlush => p' = WSdDrop
  | WSdDrop => p' = WExit
  | WExit => p' = WExited
  | WExited => False
  end.

Lemma step_pc : forall c s l s', step c s l = Some s' ->
  match l with
  | LW _ => pc_succ (pc (wr s)) (pc (wr s'))
  | _ => wr s' = wr s
  end.
Proof.
  intros c s l s' Hs.
  step_inv Hs; simp_st; auto; unfold pc_succ, drain_done, after_handle;
    repeat match goal with
           | |- context [if ?b then _ else _] => destruct b
           | |- context [match ?b with _ => _ end] => destruct b
           end; auto; try discriminate.
Qed.
