(* "rate-limited": what the rate limiter in front of the in-band error report guarantees. *)
From Coq Require Import List ZArith NArith Bool Arith Lia.
From MV Require Import Queue.RateLimit.
Import ListNotations.
Local Open Scope N_scope.

Lemma NS_pos : 0 < NS. Proof. reflexivity. Qed.

Lemma as_secs_mono a b : a <= b -> as_secs a <= as_secs b.
Proof. intros H. unfold as_secs. apply N.div_le_mono; [discriminate | exact H]. Qed.

Lemma as_secs_add t i : as_secs t + as_secs i <= as_secs (t + i).
Proof.
  unfold as_secs.
  pose proof (N.div_mod t NS ltac:(discriminate)) as Ht. pose proof (N.div_mod i NS ltac:(discriminate)) as Hi.
  pose proof (N.mod_lt t NS ltac:(discriminate)). pose proof (N.mod_lt i NS ltac:(discriminate)).
  assert (E : t + i = (t / NS + i / NS) * NS + (t mod NS + i mod NS)).
  { rewrite N.mul_add_distr_r. rewrite (N.mul_comm (t / NS)), (N.mul_comm (i / NS)). lia. }
  rewrite E. rewrite N.div_add_l by discriminate. apply N.le_add_r.
Qed.

(* the slot after an allowed call lies a whole interval later (short of the u64 saturation) *)
Lemma next_slot_ge t i : N.min (as_secs t + as_secs i) U64MAX <= next_slot t i.
Proof. unfold next_slot. pose proof (as_secs_add t i). lia. Qed.

Lemma next_slot_ge_now t i : as_secs t <= U64MAX -> as_secs t <= next_slot t i.
Proof. intros H. pose proof (next_slot_ge t i). lia. Qed.

(* --------------------------------------------------------------------------------- one thread *)
Lemma rl_call_allowed i next t : next <= as_secs t -> fst (rl_call i next t) = true.
Proof. intros H. unfold rl_call. destruct (N.leb_spec next (as_secs t)); [reflexivity | lia]. Qed.

Lemma rl_call_refused i next t : fst (rl_call i next t) = false -> as_secs t < next /\ snd (rl_call i next t) = next.
Proof. unfold rl_call. destruct (N.leb_spec next (as_secs t)); cbn; [discriminate | intros _; split; [lia | reflexivity]]. Qed.

Lemma rl_call_next_mono i next t : as_secs t <= U64MAX -> next <= snd (rl_call i next t).
Proof.
  intros Hu. unfold rl_call. destruct (N.leb_spec next (as_secs t)); cbn; [|lia].
  pose proof (next_slot_ge_now t i Hu). lia.
Qed.

Definition times_ok (ts : list N) : Prop := Forall (fun t => as_secs t <= U64MAX) ts.

Lemma rl_run_length i next ts : length (fst (rl_run i next ts)) = length ts.
Proof.
  revert next. induction ts as [|t r IH]; intros next; cbn [rl_run]; [reflexivity|].
  destruct (rl_call i next t) as [b n1]. specialize (IH n1). destruct (rl_run i n1 r) as [bs n2]. cbn in *. congruence.
Qed.

Lemma rl_run_next_mono i next ts : times_ok ts -> next <= snd (rl_run i next ts).
Proof.
  revert next. induction ts as [|t r IH]; intros next Hok; cbn [rl_run]; [cbn; lia|].
  inversion Hok as [|? ? Ht Hr]; subst.
  pose proof (rl_call_next_mono i next t Ht) as H1.
  destruct (rl_call i next t) as [b n1]. specialize (IH n1 Hr). destruct (rl_run i n1 r) as [bs n2]. cbn in *. lia.
Qed.

(* the a-th and a later b-th evaluation are both allowed: then b's clock reading is at least the slot
   computed at a — for the queue (interval one second): the two fall into different whole seconds, and
   at least `interval` (rounded down to seconds) lies between them.  No assumption on the clock (it need not
   even be monotone). *)
Theorem rl_spacing i next ts a b ta tb :
  times_ok ts -> (a < b)%nat ->
  nth_error ts a = Some ta -> nth_error ts b = Some tb ->
  nth_error (fst (rl_run i next ts)) a = Some true ->
  nth_error (fst (rl_run i next ts)) b = Some true ->
  next_slot ta i <= as_secs tb.
Proof.
  revert next a b. induction ts as [|t r IH]; intros next a b Hok Hab Ha Hb Ra Rb; [destruct a; discriminate|].
  inversion Hok as [|? ? Ht Hr]; subst.
  cbn [rl_run] in Ra, Rb. destruct (rl_call i next t) as [b0 n1] eqn:Ec.
  destruct (rl_run i n1 r) as [bs n2] eqn:Er. cbn [fst] in Ra, Rb.
  destruct b as [|b']; [lia|]. cbn [nth_error] in Hb, Rb.
  destruct a as [|a'].
  - cbn [nth_error] in Ha, Ra. inversion Ha; subst t. inversion Ra; subst b0.
    unfold rl_call in Ec. destruct (N.leb_spec next (as_secs ta)); [|discriminate]. inversion Ec; subst n1.
    (* from here NEXT_CALL stays at or above the slot; b' allowed means its reading reached NEXT_CALL *)
    clear IH Ha Ra Ec Hab.
    assert (G : forall r n bs n2 b', times_ok r -> rl_run i n r = (bs, n2) -> nth_error r b' = Some tb ->
                nth_error bs b' = Some true -> n <= as_secs tb).
    { clear. induction r as [|t r IH]; intros n bs n2 b' Hok Er Hb Rb; [destruct b'; discriminate|].
      inversion Hok as [|? ? Ht Hr]; subst.
      cbn [rl_run] in Er. destruct (rl_call i n t) as [b0 n1] eqn:Ec. destruct (rl_run i n1 r) as [bs' n2'] eqn:Er'.
      inversion Er; subst bs n2. destruct b' as [|b'']; cbn [nth_error] in Hb, Rb.
      - inversion Hb; subst t. inversion Rb; subst b0. unfold rl_call in Ec.
        destruct (N.leb_spec n (as_secs tb)); [assumption | discriminate].
      - pose proof (rl_call_next_mono i n t Ht) as Hm. rewrite Ec in Hm. cbn in Hm.
        specialize (IH n1 bs' n2' b'' Hr Er' Hb Rb). lia. }
    exact (G r _ bs n2 b' Hr Er Hb Rb).
  - cbn [nth_error] in Ha, Ra.
    specialize (IH n1 a' b' Hr ltac:(lia) Ha Hb). rewrite Er in IH. cbn [fst] in IH. exact (IH Ra Rb).
Qed.

(* with the queue's interval of one second: two reports never carry the same whole second *)
Corollary rl_one_per_second next ts a b ta tb :
  times_ok ts -> (a < b)%nat ->
  nth_error ts a = Some ta -> nth_error ts b = Some tb ->
  nth_error (fst (rl_run NS next ts)) a = Some true ->
  nth_error (fst (rl_run NS next ts)) b = Some true ->
  as_secs ta < U64MAX ->
  as_secs ta + 1 <= as_secs tb.
Proof.
  intros Hok Hab Ha Hb Ra Rb Hs.
  pose proof (rl_spacing NS next ts a b ta tb Hok Hab Ha Hb Ra Rb) as H.
  pose proof (next_slot_ge ta NS) as H2. change (as_secs NS) with 1 in H2. lia.
Qed.

Fixpoint count_true (l : list bool) : nat :=
  match l with [] => O | true :: r => S (count_true r) | false :: r => count_true r end.

(* how many calls can be allowed while the clock's whole seconds stay within [lo, hi]:
   at most (hi - lo) / interval-in-seconds + 1.  Stated without division: (k-1) * isecs <= hi - lo. *)
Lemma rl_count_aux i next ts lo hi :
  1 <= as_secs i -> hi + as_secs i <= U64MAX ->
  Forall (fun t => lo <= as_secs t <= hi) ts ->
  forall k, count_true (fst (rl_run i next ts)) = S k ->
  N.max next lo + N.of_nat k * as_secs i <= hi.
Proof.
  intros Hi Hsat. revert next. induction ts as [|t r IH]; intros next Hall k Hk; [discriminate|].
  inversion Hall as [|? ? [Hlo Hhi] Hr]; subst.
  cbn [rl_run] in Hk. destruct (rl_call i next t) as [b0 n1] eqn:Ec. destruct (rl_run i n1 r) as [bs n2] eqn:Er.
  cbn [fst] in Hk. unfold rl_call in Ec. destruct (N.leb_spec next (as_secs t)) as [Hle|Hgt]; inversion Ec; subst b0 n1.
  - cbn [count_true] in Hk. injection Hk as Hk.
    destruct k as [|k'].
    + cbn. lia.
    + specialize (IH (next_slot t i) Hr k'). rewrite Er in IH. cbn [fst] in IH. specialize (IH Hk).
      pose proof (next_slot_ge t i) as Hn.
      assert (Hm : N.min (as_secs t + as_secs i) U64MAX = as_secs t + as_secs i) by lia.
      rewrite Hm in Hn. rewrite Nat2N.inj_succ, N.mul_succ_l.
      set (p := N.of_nat k' * as_secs i) in *. clearbody p. clear Er Hk Hm Hr Hall Ec.
      generalize dependent (next_slot t i). generalize dependent (as_secs t). generalize dependent (as_secs i). intros. lia.
  - cbn [count_true] in Hk. specialize (IH next Hr k). rewrite Er in IH. cbn [fst] in IH. exact (IH Hk).
Qed.

Theorem rl_count_bound i next ts lo hi :
  1 <= as_secs i -> hi + as_secs i <= U64MAX ->
  Forall (fun t => lo <= as_secs t <= hi) ts ->
  N.of_nat (count_true (fst (rl_run i next ts))) <= (hi - lo) / as_secs i + 1.
Proof.
  intros Hi Hsat Hall. destruct (count_true (fst (rl_run i next ts))) as [|k] eqn:Ek; [apply N.le_0_l|].
  pose proof (rl_count_aux i next ts lo hi Hi Hsat Hall k Ek) as H.
  assert (Hk : N.of_nat k <= (hi - lo) / as_secs i).
  { apply N.div_le_lower_bound; [lia|]. rewrite N.mul_comm.
    set (p := N.of_nat k * as_secs i) in *. clearbody p. lia. }
  rewrite Nat2N.inj_succ. generalize dependent ((hi - lo) / as_secs i). intros q Hq. lia.
Qed.

(* the other direction ("log the first occurrence and then at regular intervals"): a failure goes unreported
   only while a report made less than an interval ago (in whole seconds) is still covering it *)
Theorem rl_refused_means_recent i next ts b tb :
  times_ok ts ->
  nth_error ts b = Some tb ->
  nth_error (fst (rl_run i next ts)) b = Some false ->
  as_secs tb < next \/
  exists a ta, (a < b)%nat /\ nth_error ts a = Some ta /\ nth_error (fst (rl_run i next ts)) a = Some true /\
               as_secs tb < next_slot ta i.
Proof.
  revert next b. induction ts as [|t r IH]; intros next b Hok Hb Rb; [destruct b; discriminate|].
  inversion Hok as [|? ? Ht Hr]; subst.
  cbn [rl_run] in *. destruct (rl_call i next t) as [b0 n1] eqn:Ec. destruct (rl_run i n1 r) as [bs n2] eqn:Er.
  cbn [fst] in *. destruct b as [|b'].
  - cbn [nth_error] in Hb, Rb. inversion Hb; subst t. inversion Rb; subst b0.
    pose proof (rl_call_refused i next tb) as H. rewrite Ec in H. cbn in H. left. apply H. reflexivity.
  - cbn [nth_error] in Hb, Rb. specialize (IH n1 b' Hr Hb). rewrite Er in IH. cbn [fst] in IH.
    destruct (IH Rb) as [Hlt | [a [ta [Hab [Ha [Ra Hs]]]]]].
    + unfold rl_call in Ec. destruct (N.leb_spec next (as_secs t)) as [Hle|Hgt]; inversion Ec; subst b0 n1.
      * right. exists O, t. cbn [nth_error]. repeat split; first [lia | reflexivity | exact Hlt].
      * left. exact Hlt.
    + right. exists (S a), ta. cbn [nth_error]. repeat split; try assumption. lia.
Qed.

(* --------------------------------------------------------------------------- several threads *)
Definition rrun (i : N) (s : rstate) (ls : list rlabel) : rstate := fold_left (rstep i) ls s.

Definition labels_ok (ls : list rlabel) : Prop :=
  Forall (fun l => match l with RLoad _ t => as_secs t <= U64MAX | RCas _ => True end) ls.

Definition locals_ok (s : rstate) : Prop := forall k t n, In (k, (t, n)) (r_local s) -> as_secs t <= U64MAX.

Lemma lookup_in k l v : lookup k l = Some v -> In (k, v) l.
Proof.
  induction l as [|[k' v'] r IH]; cbn; [discriminate|].
  destruct (Nat.eqb_spec k k'); [intros H; inversion H; subst; left; reflexivity | intros H; right; apply IH; exact H].
Qed.
Lemma remove_key_in k l x : In x (remove_key k l) -> In x l.
Proof.
  induction l as [|[k' v'] r IH]; cbn; [tauto|].
  destruct (Nat.eqb k k'); [intros H; right; apply IH; exact H | intros [H|H]; [left; exact H | right; apply IH; exact H]].
Qed.

(* invariant: NEXT_CALL is at or above the slot of every call allowed so far; allowed calls are spaced *)
Definition spaced (i : N) (l : list (nat * N)) : Prop :=
  forall a b ka ta kb tb, (a < b)%nat -> nth_error l a = Some (ka, ta) -> nth_error l b = Some (kb, tb) ->
                          next_slot ta i <= as_secs tb.

Definition rinv (i : N) (s : rstate) : Prop :=
  locals_ok s /\ spaced i (r_allowed s) /\ (forall k t, In (k, t) (r_allowed s) -> next_slot t i <= r_next s).

Lemma rstep_inv i s l :
  (match l with RLoad _ t => as_secs t <= U64MAX | RCas _ => True end) -> rinv i s -> rinv i (rstep i s l).
Proof.
  intros Hl (Hloc & Hsp & Hnx). destruct l as [k t | k]; cbn [rstep].
  - repeat split; cbn; try assumption.
    intros k' t' n' [H|H]; [inversion H; subst; exact Hl | apply remove_key_in in H; eapply Hloc; exact H].
  - destruct (lookup k (r_local s)) as [[t n]|] eqn:El; [|repeat split; assumption].
    pose proof (Hloc k t n (lookup_in _ _ _ El)) as Ht.
    destruct ((n <=? as_secs t) && (r_next s =? n)) eqn:Ec.
    + apply andb_true_iff in Ec as [E1 E2]. apply N.leb_le in E1. apply N.eqb_eq in E2.
      repeat split; cbn.
      * intros k' t' n' H. apply remove_key_in in H. eapply Hloc; exact H.
      * intros a b ka ta kb tb Hab Ha Hb.
        destruct (Nat.lt_ge_cases b (length (r_allowed s))) as [Hlt|Hge].
        -- rewrite nth_error_app1 in Ha by lia. rewrite nth_error_app1 in Hb by lia. exact (Hsp a b ka ta kb tb Hab Ha Hb).
        -- rewrite nth_error_app2 in Hb by lia.
           destruct (b - length (r_allowed s))%nat as [|m] eqn:Em; [|destruct m; discriminate].
           cbn in Hb. inversion Hb; subst kb tb.
           rewrite nth_error_app1 in Ha by lia.
           pose proof (Hnx ka ta (nth_error_In _ _ Ha)). lia.
      * intros k' t' H. apply in_app_iff in H as [H|[H|[]]].
        -- pose proof (Hnx k' t' H). pose proof (next_slot_ge_now t i Ht). lia.
        -- inversion H; subst. lia.
    + repeat split; cbn; try assumption.
      intros k' t' n' H. apply remove_key_in in H. eapply Hloc; exact H.
Qed.

(* whatever the interleaving of loads and compare-exchanges of any number of threads, and whatever the clock
   readings: allowed calls are spaced exactly as for one thread *)
Theorem rl_concurrent_spacing i next ls :
  labels_ok ls -> spaced i (r_allowed (rrun i (rinit next) ls)).
Proof.
  intros Hok.
  assert (G : forall ls s, labels_ok ls -> rinv i s -> rinv i (rrun i s ls)).
  { clear. induction ls as [|l r IH]; intros s Hok Hs; cbn; [exact Hs|].
    inversion Hok; subst. apply IH; [assumption | apply rstep_inv; assumption]. }
  apply (G ls (rinit next) Hok). repeat split; cbn.
  - intros k t n [].
  - intros a b ka ta kb tb _ Ha. destruct a; discriminate.
  - intros k t [].
Qed.

(* the sequential run is the interleaving in which every load is directly followed by its CAS *)
Fixpoint seq_labels (ts : list N) : list rlabel :=
  match ts with [] => [] | t :: r => RLoad 0 t :: RCas 0 :: seq_labels r end.

Fixpoint allowed_times (bs : list bool) (ts : list N) : list (nat * N) :=
  match bs, ts with
  | true :: br, t :: tr => (O, t) :: allowed_times br tr
  | false :: br, _ :: tr => allowed_times br tr
  | _, _ => []
  end.

Lemma rstep_load_cas i s t : r_local s = [] ->
  rstep i (rstep i s (RLoad 0 t)) (RCas 0) =
  if r_next s <=? as_secs t
  then {| r_next := next_slot t i; r_local := []; r_allowed := r_allowed s ++ [(O, t)] |}
  else {| r_next := r_next s; r_local := []; r_allowed := r_allowed s |}.
Proof.
  intros Hl. unfold rstep. cbn [r_local r_next r_allowed]. rewrite Hl. cbn [remove_key lookup Nat.eqb].
  rewrite N.eqb_refl, andb_true_r. destruct (r_next s <=? as_secs t); reflexivity.
Qed.

Theorem rl_run_is_an_interleaving i ts : forall s,
  r_local s = [] ->
  r_next (rrun i s (seq_labels ts)) = snd (rl_run i (r_next s) ts) /\
  r_allowed (rrun i s (seq_labels ts)) = r_allowed s ++ allowed_times (fst (rl_run i (r_next s) ts)) ts.
Proof.
  induction ts as [|t r IH]; intros s Hl.
  - cbn. rewrite app_nil_r. split; reflexivity.
  - cbn [seq_labels]. unfold rrun. cbn [fold_left]. rewrite (rstep_load_cas i s t Hl).
    cbn [rl_run]. unfold rl_call. destruct (r_next s <=? as_secs t) eqn:Ele.
    + match goal with |- context [fold_left _ _ ?s1] => specialize (IH s1 eq_refl) end. unfold rrun in IH.
      cbn [r_next r_allowed] in IH.
      destruct IH as [I1 I2]. destruct (rl_run i (next_slot t i) r) as [bs n2] eqn:Er. cbn [fst snd] in *.
      split; [exact I1|]. rewrite I2. cbn [allowed_times]. rewrite <- app_assoc. reflexivity.
    + match goal with |- context [fold_left _ _ ?s1] => specialize (IH s1 eq_refl) end. unfold rrun in IH.
      cbn [r_next r_allowed] in IH.
      destruct IH as [I1 I2]. destruct (rl_run i (r_next s) r) as [bs n2] eqn:Er. cbn [fst snd] in *.
      split; [exact I1|]. rewrite I2. cbn [allowed_times]. reflexivity.
Qed.

(* ------------------------------------------------------------------------------ as observed through the queue *)
(* the observation function of the correspondence is the limiter applied at the failing entries *)
Fixpoint fail_times (now : N) (ops : list rop) : list N :=
  match ops with
  | [] => []
  | OSet t :: r => fail_times t r
  | OOk :: r => fail_times now r
  | OFail :: r => now :: fail_times now r
  end.

Lemma rate_obs_reports i : forall ops next now,
  count_true (rate_obs i next now ops) = count_true (fst (rl_run i next (fail_times now ops))).
Proof.
  induction ops as [|o r IH]; intros next now; [reflexivity|].
  destruct o as [t| |]; cbn [rate_obs fail_times count_true]; try apply IH.
  cbn [rl_run]. destruct (rl_call i next now) as [b n1]. specialize (IH n1 now).
  destruct (rl_run i n1 (fail_times now r)) as [bs n2]. cbn [fst] in *. destruct b; cbn [count_true]; congruence.
Qed.

(* the property-level reading (spaced, unreported only if covered, nothing else reported) determines the
   observation: it holds of an observed run exactly when that run is the model's *)
Theorem rate_spec_characterises i : forall ops obs last now,
  rate_spec i last now ops obs = true <-> obs = rate_obs i (slot_of i last) now ops.
Proof.
  induction ops as [|o r IH]; intros obs last now.
  - destruct obs; cbn; split; intros H; try reflexivity; discriminate.
  - destruct o as [t| |]; cbn [rate_spec rate_obs].
    + destruct obs as [|[|] br]; try (split; intros H; discriminate).
      rewrite IH. split; intros H; [subst; reflexivity | inversion H; reflexivity].
    + unfold rl_call. destruct obs as [|[|] br]; try (split; intros H; [discriminate | destruct (_ <=? _); discriminate]).
      * rewrite andb_true_iff, IH. destruct (N.leb_spec (slot_of i last) (as_secs now)) as [Hle|Hgt].
        -- split; [intros [_ H]; subst; reflexivity | intros H; inversion H; split; reflexivity].
        -- split; [intros [H _]; discriminate | intros H; discriminate].
      * rewrite andb_true_iff, IH, N.ltb_lt. destruct (N.leb_spec (slot_of i last) (as_secs now)) as [Hle|Hgt].
        -- split; [intros [H _]; lia | intros H; discriminate].
        -- split; [intros [_ H]; subst; reflexivity | intros H; inversion H; split; [assumption | reflexivity]].
    + destruct obs as [|[|] br]; try (split; intros H; discriminate).
      rewrite IH. split; intros H; [subst; reflexivity | inversion H; reflexivity].
Qed.

(* non-vacuity: a burst after an idle hour yields one report, then one more a second later *)
Example rl_example_burst :
  rate_obs NS 0 0 [OSet (3600 * NS); OFail; OFail; OOk; OFail; OSet (3600 * NS + 999999999); OFail;
                   OSet (3601 * NS); OFail; OFail]
  = [false; true; false; false; false; false; false; false; true; false].
Proof. vm_compute. reflexivity. Qed.

Example rl_example_saturation :
  fst (rl_run NS 0 [U64MAX * NS; U64MAX * NS + 5]) = [true; true].
Proof. vm_compute. reflexivity. Qed.
