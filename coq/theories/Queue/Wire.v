(* Queue family — wire codec shared by C01/C04/C05/C09: label lists in, per-label observations out. *)
From Coq Require Import List ZArith NArith Bool Arith.
From MV Require Import Common.Sx Queue.Model.
Import ListNotations.

Definition dec_sres (z : Z) : sres := match z with 0%Z => ROk | 1%Z => RVal | _ => RIo end.
Definition enc_sres (r : sres) : sx := A (match r with ROk => 0 | RVal => 1 | RIo => 2 end)%Z.

Definition dec_label (x : sx) : option label :=
  match sx_tag x with
  | 0%Z => Some (LPush (sx_n (sx_arg x 0)) (sx_n (sx_arg x 1)))
  | 1%Z => Some (LUnpark (sx_n (sx_arg x 0)))
  | 2%Z => Some (LFlushReq (sx_n (sx_arg x 0)) (sx_n (sx_arg x 1)))
  | 3%Z => Some LClone
  | 4%Z => Some LDropHandle
  | 5%Z => Some LForget
  | 6%Z => Some LJStore
  | 7%Z => Some LJUnpark
  | 8%Z => Some LJJoin
  | 9%Z => Some (LW {| o_res := dec_sres (sx_z (sx_arg x 0));
                       o_rep := match sx_z (sx_arg x 1) with 0%Z => None | z => Some (dec_sres (z - 1)) end;
                       o_dl := sx_bool (sx_arg x 2);
                       o_fl := sx_bool (sx_arg x 3) |})
  | _ => None     (* 10: a block of code that touches nothing shared *)
  end.

Definition enc_ev (e : ev) : sx :=
  match e with
  | ENext (t, n) r => tagged 0 [of_n t; of_n n; enc_sres r]
  | EReport r => tagged 1 [enc_sres r]
  | EFlush ok => tagged 2 [of_bool ok]
  | EDropStream => tagged 3 []
  | EWake w => tagged 4 [of_n w]
  | EOver => tagged 5 []
  end.

Definition dec_ev (x : sx) : option ev :=
  match sx_tag x with
  | 0%Z => Some (ENext (sx_n (sx_arg x 0), sx_n (sx_arg x 1)) (dec_sres (sx_z (sx_arg x 2))))
  | 1%Z => Some (EReport (dec_sres (sx_z (sx_arg x 0))))
  | 2%Z => Some (EFlush (sx_bool (sx_arg x 0)))
  | 3%Z => Some EDropStream
  | 4%Z => Some (EWake (sx_n (sx_arg x 0)))
  | 5%Z => Some EOver
  | _ => None
  end.

Definition pc_code (p : wpc) : Z :=
  match p with
  | WPop => 0 | WConsume => 1 | WHandle => 2 | WRecv => 3 | WCheckSd1 => 4 | WPark => 5 | WParked => 6
  | WCheckTime => 7 | WOuterFlush => 8 | WCheckSd2 => 9 | WCheckApp => 10 | WSdFlush => 11 | WSdDrop => 12
  | WExit => 13 | WExited => 14
  end%Z.

Definition pack (hi lo : nat) : Z := (Z.of_nat hi * 4294967296 + Z.of_nat lo)%Z.
Definition hit_code (d : dresult) : nat := match d with Drained => 0 | HitDeadline => 1 end.

(* the data word the synchronisation point the writer stands at carries in the implementation *)
Definition aux (s : state) : Z :=
  let W := wr s in
  match pc W with
  | WHandle => pack (hit_code (dres W)) (count W)
  | WRecv => pack (length (waiting W)) (ebw W)
  | WPop => Z.of_nat (count W)
  | WSdFlush => Z.of_nat (hit_code (dres W))
  | WExited => 0%Z
  | _ => pack (length (waiting W)) (ebw W)
  end.

Fixpoint insertN (x : N) (l : list N) : list N :=
  match l with [] => [x] | y :: r => if N.leb x y then x :: l else y :: insertN x r end.
Definition sortN (l : list N) : list N := fold_right insertN [] l.

Definition is_wake (e : ev) : bool := match e with EWake _ => true | _ => false end.
Definition wake_id (e : ev) : N := match e with EWake w => w | _ => 0%N end.

(* What the harness can see: the FlushWait future of request w exists only once flush_async has returned,
   i.e. after the requester's unpark; a completion that happened earlier is observed at that step. *)
Record view := { held : list wid; unreg : list (wid * tid) }.

Definition view_step (v : view) (l : option label) (evs : list ev) : view * list ev :=
  let unreg1 := match l with
                | Some (LFlushReq t w) => unreg v ++ [(w, t)]
                | Some (LUnpark t) => filter (fun p => negb (N.eqb (snd p) t)) (unreg v)
                | _ => unreg v
                end in
  let pool := held v ++ map wake_id (filter is_wake evs) in
  let hidden w := memN w (map fst unreg1) in
  ({| held := filter hidden pool; unreg := unreg1 |},
   filter (fun e => negb (is_wake e)) evs ++ map EWake (sortN (filter (fun w => negb (hidden w)) pool))).

Definition obs_sx (s : state) (evs : list ev) : sx := L [A (pc_code (pc (wr s))); A (aux s); L (map enc_ev evs)].

Fixpoint observe (c : config) (s : state) (v : view) (ls : list sx) (k : Z) : list sx :=
  match ls with
  | [] => [L [of_bool (match pc (wr s) with WExited => true | _ => false end)]]
  | x :: r =>
    match dec_label x with
    | None => let '(v', evs) := view_step v None [] in obs_sx s evs :: observe c s v' r (k + 1)
    | Some l =>
      match step c s l with
      | None => [L [A (-9)%Z; A k]]          (* label not enabled in the model *)
      | Some s' =>
        let evs := skipn (length (out (gh s))) (out (gh s')) in
        let '(v', evs') := view_step v (Some l) evs in
        obs_sx s' evs' :: observe c s' v' r (k + 1)
      end
    end
  end.

Definition dec_config (x : sx) : config :=
  {| cap := sx_nat (sx_arg x 0); nosub := sx_bool (sx_arg x 1); extra_clone := false |}.
Definition dec_labels (x : sx) : list sx := sx_list (sx_arg x 2).

(* the mechanism model run on a recorded schedule *)
Definition q_model (x : sx) : sx :=
  L (observe (dec_config x) init {| held := []; unreg := [] |} (dec_labels x) 0).

(* the flat observable log of an implementation line *)
Definition impl_events (i : sx) : list ev :=
  flat_map (fun st => flat_map (fun e => opt_list (dec_ev e)) (sx_list (sx_nth st 2))) (sx_list i).
Definition all_labels (x : sx) : list label := flat_map (fun l => opt_list (dec_label l)) (dec_labels x).

