(* Queue family — no lost wake-up: whenever the writer is about to sleep, or sleeps, although there is work
   (a queued entry, a pending flush request, a shutdown request), the parker's token is set — the park
   returns at once — or some thread is between its push/send/store and the matching `unpark`. *)
From Coq Require Import List NArith Bool Arith Lia.
From MV Require Import Queue.Model Queue.Inv.
Import ListNotations.

Definition owes_unpark (s : state) : Prop :=
  token (sh s) = true \/ pend (sh s) <> [] \/ jh (sh s) = JStored.

Definition empty_seen (s : state) : Prop :=
  ((pc (wr s) = WHandle \/ pc (wr s) = WRecv \/ pc (wr s) = WCheckSd1) /\ dres (wr s) = Drained) \/
  pc (wr s) = WPark \/ pc (wr s) = WParked.

Record wake_inv (s : state) : Prop := {
  wi_dres : pc (wr s) = WCheckSd1 -> dres (wr s) = Drained;
  wi_q : empty_seen s -> q (sh s) <> [] -> owes_unpark s;
  wi_fch : (pc (wr s) = WCheckSd1 \/ pc (wr s) = WPark \/ pc (wr s) = WParked) -> waiting (wr s) = [] ->
           fch (sh s) <> [] -> owes_unpark s;
  wi_wait : (pc (wr s) = WPark \/ pc (wr s) = WParked) -> waiting (wr s) = [];
  wi_sd : (pc (wr s) = WPark \/ pc (wr s) = WParked) -> shutdown (sh s) = true -> owes_unpark s;
  wi_jh : jh (sh s) = JHeld \/ jh (sh s) = JForgotten -> shutdown (sh s) = false;
}.

Lemma app_not_nil : forall A (l : list A) x, l ++ [x] <> [].
Proof. intros A l x H. destruct l; discriminate. Qed.

Lemma wake_inv_step : forall c s l s', wake_inv s -> step c s l = Some s' -> wake_inv s'.
Proof.
  intros c s l s' [I0 I1 I2 I3 I4 I5] Hs. unfold empty_seen, owes_unpark in *.
  step_inv Hs; simp_st; constructor; unfold empty_seen, owes_unpark; simp_st;
    unfold drain_done, after_handle in *;
    intros;
    repeat match goal with
           | H : context [if ?b then _ else _] |- _ => destruct b eqn:?
           | H : context [match ?b with _ => _ end] |- _ => destruct b eqn:?
           | |- context [if ?b then _ else _] => destruct b eqn:?
           | |- context [match ?b with _ => _ end] => destruct b eqn:?
           end;
    try solve [ auto using app_not_nil
              | right; left; apply app_not_nil
              | intuition congruence
              | intuition discriminate ].
  all: try solve [ match goal with H : waiting _ = [] |- _ => rewrite H in *; discriminate end ].
  all: try solve [ destruct (waiting (wr s)); [reflexivity|discriminate] ].
Qed.

Theorem wake_reachable : forall c s, reachable c s -> wake_inv s.
Proof.
  intros c. apply reachable_ind.
  - constructor; unfold empty_seen, owes_unpark; cbn; intros; intuition (try discriminate; try congruence).
  - intros; eapply wake_inv_step; eauto.
Qed.

(* The statement: about to park or parked, with work present => the park returns at once, or someone still
   owes the unpark (a producer between force_push and unpark, a flush requester between send and unpark, the
   dropper of the join handle between store and unpark). *)
Theorem no_lost_wakeup : forall c s,
  reachable c s ->
  pc (wr s) = WPark \/ pc (wr s) = WParked ->
  q (sh s) <> [] \/ fch (sh s) <> [] \/ shutdown (sh s) = true ->
  token (sh s) = true \/ pend (sh s) <> [] \/ jh (sh s) = JStored.
Proof.
  intros c s R Hpc Hwork. destruct (wake_reachable _ _ R) as [I0 I1 I2 I3 I4 I5].
  destruct Hwork as [Hq|[Hf|Hsd]].
  - apply I1; [unfold empty_seen; tauto | exact Hq].
  - apply I2; [tauto | apply I3; exact Hpc | exact Hf].
  - apply I4; [exact Hpc | exact Hsd].
Qed.

(* with the token set, the next writer step leaves the park, whatever the clock says *)
Theorem token_ends_park : forall c s o s',
  pc (wr s) = WPark \/ pc (wr s) = WParked -> token (sh s) = true ->
  step c s (LW o) = Some s' -> pc (wr s') = WCheckTime /\ token (sh s') = false.
Proof.
  intros c s o s' Hpc Ht Hs. cbn [step] in Hs. unfold wstep in Hs. cbv zeta in Hs.
  destruct Hpc as [Hpc|Hpc]; rewrite Hpc, Ht in Hs; inversion Hs; subst; simp_st; auto.
Qed.

(* the writer never parks while flush requests are being served *)
Theorem no_park_while_waiting : forall c s,
  reachable c s -> pc (wr s) = WPark \/ pc (wr s) = WParked -> waiting (wr s) = [].
Proof. intros c s R H. destruct (wake_reachable _ _ R) as [_ _ _ I3 _ _]. auto. Qed.
