(* Queue family — the forgotten join handle (C05, liveness half) on the repaired mechanism: once no queue
   handle is left, the writer thread reaches its end within a bounded number of its own steps, under explicit
   oracle hypotheses: every flush-interval deadline it asks about has passed (so parks time out and drain
   passes end after at most 32 entries), and the shutdown deadline has not (the drain is not cut short). *)
From Coq Require Import List NArith Bool Arith Lia.
From MV Require Import Queue.Model Queue.Inv Queue.Delivery Queue.Shutdown.
Import ListNotations.

Definition oracle_ok (c : config) (s : state) (o : oracle) : Prop :=
  rep_allowed c o = true /\
  (sd (wr s) = false -> o_dl o = true) /\
  (sd (wr s) = true -> o_dl o = false).

Fixpoint oracles_ok (c : config) (s : state) (os : list oracle) : Prop :=
  match os with
  | [] => True
  | o :: r => oracle_ok c s o /\ match step c s (LW o) with Some s' => oracles_ok c s' r | None => True end
  end.

Definition rem32 (k : nat) : nat := 32 - k mod 32.

(* an upper bound on the writer's remaining steps *)
Definition fuel (s : state) : nat :=
  let W := wr s in
  let T := 2 * length (q (sh s)) + 4 in
  let F := length (fch (sh s)) in
  if sd W then
    match pc W with
    | WPop => T
    | WConsume => T + 1
    | WSdFlush => 3 | WSdDrop => 2 | WExit => 1 | WExited => 0
    | _ => 0
    end
  else
    match pc W with
    | WPop => 2 * rem32 (count W) + F + 8 + T
    | WConsume => 2 * rem32 (count W) - 1 + F + 8 + T
    | WHandle => F + 8 + T
    | WRecv => F + 7 + T
    | WCheckSd1 => 6 + T
    | WPark | WParked => 5 + T
    | WCheckTime => 4 + T
    | WOuterFlush => 3 + T
    | WCheckSd2 => 2 + T
    | WCheckApp => 1 + T
    | _ => 0
    end.

Lemma rem32_pos : forall k, 1 <= rem32 k <= 32.
Proof. intros k. unfold rem32. pose proof (Nat.mod_upper_bound k 32 ltac:(lia)). lia. Qed.

Lemma rem32_succ : forall k, S k mod 32 <> 0 -> rem32 (S k) = rem32 k - 1 /\ 2 <= rem32 k.
Proof.
  intros k H. unfold rem32.
  pose proof (Nat.mod_upper_bound k 32 ltac:(lia)) as Hk.
  assert (Hs : S k mod 32 = (k mod 32 + 1) mod 32).
  { replace (S k) with (k + 1) by lia. rewrite Nat.add_mod by lia. rewrite (Nat.mod_small 1 32) by lia. reflexivity. }
  destruct (Nat.eq_dec (k mod 32) 31) as [E|E].
  - rewrite Hs, E in H. cbn in H. congruence.
  - rewrite Hs, Nat.mod_small by lia. lia.
Qed.

(* the writer holds an entry exactly while it stands at `consume` *)
Definition consume_inv (s : state) : Prop := pc (wr s) = WConsume -> inflight (wr s) <> None.

Lemma consume_inv_step : forall c s l s', consume_inv s -> step c s l = Some s' -> consume_inv s'.
Proof.
  intros c s l s' I Hs. unfold consume_inv in *.
  step_inv Hs; simp_st; auto; unfold drain_done, after_handle; intros;
    repeat match goal with
           | H : context [if ?b then _ else _] |- _ => destruct b
           | H : context [match ?b with _ => _ end] |- _ => destruct b
           end; try discriminate; try congruence.
Qed.

Theorem consume_reachable : forall c s, reachable c s -> consume_inv s.
Proof.
  intros c. apply reachable_ind; [intros H; discriminate|]. intros; eapply consume_inv_step; eauto.
Qed.

Lemma wpc_eq_exited : forall p : wpc, p = WExited \/ p <> WExited.
Proof. destruct p; auto; right; discriminate. Qed.

Lemma step_decreases : forall c s o,
  reachable c s -> handles (sh s) = 0 -> extra_clone c = false ->
  pc (wr s) <> WExited -> oracle_ok c s o ->
  exists s', step c s (LW o) = Some s' /\ fuel s' < fuel s /\ handles (sh s') = 0 /\
             (sdhit (gh s) = false -> sdhit (gh s') = false).
Proof.
  intros c s o R Hh Hx Hne [Hrep [Hdl1 Hdl2]].
  pose proof (sd_reachable _ _ R) as SI. pose proof (consume_reachable _ _ R) as CI.
  pose proof (si_sd_pc _ _ SI) as Hsdpc. pose proof (si_done_sd _ _ SI) as Hdone.
  unfold consume_inv in CI.
  cbn [step]. unfold wstep, fuel. cbv zeta.
  destruct (sd (wr s)) eqn:Esd; destruct (pc (wr s)) eqn:Epc;
    try (specialize (Hsdpc eq_refl); discriminate Hsdpc);
    try (specialize (Hdone eq_refl); discriminate Hdone);
    try congruence;
    try rewrite (Hdl1 eq_refl); try rewrite (Hdl2 eq_refl); try rewrite Hrep.
  all: repeat match goal with
              | |- exists s', (match ?x with _ => _ end) = _ /\ _ => destruct x eqn:?
              | |- exists s', (if ?b then _ else _) = _ /\ _ => destruct b eqn:?
              end.
  all: try (exfalso; apply CI; auto; fail).
  all: eexists; (split; [reflexivity|]); simp_st; unfold drain_done, after_handle, no_appenders in *; simp_st;
       rewrite ?Esd, ?Epc; cbn [length] in *.
  all: repeat match goal with
              | |- context [if ?b then _ else _] => destruct b eqn:?
              | |- context [match ?b with _ => _ end] => destruct b eqn:?
              end; simp_st; rewrite ?Esd; cbn [length].
  all: pose proof (rem32_pos (count (wr s))) as Hr32; pose proof (rem32_pos 0) as Hr0.
  all: try congruence.
  all: try (rewrite Hh, Hx in *; discriminate).
  all: try (rewrite andb_false_r in *; discriminate).
  all: repeat match goal with E : q _ = _ |- _ => progress (rewrite E in * ) end; cbn [length] in *.
  all: try (split; [|split; [assumption|]]; [try lia | try (intros Hsh; rewrite ?Hsh; auto)]).
  all: try (match goal with H : (S ?k mod 32 =? 0) && true = false |- _ =>
              rewrite andb_true_r in H; apply Nat.eqb_neq in H; destruct (rem32_succ k H) as [Hs1 Hs2]; lia end).
Qed.

(* From any reachable state without queue handles (repaired mechanism), the writer on its own reaches the end
   of `run` within `fuel s` of its steps. *)
Theorem writer_terminates : forall c n s os,
  fuel s <= n -> reachable c s -> handles (sh s) = 0 -> extra_clone c = false ->
  oracles_ok c s os -> fuel s <= length os ->
  exists k s', k <= fuel s /\ run c s (map LW (firstn k os)) = Some s' /\ pc (wr s') = WExited /\
               (sdhit (gh s) = false -> sdhit (gh s') = false).
Proof.
  intros c. induction n as [|n IH]; intros s os Hf R Hh Hx Hok Hlen.
  - (* no fuel: already at the end *)
    assert (Hpc : pc (wr s) = WExited).
    { pose proof (si_sd_pc _ _ (sd_reachable _ _ R)) as Hs.
      pose proof (si_done_sd _ _ (sd_reachable _ _ R)) as Hd.
      unfold fuel in Hf. cbv zeta in Hf. pose proof (rem32_pos (count (wr s))).
      destruct (sd (wr s)); destruct (pc (wr s)); try lia; try reflexivity;
        try (specialize (Hs eq_refl); discriminate Hs);
        try (specialize (Hd eq_refl); discriminate Hd). }
    exists 0, s. cbn. repeat split; auto. lia.
  - destruct (wpc_eq_exited (pc (wr s))) as [Hpc|Hpc].
    + exists 0, s. cbn. repeat split; auto. lia.
    + destruct os as [|o os]; [cbn in Hlen; unfold fuel in Hlen; cbv zeta in Hlen|].
      { exfalso. pose proof (step_decreases c s {| o_res := ROk; o_rep := None; o_dl := negb (sd (wr s)); o_fl := true |}
                               R Hh Hx Hpc) as Hd.
        destruct Hd as [s1 [_ [Hlt _]]].
        - unfold oracle_ok, rep_allowed. cbn. destruct (sd (wr s)); cbn; repeat split; auto; intros; discriminate.
        - unfold fuel in Hlt. cbv zeta in Hlt. lia. }
      cbn [oracles_ok] in Hok. destruct Hok as [Ho Hrest].
      destruct (step_decreases c s o R Hh Hx Hpc Ho) as [s1 [Hs [Hlt [Hh1 Hsh1]]]].
      rewrite Hs in Hrest.
      assert (R1 : reachable c s1) by (eapply reachable_step; eauto).
      destruct (IH s1 os) as [k [s' [Hk [Hr [Hp Hsh]]]]]; auto; try lia.
      { cbn [length] in Hlen. lia. }
      exists (S k), s'. split; [lia|]. split; [cbn [firstn map run]; rewrite Hs; exact Hr|].
      split; auto.
Qed.

Lemma writer_step_keeps : forall c s o s', step c s (LW o) = Some s' ->
  jh (sh s') = jh (sh s) /\ handles (sh s') = handles (sh s) /\ shutdown (sh s') = shutdown (sh s) /\
  pushed (gh s') = pushed (gh s).
Proof.
  intros c s o s' H. cbn [step] in H. unfold wstep in H. cbv zeta in H.
  break_head H; inversion H; subst; simp_st; auto.
Qed.

Lemma writer_run_keeps : forall c os s s', run c s (map LW os) = Some s' ->
  jh (sh s') = jh (sh s) /\ handles (sh s') = handles (sh s) /\ shutdown (sh s') = shutdown (sh s) /\
  pushed (gh s') = pushed (gh s).
Proof.
  intros c. induction os as [|o r IH]; intros s s' H; cbn [map run] in H.
  - inversion H; subst. auto.
  - destruct (step c s (LW o)) as [s1|] eqn:E; [|discriminate].
    destruct (writer_step_keeps _ _ _ _ E) as [A [B [C D]]]. destruct (IH _ _ H) as [A' [B' [C' D']]].
    repeat split; congruence.
Qed.

Lemma fuel_bound : forall c s, reachable c s ->
  fuel s <= 2 * cap c + length (fch (sh s)) + 76.
Proof.
  intros c s R. pose proof (ring_bounded _ _ R) as Hq. pose proof (rem32_pos (count (wr s))).
  unfold fuel. cbv zeta. destruct (sd (wr s)); destruct (pc (wr s)); lia.
Qed.

(* THE FORGET PATH (repaired mechanism).  The join handle was forgotten and the last queue handle has been
   dropped.  Then the writer thread, on its own, within fuel s <= 2*cap + |pending flush requests| + 76 of its
   steps, hands every queued entry to the stream, flushes the stream, drops it, and ends. *)
Theorem forget_terminates : forall c s os,
  extra_clone c = false -> reachable c s ->
  jh (sh s) = JForgotten -> handles (sh s) = 0 -> sdhit (gh s) = false ->
  oracles_ok c s os -> fuel s <= length os ->
  exists k s', k <= fuel s /\ run c s (map LW (firstn k os)) = Some s' /\
    pc (wr s') = WExited /\ q (sh s') = [] /\ pushed (gh s') = pushed (gh s) /\
    (forall e, In e (pushed (gh s)) -> In e (nexts (out (gh s'))) \/ In e (displaced (removed (gh s')))) /\
    exists pre b, stream_events (out (gh s')) = pre ++ [EFlush b; EDropStream].
Proof.
  intros c s os Hx R Hj Hh Hsh Hok Hlen.
  destruct (writer_terminates c (fuel s) s os (le_n _) R Hh Hx Hok Hlen) as [k [s' [Hk [Hr [Hpc Hsh']]]]].
  exists k, s'. split; [exact Hk|]. split; [exact Hr|]. split; [exact Hpc|].
  assert (R' : reachable c s') by (eapply reachable_run; eauto).
  destruct (writer_run_keeps _ _ _ _ Hr) as [Hj' [_ [_ Hp']]].
  destruct (exit_means_closed c s' R' Hpc) as [Hclosed Hall].
  destruct (Hall (Hsh' Hsh)) as [Hq Hent].
  { apply (forgotten_stays c); auto. congruence. }
  split; [exact Hq|]. split; [exact Hp'|]. split; [|exact Hclosed].
  intros e He. apply Hent. rewrite Hp'. exact He.
Qed.
