(* Queue family — stream errors are isolated: the results the stream returns (Ok / Validation / Io, the result
   of an in-band report, the result of flush) influence nothing but the result tags in the log and the presence
   of the in-band reports.  Formally: erasing them commutes with every step. *)
From Coq Require Import List NArith Bool Arith Lia.
From MV Require Import Queue.Model Queue.Inv.
Import ListNotations.

Definition erase_o (o : oracle) : oracle := {| o_res := ROk; o_rep := None; o_dl := o_dl o; o_fl := true |}.
Definition erase_l (l : label) : label := match l with LW o => LW (erase_o o) | _ => l end.

Fixpoint erase_out (o : list ev) : list ev :=
  match o with
  | [] => []
  | ENext e _ :: r => ENext e ROk :: erase_out r
  | EReport _ :: r => erase_out r
  | EFlush _ :: r => EFlush true :: erase_out r
  | x :: r => x :: erase_out r
  end.

Definition erase_gh (g : ghost) : ghost :=
  Build_ghost (pushed g) (removed g) (erase_out (out g)) (overflow g) (freq g) (sdmark g) (sdhit g).
Definition erase_st (s : state) : state := {| sh := sh s; wr := wr s; gh := erase_gh (gh s) |}.

Lemma erase_out_app : forall a b, erase_out (a ++ b) = erase_out a ++ erase_out b.
Proof. induction a as [|[] a IH]; intros b; cbn; rewrite ?IH; reflexivity. Qed.
Lemma erase_out_wakes : forall ws, erase_out (map EWake ws) = map EWake ws.
Proof. induction ws; cbn; congruence. Qed.
Lemma nexts_erase_out : forall o, nexts (erase_out o) = nexts o.
Proof. induction o as [|[] o IH]; cbn; auto. f_equal; auto. Qed.

Theorem step_erase : forall c s l s',
  step c s l = Some s' -> step c (erase_st s) (erase_l l) = Some (erase_st s').
Proof.
  intros c s l s' Hs.
  step_inv Hs; cbn [step erase_l];
    unfold do_push, do_unpark, do_flushreq, do_clone, do_drophandle, do_forget, do_jstore, do_junpark,
           do_jjoin, wstep, erase_st, erase_gh, rep_allowed, erase_o; cbv zeta;
    cbn [sh wr gh o_res o_rep o_dl o_fl pushed removed out overflow freq sdmark sdhit];
    repeat match goal with H : ?x = _ |- context [?x] => rewrite H end;
    simp_st; cbn [o_res o_rep o_dl o_fl];
    rewrite ?erase_out_app; cbn [erase_out app]; rewrite ?erase_out_wakes; simp_st; try reflexivity.
  all: destruct (o_rep o); cbn [erase_out]; simp_st; reflexivity.
Qed.

Lemma erase_init : erase_st init = init.
Proof. reflexivity. Qed.

Theorem run_erase : forall c ls s s',
  run c s ls = Some s' -> run c (erase_st s) (map erase_l ls) = Some (erase_st s').
Proof.
  intros c. induction ls as [|l r IH]; intros s s' H; cbn [run map] in *.
  - inversion H; subst; reflexivity.
  - destruct (step c s l) as [s1|] eqn:E; [|discriminate].
    rewrite (step_erase _ _ _ _ E). apply IH. exact H.
Qed.

(* Two executions of the same schedule that differ only in what the stream answered deliver the same entries in
   the same order, leave the same entries queued and displaced, wake the same flush requests and leave the
   writer at the same point: an error for one entry neither prevents, repeats nor reorders any other. *)
Theorem errors_isolated : forall c ls1 ls2 s1 s2,
  map erase_l ls1 = map erase_l ls2 ->
  run c init ls1 = Some s1 -> run c init ls2 = Some s2 ->
  nexts (out (gh s1)) = nexts (out (gh s2)) /\
  erase_out (out (gh s1)) = erase_out (out (gh s2)) /\
  sh s1 = sh s2 /\ wr s1 = wr s2 /\ removed (gh s1) = removed (gh s2) /\ pushed (gh s1) = pushed (gh s2).
Proof.
  intros c ls1 ls2 s1 s2 He H1 H2.
  apply run_erase in H1. apply run_erase in H2. rewrite erase_init in *.
  rewrite He in H1. rewrite H1 in H2. unfold erase_st, erase_gh in H2.
  injection H2 as Hsh Hwr Hp Hr Ho Hov Hf Hm Hh.
  repeat split; auto.
  rewrite <- (nexts_erase_out (out (gh s1))), Ho. apply nexts_erase_out.
Qed.

(* ... and whatever the stream answers, the schedule stays executable *)
Theorem results_do_not_block : forall c ls s,
  run c init ls = Some s -> exists s', run c init (map erase_l ls) = Some s'.
Proof. intros c ls s H. apply run_erase in H. eauto. Qed.
