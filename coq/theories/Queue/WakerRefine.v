(* Queue family — the pure WakerTracker function (Waker.v) and the LTS agree: a WHandle step followed by the
   WRecv steps of the same call, with no other thread in between, is exactly [wt_handle]; plus the local facts
   S2/L1 of the source comment about the pure function. *)
From Coq Require Import List NArith Bool Arith Lia.
From MV Require Import Queue.Model Queue.Inv Queue.Waker.
Import ListNotations.

Definition wt_of (s : state) : wt :=
  {| w_waiting := waiting (wr s); w_ebw := ebw (wr s); w_chan := fch (sh s) |}.

(* the collecting loop: |chan| + 1 writer steps *)
Lemma recv_loop : forall c ch s o,
  pc (wr s) = WRecv -> fch (sh s) = ch ->
  exists s', run c s (repeat (LW o) (S (length ch))) = Some s' /\
    waiting (wr s') = waiting (wr s) ++ ch /\ fch (sh s') = [] /\
    ebw (wr s') = (if is_nil (waiting (wr s) ++ ch) then ebw (wr s) else cap c) /\
    pc (wr s') = after_handle (wr s) /\ out (gh s') = out (gh s) /\
    dres (wr s') = dres (wr s) /\ q (sh s') = q (sh s).
Proof.
  intros c ch. induction ch as [|w ch IH]; intros s o Hpc Hch.
  - cbn [repeat length run step]. unfold wstep. cbv zeta. rewrite Hpc, Hch.
    destruct (is_nil (waiting (wr s))) eqn:E; eexists; (split; [reflexivity|]); simp_st;
      rewrite app_nil_r, E; repeat split; auto.
  - cbn [repeat length run step]. unfold wstep at 1. cbv zeta. rewrite Hpc, Hch.
    set (s1 := {| sh := set_fch (sh s) ch; wr := set_waiting (wr s) (waiting (wr s) ++ [w]); gh := gh s |}).
    destruct (IH s1 o) as [s' [Hr [Hw [Hf [He [Hp [Ho [Hd Hq]]]]]]]]; [exact Hpc|reflexivity|].
    exists s'. split; [exact Hr|]. subst s1. simp_st. rewrite <- app_assoc in *. cbn [app] in *.
    repeat split; auto.
Qed.

Theorem handle_refines_waker : forall c s o,
  pc (wr s) = WHandle ->
  let res := wt_handle (wt_of s) (cap c) (negb (is_drained (dres (wr s)))) (count (wr s)) in
  exists n s', run c s (repeat (LW o) n) = Some s' /\
    wt_of s' = r_state res /\
    out (gh s') = out (gh s) ++ (if r_flushed res then EFlush (o_fl o) :: map EWake (r_woken res) else []) /\
    pc (wr s') = after_handle (wr s).
Proof.
  intros c s o Hpc. cbn zeta. unfold wt_handle, wt_of. cbn [w_waiting w_ebw w_chan].
  destruct (is_nil (waiting (wr s))) eqn:En.
  - (* nobody waiting: straight to the collecting loop *)
    set (s1 := {| sh := sh s; wr := set_pc (wr s) WRecv; gh := gh s |}).
    destruct (recv_loop c (fch (sh s)) s1 o eq_refl eq_refl) as [s' [Hr [Hw [Hf [He [Hp [Ho [Hd Hq]]]]]]]].
    exists (S (S (length (fch (sh s))))), s'. split.
    + change (repeat (LW o) (S (S (length (fch (sh s)))))) with (LW o :: repeat (LW o) (S (length (fch (sh s))))).
      cbn [run step]. unfold wstep at 1. cbv zeta. rewrite Hpc, En. exact Hr.
    + subst s1. simp_st. destruct (waiting (wr s)); [|discriminate]. cbn [app is_nil] in *.
      cbn [r_state r_flushed r_woken w_waiting w_chan w_ebw]. rewrite app_nil_r.
      repeat split; auto. rewrite Hw, Hf, He. reflexivity.
  - destruct ((ebw (wr s) - count (wr s) =? 0) || negb (negb (is_drained (dres (wr s))))) eqn:Ew;
      rewrite negb_involutive in Ew.
    + (* wake, then collect *)
      set (s1 := {| sh := sh s; wr := set_pc (set_ebw (set_waiting (wr s) []) 0) WRecv;
                    gh := add_out (gh s) (EFlush (o_fl o) :: map EWake (waiting (wr s))) |}).
      destruct (recv_loop c (fch (sh s)) s1 o eq_refl eq_refl) as [s' [Hr [Hw [Hf [He [Hp [Ho [Hd Hq]]]]]]]].
      exists (S (S (length (fch (sh s))))), s'. split.
      * change (repeat (LW o) (S (S (length (fch (sh s)))))) with (LW o :: repeat (LW o) (S (length (fch (sh s))))).
        cbn [run step]. unfold wstep at 1. cbv zeta. rewrite Hpc, En, Ew. exact Hr.
      * subst s1. simp_st. cbn [app is_nil r_state r_flushed r_woken w_waiting w_chan w_ebw] in *.
        repeat split; auto. rewrite Hw, Hf, He. reflexivity.
    + (* count down only *)
      eexists 1, _. split.
      * cbn [repeat run step]. unfold wstep. cbv zeta. rewrite Hpc, En, Ew. reflexivity.
      * simp_st. cbn [r_state r_flushed r_woken w_waiting w_chan w_ebw]. rewrite En.
        cbn [r_state r_flushed r_woken]. rewrite app_nil_r. repeat split; auto.
Qed.

(* ---------------------------------------------------------------- local facts about the pure function *)

(* a call with a drained queue, or with at least entries_before_wake entries, wakes everybody waiting and
   flushes first (S1's local half, L1's step) *)
Theorem wt_handle_wakes : forall t capacity hit cnt,
  w_waiting t <> [] -> hit = false \/ w_ebw t <= cnt ->
  let r := wt_handle t capacity hit cnt in
  r_flushed r = true /\ r_woken r = w_waiting t /\ w_waiting (r_state r) = w_chan t /\ w_chan (r_state r) = [].
Proof.
  intros t capacity hit cnt Hw Hc. cbn zeta. unfold wt_handle.
  destruct (w_waiting t) eqn:E; [congruence|]. cbn [is_nil].
  assert (Hcond : (w_ebw t - cnt =? 0) || negb hit = true).
  { destruct Hc as [->|Hc]; [apply orb_true_r|]. apply orb_true_iff. left. apply Nat.eqb_eq. lia. }
  rewrite Hcond. cbn. auto.
Qed.

(* otherwise the counter strictly decreases by the number of entries processed (L1's measure) *)
Theorem wt_handle_counts_down : forall t capacity cnt,
  w_waiting t <> [] -> cnt < w_ebw t ->
  let r := wt_handle t capacity true cnt in
  r_flushed r = false /\ r_woken r = [] /\ w_waiting (r_state r) = w_waiting t /\
  w_ebw (r_state r) = w_ebw t - cnt /\ w_chan (r_state r) = w_chan t.
Proof.
  intros t capacity cnt Hw Hc. cbn zeta. unfold wt_handle.
  destruct (w_waiting t) eqn:E; [congruence|]. cbn [is_nil].
  assert (Hcond : (w_ebw t - cnt =? 0) || negb true = false).
  { cbn. rewrite orb_false_r. apply Nat.eqb_neq. lia. }
  rewrite Hcond. cbn. auto.
Qed.

(* S2 (busy-loop freedom): when the tracker reports that it will progress on a drained queue, a call with a
   drained queue does wake somebody; and it never reports progress with nobody waiting *)
Theorem wt_progress_is_real : forall t capacity cnt,
  wt_will_progress t = true ->
  r_woken (wt_handle t capacity false cnt) <> [].
Proof.
  intros t capacity cnt H. unfold wt_will_progress in H.
  destruct (w_waiting t) eqn:E; [discriminate|].
  assert (Hne : w_waiting t <> []) by congruence.
  pose proof (wt_handle_wakes t capacity false cnt Hne (or_introl eq_refl)) as Hx. cbn zeta in Hx.
  destruct Hx as [_ [Hw _]]. rewrite Hw, E. discriminate.
Qed.

(* nothing is collected while somebody is still waiting; when nobody is, the whole channel is collected and the
   counter is set to the capacity *)
Theorem wt_handle_collects : forall t capacity hit cnt,
  w_waiting t = [] ->
  let r := wt_handle t capacity hit cnt in
  w_waiting (r_state r) = w_chan t /\ w_chan (r_state r) = [] /\
  (w_chan t <> [] -> w_ebw (r_state r) = capacity) /\ r_flushed r = false /\ r_woken r = [].
Proof.
  intros t capacity hit cnt Hw. cbn zeta. unfold wt_handle. rewrite Hw. cbn. rewrite ?Hw. cbn.
  destruct (w_chan t); cbn; repeat split; auto; try congruence.
Qed.
