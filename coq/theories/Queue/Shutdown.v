(* Queue family — shutdown (C05): dropping the join handle returns only after the entries appended before have
   been handed to the stream, the stream flushed and dropped; nothing is written afterwards; with the handle
   forgotten the same happens once the last queue handle is gone (on the repaired mechanism) and never on the
   mechanism that kept a second Arc<Inner> alive. *)
From Coq Require Import List NArith Bool Arith Lia.
From MV Require Import Queue.Model Queue.Spec Queue.Inv Queue.Delivery Queue.Reports Queue.Flush.
Import ListNotations.

(* the events that concern the stream *)
Definition stream_events (o : list ev) : list ev := filter (fun e => negb (nonstream e)) o.

Lemma stream_events_app : forall a b, stream_events (a ++ b) = stream_events a ++ stream_events b.
Proof. intros. apply filter_app. Qed.
Lemma stream_events_wakes : forall ws, stream_events (map EWake ws) = [].
Proof. induction ws; cbn; auto. Qed.

Definition is_done (p : wpc) : bool :=
  match p with WSdFlush | WSdDrop | WExit | WExited => true | _ => false end.
Definition sd_pc (p : wpc) : bool :=
  match p with WPop | WConsume | WSdFlush | WSdDrop | WExit | WExited => true | _ => false end.
Definition is_gone (p : wpc) : bool := match p with WExit | WExited => true | _ => false end.
Definition jh_dropping (j : jstate) : bool :=
  match j with JStored | JUnparked | JJoined => true | _ => false end.
Definition is_some {T} (o : option T) : bool := match o with Some _ => true | None => false end.

Record sd_inv (c : config) (s : state) : Prop := {
  (* the flag, the join handle's state and the ghost mark go together *)
  si_flag : shutdown (sh s) = jh_dropping (jh (sh s));
  si_mark : shutdown (sh s) = is_some (sdmark (gh s));
  si_mark_le : forall n, sdmark (gh s) = Some n -> n <= length (pushed (gh s));
  (* shut_down is entered because of the flag or because no appender is left *)
  si_why : sd (wr s) = true -> shutdown (sh s) = true \/ (handles (sh s) = 0 /\ extra_clone c = false);
  si_sd_pc : sd (wr s) = true -> sd_pc (pc (wr s)) = true;
  si_done_sd : is_done (pc (wr s)) = true -> sd (wr s) = true;
  si_hit : sd (wr s) = false -> sdhit (gh s) = false;
  (* a shutdown drain that was not cut short by its deadline leaves nothing behind *)
  si_drained : is_done (pc (wr s)) = true -> sdhit (gh s) = false ->
               (forall n, sdmark (gh s) = Some n -> n <= length (removed (gh s))) /\
               (shutdown (sh s) = false -> q (sh s) = []);
  si_joined : jh (sh s) = JJoined -> pc (wr s) = WExited;
  (* flush, then drop: the stream's last events *)
  si_flushed : pc (wr s) = WSdDrop -> exists pre b, stream_events (out (gh s)) = pre ++ [EFlush b];
  si_dropped : is_gone (pc (wr s)) = true ->
               exists pre b, stream_events (out (gh s)) = pre ++ [EFlush b; EDropStream];
}.

Lemma sd_inv_init : forall c, sd_inv c init.
Proof.
  intros c. constructor; cbn; intros; try discriminate; auto; try lia.
Qed.

Ltac sd_simpl :=
  cbn [is_done sd_pc is_gone jh_dropping is_some is_exited] in *.

Lemma sd_inv_step : forall c s l s',
  hist_inv c s -> sd_inv c s -> step c s l = Some s' -> sd_inv c s'.
Proof.
  intros c s l s' [G1 G2 G3 G4 G5 G6] [I1 I2 I3 I4 I5 I6 I7 I8 I9 I10 I11] Hs.
  assert (Glen : length (pushed (gh s)) = length (removed (gh s)) + length (q (sh s)))
    by (rewrite G1, app_length, map_length; reflexivity).
  step_inv Hs; simp_st;
    repeat match goal with
           | E : pc (wr s) = _ |- _ => rewrite E in *
           | E : inflight (wr s) = _ |- _ => rewrite E in *
           | E : q (sh s) = _ |- _ => rewrite E in *
           | E : jh (sh s) = _ |- _ => rewrite E in *
           end; sd_simpl;
    constructor; simp_st;
    rewrite ?stream_events_app, ?stream_events_wakes, ?app_nil_r; cbn [stream_events filter nonstream negb];
    unfold drain_done, after_handle in *; sd_simpl; intros;
    try assumption; try discriminate; try (solve [auto]); try congruence.
  all: bool_hyps.
  all: try solve [rewrite ?app_length; cbn [length];
                  match goal with H : sdmark _ = Some ?n |- _ => specialize (I3 n H) end; lia].
  all: try solve [destruct (sd (wr s)) eqn:Esd; sd_simpl; auto; try discriminate; try congruence;
                  destruct (dres (wr s)); sd_simpl; auto; try discriminate; try congruence].
  all: try solve [destruct (dres (wr s)); sd_simpl; auto; try discriminate; try congruence;
                  match goal with H : sd _ = true |- _ => specialize (I5 H); sd_simpl; discriminate end].
  all: try solve [match goal with H : sd _ = true |- _ => specialize (I5 H); sd_simpl; discriminate end].
  all: try solve [apply is_exited_true; assumption].
  all: try solve [match goal with H : jh _ = JJoined |- _ => specialize (I9 H); discriminate end].
  all: try solve [match goal with H : JJoined = JJoined -> _ |- _ => specialize (H eq_refl); discriminate end].
  - (* push in a done state: only possible while the flag is set *)
    destruct (I8 H H0) as [Ha Hb]. split; [exact Ha|]. intros Hsd. exfalso.
    destruct (I4 (I6 H)) as [Hx|[Hx _]]; [congruence|lia].
  - destruct (I8 H H0) as [Ha Hb]. split.
    + intros n0 Hn. specialize (Ha n0 Hn). rewrite app_length. lia.
    + intros Hsd. exfalso. destruct (I4 (I6 H)) as [Hx|[Hx _]]; [congruence|lia].
  - (* clone *)
    destruct (I4 H) as [Hx|[Hx _]]; [left; exact Hx|exfalso; lia].
  - (* drop handle *)
    destruct (I4 H) as [Hx|[Hx He]]; [left; exact Hx|right; split; [rewrite Hx; reflexivity|exact He]].
  - (* store: the mark *)
    inversion H; subst. lia.
  - destruct (I8 H H0) as [Ha Hb]. split; [|discriminate].
    intros n Hn. inversion Hn; subst. rewrite Glen, (Hb I1). cbn. lia.
  - (* the shutdown drain saw the ring empty *)
    split; [|intros _; exact Heql]. intros n Hn. specialize (I3 n Hn). cbn [length] in Glen. lia.
  - (* deadline hit outside shut_down: the give-up flag stays clear *)
    rewrite H, (I7 H). reflexivity.
  - destruct (sd (wr s)); sd_simpl; [rewrite orb_true_r in *; discriminate|discriminate].
  - rewrite Heqw in H; discriminate.
  - rewrite Heqw in H; discriminate.
  - rewrite Heqw in H; discriminate.
  - (* no appenders left *)
    right. unfold no_appenders in Heqb. apply andb_prop in Heqb. destruct Heqb as [Hh He].
    apply Nat.eqb_eq in Hh. apply negb_true_iff in He. auto.
  - (* shut_down: flush *)
    eexists _, _. reflexivity.
  - (* shut_down: drop(stream) *)
    destruct (I10 eq_refl) as [pre [b Hp]]. exists pre, b. rewrite Hp, <- app_assoc. reflexivity.
Qed.

Theorem sd_reachable : forall c s, reachable c s -> sd_inv c s.
Proof.
  intros c. apply reachable_ind; [apply sd_inv_init|].
  intros s l s' R IH Hs. eapply sd_inv_step; eauto. apply hist_reachable; auto.
Qed.

(* ---------------------------------------------------------------- what the user is promised *)

(* drop(join handle) has returned: the writer thread is gone, the stream's last two events are its flush and
   its drop, and — unless the shutdown drain gave up at its deadline — every entry appended before the drop
   began has been handed to the stream or had been displaced. *)
Theorem drop_drains : forall c s, reachable c s -> jh (sh s) = JJoined ->
  pc (wr s) = WExited /\
  (exists pre b, stream_events (out (gh s)) = pre ++ [EFlush b; EDropStream]) /\
  (sdhit (gh s) = false ->
   exists n, sdmark (gh s) = Some n /\ n <= length (removed (gh s)) /\
             forall e, In e (firstn n (pushed (gh s))) ->
                       In e (nexts (out (gh s))) \/ In e (displaced (removed (gh s)))).
Proof.
  intros c s R Hj. pose proof (sd_reachable _ _ R) as SI. pose proof (hist_reachable _ _ R) as HI.
  assert (Hpc : pc (wr s) = WExited) by (apply (si_joined _ _ SI); exact Hj).
  split; [exact Hpc|]. split; [apply (si_dropped _ _ SI); rewrite Hpc; reflexivity|].
  intros Hh. pose proof (si_flag _ _ SI) as Hf. rewrite Hj in Hf. cbn in Hf.
  pose proof (si_mark _ _ SI) as Hm. rewrite Hf in Hm.
  destruct (sdmark (gh s)) as [n|] eqn:En; [|discriminate]. exists n. split; [reflexivity|].
  destruct (si_drained _ _ SI) as [Ha _]; [rewrite Hpc; reflexivity|exact Hh|].
  split; [apply Ha; exact En|].
  apply (removed_prefix_delivered c); auto.
  destruct (hi_infl _ _ HI) as [H|H]; auto. congruence.
Qed.

(* however the thread came to its end (also with a forgotten handle): closed means drained, flushed, dropped *)
Theorem exit_means_closed : forall c s, reachable c s -> pc (wr s) = WExited ->
  (exists pre b, stream_events (out (gh s)) = pre ++ [EFlush b; EDropStream]) /\
  (sdhit (gh s) = false -> shutdown (sh s) = false ->
   q (sh s) = [] /\ forall e, In e (pushed (gh s)) ->
                              In e (nexts (out (gh s))) \/ In e (displaced (removed (gh s)))).
Proof.
  intros c s R Hpc. pose proof (sd_reachable _ _ R) as SI. pose proof (hist_reachable _ _ R) as HI.
  split; [apply (si_dropped _ _ SI); rewrite Hpc; reflexivity|].
  intros Hh Hs. destruct (si_drained _ _ SI) as [_ Hq]; [rewrite Hpc; reflexivity|exact Hh|].
  specialize (Hq Hs). split; [exact Hq|].
  intros e He. apply (removed_prefix_delivered c s (length (pushed (gh s)))); auto.
  - destruct (hi_infl _ _ HI) as [H|H]; auto. congruence.
  - rewrite (hi_fifo _ _ HI), Hq, app_nil_r, map_length. lia.
  - now rewrite firstn_all.
Qed.

(* after the thread has gone nothing reaches the stream any more; appends still succeed (C09) but only pile
   up in the ring (or displace each other) *)
Theorem nothing_after_exit : forall c ls s s',
  pc (wr s) = WExited -> run c s ls = Some s' ->
  pc (wr s') = WExited /\ stream_events (out (gh s')) = stream_events (out (gh s)) /\
  nexts (out (gh s')) = nexts (out (gh s)).
Proof.
  intros c. induction ls as [|l r IH]; intros s s' Hpc Hr; cbn [run] in Hr.
  - inversion Hr; subst. auto.
  - destruct (step c s l) as [s1|] eqn:E; [|discriminate].
    assert (H1 : pc (wr s1) = WExited /\ stream_events (out (gh s1)) = stream_events (out (gh s)) /\
                 nexts (out (gh s1)) = nexts (out (gh s))).
    { pose proof (step_pc _ _ _ _ E) as Hp.
      destruct (step_out_shape _ _ _ _ E) as [evs [Ho Hshape]].
      assert (Hev : stream_events evs = [] /\ nexts evs = []).
      { inversion Hshape; subst; cbn; rewrite ?stream_events_wakes, ?nexts_wakes; auto;
          repeat match goal with H : _ \/ _ |- _ => destruct H end; congruence. }
      destruct Hev as [He1 He2].
      rewrite Ho, stream_events_app, nexts_app, He1, He2, !app_nil_r.
      destruct l; try (rewrite Hp; auto).
      rewrite Hpc in Hp. destruct Hp. }
    destruct H1 as [Hp1 [Hs1 Hn1]]. destruct (IH _ _ Hp1 Hr) as [Ha [Hb Hc]].
    split; [exact Ha|]. split; congruence.
Qed.

(* ---------------------------------------------------------------- the forgotten handle, before the repair *)

(* with `let inner = self.inner.clone()` alive in run(), the no-appenders test can never succeed: without a
   shutdown request the writer never enters shut_down, whatever happens *)
Theorem forget_never_exits_with_extra_clone : forall c s,
  extra_clone c = true -> reachable c s -> shutdown (sh s) = false ->
  sd (wr s) = false /\ is_done (pc (wr s)) = false /\ has_drop (out (gh s)) = false.
Proof.
  intros c s Hx R Hs. pose proof (sd_reachable _ _ R) as SI.
  assert (Hsd : sd (wr s) = false).
  { destruct (sd (wr s)) eqn:E; auto. destruct (si_why _ _ SI E) as [H|[_ H]]; congruence. }
  assert (Hd : is_done (pc (wr s)) = false).
  { destruct (is_done (pc (wr s))) eqn:E; auto. rewrite (si_done_sd _ _ SI E) in Hsd. discriminate. }
  repeat split; auto.
  destruct (has_drop (out (gh s))) eqn:E; auto.
  destruct (drop_reachable _ _ R) as [_ Hdp]. destruct (Hdp E) as [H|H]; rewrite H in Hd; discriminate.
Qed.

Lemma forgotten_stays : forall c s, reachable c s -> jh (sh s) = JForgotten -> shutdown (sh s) = false.
Proof. intros c s R H. rewrite (si_flag _ _ (sd_reachable _ _ R)), H. reflexivity. Qed.

Theorem forget_refuted_before_fix : forall c s,
  extra_clone c = true -> reachable c s -> jh (sh s) = JForgotten ->
  pc (wr s) <> WExited /\ has_drop (out (gh s)) = false.
Proof.
  intros c s Hx R Hj.
  destruct (forget_never_exits_with_extra_clone c s Hx R (forgotten_stays _ _ R Hj)) as [_ [Hd Hn]].
  split; auto. intros H. rewrite H in Hd. discriminate.
Qed.

(* Requests that are only completed by the thread's end (woken at WExit): if the request was sent before the
   shutdown flag was stored and the shutdown drain was complete, the barrier still holds — everything appended
   before the request is written (or was displaced) and the stream was flushed before it was dropped. *)
Theorem barrier_at_exit : forall c s w n m,
  0 < cap c -> reachable c s -> pc (wr s) = WExited -> sdhit (gh s) = false ->
  In (w, n) (freq (gh s)) -> sdmark (gh s) = Some m -> n <= m ->
  (exists pre b, stream_events (out (gh s)) = pre ++ [EFlush b; EDropStream]) /\
  forall e, In e (firstn n (pushed (gh s))) ->
            In e (nexts (out (gh s))) \/ In e (displaced (removed (gh s))).
Proof.
  intros c s w n m Hc R Hpc Hh Hreq Hm Hle.
  pose proof (sd_reachable _ _ R) as SI. pose proof (hist_reachable _ _ R) as HI.
  split; [apply (si_dropped _ _ SI); rewrite Hpc; reflexivity|].
  destruct (si_drained _ _ SI) as [Ha _]; [rewrite Hpc; reflexivity|exact Hh|].
  specialize (Ha m Hm).
  apply (removed_prefix_delivered c); auto; [|lia].
  destruct (hi_infl _ _ HI) as [H|H]; auto. congruence.
Qed.
