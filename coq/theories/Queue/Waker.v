(* Queue family — WakerTracker (background.rs) as a pure function: the component the harness drives step by
   step through the cfg(metrique_verif) WakerDriver.  The LTS's WHandle / WRecv steps are this function cut
   at its shared-memory operations (Queue/WakerRefine.v). *)
From Coq Require Import List NArith Bool Arith.
From MV Require Import Queue.Model.
Import ListNotations.

Record wt := { w_waiting : list wid; w_ebw : nat; w_chan : list wid }.
Definition wt_init : wt := {| w_waiting := []; w_ebw := 0; w_chan := [] |}.

(* flush_async's `flush_queue_sender.send(signal)` *)
Definition wt_signal (t : wt) (w : wid) : wt :=
  {| w_waiting := w_waiting t; w_ebw := w_ebw t; w_chan := w_chan t ++ [w] |}.

Record wt_result := { r_state : wt; r_flushed : bool; r_woken : list wid; r_capacity_called : bool }.

(* handle_waiting_wakers(queue_capacity, flush_stream, status, entry_count) *)
Definition wt_handle (t : wt) (capacity : nat) (hit_deadline : bool) (entry_count : nat) : wt_result :=
  let '(t1, fl, woken) :=
    if is_nil (w_waiting t) then (t, false, [])
    else
      let e := w_ebw t - entry_count in                      (* saturating_sub *)
      if (e =? 0) || negb hit_deadline
      then ({| w_waiting := []; w_ebw := 0; w_chan := w_chan t |}, true, w_waiting t)
      else ({| w_waiting := w_waiting t; w_ebw := e; w_chan := w_chan t |}, false, []) in
  if is_nil (w_waiting t1)
  then {| r_state := {| w_waiting := w_chan t1;
                        w_ebw := if is_nil (w_chan t1) then w_ebw t1 else capacity;
                        w_chan := [] |};
          r_flushed := fl; r_woken := woken; r_capacity_called := negb (is_nil (w_chan t1)) |}
  else {| r_state := t1; r_flushed := fl; r_woken := woken; r_capacity_called := false |}.

Definition wt_will_progress (t : wt) : bool := negb (is_nil (w_waiting t)).
