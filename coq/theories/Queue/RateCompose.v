(* C01: the rate limiter composed with the queue's transition system.  In Queue/Model.v the limiter's verdict is the
   oracle bit `o_rep` of the writer's consume step.  Here: the number of in-band reports in the log of a run equals the
   number of consume steps with a validation failure whose verdict bit is set — so when those bits are the limiter's
   verdicts (Queue/RateLimit.v) for some clock readings, the limiter's bound is a bound on the reports in the stream. *)
From Coq Require Import List NArith Bool Arith Lia.
From MV Require Import Queue.Model Queue.Spec Queue.Inv Queue.RateLimit Queue.RateLimitProofs.
Import ListNotations.

Definition is_report (e : ev) : bool := match e with EReport _ => true | _ => false end.
Definition count_reports (o : list ev) : nat := length (filter is_report o).

Lemma count_reports_app a b : count_reports (a ++ b) = (count_reports a + count_reports b)%nat.
Proof. unfold count_reports. rewrite filter_app, app_length. reflexivity. Qed.
Lemma count_reports_wakes ws : count_reports (map EWake ws) = 0%nat.
Proof. induction ws; cbn; auto. Qed.

(* the limiter is consulted exactly at the consume steps whose `next` returned a validation error *)
Definition verdict (s : state) (l : label) : list bool :=
  match l with
  | LW o => match pc (wr s), inflight (wr s), o_res o with
            | WConsume, Some _, RVal => [match o_rep o with Some _ => true | None => false end]
            | _, _, _ => []
            end
  | _ => []
  end.

Fixpoint verdicts (c : config) (s : state) (ls : list label) : list bool :=
  match ls with
  | [] => []
  | l :: r => verdict s l ++ match step c s l with Some s' => verdicts c s' r | None => [] end
  end.

Lemma step_reports : forall c s l s', step c s l = Some s' ->
  count_reports (out (gh s')) = (count_reports (out (gh s)) + count_true (verdict s l))%nat.
Proof.
  intros c s l s' Hs. unfold verdict.
  step_inv Hs; simp_st; rewrite ?count_reports_app; cbn [count_reports filter is_report length app];
    rewrite ?count_reports_app, ?count_reports_wakes; cbn [count_true count_reports filter is_report length app];
    try lia.
  all: unfold rep_allowed in *;
    repeat match goal with
           | H : context [match ?x with _ => _ end] |- _ => destruct x eqn:?
           | |- context [match ?x with _ => _ end] => destruct x eqn:?
           end; try discriminate;
    cbn [count_true count_reports filter is_report length app] in *; rewrite ?count_reports_wakes; try lia.
  all: fold (count_reports (map EWake (waiting (wr s)))); rewrite count_reports_wakes; lia.
Qed.

Theorem run_reports : forall c ls s s', run c s ls = Some s' ->
  count_reports (out (gh s')) = (count_reports (out (gh s)) + count_true (verdicts c s ls))%nat.
Proof.
  intros c. induction ls as [|l r IH]; intros s s' Hr; cbn [run verdicts] in *.
  - inversion Hr; subst. cbn. lia.
  - destruct (step c s l) as [s1|] eqn:Es; [|discriminate].
    rewrite (IH s1 s' Hr), (step_reports c s l s1 Es).
    assert (Hc : forall a b, count_true (a ++ b) = (count_true a + count_true b)%nat).
    { induction a as [|[|] a IHa]; intros b; cbn [app count_true]; rewrite ?IHa; reflexivity. }
    rewrite Hc. lia.
Qed.

(* when the verdict bits of a run are the limiter's verdicts for clock readings whose whole seconds lie in [lo, hi],
   the stream sees at most (hi - lo) / interval + 1 in-band reports — however many entries failed validation *)
Theorem reports_in_stream_bounded : forall c ls s i next ts lo hi,
  run c init ls = Some s ->
  verdicts c init ls = fst (rl_run i next ts) ->
  (1 <= as_secs i)%N -> (hi + as_secs i <= U64MAX)%N ->
  Forall (fun t => (lo <= as_secs t <= hi)%N) ts ->
  (N.of_nat (count_reports (out (gh s))) <= (hi - lo) / as_secs i + 1)%N.
Proof.
  intros c ls s i next ts lo hi Hr Hv Hi Hsat Hall.
  rewrite (run_reports c ls init s Hr), Hv. cbn [init gh out count_reports filter length plus].
  exact (rl_count_bound i next ts lo hi Hi Hsat Hall).
Qed.
