(* Queue family — bounded progress of flush requests (C04, liveness half), counted in drain passes:
   a request is woken after at most 2*(cap/32 + 1) calls of handle_waiting_wakers, whatever the producers do
   and even if the ring never becomes empty (invariant L1 of the source comment, made precise). *)
From Coq Require Import List NArith Bool Arith Lia.
From MV Require Import Queue.Model Queue.Inv Queue.Delivery Queue.Flush.
Import ListNotations.

(* a drain pass that ended at its deadline consumed a positive multiple of 32 entries *)
Definition cnt_inv (s : state) : Prop :=
  pc (wr s) = WHandle -> dres (wr s) = HitDeadline -> 32 <= count (wr s).

Lemma cnt_inv_step : forall c s l s', cnt_inv s -> step c s l = Some s' -> cnt_inv s'.
Proof.
  intros c s l s' I Hs. unfold cnt_inv in *.
  step_inv Hs; simp_st; auto; unfold drain_done, after_handle in *; intros;
    repeat match goal with
           | H : context [if ?b then _ else _] |- _ => destruct b eqn:?
           | H : context [match ?b with _ => _ end] |- _ => destruct b eqn:?
           end; try discriminate; try congruence.
  bool_hyps.
  match goal with H : S ?n mod 32 = 0 |- _ =>
    pose proof (Nat.div_mod (S n) 32 ltac:(lia)) as Hd; rewrite H in Hd;
    destruct (S n / 32); lia end.
Qed.

Theorem cnt_reachable : forall c s, reachable c s -> cnt_inv s.
Proof.
  intros c. apply reachable_ind; [intros H; discriminate|]. intros; eapply cnt_inv_step; eauto.
Qed.

(* potential: how many more handle_waiting_wakers calls can happen before w is woken *)
Definition passes_left (c : config) (s : state) (w : wid) : nat :=
  if memN w (waiting (wr s)) then
    match pc (wr s) with WRecv => cap c / 32 | _ => ebw (wr s) / 32 end
  else
    match pc (wr s) with
    | WRecv => cap c / 32
    | _ => (if is_nil (waiting (wr s)) then 0 else ebw (wr s) / 32 + 1) + cap c / 32 + 1
    end.

Definition is_handle_step (s : state) (l : label) : nat :=
  match l, pc (wr s) with LW _, WHandle => 1 | _, _ => 0 end.

Fixpoint handle_steps (c : config) (s : state) (ls : list label) : nat :=
  match ls with
  | [] => 0
  | l :: r => is_handle_step s l + match step c s l with Some s' => handle_steps c s' r | None => 0 end
  end.

Lemma passes_left_bound : forall c s w, flush_inv c s -> passes_left c s w <= 2 * (cap c / 32 + 1).
Proof.
  intros c s w FI. unfold passes_left. pose proof (fi_ebw_le _ _ FI) as He.
  assert (ebw (wr s) / 32 <= cap c / 32) by (apply Nat.div_le_mono; lia).
  destruct (memN w (waiting (wr s))); destruct (pc (wr s)); destruct (is_nil (waiting (wr s))); lia.
Qed.

Lemma div32_drop : forall a b, 32 <= b -> b < a -> (a - b) / 32 + 1 <= a / 32.
Proof.
  intros a b Hb Hlt.
  replace a with ((a - b) + 1 * 32 + (b - 32)) at 2 by lia.
  rewrite <- Nat.add_assoc, (Nat.add_comm (1 * 32)), Nat.add_assoc.
  rewrite Nat.div_add by lia.
  assert ((a - b) / 32 <= (a - b + (b - 32)) / 32) by (apply Nat.div_le_mono; lia). lia.
Qed.

Lemma memN_app : forall x a b, memN x (a ++ b) = memN x a || memN x b.
Proof. intros. unfold memN. apply existsb_app. Qed.

Lemma memN_In_false : forall x l, memN x l = false <-> ~ In x l.
Proof.
  intros x l. split; [apply memN_false|]. intros H. destruct (memN x l) eqn:E; auto.
  apply memN_true in E. contradiction.
Qed.

Lemma passes_step : forall c s l s' w,
  0 < cap c -> reachable c s ->
  In w (fch (sh s) ++ waiting (wr s)) -> step c s l = Some s' ->
  In (EWake w) (skipn (length (out (gh s))) (out (gh s'))) \/
  (In w (fch (sh s') ++ waiting (wr s')) /\
   passes_left c s' w + is_handle_step s l <= passes_left c s w).
Proof.
  intros c s l s' w Hc R Hin Hs.
  pose proof (flush_reachable _ _ Hc R) as FI. pose proof (cnt_reachable _ _ R) as CI.
  pose proof (fi_ebw_le _ _ FI) as Hle. pose proof (fi_ebw _ _ FI) as Hge.
  assert (Hdiv : ebw (wr s) / 32 <= cap c / 32) by (apply Nat.div_le_mono; lia).
  unfold cnt_inv in CI.
  step_inv Hs; simp_st; unfold passes_left, is_handle_step; simp_st;
    rewrite ?skipn_app, ?skipn_all, ?Nat.sub_diag; cbn [skipn app];
    repeat match goal with E : pc (wr s) = _ |- _ => rewrite E in * end;
    unfold drain_done, after_handle;
    try solve [right; split;
               [ try assumption;
                 apply in_app_or in Hin; destruct Hin; apply in_or_app; auto; left; apply in_or_app; auto
               | split_matches; cbn; lia ]].
  - (* handle, nobody waiting *)
    right. split; [assumption|]. destruct (waiting (wr s)); [|discriminate]. cbn. lia.
  - (* handle, wake *)
    destruct (memN w (waiting (wr s))) eqn:Em.
    + left. right. apply in_map. now apply memN_true.
    + right. split.
      * apply in_app_or in Hin. destruct Hin as [H|H]; [apply in_or_app; auto|].
        apply memN_false in Em. contradiction.
      * rewrite Heqb. cbn. lia.
  - (* handle, count down *)
    apply orb_false_iff in Heqb0. destruct Heqb0 as [Hz Hd]. apply Nat.eqb_neq in Hz.
    assert (Hhit : dres (wr s) = HitDeadline) by (destruct (dres (wr s)); [discriminate|reflexivity]).
    pose proof (CI eq_refl Hhit) as Hcnt.
    pose proof (div32_drop (ebw (wr s)) (count (wr s)) Hcnt ltac:(lia)) as Hdrop.
    right. split; [assumption|]. rewrite Hhit, Heqb. destruct (memN w (waiting (wr s))); lia.
  - (* recv: channel empty, nothing collected *)
    exfalso. destruct (waiting (wr s)); [destruct Hin|discriminate].
  - (* recv: channel empty, entries_before_wake = capacity *)
    right. split; [rewrite Heql; assumption|]. cbn in Hin. apply memN_In in Hin. rewrite Hin.
    destruct (dres (wr s)); cbn; lia.
  - (* recv: one signal collected *)
    right. split.
    + cbn in Hin. destruct Hin as [H|H].
      * subst. apply in_or_app. right. apply in_or_app. right. left. reflexivity.
      * apply in_app_or in H. destruct H; apply in_or_app; auto. right. apply in_or_app. auto.
    + destruct (memN w (waiting (wr s) ++ [w0])), (memN w (waiting (wr s))); lia.
  - (* exit *)
    left. apply in_map. apply in_app_or in Hin. apply in_or_app. tauto.
Qed.

Lemma run_out_mono : forall c ls s s', run c s ls = Some s' -> exists evs, out (gh s') = out (gh s) ++ evs.
Proof.
  intros c. induction ls as [|l r IH]; intros s s' H; cbn [run] in H.
  - inversion H; subst. exists []. now rewrite app_nil_r.
  - destruct (step c s l) as [s1|] eqn:E; [|discriminate].
    destruct (step_out_shape _ _ _ _ E) as [e1 [H1 _]]. destruct (IH _ _ H) as [e2 H2].
    exists (e1 ++ e2). rewrite H2, H1, app_assoc. reflexivity.
Qed.

Lemma skipn_len_app : forall A (a b : list A), skipn (length a) (a ++ b) = b.
Proof. intros. rewrite skipn_app, skipn_all, Nat.sub_diag. reflexivity. Qed.

(* While request w has not been woken, at most passes_left <= 2*(cap/32+1) calls of handle_waiting_wakers
   can happen — for every behaviour of the producers and of the clock. *)
Theorem bounded_passes : forall c ls s s' w,
  0 < cap c -> reachable c s ->
  In w (fch (sh s) ++ waiting (wr s)) ->
  run c s ls = Some s' ->
  ~ In (EWake w) (skipn (length (out (gh s))) (out (gh s'))) ->
  handle_steps c s ls <= passes_left c s w /\ In w (fch (sh s') ++ waiting (wr s')).
Proof.
  intros c. induction ls as [|l r IH]; intros s s' w Hc R Hin Hr Hnw; cbn [run handle_steps] in *.
  - inversion Hr; subst. split; [lia|assumption].
  - destruct (step c s l) as [s1|] eqn:E; [|discriminate].
    destruct (step_out_shape _ _ _ _ E) as [e1 [H1 _]]. destruct (run_out_mono _ _ _ _ Hr) as [e2 H2].
    rewrite H2, H1, <- app_assoc, skipn_len_app in Hnw.
    destruct (passes_step c s l s1 w Hc R Hin E) as [Hw|[Hin1 Hpot]].
    + exfalso. apply Hnw. rewrite H1, skipn_len_app in Hw. apply in_or_app. auto.
    + assert (R1 : reachable c s1) by (eapply reachable_step; eauto).
      destruct (IH s1 s' w Hc R1 Hin1 Hr) as [Hh Hin'].
      * rewrite H2, skipn_len_app. intro Hx. apply Hnw. apply in_or_app. auto.
      * split; [lia|assumption].
Qed.

Corollary bounded_passes_cap : forall c ls s s' w,
  0 < cap c -> reachable c s ->
  In w (fch (sh s) ++ waiting (wr s)) ->
  run c s ls = Some s' ->
  2 * (cap c / 32 + 1) < handle_steps c s ls ->
  In (EWake w) (skipn (length (out (gh s))) (out (gh s'))).
Proof.
  intros c ls s s' w Hc R Hin Hr Hlt.
  destruct (in_dec (fun a b : ev => ltac:(decide equality; try apply N.eq_dec; try apply Bool.bool_dec;
            try (decide equality; apply N.eq_dec)) : {a = b} + {a <> b})
            (EWake w) (skipn (length (out (gh s))) (out (gh s')))) as [H|H]; auto.
  exfalso. destruct (bounded_passes c ls s s' w Hc R Hin Hr H) as [Hb _].
  pose proof (passes_left_bound c s w (flush_reachable _ _ Hc R)). lia.
Qed.

(* ---------------------------------------------------------------- no request is silently dropped; after shutdown *)

Definition req_accounted (s : state) : Prop :=
  forall w, In w (map fst (freq (gh s))) ->
            In (EWake w) (out (gh s)) \/ In w (fch (sh s) ++ waiting (wr s)).

Lemma req_accounted_step : forall c s l s',
  0 < cap c -> reachable c s -> req_accounted s -> step c s l = Some s' -> req_accounted s'.
Proof.
  intros c s l s' Hc R A Hs w Hw.
  destruct (step_out_shape _ _ _ _ Hs) as [e1 [H1 _]].
  destruct (step_mono _ _ _ _ Hs) as [_ Hf].
  assert (Hold : In w (map fst (freq (gh s))) ->
                 In (EWake w) (out (gh s')) \/ In w (fch (sh s') ++ waiting (wr s'))).
  { intros Hw0. destruct (A w Hw0) as [Hx|Hx].
    - left. rewrite H1. apply in_or_app. auto.
    - destruct (passes_step c s l s' w Hc R Hx Hs) as [Hy|[Hy _]]; auto.
      left. rewrite H1 in *. rewrite skipn_len_app in Hy. apply in_or_app. auto. }
  destruct Hf as [E|[w' [n' [E Hfresh]]]].
  - rewrite E in Hw. auto.
  - rewrite E, map_app in Hw. apply in_app_or in Hw. destruct Hw as [Hw|[Hw|[]]]; auto.
    cbn in Hw. subst w'.
    (* the request made by this very step *)
    clear Hold. step_inv Hs; simp_st;
      try (exfalso; match goal with H : ?f = ?f ++ [_] |- _ =>
             apply (f_equal (@length _)) in H; rewrite app_length in H; cbn in H; lia end).
    + apply app_inv_head in E. inversion E; subst. left. apply in_or_app. right. left. reflexivity.
    + apply app_inv_head in E. inversion E; subst. right. apply in_or_app. left. apply in_or_app. right. left. reflexivity.
Qed.

Theorem req_accounted_reachable : forall c s, 0 < cap c -> reachable c s -> req_accounted s.
Proof.
  intros c s Hc R. revert s R. apply reachable_ind.
  - intros w H. destruct H.
  - intros. eapply req_accounted_step; eauto.
Qed.

(* once the writer thread has gone, a flush request completes at once *)
Theorem flush_after_exit : forall c s t w s',
  pc (wr s) = WExited -> step c s (LFlushReq t w) = Some s' ->
  out (gh s') = out (gh s) ++ [EWake w] /\ fch (sh s') = fch (sh s).
Proof.
  intros c s t w s' Hpc Hs. cbn [step] in Hs. unfold do_flushreq in Hs. cbv zeta in Hs.
  rewrite Hpc in Hs. cbn [is_exited] in Hs.
  destruct ((0 <? handles (sh s)) && negb (memN t (pend (sh s))) && negb (memN w (map fst (freq (gh s)))));
    [|discriminate].
  inversion Hs; subst; simp_st. auto.
Qed.

(* leaving `run` wakes every collected and every still queued request *)
Theorem exit_wakes_all : forall c s o s',
  pc (wr s) = WExit -> step c s (LW o) = Some s' ->
  out (gh s') = out (gh s) ++ map EWake (waiting (wr s) ++ fch (sh s)) /\
  waiting (wr s') = [] /\ fch (sh s') = [] /\ pc (wr s') = WExited.
Proof.
  intros c s o s' Hpc Hs. cbn [step] in Hs. unfold wstep in Hs. cbv zeta in Hs. rewrite Hpc in Hs.
  inversion Hs; subst; simp_st. auto.
Qed.

(* hence: after the writer has gone every request ever made has been woken *)
Theorem all_woken_after_exit : forall c s, 0 < cap c -> reachable c s -> pc (wr s) = WExited ->
  forall w, In w (map fst (freq (gh s))) -> In (EWake w) (out (gh s)).
Proof.
  intros c s Hc R Hpc w Hw.
  destruct (req_accounted_reachable c s Hc R w Hw) as [H|H]; auto.
  destruct (fi_exited _ _ (flush_reachable _ _ Hc R) Hpc) as [E1 E2]. rewrite E1, E2 in H. destruct H.
Qed.
