(* Queue family — the executable ring specification used as C09's predicate (C09/Codec.v, ring_check) accepts
   every execution of the mechanism model: the predicate can only fail on behaviour the model does not have. *)
From Coq Require Import List ZArith NArith Bool Arith Lia.
From MV Require Import Common.Sx Queue.Model Queue.Spec Queue.Wire Queue.Inv Queue.Delivery Queue.Reports
                       Queue.Flush Queue.Shutdown Queue.Terminate C09.Codec.
Import ListNotations.

(* what an observer of a model run sees after every label: the label, the writer's point, the new events *)
Fixpoint trace (c : config) (s : state) (ls : list label) : list (option label * Z * list ev) :=
  match ls with
  | [] => []
  | l :: r =>
    match step c s l with
    | None => []
    | Some s' => (Some l, pc_code (pc (wr s')), skipn (length (out (gh s))) (out (gh s'))) :: trace c s' r
    end
  end.

Lemma skipn_len_app' : forall A (a b : list A), skipn (length a) (a ++ b) = b.
Proof. intros. rewrite skipn_app, skipn_all, Nat.sub_diag. reflexivity. Qed.

Lemma feed_wakes : forall ws h, feed_nexts (map EWake ws) h = Some h.
Proof. induction ws; intros; cbn; auto. Qed.

Lemma filter_stream_wakes : forall ws, filter stream_side (map EWake ws) = [].
Proof. induction ws; cbn; auto. Qed.

Lemma skipn_self : forall A (a : list A), skipn (length a) a = [].
Proof. intros. apply skipn_all. Qed.

Lemma ring_check_step : forall c s l s',
  hist_inv c s -> consume_inv s -> step c s l = Some s' ->
  forall rest,
    ring_check (cap c) rest (q (sh s')) (inflight (wr s')) = true ->
    ring_check (cap c) ((Some l, pc_code (pc (wr s')), skipn (length (out (gh s))) (out (gh s'))) :: rest)
               (q (sh s)) (inflight (wr s)) = true.
Proof.
  intros c s l s' [G1 G2 G3 G4 G5 G6] CI Hs rest Hrest. unfold consume_inv in CI.
  step_inv Hs; simp_st; rewrite ?skipn_len_app', ?skipn_self; cbn [ring_check];
    unfold ring_push, ring_take;
    repeat match goal with
           | E : pc (wr s) = _ |- _ => rewrite E in *
           | E : inflight (wr s) = _ |- _ => rewrite E in *
           | E : q (sh s) = _ |- _ => rewrite E in *
           | E : (_ <? _) = _ |- _ => rewrite E in *
           end;
    unfold drain_done, after_handle in *;
    cbn [filter stream_side feed_nexts pc_code Z.eqb Pos.eqb app length];
    rewrite ?feed_wakes, ?filter_stream_wakes; cbn [feed_nexts];
    try assumption.
  all: try (destruct G6 as [G6|G6]; [rewrite G6 in *|discriminate G6]).
  all: rewrite ?ent_eqb_refl.
  all: repeat match goal with
              | |- context [if sd ?w then _ else _] => destruct (sd w)
              | |- context [match dres ?w with _ => _ end] => destruct (dres w)
              | |- context [match o_rep ?o with _ => _ end] => destruct (o_rep o)
              end; cbn [pc_code Z.eqb Pos.eqb feed_nexts]; try assumption.
Qed.

(* every execution of the model passes the ring specification *)
Theorem ring_check_sound : forall c ls s,
  reachable c s -> ring_check (cap c) (trace c s ls) (q (sh s)) (inflight (wr s)) = true.
Proof.
  intros c. induction ls as [|l r IH]; intros s R; cbn [trace]; [reflexivity|].
  destruct (step c s l) as [s'|] eqn:E; [|reflexivity].
  apply ring_check_step; auto.
  - apply hist_reachable; auto.
  - apply (consume_reachable c); auto.
  - apply IH. eapply reachable_step; eauto.
Qed.

Corollary ring_check_sound_init : forall c ls,
  ring_check (cap c) (trace c init ls) [] None = true.
Proof. intros c ls. apply (ring_check_sound c ls init). apply reachable_init. Qed.
