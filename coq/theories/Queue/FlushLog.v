(* Queue family — the flush barrier as a property of the observable log (C04):
   whenever a wake-up of request w occurs in the log before the stream was dropped, the last stream event
   before it is a flush, and every entry appended before the request was sent has by then been handed to the
   stream or was displaced. *)
From Coq Require Import List NArith Bool Arith Lia.
From MV Require Import Queue.Model Queue.Spec Queue.Inv Queue.Delivery Queue.Reports Queue.Flush.
Import ListNotations.

(* the last event of the log that concerns the stream *)
Fixpoint last_stream (o : list ev) (acc : option ev) : option ev :=
  match o with
  | [] => acc
  | e :: r => last_stream r (if nonstream e then acc else Some e)
  end.
Definition flushed (pre : list ev) : bool :=
  match last_stream pre None with Some (EFlush _) => true | _ => false end.

Lemma last_stream_app : forall a b acc, last_stream (a ++ b) acc = last_stream b (last_stream a acc).
Proof. induction a; intros; cbn; auto. Qed.
Lemma last_stream_wakes : forall ws acc, last_stream (map EWake ws) acc = acc.
Proof. induction ws; intros; cbn; auto. Qed.

Definition wakes_known (s : state) : Prop :=
  forall w, In (EWake w) (out (gh s)) -> In w (map fst (freq (gh s))).

Lemma wakes_known_step : forall c s l s',
  flush_inv c s -> wakes_known s -> step c s l = Some s' -> wakes_known s'.
Proof.
  intros c s l s' FI K Hs w Hin.
  pose proof (fi_known _ _ FI) as Hk.
  step_inv Hs; simp_st; rewrite ?map_app; cbn [map fst];
    try (apply in_app_or in Hin; destruct Hin as [Hin|Hin]);
    try (apply in_or_app; left; apply K; assumption);
    try (apply K; assumption);
    cbn in Hin;
    repeat match goal with
           | H : _ \/ _ |- _ => destruct H
           | H : False |- _ => destruct H
           | H : EWake _ = EWake _ |- _ => inversion H; subst; clear H
           | H : In (EWake _) (map EWake _) |- _ => apply in_map_iff in H; destruct H as [? [? ?]]
           | H : In (EWake _) (match ?x with _ => _ end) |- _ => destruct x; cbn in H
           end; try discriminate;
    try (apply in_or_app; right; cbn; auto; fail);
    try (apply Hk; apply in_or_app; auto; fail).
  all: try (apply Hk; match goal with H : In _ (_ ++ _) |- _ => apply in_app_or in H; destruct H end;
            apply in_or_app; auto).
Qed.

Definition exit_dropped (s : state) : Prop :=
  pc (wr s) = WExit \/ pc (wr s) = WExited -> has_drop (out (gh s)) = true.

Lemma exit_dropped_step : forall c s l s', exit_dropped s -> step c s l = Some s' -> exit_dropped s'.
Proof.
  intros c s l s' B Hs. unfold exit_dropped in *.
  step_inv Hs; simp_st; rewrite ?has_drop_app; cbn [has_drop]; intros Hx;
    try (rewrite ?orb_true_r; reflexivity);
    try (rewrite Heqw in Hx; destruct Hx; discriminate);
    try (rewrite B; [reflexivity|]); auto;
    unfold drain_done, after_handle in *;
    repeat match goal with
           | H : context [if ?b then _ else _] |- _ => destruct b
           | H : context [match ?b with _ => _ end] |- _ => destruct b
           end;
    try (destruct Hx; discriminate); try (rewrite Heqw; auto).
Qed.

(* ---------------------------------------------------------------- the barrier over the log *)

Definition barrier_ok (s : state) (k : nat) (n : nat) : Prop :=
  flushed (firstn k (out (gh s))) = true /\
  forall e, In e (firstn n (pushed (gh s))) ->
            In e (nexts (firstn k (out (gh s)))) \/ In e (displaced (removed (gh s))).

Definition barrier_log (s : state) : Prop :=
  forall k w n,
    nth_error (out (gh s)) k = Some (EWake w) ->
    has_drop (firstn k (out (gh s))) = false ->
    In (w, n) (freq (gh s)) ->
    barrier_ok s k n.

Lemma firstn_app_le : forall A (a b : list A) k, k <= length a -> firstn k (a ++ b) = firstn k a.
Proof.
  intros A a b k H. rewrite firstn_app. replace (k - length a) with 0 by lia. cbn. apply app_nil_r.
Qed.
Lemma firstn_app_ge : forall A (a b : list A) k, length a <= k -> firstn k (a ++ b) = a ++ firstn (k - length a) b.
Proof. intros A a b k H. rewrite firstn_app, firstn_all2; auto. Qed.

Lemma nth_error_wakes : forall ws i w, nth_error (map EWake ws) i = Some (EWake w) -> In w ws.
Proof.
  intros ws i w H. rewrite nth_error_map in H. destruct (nth_error ws i) eqn:E; [|discriminate].
  inversion H; subst. eapply nth_error_In; eauto.
Qed.
Lemma firstn_wakes : forall ws i, firstn i (map EWake ws) = map EWake (firstn i ws).
Proof. intros. apply firstn_map. Qed.

Lemma in_freq_old : forall (f : list (wid * nat)) w n w' n',
  In (w, n) (f ++ [(w', n')]) -> In w (map fst f) -> ~ In w' (map fst f) -> In (w, n) f.
Proof.
  intros f w n w' n' H Hin Hf. apply in_app_or in H. destruct H as [H|[H|[]]]; auto.
  inversion H; subst. contradiction.
Qed.

Lemma displaced_mono : forall r r' e, In e (displaced r) -> In e (displaced (r ++ r')).
Proof. intros. rewrite displaced_app. apply in_or_app. auto. Qed.

Lemma barrier_log_step : forall c s l s',
  0 < cap c -> reachable c s -> barrier_log s -> wakes_known s -> exit_dropped s ->
  step c s l = Some s' -> barrier_log s'.
Proof.
  intros c s l s' Hc R BL K B Hs k w n Hnth Hnd Hreq.
  pose proof (hist_reachable _ _ R) as HI. pose proof (flush_reachable _ _ Hc R) as FI.
  destruct (step_out_shape _ _ _ _ Hs) as [evs [Ho Hshape]].
  destruct (step_mono _ _ _ _ Hs) as [[rr Hrem] Hfreq].
  pose proof (step_pushed _ _ _ _ Hs) as Hpush.
  unfold barrier_ok. rewrite Ho in *.
  destruct (Nat.lt_ge_cases k (length (out (gh s)))) as [Hlt|Hge].
  - (* an old wake-up: nothing it depends on changes *)
    rewrite nth_error_app1 in Hnth by auto. rewrite firstn_app_le in * by lia.
    assert (Hw : In w (map fst (freq (gh s)))) by (apply K; eapply nth_error_In; eauto).
    assert (Hreq0 : In (w, n) (freq (gh s))).
    { destruct Hfreq as [E|[w' [n' [E Hf]]]]; rewrite E in Hreq; auto. eapply in_freq_old; eauto. }
    destruct (BL k w n Hnth Hnd Hreq0) as [Hfl Hent]. split; auto.
    intros e He. rewrite Hpush, firstn_app_le in He by (apply (fi_le _ _ FI w n Hreq0)).
    destruct (Hent e He) as [H|H]; auto. right. rewrite Hrem. now apply displaced_mono.
  - (* a wake-up produced by this step *)
    rewrite nth_error_app2 in Hnth by auto. rewrite firstn_app_ge in * by auto.
    rewrite has_drop_app in Hnd. apply orb_false_iff in Hnd. destruct Hnd as [Hnd _].
    set (i := k - length (out (gh s))) in *.
    inversion Hshape; subst evs;
      try (destruct i as [|[|[|i]]]; cbn in Hnth; discriminate).
    + (* immediate wake-up after exit *)
      rewrite B in Hnd; [discriminate|auto].
    + (* handle_waiting_wakers *)
      destruct i as [|i]; [cbn in Hnth; discriminate|]. cbn [nth_error] in Hnth.
      apply nth_error_wakes in Hnth.
      assert (Hinf : inflight (wr s) = None).
      { destruct (hi_infl _ _ HI) as [Hx|Hx]; auto. congruence. }
      assert (Hreq0 : In (w, n) (freq (gh s))).
      { destruct Hfreq as [E|[w' [n' [E Hf]]]]; rewrite E in Hreq; auto.
        eapply in_freq_old; eauto. apply (fi_known _ _ FI). apply in_or_app. auto. }
      assert (Hn : n <= length (removed (gh s))).
      { apply orb_true_iff in H1. destruct H1 as [Ec|Ec].
        - apply Nat.eqb_eq in Ec.
          pose proof (fi_credit _ _ FI ltac:(congruence) w n Hnth Hreq0) as Hcr.
          unfold pass_popped in Hcr. rewrite H, Hinf in Hcr. cbn in Hcr. lia.
        - apply (fi_drained _ _ FI H) with (w := w); auto. destruct (dres (wr s)); auto; discriminate. }
      split.
      * unfold flushed. cbn [firstn]. rewrite last_stream_app. cbn [last_stream nonstream].
        rewrite firstn_wakes, last_stream_wakes. reflexivity.
      * intros e He. rewrite Hpush, firstn_app_le in He by (apply (fi_le _ _ FI w n Hreq0)).
        destruct (removed_prefix_delivered c s n HI Hinf Hn e He) as [Hx|Hx].
        -- left. rewrite nexts_app. apply in_or_app. auto.
        -- right. rewrite Hrem. now apply displaced_mono.
    + (* wake-ups at exit *)
      rewrite B in Hnd; [discriminate|auto].
Qed.

Theorem barrier_reachable : forall c s, 0 < cap c -> reachable c s ->
  barrier_log s /\ wakes_known s /\ exit_dropped s.
Proof.
  intros c s Hc R. revert s R. apply reachable_ind.
  - unfold barrier_log, wakes_known, exit_dropped. cbn. repeat split; intros;
      try contradiction;
      try (match goal with Hx : nth_error [] ?k = _ |- _ => destruct k; discriminate Hx end);
      try (match goal with Hx : _ \/ _ |- _ => destruct Hx; discriminate end).
  - intros s0 l s' R [BL [K B]] Hs. split; [|split].
    + eapply barrier_log_step; eauto.
    + eapply wakes_known_step; eauto. apply flush_reachable; auto.
    + eapply exit_dropped_step; eauto.
Qed.

(* The statement of C04's barrier, for every schedule: *)
Theorem flush_barrier : forall c ls s k w n,
  0 < cap c -> run c init ls = Some s ->
  nth_error (out (gh s)) k = Some (EWake w) ->          (* request w completes at position k of the log *)
  has_drop (firstn k (out (gh s))) = false ->            (* ... while the stream is still there *)
  In (w, n) (freq (gh s)) ->                             (* it was sent when n entries had been appended *)
  flushed (firstn k (out (gh s))) = true /\               (* the last thing the stream saw before is a flush *)
  forall e, In e (firstn n (pushed (gh s))) ->           (* and every one of those n entries ... *)
            In e (nexts (firstn k (out (gh s)))) \/      (* ... was handed to the stream before, *)
            In e (displaced (removed (gh s))).           (* or was displaced by overflow *)
Proof.
  intros c ls s k w n Hc Hr. assert (R : reachable c s) by (exists ls; auto).
  destruct (barrier_reachable c s Hc R) as [BL _]. apply BL.
Qed.
