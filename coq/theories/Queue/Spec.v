(* Queue family — SPECIFICATION side: what a user of the queue is promised, as executable predicates over
   what can be seen from outside (the appends in the order they were made, and the stream's log).
   Nothing here mentions the writer's program counter, the parker, the waker tracker or the ring. *)
From Coq Require Import List NArith Bool Arith.
From MV Require Import Queue.Model.
Import ListNotations.

Definition ent_eqb (a b : ent) : bool := N.eqb (fst a) (fst b) && N.eqb (snd a) (snd b).

(* a is an order-preserving sub-sequence of b *)
Fixpoint is_subseq (a b : list ent) : bool :=
  match b with
  | [] => is_nil a
  | y :: b' => match a with
               | [] => true
               | x :: a' => if ent_eqb x y then is_subseq a' b' else is_subseq a b'
               end
  end.

Fixpoint mem_ent (x : ent) (l : list ent) : bool :=
  match l with [] => false | y :: r => ent_eqb x y || mem_ent x r end.
Fixpoint nodup_ent (l : list ent) : bool :=
  match l with [] => true | x :: r => negb (mem_ent x r) && nodup_ent r end.

(* the in-band report is written only directly after a `next` that returned a validation error *)
Fixpoint reports_ok (prev_val : bool) (o : list ev) : bool :=
  match o with
  | [] => true
  | EReport _ :: r => prev_val && reports_ok false r
  | ENext _ RVal :: r => reports_ok true r
  | EWake _ :: r | EOver :: r => reports_ok prev_val r     (* not stream events *)
  | _ :: r => reports_ok false r
  end.
Fixpoint no_reports (o : list ev) : bool :=
  match o with [] => true | EReport _ :: _ => false | _ :: r => no_reports r end.

(* nothing reaches the stream after it was dropped *)
Fixpoint nothing_after_drop (o : list ev) : bool :=
  match o with
  | [] => true
  | EDropStream :: r => forallb (fun e => match e with EWake _ | EOver => true | _ => false end) r
  | _ :: r => nothing_after_drop r
  end.

(* C01: the entries the stream saw are appended entries, each at most once, in append order (hence in each
   producer's own order); with distinct ids that is "exactly once, in order" for everything delivered.
   Reports only where allowed. *)
Definition c01_spec (nosub_ : bool) (appended : list ent) (log : list ev) : bool :=
  is_subseq (nexts log) appended &&
  nodup_ent (nexts log) &&
  (if nosub_ then reports_ok false log else no_reports log) &&
  nothing_after_drop log.

(* ---------------------------------------------------------------- C09: the ring, as promised *)

(* The queue behaves as a bounded FIFO that displaces its oldest element: [ring_push] and [ring_take] are the
   whole specification. *)
Definition ring_push (cap_ : nat) (r : list ent) (e : ent) : list ent * option ent :=
  if length r <? cap_ then (r ++ [e], None)
  else match r with [] => (r, None) | h :: t => (t ++ [e], Some h) end.
Definition ring_take (r : list ent) : option (ent * list ent) :=
  match r with [] => None | h :: t => Some (h, t) end.
