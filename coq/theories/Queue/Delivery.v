(* Queue family — what the history invariant says about delivery (C01) and overflow (C09). *)
From Coq Require Import List NArith Bool Arith Lia Permutation.
From MV Require Import Queue.Model Queue.Inv.
Import ListNotations.

(* ---------------------------------------------------------------- order-preserving sub-sequences *)

Inductive subseq {A : Type} : list A -> list A -> Prop :=
| ss_nil : subseq [] []
| ss_skip : forall x l1 l2, subseq l1 l2 -> subseq l1 (x :: l2)
| ss_take : forall x l1 l2, subseq l1 l2 -> subseq (x :: l1) (x :: l2).

Lemma subseq_refl : forall A (l : list A), subseq l l.
Proof. induction l; [apply ss_nil | apply ss_take; auto]. Qed.
Lemma subseq_nil_l : forall A (l : list A), subseq [] l.
Proof. induction l; [apply ss_nil | apply ss_skip; auto]. Qed.
Lemma subseq_trans : forall A (a b c : list A), subseq a b -> subseq b c -> subseq a c.
Proof.
  intros A a b c Hab Hbc. revert a Hab. induction Hbc; intros a Hab.
  - exact Hab.
  - apply ss_skip. auto.
  - inversion Hab; subst; [apply ss_skip | apply ss_take]; auto.
Qed.
Lemma subseq_app : forall A (a1 a2 b1 b2 : list A), subseq a1 b1 -> subseq a2 b2 -> subseq (a1 ++ a2) (b1 ++ b2).
Proof. intros A a1 a2 b1 b2 H1 H2. induction H1; cbn; [exact H2 | apply ss_skip; auto | apply ss_take; auto]. Qed.
Lemma subseq_app_l : forall A (a b : list A), subseq a (a ++ b).
Proof. intros. rewrite <- (app_nil_r a) at 1. apply subseq_app; [apply subseq_refl|apply subseq_nil_l]. Qed.
Lemma subseq_In : forall A (a b : list A) x, subseq a b -> In x a -> In x b.
Proof. intros A a b x H. induction H; cbn; intuition. Qed.
Lemma subseq_NoDup : forall A (a b : list A), subseq a b -> NoDup b -> NoDup a.
Proof.
  intros A a b H. induction H; intros Hn; auto.
  - inversion Hn; auto.
  - inversion Hn; subst. constructor; auto. intro Hi. apply H2. eapply subseq_In; eauto.
Qed.
Lemma subseq_filter : forall A (f : A -> bool) (a b : list A), subseq a b -> subseq (filter f a) (filter f b).
Proof.
  intros A f a b H. induction H; cbn; [apply ss_nil | destruct (f x); [apply ss_skip|]; auto |
                                       destruct (f x); [apply ss_take|]; auto].
Qed.
Lemma subseq_length : forall A (a b : list A), subseq a b -> length a <= length b.
Proof. intros A a b H. induction H; cbn; lia. Qed.

Lemma popped_subseq : forall r, subseq (popped r) (map fst r).
Proof. induction r as [|[e []] r IH]; cbn; [apply ss_nil | apply ss_take | apply ss_skip]; auto. Qed.
Lemma displaced_subseq : forall r, subseq (displaced r) (map fst r).
Proof. induction r as [|[e []] r IH]; cbn; [apply ss_nil | apply ss_skip | apply ss_take]; auto. Qed.
Lemma popped_displaced_perm : forall r, Permutation (map fst r) (popped r ++ displaced r).
Proof.
  induction r as [|[e []] r IH]; cbn; auto.
  apply Permutation_cons_app. exact IH.
Qed.
Lemma popped_displaced_length : forall r, length r = length (popped r) + length (displaced r).
Proof. induction r as [|[e []] r IH]; cbn; lia. Qed.
Lemma displaced_nil_popped : forall r, displaced r = [] -> popped r = map fst r.
Proof. induction r as [|[e []] r IH]; cbn; intros H; try discriminate; auto. f_equal; auto. Qed.

(* ---------------------------------------------------------------- reachable states satisfy the history invariant *)

Theorem hist_reachable : forall c s, reachable c s -> hist_inv c s.
Proof.
  intros c. apply reachable_ind; [apply hist_inv_init|]. intros; eapply hist_inv_step; eauto.
Qed.

Lemma pushes_app : forall a b, pushes (a ++ b) = pushes a ++ pushes b.
Proof. induction a as [|[] a IH]; intros; cbn; rewrite ?IH; auto. Qed.

Lemma step_pushed : forall c s l s', step c s l = Some s' -> pushed (gh s') = pushed (gh s) ++ pushes [l].
Proof. intros c s l s' H. step_inv H; simp_st; cbn; rewrite ?app_nil_r; auto. Qed.

Lemma run_pushed : forall c ls s s', run c s ls = Some s' -> pushed (gh s') = pushed (gh s) ++ pushes ls.
Proof.
  intros c. induction ls as [|l r IH]; intros s s' H; cbn [run] in H.
  - inversion H; subst. cbn. now rewrite app_nil_r.
  - destruct (step c s l) as [s1|] eqn:E; [|discriminate].
    rewrite (IH _ _ H), (step_pushed _ _ _ _ E), <- app_assoc. f_equal.
    change (l :: r) with ([l] ++ r). now rewrite pushes_app.
Qed.

(* ---------------------------------------------------------------- C01 *)

Section Delivery.
  Variable c : config.
  Variable s : state.
  Hypothesis R : reachable c s.

  (* Removal from the ring is in push order; what the stream saw is exactly the popped entries, in order,
     except the one the writer currently holds. *)
  Theorem delivery_fifo :
    pushed (gh s) = map fst (removed (gh s)) ++ q (sh s) /\
    popped (removed (gh s)) = nexts (out (gh s)) ++ opt_list (inflight (wr s)).
  Proof. destruct (hist_reachable _ _ R); auto. Qed.

  Theorem delivered_subseq_pushed : subseq (nexts (out (gh s))) (pushed (gh s)).
  Proof.
    destruct (hist_reachable _ _ R) as [H1 H2 _ _ _ _]. rewrite H1.
    eapply subseq_trans; [|apply subseq_app_l].
    eapply subseq_trans; [|apply popped_subseq]. rewrite H2. apply subseq_app_l.
  Qed.

  (* every pushed entry is in exactly one place: written, in the writer's hand, displaced, or still queued *)
  Theorem pushed_partition :
    Permutation (pushed (gh s))
                (nexts (out (gh s)) ++ opt_list (inflight (wr s)) ++ displaced (removed (gh s)) ++ q (sh s)).
  Proof.
    destruct (hist_reachable _ _ R) as [H1 H2 _ _ _ _]. rewrite H1.
    rewrite (app_assoc (nexts _)), <- H2, app_assoc. apply Permutation_app_tail. apply popped_displaced_perm.
  Qed.

  Theorem exactly_once : NoDup (pushed (gh s)) -> NoDup (nexts (out (gh s))).
  Proof. apply subseq_NoDup, delivered_subseq_pushed. Qed.

  Theorem only_pushed_delivered : forall e, In e (nexts (out (gh s))) -> In e (pushed (gh s)).
  Proof. intros e. apply subseq_In, delivered_subseq_pushed. Qed.

  Theorem per_producer_order : forall t,
    subseq (by_thread t (nexts (out (gh s)))) (by_thread t (pushed (gh s))).
  Proof. intros t. apply subseq_filter, delivered_subseq_pushed. Qed.

  Theorem no_overflow_nothing_lost :
    overflow (gh s) = 0 ->
    pushed (gh s) = nexts (out (gh s)) ++ opt_list (inflight (wr s)) ++ q (sh s).
  Proof.
    destruct (hist_reachable _ _ R) as [H1 H2 H3 _ _ _]. intros H0.
    rewrite H0 in H3. symmetry in H3. apply length_zero_iff_nil in H3.
    rewrite H1, <- (displaced_nil_popped _ H3), H2, <- app_assoc. reflexivity.
  Qed.

  (* whenever the ring is empty and the writer's hand is empty, everything appended so far has been handed to
     the stream or was displaced — in particular at the end of every drain pass that saw `pop() = None` *)
  Theorem empty_ring_all_delivered :
    q (sh s) = [] -> inflight (wr s) = None ->
    forall e, In e (pushed (gh s)) -> In e (nexts (out (gh s))) \/ In e (displaced (removed (gh s))).
  Proof.
    intros Hq Hi e He. pose proof pushed_partition as Hp. rewrite Hq, Hi in Hp. cbn in Hp.
    rewrite app_nil_r in Hp. apply (Permutation_in _ Hp) in He. apply in_app_or in He. tauto.
  Qed.
End Delivery.

(* in terms of the schedule: what the stream saw is a sub-sequence of the appends, in append order *)
Theorem delivered_subseq_schedule : forall c ls s,
  run c init ls = Some s -> subseq (nexts (out (gh s))) (pushes ls).
Proof.
  intros c ls s H. pose proof (run_pushed _ _ _ _ H) as Hp. cbn in Hp. rewrite <- Hp.
  apply (delivered_subseq_pushed c). now exists ls.
Qed.

(* ---------------------------------------------------------------- C09 *)

(* push is always enabled for a thread that holds a handle and is not inside another push *)
Theorem push_never_blocks : forall c s t n,
  0 < cap c -> reachable c s ->
  0 < handles (sh s) -> memN t (pend (sh s)) = false ->
  exists s', step c s (LPush t n) = Some s'.
Proof.
  intros c s t n Hc R Hh Hp. cbn [step]. unfold do_push.
  apply Nat.ltb_lt in Hh. rewrite Hh, Hp. cbn [andb negb].
  destruct (length (q (sh s)) <? cap c) eqn:E; [eauto|].
  destruct (q (sh s)) eqn:Eq; [|eauto].
  apply Nat.ltb_ge in E. cbn in E. lia.
Qed.

(* a push into a ring that is not full displaces nothing *)
Theorem push_not_full : forall c s t n s',
  step c s (LPush t n) = Some s' -> length (q (sh s)) < cap c ->
  q (sh s') = q (sh s) ++ [(t, n)] /\ removed (gh s') = removed (gh s) /\ overflow (gh s') = overflow (gh s)
  /\ out (gh s') = out (gh s).
Proof.
  intros c s t n s' H Hl. cbn [step] in H. unfold do_push in H.
  apply Nat.ltb_lt in Hl. rewrite Hl in H.
  destruct ((0 <? handles (sh s)) && negb (memN t (pend (sh s)))); [|discriminate].
  inversion H; subst; simp_st. auto.
Qed.

(* a push into a full ring displaces exactly its head, which is the earliest appended entry that has
   not left the ring yet; the counter goes up by one and the recorder is told *)
Theorem push_full_displaces_oldest : forall c s t n s',
  reachable c s -> step c s (LPush t n) = Some s' -> length (q (sh s)) = cap c ->
  exists h r,
    q (sh s) = h :: r /\ q (sh s') = r ++ [(t, n)] /\
    removed (gh s') = removed (gh s) ++ [(h, Displaced)] /\
    nth_error (pushed (gh s)) (length (removed (gh s))) = Some h /\
    overflow (gh s') = S (overflow (gh s)) /\ out (gh s') = out (gh s) ++ [EOver].
Proof.
  intros c s t n s' R H Hl. destruct (hist_reachable _ _ R) as [H1 _ _ _ _ _].
  cbn [step] in H. unfold do_push in H.
  assert (E : (length (q (sh s)) <? cap c) = false) by (apply Nat.ltb_ge; lia). rewrite E in H.
  destruct ((0 <? handles (sh s)) && negb (memN t (pend (sh s)))); [|discriminate].
  destruct (q (sh s)) as [|h r] eqn:Eq; [discriminate|].
  inversion H; subst; simp_st. exists h, r. repeat split; auto.
  rewrite H1, nth_error_app2; rewrite map_length; [|lia]. now rewrite Nat.sub_diag.
Qed.

(* an entry is displaced only when at least `cap` newer entries had been appended while it was queued *)
Definition displaced_late (c : config) (s : state) : Prop :=
  forall i e, nth_error (removed (gh s)) i = Some (e, Displaced) ->
              nth_error (pushed (gh s)) i = Some e /\ i + cap c < length (pushed (gh s)).

Lemma nth_error_snoc : forall A (l : list A) x i y,
  nth_error (l ++ [x]) i = Some y -> nth_error l i = Some y \/ (i = length l /\ y = x).
Proof.
  intros A l x i y H. destruct (Nat.lt_ge_cases i (length l)).
  - rewrite nth_error_app1 in H by auto. auto.
  - rewrite nth_error_app2 in H by auto. destruct (i - length l) as [|k] eqn:E.
    + cbn in H. inversion H. right. split; auto. lia.
    + cbn in H. destruct k; discriminate.
Qed.

Theorem displaced_late_reachable : forall c s, reachable c s -> displaced_late c s.
Proof.
  intros c. apply reachable_ind.
  - intros i e H. destruct i; discriminate.
  - intros s l s' R IH Hs. pose proof (hist_reachable _ _ R) as [H1 _ _ _ H5 _].
    pose proof (step_pushed _ _ _ _ Hs) as Hp.
    assert (Hmono : forall i e, nth_error (removed (gh s)) i = Some (e, Displaced) ->
                     nth_error (pushed (gh s')) i = Some e /\ i + cap c < length (pushed (gh s'))).
    { intros i e Hi. destruct (IH i e Hi) as [Ha Hb]. rewrite Hp, app_length. split; [|lia].
      rewrite nth_error_app1; auto. apply nth_error_Some. congruence. }
    intros i e Hi.
    step_inv Hs; simp_st; bool_hyps; try (apply Hmono; exact Hi).
    + (* push, displacing *)
      apply nth_error_snoc in Hi. destruct Hi as [Hi|[Hi He]]; [apply Hmono; exact Hi|].
      inversion He; subst. cbn [length] in *.
      assert (Hl : length (pushed (gh s)) = length (removed (gh s)) + S (length l))
        by (rewrite H1, app_length, map_length; reflexivity).
      rewrite app_length. cbn [length]. split; [|lia].
      rewrite nth_error_app1 by lia. rewrite H1, nth_error_app2; rewrite map_length; [|lia].
      now rewrite Nat.sub_diag.
    + (* pop *)
      apply nth_error_snoc in Hi. destruct Hi as [Hi|[_ Hi]]; [apply Hmono; exact Hi|discriminate].
Qed.

Theorem overflow_counter : forall c s, reachable c s ->
  overflow (gh s) = length (displaced (removed (gh s))) /\ count_over (out (gh s)) = overflow (gh s).
Proof. intros c s R. destruct (hist_reachable _ _ R); auto. Qed.

Theorem ring_bounded : forall c s, reachable c s -> length (q (sh s)) <= cap c.
Proof. intros c s R. destruct (hist_reachable _ _ R); auto. Qed.
