(* Queue family — the stream sees nothing but appended entries, the allowed in-band reports, flushes and its
   own drop; and the executable specification c01_spec is satisfied by every run of the model. *)
From Coq Require Import List NArith Bool Arith Lia.
From MV Require Import Queue.Model Queue.Spec Queue.Inv Queue.Delivery.
Import ListNotations.

(* ---------------------------------------------------------------- boolean checkers vs. their meaning *)

Lemma ent_eqb_eq : forall a b, ent_eqb a b = true <-> a = b.
Proof.
  intros [a1 a2] [b1 b2]. unfold ent_eqb. cbn. rewrite andb_true_iff, !N.eqb_eq.
  split; [intros [-> ->]; auto | intros H; inversion H; auto].
Qed.
Lemma ent_eqb_refl : forall a, ent_eqb a a = true.
Proof. intros a. now apply ent_eqb_eq. Qed.

Lemma subseq_tail : forall A (x : A) a b, subseq (x :: a) b -> subseq a b.
Proof.
  intros A x a b H. remember (x :: a) as xa eqn:E. revert x a E.
  induction H; intros y a E; try discriminate.
  - apply ss_skip. eapply IHsubseq; eauto.
  - inversion E; subst. apply ss_skip. exact H.
Qed.

Lemma is_subseq_complete : forall b a, subseq a b -> is_subseq a b = true.
Proof.
  induction b as [|y b IH]; intros a H.
  - inversion H. reflexivity.
  - destruct a as [|x a]; [reflexivity|]. cbn [is_subseq].
    destruct (ent_eqb x y) eqn:E.
    + apply IH. inversion H; subst; [eapply subseq_tail; eauto|auto].
    + apply IH. inversion H; subst; auto. rewrite ent_eqb_refl in E. discriminate.
Qed.

Lemma mem_ent_In : forall x l, mem_ent x l = true <-> In x l.
Proof.
  induction l as [|y l IH]; cbn; [split; [discriminate|tauto]|].
  rewrite orb_true_iff, IH, ent_eqb_eq. split; intros [H|H]; auto.
Qed.
Lemma nodup_ent_complete : forall l, NoDup l -> nodup_ent l = true.
Proof.
  induction 1 as [|x l Hn Hd IH]; cbn; auto. rewrite IH, andb_true_r.
  destruct (mem_ent x l) eqn:E; auto. apply mem_ent_In in E. contradiction.
Qed.

(* ---------------------------------------------------------------- reports *)

Fixpoint last_val (p : bool) (o : list ev) : bool :=
  match o with
  | [] => p
  | EReport _ :: r => last_val false r
  | ENext _ RVal :: r => last_val true r
  | EWake _ :: r | EOver :: r => last_val p r
  | _ :: r => last_val false r
  end.

Lemma reports_ok_app : forall a b p, reports_ok p (a ++ b) = reports_ok p a && reports_ok (last_val p a) b.
Proof.
  induction a as [|e a IH]; intros b p; cbn [app reports_ok last_val]; [reflexivity|].
  destruct e as [x r| | | | |]; try destruct r; rewrite ?IH, ?andb_assoc; reflexivity.
Qed.
Lemma no_reports_ok : forall o p, no_reports o = true -> reports_ok p o = true.
Proof.
  induction o as [|e o IH]; intros p H; cbn in *; auto.
  destruct e as [x r| | | | |]; try destruct r; try discriminate; auto.
Qed.
Lemma no_reports_app : forall a b, no_reports (a ++ b) = no_reports a && no_reports b.
Proof. induction a as [|[] a IH]; intros b; cbn; auto. Qed.
Lemma no_reports_wakes : forall ws, no_reports (map EWake ws) = true.
Proof. induction ws; cbn; auto. Qed.

Definition rep_inv (c : config) (s : state) : Prop :=
  reports_ok false (out (gh s)) = true /\ (nosub c = false -> no_reports (out (gh s)) = true).

Lemma rep_inv_step : forall c s l s', rep_inv c s -> step c s l = Some s' -> rep_inv c s'.
Proof.
  intros c s l s' [H1 H2] Hs.
  destruct (step_out_shape _ _ _ _ Hs) as [evs [Ho Hshape]]. unfold rep_inv. rewrite Ho.
  rewrite reports_ok_app, no_reports_app, H1. cbn [andb].
  assert (Hw : forall ws p, reports_ok p (map EWake ws) = true)
    by (intros; apply no_reports_ok, no_reports_wakes).
  inversion Hshape; subst; (split; [|intros Hn; rewrite (H2 Hn)]);
    cbn [reports_ok no_reports last_val andb]; rewrite ?no_reports_wakes, ?Hw; auto;
    try congruence; destruct r; auto.
Qed.

Theorem rep_reachable : forall c s, reachable c s -> rep_inv c s.
Proof.
  intros c. apply reachable_ind; [split; reflexivity|]. intros; eapply rep_inv_step; eauto.
Qed.

(* ---------------------------------------------------------------- nothing after the stream was dropped *)

Definition nonstream (e : ev) : bool := match e with EWake _ | EOver => true | _ => false end.
Fixpoint has_drop (o : list ev) : bool :=
  match o with [] => false | EDropStream :: _ => true | _ :: r => has_drop r end.

Lemma nad_app : forall a b,
  nothing_after_drop (a ++ b) =
  if has_drop a then nothing_after_drop a && forallb nonstream b else nothing_after_drop b.
Proof.
  induction a as [|e a IH]; intros b; cbn [app nothing_after_drop has_drop]; [reflexivity|].
  destruct e; try apply IH. rewrite forallb_app. reflexivity.
Qed.
Lemma has_drop_app : forall a b, has_drop (a ++ b) = has_drop a || has_drop b.
Proof. induction a as [|[] a IH]; intros b; cbn; auto. Qed.
Lemma has_drop_wakes : forall ws, has_drop (map EWake ws) = false.
Proof. induction ws; cbn; auto. Qed.
Lemma nonstream_wakes : forall ws, forallb nonstream (map EWake ws) = true.
Proof. induction ws; cbn; auto. Qed.
Lemma nad_wakes : forall ws, nothing_after_drop (map EWake ws) = true.
Proof. induction ws; cbn; auto. Qed.

Definition drop_inv (s : state) : Prop :=
  nothing_after_drop (out (gh s)) = true /\
  (has_drop (out (gh s)) = true -> pc (wr s) = WExit \/ pc (wr s) = WExited).

Lemma drop_pc_step : forall c s l s',
  (has_drop (out (gh s)) = true -> pc (wr s) = WExit \/ pc (wr s) = WExited) ->
  step c s l = Some s' ->
  (has_drop (out (gh s')) = true -> pc (wr s') = WExit \/ pc (wr s') = WExited).
Proof.
  intros c s l s' H2 Hs.
  step_inv Hs; simp_st; rewrite ?has_drop_app; cbn [has_drop]; rewrite ?has_drop_wakes, ?orb_false_r;
    intros Hx; auto;
    try (apply H2 in Hx; destruct Hx; congruence);
    try (destruct (o_rep o); cbn in Hx; rewrite ?orb_false_r in Hx; apply H2 in Hx; destruct Hx; congruence).
Qed.

Lemma drop_inv_step : forall c s l s', drop_inv s -> step c s l = Some s' -> drop_inv s'.
Proof.
  intros c s l s' [H1 H2] Hs. split; [|eapply drop_pc_step; eauto].
  destruct (step_out_shape _ _ _ _ Hs) as [evs [Ho Hshape]].
  rewrite Ho, nad_app, H1. cbn [andb].
  destruct (has_drop (out (gh s))) eqn:Eh.
  - destruct (H2 eq_refl) as [Hp|Hp];
      inversion Hshape; subst; cbn; rewrite ?nonstream_wakes; auto; try congruence;
      repeat match goal with H : _ \/ _ |- _ => destruct H end; congruence.
  - inversion Hshape; subst; cbn; rewrite ?nad_wakes; auto.
Qed.

Theorem drop_reachable : forall c s, reachable c s -> drop_inv s.
Proof.
  intros c. apply reachable_ind; [split; [reflexivity|cbn; discriminate]|].
  intros; eapply drop_inv_step; eauto.
Qed.

(* ---------------------------------------------------------------- the executable specification holds of every run *)

Theorem c01_spec_sound : forall c ls s,
  run c init ls = Some s -> NoDup (pushes ls) ->
  c01_spec (nosub c) (pushes ls) (out (gh s)) = true.
Proof.
  intros c ls s Hr Hn. assert (R : reachable c s) by (exists ls; exact Hr).
  unfold c01_spec.
  rewrite (is_subseq_complete _ _ (delivered_subseq_schedule _ _ _ Hr)).
  rewrite (nodup_ent_complete _ (subseq_NoDup _ _ _ (delivered_subseq_schedule _ _ _ Hr) Hn)).
  destruct (rep_reachable _ _ R) as [Hr1 Hr2]. destruct (drop_reachable _ _ R) as [Hd _].
  rewrite Hd. cbn [andb]. destruct (nosub c); [rewrite Hr1|rewrite Hr2]; auto.
Qed.
