(* Queue family — bounded progress of flush requests counted in WRITER STEPS (C04, liveness half), under
   explicit hypotheses: the queue is live (no shutdown request, at least one queue handle) and every
   flush-interval deadline the writer asks about has passed (so a drain pass ends after at most 32 entries and
   a park times out).  Then a pending request is woken after at most
       72 * passes_left + 71 + |pending requests| + (number of flush requests made meanwhile)
   writer steps, however many entries the producers append meanwhile. *)
From Coq Require Import List NArith Bool Arith Lia.
From MV Require Import Queue.Model Queue.Inv Queue.Delivery Queue.Flush Queue.Bounded Queue.Shutdown Queue.Terminate.
Import ListNotations.

(* writer steps to the next handle_waiting_wakers call, not counting the collecting loop's pops *)
Definition dist (s : state) : nat :=
  match pc (wr s) with
  | WHandle => 0
  | WPop => 2 * rem32 (count (wr s))
  | WConsume => 2 * rem32 (count (wr s)) - 1
  | WCheckApp => 65 | WCheckSd2 => 66 | WOuterFlush => 67 | WCheckTime => 68
  | WPark | WParked => 69 | WCheckSd1 => 70 | WRecv => 71
  | _ => 0
  end.

Definition live (s : state) : Prop :=
  shutdown (sh s) = false /\ 0 < handles (sh s) /\ sd (wr s) = false.

Lemma dist_le : forall s, dist s <= 71.
Proof. intros s. unfold dist. pose proof (rem32_pos (count (wr s))). destruct (pc (wr s)); lia. Qed.

(* one writer step of a live queue, clock past every deadline: progress towards the next handle call *)
Lemma live_step_progress : forall c s o s',
  reachable c s -> live s -> o_dl o = true -> step c s (LW o) = Some s' ->
  sd (wr s') = false /\
  (pc (wr s) = WHandle -> fch (sh s') = fch (sh s)) /\
  (pc (wr s) <> WHandle -> dist s' + length (fch (sh s')) + 1 <= dist s + length (fch (sh s))).
Proof.
  intros c s o s' R [Hsd [Hh Hnsd]] Hdl Hs.
  pose proof (si_done_sd _ _ (sd_reachable _ _ R)) as Hdone.
  pose proof (rem32_pos (count (wr s))) as Hr. pose proof (rem32_pos 0) as Hr0.
  cbn [step] in Hs. unfold wstep in Hs. cbv zeta in Hs. rewrite Hdl in Hs.
  destruct (pc (wr s)) eqn:Epc;
    try (specialize (Hdone eq_refl); congruence);
    break_head Hs; inversion Hs; subst; clear Hs; unfold dist; simp_st;
    unfold drain_done, after_handle, no_appenders in *; rewrite ?Hnsd, ?Epc; simp_st;
    try (exfalso; congruence); try (exfalso; bool_hyps; lia);
    (split; [assumption || reflexivity|]); (split; [intros; try reflexivity; try congruence|]); intros Hne;
    try congruence; cbn [length];
    repeat match goal with E : fch _ = _ |- _ => progress (rewrite E in * ) end;
    try (destruct (dres (wr s)) eqn:?); cbn [length]; try lia.
  all: try (match goal with H : (S ?k mod 32 =? 0) && true = false |- _ =>
              rewrite andb_true_r in H; apply Nat.eqb_neq in H; destruct (rem32_succ k H) as [Hs1 Hs2]; lia end).
  all: try (bool_hyps; lia).
Qed.

Definition is_w (l : label) : nat := match l with LW _ => 1 | _ => 0 end.
Definition is_fr (l : label) : nat := match l with LFlushReq _ _ => 1 | _ => 0 end.
Definition count_w (ls : list label) : nat := list_sum (map is_w ls).
Definition count_fr (ls : list label) : nat := list_sum (map is_fr ls).

(* hypotheses along a run: the queue stays live and the clock is past every deadline the writer asks about *)
Fixpoint live_run (c : config) (s : state) (ls : list label) : Prop :=
  match ls with
  | [] => True
  | l :: r => live s /\ (forall o, l = LW o -> o_dl o = true) /\
              match step c s l with Some s' => live_run c s' r | None => True end
  end.

Definition phi (c : config) (s : state) (w : wid) : nat :=
  72 * passes_left c s w + dist s + length (fch (sh s)).

Lemma nonwriter_fch : forall c s l s', step c s l = Some s' -> (forall o, l <> LW o) ->
  length (fch (sh s')) <= length (fch (sh s)) + is_fr l.
Proof.
  intros c s l s' Hs Hn.
  step_inv Hs; simp_st; cbn [is_fr]; rewrite ?app_length; cbn [length]; try lia;
    exfalso; eapply Hn; reflexivity.
Qed.

Lemma phi_step : forall c s l s' w,
  0 < cap c -> reachable c s -> live s -> (forall o, l = LW o -> o_dl o = true) ->
  In w (fch (sh s) ++ waiting (wr s)) -> step c s l = Some s' ->
  In (EWake w) (skipn (length (out (gh s))) (out (gh s'))) \/
  (In w (fch (sh s') ++ waiting (wr s')) /\ phi c s' w + is_w l <= phi c s w + is_fr l).
Proof.
  intros c s l s' w Hc R Hl Hdl Hin Hs.
  destruct (passes_step c s l s' w Hc R Hin Hs) as [Hw|[Hin' Hp]]; [left; exact Hw|].
  right. split; [exact Hin'|]. unfold phi.
  destruct l as [t n|t|t w0| | | | | | |o];
    try (pose proof (step_pc _ _ _ _ Hs) as Hwr; cbn in Hwr;
         pose proof (nonwriter_fch _ _ _ _ Hs ltac:(intros; discriminate)) as Hf;
         assert (Hd : dist s' = dist s) by (unfold dist; rewrite Hwr; reflexivity);
         cbn [is_handle_step is_w is_fr] in *; lia).
  (* writer step *)
  destruct (live_step_progress c s o s' R Hl (Hdl o eq_refl) Hs) as [_ [Hh Hn]].
  cbn [is_w is_fr]. unfold is_handle_step in Hp.
  destruct (pc (wr s)) eqn:Epc;
    try (specialize (Hn ltac:(discriminate)); lia).
  (* the handle step itself *)
  rewrite (Hh eq_refl). pose proof (dist_le s'). unfold dist at 2. rewrite ?Epc. lia.
Qed.

(* THE STEP BOUND *)
Theorem bounded_writer_steps : forall c ls s s' w,
  0 < cap c -> reachable c s ->
  In w (fch (sh s) ++ waiting (wr s)) ->
  run c s ls = Some s' -> live_run c s ls ->
  ~ In (EWake w) (skipn (length (out (gh s))) (out (gh s'))) ->
  count_w ls <= phi c s w + count_fr ls.
Proof.
  intros c. induction ls as [|l r IH]; intros s s' w Hc R Hin Hr Hlive Hnw; cbn [run live_run] in *.
  - cbn. lia.
  - destruct Hlive as [Hl [Hdl Hrest]].
    destruct (step c s l) as [s1|] eqn:E; [|discriminate].
    destruct (step_out_shape _ _ _ _ E) as [e1 [H1 _]]. destruct (run_out_mono _ _ _ _ Hr) as [e2 H2].
    rewrite H2, H1, <- app_assoc, skipn_len_app in Hnw.
    destruct (phi_step c s l s1 w Hc R Hl Hdl Hin E) as [Hw|[Hin1 Hphi]].
    + exfalso. apply Hnw. rewrite H1, skipn_len_app in Hw. apply in_or_app. auto.
    + assert (R1 : reachable c s1) by (eapply reachable_step; eauto).
      assert (Hnw1 : ~ In (EWake w) (skipn (length (out (gh s1))) (out (gh s')))).
      { rewrite H2, skipn_len_app. intro Hx. apply Hnw. apply in_or_app. auto. }
      specialize (IH s1 s' w Hc R1 Hin1 Hr Hrest Hnw1).
      change (count_w (l :: r)) with (is_w l + count_w r).
      change (count_fr (l :: r)) with (is_fr l + count_fr r). lia.
Qed.

Lemma phi_bound : forall c s w, 0 < cap c -> reachable c s ->
  phi c s w <= 144 * (cap c / 32 + 1) + 71 + length (fch (sh s)).
Proof.
  intros c s w Hc R. unfold phi.
  pose proof (passes_left_bound c s w (flush_reachable _ _ Hc R)). pose proof (dist_le s). lia.
Qed.

(* contrapositive, with the explicit constant: more writer steps than that => the request has been woken *)
Corollary bounded_writer_steps_cap : forall c ls s s' w,
  0 < cap c -> reachable c s ->
  In w (fch (sh s) ++ waiting (wr s)) ->
  run c s ls = Some s' -> live_run c s ls ->
  144 * (cap c / 32 + 1) + 71 + length (fch (sh s)) + count_fr ls < count_w ls ->
  In (EWake w) (skipn (length (out (gh s))) (out (gh s'))).
Proof.
  intros c ls s s' w Hc R Hin Hr Hlive Hlt.
  destruct (in_dec (fun a b : ev => ltac:(decide equality; try apply N.eq_dec; try apply Bool.bool_dec;
            try (decide equality; apply N.eq_dec)) : {a = b} + {a <> b})
            (EWake w) (skipn (length (out (gh s))) (out (gh s')))) as [H|H]; auto.
  exfalso. pose proof (bounded_writer_steps c ls s s' w Hc R Hin Hr Hlive H).
  pose proof (phi_bound c s w Hc R). lia.
Qed.
