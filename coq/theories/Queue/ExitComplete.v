(* C01 / C05: when the writer thread has ended WITHOUT a shutdown request (every queue handle was dropped after the join
   handle had been forgotten), nothing was displaced and the final drain was not cut short, every appended entry has been
   handed to the stream.  Stated on what a recorded schedule shows (its labels and the event log), so that the same
   condition can be evaluated on the implementation's observation (`exit_complete_b`, used by c01_holds). *)
From Coq Require Import List NArith Bool Arith Lia.
From MV Require Import Queue.Model Queue.Spec Queue.Inv Queue.Delivery Queue.Reports Queue.Flush Queue.Shutdown.
Import ListNotations.

Definition is_jstore_l (l : label) : bool := match l with LJStore => true | _ => false end.
Definition is_dl_l (l : label) : bool := match l with LW o => o_dl o | _ => false end.

(* no shutdown request in the schedule => the shutdown flag is clear *)
Lemma step_shutdown_clear : forall c s l s', step c s l = Some s' -> is_jstore_l l = false ->
  shutdown (sh s) = false -> shutdown (sh s') = false.
Proof.
  intros c s l s' Hs Hl H0. step_inv Hs; simp_st; try discriminate; try assumption.
Qed.

Lemma run_shutdown_clear : forall c ls s s', run c s ls = Some s' -> existsb is_jstore_l ls = false ->
  shutdown (sh s) = false -> shutdown (sh s') = false.
Proof.
  intros c. induction ls as [|l r IH]; intros s s' Hr He H0; cbn [run existsb] in *.
  - inversion Hr; subst. exact H0.
  - apply orb_false_elim in He as [E1 E2]. destruct (step c s l) as [s1|] eqn:Es; [|discriminate].
    apply (IH s1 s' Hr E2). eapply step_shutdown_clear; eassumption.
Qed.

(* no deadline ever reported in the schedule => the shutdown drain was never cut short *)
Lemma step_sdhit_clear : forall c s l s', step c s l = Some s' -> is_dl_l l = false ->
  sdhit (gh s) = false -> sdhit (gh s') = false.
Proof.
  intros c s l s' Hs Hl H0. step_inv Hs; simp_st; try assumption; cbn [is_dl_l] in Hl;
    try (rewrite H0; reflexivity); bool_hyps; try congruence.
  all: repeat match goal with H : _ && _ = true |- _ => apply andb_true_iff in H; destruct H end; congruence.
Qed.

Lemma run_sdhit_clear : forall c ls s s', run c s ls = Some s' -> existsb is_dl_l ls = false ->
  sdhit (gh s) = false -> sdhit (gh s') = false.
Proof.
  intros c. induction ls as [|l r IH]; intros s s' Hr He H0; cbn [run existsb] in *.
  - inversion Hr; subst. exact H0.
  - apply orb_false_elim in He as [E1 E2]. destruct (step c s l) as [s1|] eqn:Es; [|discriminate].
    apply (IH s1 s' Hr E2). eapply step_sdhit_clear; eassumption.
Qed.

Fixpoint has_drop_ev (o : list ev) : bool :=
  match o with [] => false | EDropStream :: _ => true | _ :: r => has_drop_ev r end.

Lemma has_drop_ev_eq o : has_drop_ev o = has_drop o.
Proof. induction o as [|e r IH]; [reflexivity|]. destruct e; cbn; auto. Qed.

(* the stream was dropped, no shutdown was requested, the drain was complete: everything appended was written or displaced *)
Theorem dropped_without_shutdown_complete : forall c s, reachable c s ->
  has_drop (out (gh s)) = true -> shutdown (sh s) = false -> sdhit (gh s) = false ->
  forall e, In e (pushed (gh s)) -> In e (nexts (out (gh s))) \/ In e (displaced (removed (gh s))).
Proof.
  intros c s R Hd Hs Hh e He.
  pose proof (sd_reachable _ _ R) as SI. pose proof (hist_reachable _ _ R) as HI.
  destruct (drop_reachable _ _ R) as [_ Hpc]. specialize (Hpc Hd).
  assert (Hdone : is_done (pc (wr s)) = true) by (destruct Hpc as [-> | ->]; reflexivity).
  destruct (si_drained _ _ SI Hdone Hh) as [_ Hq]. specialize (Hq Hs).
  apply (removed_prefix_delivered c s (length (pushed (gh s)))); auto.
  - destruct (hi_infl _ _ HI) as [H|H]; auto. destruct Hpc as [Hp | Hp]; rewrite Hp in H; discriminate.
  - rewrite (hi_fifo _ _ HI), Hq, app_nil_r, map_length. lia.
  - now rewrite firstn_all.
Qed.

(* the condition as evaluated on a recorded schedule and its event log *)
Definition exit_complete_b (ls : list label) (log : list ev) : bool :=
  if has_drop_ev log && negb (existsb is_jstore_l ls) && negb (existsb is_dl_l ls) && Nat.eqb (count_over log) 0
  then forallb (fun e => mem_ent e (nexts log)) (pushes ls)
  else true.

Lemma displaced_nil_of_overflow0 : forall c s, reachable c s -> count_over (out (gh s)) = 0 -> displaced (removed (gh s)) = [].
Proof.
  intros c s R H0. pose proof (hist_reachable _ _ R) as HI.
  rewrite (hi_cnt _ _ HI), (hi_over _ _ HI) in H0. apply length_zero_iff_nil. exact H0.
Qed.

(* ... holds of every run of the model *)
Theorem exit_complete_sound : forall c ls s, run c init ls = Some s -> exit_complete_b ls (out (gh s)) = true.
Proof.
  intros c ls s Hr. unfold exit_complete_b.
  destruct (has_drop_ev (out (gh s)) && negb (existsb is_jstore_l ls) && negb (existsb is_dl_l ls) &&
            Nat.eqb (count_over (out (gh s))) 0) eqn:Ec; [|reflexivity].
  apply andb_true_iff in Ec as [Ec E4]. apply andb_true_iff in Ec as [Ec E3]. apply andb_true_iff in Ec as [E1 E2].
  apply negb_true_iff in E2. apply negb_true_iff in E3. apply Nat.eqb_eq in E4. rewrite has_drop_ev_eq in E1.
  assert (R : reachable c s) by (exists ls; exact Hr).
  pose proof (run_shutdown_clear c ls init s Hr E2 eq_refl) as Hs.
  pose proof (run_sdhit_clear c ls init s Hr E3 eq_refl) as Hh.
  pose proof (run_pushed c ls init s Hr) as Hp. cbn [init gh pushed app] in Hp.
  apply forallb_forall. intros e He. apply mem_ent_In.
  rewrite <- Hp in He.
  destruct (dropped_without_shutdown_complete c s R E1 Hs Hh e He) as [H | H]; [exact H|].
  rewrite (displaced_nil_of_overflow0 c s R E4) in H. destruct H.
Qed.
