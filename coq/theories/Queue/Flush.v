(* Queue family — the flush barrier (C04): the counter protocol of WakerTracker guarantees that when a flush
   request is woken by handle_waiting_wakers, every entry appended before the request has left the ring
   (written or displaced) and the stream has just been flushed. *)
From Coq Require Import List NArith Bool Arith Lia.
From MV Require Import Queue.Model Queue.Inv Queue.Delivery.
Import ListNotations.

(* entries popped by the drain pass in progress that the next handle_waiting_wakers call will count *)
Definition pass_popped (s : state) : nat :=
  match pc (wr s) with
  | WPop | WConsume | WHandle => count (wr s) + length (opt_list (inflight (wr s)))
  | _ => 0
  end.

Definition req_len (s : state) (w : wid) (n : nat) : Prop := In (w, n) (freq (gh s)).

Record flush_inv (c : config) (s : state) : Prop := {
  (* request ids are fresh; every pending or collected request is recorded *)
  fi_nodup : NoDup (map fst (freq (gh s)));
  fi_known : forall w, In w (fch (sh s) ++ waiting (wr s)) -> In w (map fst (freq (gh s)));
  (* a request never refers to appends that have not happened *)
  fi_le : forall w n, req_len s w n -> n <= length (pushed (gh s));
  (* the counter protocol: what is still to be popped before the waiting requests may be woken *)
  fi_credit : pc (wr s) <> WRecv ->
              forall w n, In w (waiting (wr s)) -> req_len s w n ->
                          n + pass_popped s <= length (removed (gh s)) + ebw (wr s);
  (* after a pass that saw the ring empty, everything requested before the pass is out of the ring *)
  fi_drained : pc (wr s) = WHandle -> dres (wr s) = Drained ->
               forall w n, In w (waiting (wr s)) -> req_len s w n -> n <= length (removed (gh s));
  fi_ebw : waiting (wr s) <> [] -> pc (wr s) <> WRecv -> 1 <= ebw (wr s);
  fi_ebw_le : ebw (wr s) <= cap c;
  fi_exited : pc (wr s) = WExited -> fch (sh s) = [] /\ waiting (wr s) = [];
}.

Lemma memN_In : forall x l, memN x l = true <-> In x l.
Proof.
  unfold memN. intros x l. rewrite existsb_exists. split.
  - intros [y [Hy E]]. apply N.eqb_eq in E. now subst.
  - intros H. exists x. split; auto. apply N.eqb_refl.
Qed.
Lemma memN_false : forall x l, memN x l = false -> ~ In x l.
Proof. intros x l H Hin. apply memN_In in Hin. congruence. Qed.
Lemma memN_true : forall x l, memN x l = true -> In x l.
Proof. intros x l. apply memN_In. Qed.

Lemma flush_inv_init : forall c, flush_inv c init.
Proof.
  intros c; constructor; cbn; try tauto; try lia; try constructor; unfold req_len; cbn; try tauto;
    try congruence; try discriminate.
Qed.

Lemma in_fresh : forall (w w' : wid) (n n' : nat) f,
  In (w, n) (f ++ [(w', n')]) -> In w (map fst f) -> ~ In w' (map fst f) -> In (w, n) f.
Proof.
  intros w w' n n' f H Hin Hfresh. apply in_app_or in H. destruct H as [H|[H|[]]]; auto.
  inversion H; subst. contradiction.
Qed.

Ltac split_matches :=
  repeat match goal with
         | H : context [if ?b then _ else _] |- _ => destruct b eqn:?
         | H : context [match ?b with _ => _ end] |- _ => destruct b eqn:?
         | |- context [if ?b then _ else _] => destruct b eqn:?
         | |- context [match ?b with _ => _ end] => destruct b eqn:?
         end.

Ltac in_cases :=
  repeat match goal with
         | H : In _ (_ ++ _) |- _ => apply in_app_or in H; destruct H as [H|H]
         | H : In _ [_] |- _ => destruct H as [H|[]]
         | H : In _ [] |- _ => destruct H
         end.

Ltac learn H :=
  let T := type of H in
  lazymatch goal with
  | _ : T |- _ => fail
  | _ => pose proof H
  end.

Ltac pair_eqs :=
  repeat match goal with
         | H : (_, _) = (_, _) |- _ => injection H as ? ?; subst
         end.

Lemma NoDup_snoc : forall A (l : list A) x, NoDup l -> ~ In x l -> NoDup (l ++ [x]).
Proof.
  intros A l x H. induction H as [|y l Hy Hn IH]; cbn; intros Hx.
  - constructor; [tauto|constructor].
  - constructor.
    + intro Hi. apply in_app_or in Hi. destruct Hi as [Hi|[Hi|[]]]; [tauto|subst; tauto].
    + apply IH. tauto.
Qed.

Lemma nodup_fresh : forall (f : list (wid * nat)) w n,
  NoDup (map fst f) -> negb (memN w (map fst f)) = true -> NoDup (map fst (f ++ [(w, n)])).
Proof.
  intros f w n Hn Hf. rewrite map_app. cbn. apply negb_true_iff in Hf. apply memN_false in Hf.
  apply NoDup_snoc; auto.
Qed.

Lemma flush_inv_step : forall c s l s',
  0 < cap c -> hist_inv c s -> flush_inv c s -> step c s l = Some s' -> flush_inv c s'.
Proof.
  intros c s l s' Hcap [G1 G2 G3 G4 G5 G6] [F1 F2 F3 F4 F5 F6 F7 F8] Hs.
  assert (Glen : length (pushed (gh s)) = length (removed (gh s)) + length (q (sh s)))
    by (rewrite G1, app_length, map_length; reflexivity).
  unfold req_len, pass_popped in *.
  step_inv Hs; simp_st; bool_hyps; constructor; unfold req_len, pass_popped; simp_st;
    unfold drain_done, after_handle in *; intros;
    try assumption; try (solve [auto]);
    try (apply nodup_fresh; assumption);
    in_cases; pair_eqs;
    try (match goal with
         | Hf : negb (memN ?w (map fst (freq _))) = true, Hin : In ?w (waiting _) |- _ =>
           exfalso; apply negb_true_iff in Hf; apply memN_false in Hf; apply Hf, F2, in_or_app; auto
         | Hf : negb (memN ?w (map fst (freq _))) = true, Hin : In ?w (fch _) |- _ =>
           exfalso; apply negb_true_iff in Hf; apply memN_false in Hf; apply Hf, F2, in_or_app; auto
         end);
    try (rewrite map_app; apply in_or_app; cbn; auto; left; apply F2; apply in_or_app; auto; fail);
    rewrite ?app_length in *; cbn [length] in *;
    repeat match goal with
           | E : is_exited _ = true |- _ => apply is_exited_true in E
           | E : is_exited _ = false |- _ => apply is_exited_false in E
           end;
    repeat match goal with
           | E : pc (wr s) = _ |- _ => rewrite E in *
           | E : inflight (wr s) = _ |- _ => rewrite E in *
           | E : q (sh s) = _ |- _ => rewrite E in *
           end; cbn [opt_list length] in *;
    repeat match goal with
           | Hr : In (?w, ?n) (freq (gh s)) |- _ => learn (F3 w n Hr)
           | Hr : In (?w, ?n) (freq (gh s)), Hin : In ?w (waiting (wr s)) |- _ =>
             learn (F4 ltac:(assumption || congruence) w n Hin Hr)
           | Hr : In (?w, ?n) (freq (gh s)), Hin : In ?w (waiting (wr s)) |- _ =>
             learn (F5 ltac:(assumption || congruence) ltac:(assumption || congruence) w n Hin Hr)
           end;
    try (timeout 5 lia); try congruence.
  all: try solve [apply F6; [assumption|congruence]].
  all: try solve [apply F2; apply in_or_app; cbn; tauto].
  all: try solve [split_matches; try discriminate; try congruence; cbn [length] in *; try (timeout 5 lia);
                  try (apply F8; congruence)].
  all: repeat match goal with H : _ || _ = false |- _ => apply orb_false_iff in H; destruct H end; bool_hyps.
  all: try (destruct G6 as [G6|G6]; [rewrite G6 in *; cbn [opt_list length] in * | discriminate G6]).
  all: try solve [split_matches; try discriminate; try congruence; cbn [length] in *; try (timeout 5 lia)].
  all: repeat match goal with
              | E : fch _ = _ |- _ => progress (rewrite E in * )
              | E : is_nil ?l = true |- _ => destruct l eqn:?; [clear E|discriminate E]
              end.
  all: try solve [in_cases; try contradiction; try congruence;
                  split_matches; try discriminate; try congruence; cbn [length] in *; try (timeout 5 lia)].
  all: try solve [exfalso; auto].
Qed.

Theorem flush_reachable : forall c s, 0 < cap c -> reachable c s -> flush_inv c s.
Proof.
  intros c s Hc. apply reachable_ind; [apply flush_inv_init|].
  intros s0 l s' R IH Hs. eapply flush_inv_step; eauto. apply hist_reachable; auto.
Qed.

(* ---------------------------------------------------------------- the barrier, at the waking step *)

(* everything appended before position n has left the ring, and what the writer took of it has been handed
   to the stream *)
Lemma in_firstn : forall A (l : list A) n x, In x (firstn n l) -> In x l.
Proof. induction l as [|y l IH]; destruct n; cbn; intuition eauto. Qed.

Lemma removed_prefix_delivered : forall c s n,
  hist_inv c s -> inflight (wr s) = None -> n <= length (removed (gh s)) ->
  forall e, In e (firstn n (pushed (gh s))) ->
            In e (nexts (out (gh s))) \/ In e (displaced (removed (gh s))).
Proof.
  intros c s n [H1 H2 _ _ _ _] Hi Hn e He.
  rewrite H1, firstn_app in He. rewrite map_length in He.
  replace (n - length (removed (gh s))) with 0 in He by lia. cbn in He. rewrite app_nil_r in He.
  apply in_firstn in He.
  rewrite Hi in H2; cbn in H2; rewrite app_nil_r in H2.
  pose proof (popped_displaced_perm (removed (gh s))) as Hp.
  apply (Permutation.Permutation_in _ Hp) in He. apply in_app_or in He. rewrite H2 in He. tauto.
Qed.

Theorem barrier_at_wake : forall c s o s',
  0 < cap c -> reachable c s ->
  pc (wr s) = WHandle -> step c s (LW o) = Some s' ->
  waiting (wr s) <> [] -> waiting (wr s') = [] ->
  out (gh s') = out (gh s) ++ EFlush (o_fl o) :: map EWake (waiting (wr s)) /\
  inflight (wr s) = None /\
  forall w n, In w (waiting (wr s)) -> In (w, n) (freq (gh s)) ->
    n <= length (removed (gh s)) /\
    forall e, In e (firstn n (pushed (gh s))) ->
              In e (nexts (out (gh s))) \/ In e (displaced (removed (gh s))).
Proof.
  intros c s o s' Hc R Hpc Hs Hw Hw'.
  pose proof (hist_reachable _ _ R) as HI. pose proof (flush_reachable _ _ Hc R) as FI.
  assert (Hinf : inflight (wr s) = None).
  { destruct (hi_infl _ _ HI) as [H|H]; auto. congruence. }
  cbn [step] in Hs. unfold wstep in Hs. cbv zeta in Hs. rewrite Hpc in Hs.
  destruct (is_nil (waiting (wr s))) eqn:En.
  { destruct (waiting (wr s)); [congruence|discriminate]. }
  destruct ((ebw (wr s) - count (wr s) =? 0) || is_drained (dres (wr s))) eqn:Ec.
  - inversion Hs; subst; simp_st. split; [reflexivity|]. split; [exact Hinf|].
    intros w n Hin Hreq.
    assert (Hn : n <= length (removed (gh s))).
    { apply orb_true_iff in Ec. destruct Ec as [Ec|Ec].
      - apply Nat.eqb_eq in Ec.
        pose proof (fi_credit _ _ FI ltac:(congruence) w n Hin Hreq) as Hcr.
        unfold pass_popped in Hcr. rewrite Hpc, Hinf in Hcr. cbn in Hcr. lia.
      - apply (fi_drained _ _ FI Hpc) with (w := w); auto. destruct (dres (wr s)); auto; discriminate. }
    split; [exact Hn|]. apply (removed_prefix_delivered c); auto.
  - inversion Hs; subst; simp_st. contradiction.
Qed.

(* ---------------------------------------------------------------- monotone history *)

Lemma step_mono : forall c s l s', step c s l = Some s' ->
  (exists r, removed (gh s') = removed (gh s) ++ r) /\
  (freq (gh s') = freq (gh s) \/
   exists w n, freq (gh s') = freq (gh s) ++ [(w, n)] /\ ~ In w (map fst (freq (gh s)))).
Proof.
  intros c s l s' Hs.
  step_inv Hs; simp_st; split;
    try (exists []; now rewrite app_nil_r); try (eexists; reflexivity); auto;
    right; do 2 eexists; split; eauto; bool_hyps;
    match goal with H : negb (memN _ _) = true |- _ => apply negb_true_iff in H; apply memN_false in H; exact H end.
Qed.

