(* The rate limiter in front of the queue's in-band error report: `rate_limited!` of
   metrique-writer/src/rate_limit.rs, used at `Receiver::consume` with an interval of one second.

   A `Duration` is its total number of nanoseconds (seconds are a u64, so it is below 2^64 * 10^9).
   The macro's state is one word, `NEXT_CALL` (whole seconds since an arbitrary epoch, initially 0):

     let time = clock();  let next = NEXT_CALL.load();
     if next <= time.as_secs() {
         let new_next = time.checked_add(interval).unwrap_or(Duration::MAX).as_secs();
         if NEXT_CALL.compare_exchange(next, new_next).is_ok() { call }
     }                                                                                             *)
(* DISPATCH 102 c01_rate_run *)
From Coq Require Import List ZArith NArith Bool Arith.
From MV Require Import Common.Sx.
Import ListNotations.
Local Open Scope N_scope.

Definition NS : N := 1000000000.
Definition U64MAX : N := 18446744073709551615.

Definition as_secs (d : N) : N := d / NS.

(* time.checked_add(interval).unwrap_or(Duration::MAX).as_secs(): the sum overflows exactly when its seconds
   exceed u64::MAX, and Duration::MAX.as_secs() = u64::MAX *)
Definition next_slot (t i : N) : N := N.min (as_secs (t + i)) U64MAX.

(* one evaluation of the macro by a thread that is alone: allowed?, new NEXT_CALL *)
Definition rl_call (i next t : N) : bool * N :=
  if next <=? as_secs t then (true, next_slot t i) else (false, next).

Fixpoint rl_run (i next : N) (ts : list N) : list bool * N :=
  match ts with
  | [] => ([], next)
  | t :: r => let '(b, n1) := rl_call i next t in
              let '(bs, n2) := rl_run i n1 r in (b :: bs, n2)
  end.

(* ------------------------------------------------------------------ several threads, load and CAS apart *)
Inductive rlabel := RLoad (k : nat) (t : N) | RCas (k : nat).

Record rstate := { r_next : N; r_local : list (nat * (N * N)); r_allowed : list (nat * N) }.

Fixpoint lookup (k : nat) (l : list (nat * (N * N))) : option (N * N) :=
  match l with
  | [] => None
  | (k', v) :: r => if Nat.eqb k k' then Some v else lookup k r
  end.
Fixpoint remove_key (k : nat) (l : list (nat * (N * N))) : list (nat * (N * N)) :=
  match l with
  | [] => []
  | (k', v) :: r => if Nat.eqb k k' then remove_key k r else (k', v) :: remove_key k r
  end.

(* RLoad: thread k reads the clock and NEXT_CALL; RCas: it finishes the macro (allowed calls are logged oldest first) *)
Definition rstep (i : N) (s : rstate) (l : rlabel) : rstate :=
  match l with
  | RLoad k t => {| r_next := r_next s; r_local := (k, (t, r_next s)) :: remove_key k (r_local s); r_allowed := r_allowed s |}
  | RCas k =>
    match lookup k (r_local s) with
    | None => s
    | Some (t, n) =>
      let loc := remove_key k (r_local s) in
      if (n <=? as_secs t) && (r_next s =? n)
      then {| r_next := next_slot t i; r_local := loc; r_allowed := r_allowed s ++ [(k, t)] |}
      else {| r_next := r_next s; r_local := loc; r_allowed := r_allowed s |}
    end
  end.

Definition rinit (next : N) : rstate := {| r_next := next; r_local := []; r_allowed := [] |}.

(* ------------------------------------------------------------------ the queue's use of it, as observed *)
(* operations of a correspondence case: the clock is set; an entry is appended whose `next` fails validation /
   succeeds.  Observation per operation: was an in-band report written (no tracing subscriber installed)? *)
Inductive rop := OSet (t : N) | OFail | OOk.

Fixpoint rate_obs (i next now : N) (ops : list rop) : list bool :=
  match ops with
  | [] => []
  | OSet t :: r => false :: rate_obs i next t r
  | OOk :: r => false :: rate_obs i next now r
  | OFail :: r => let '(b, n1) := rl_call i next now in b :: rate_obs i n1 now r
  end.

(* The same, said as a property of an observed run and without the limiter's state: reports are spaced (a
   report's clock reading has reached the slot of the previous report), and a failure is unreported only while
   the previous report's slot still covers it; nothing is reported at other operations.  `last` = clock reading
   at the latest report. *)
Definition slot_of (i : N) (last : option N) : N := match last with Some ta => next_slot ta i | None => 0 end.

Fixpoint rate_spec (i : N) (last : option N) (now : N) (ops : list rop) (obs : list bool) : bool :=
  match ops, obs with
  | [], [] => true
  | OSet t :: r, false :: br => rate_spec i last t r br
  | OOk :: r, false :: br => rate_spec i last now r br
  | OFail :: r, true :: br => (slot_of i last <=? as_secs now) && rate_spec i (Some now) now r br
  | OFail :: r, false :: br => (as_secs now <? slot_of i last) && rate_spec i last now r br
  | _, _ => false
  end.

Definition dec_rop (x : sx) : rop :=
  match sx_tag x with
  | 0%Z => OSet (sx_n (sx_arg x 0))
  | 1%Z => OFail
  | _ => OOk
  end.

(* case (7 absolute? (ops…)); answer (reported? per operation).  The interval is the queue's: one second.
   NEXT_CALL starts at 0 in the frame of the case (the harness shifts the clock by whole seconds so that this
   is true; whole-second shifts commute with `as_secs`). *)
Definition c01_rate_run (x : sx) : sx :=
  match sx_tag x with
  | 8%Z => L [A 0%Z]   (* a queue built before a tracing subscriber was installed, failures after: no in-band report *)
  | _ => L (map of_bool (rate_obs NS 0 0 (map dec_rop (sx_list (sx_arg x 1)))))
  end.
