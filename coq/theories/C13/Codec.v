(* C13 — wire codec. *)
(* DISPATCH 1300 c13_run *)
(* DISPATCH 1301 c13_spec *)
(* DISPATCH 1302 c13_holds *)
(* DISPATCH 1303 c13_run_unrepaired *)
From Coq Require Import List ZArith NArith Bool Arith.
From MV Require Import Common.Sx C06.Model C06.Spec C06.Codec C13.Model C13.Spec.
Import ListNotations.

Definition dec_label13 (x : sx) : C13.Model.label :=
  match sx_tag x with
  | 10%Z => Open (sx_nat (sx_arg x 0)) (sx_bool (sx_arg x 1))
  | 11%Z => SlotMut (sx_nat (sx_arg x 0)) (sx_n (sx_arg x 1))
  | 12%Z => DelayFlush (sx_nat (sx_arg x 0))
  | 13%Z => DropGuard (sx_nat (sx_arg x 0))
  | 14%Z => WaitPoll (sx_nat (sx_arg x 0))
  | 15%Z => WaitCancel
  | 20%Z => GuardStep (sx_nat (sx_arg x 0))
  | 21%Z => CloseStep
  | _ => KA (dec_label x)
  end.

Definition enc_value (v : value) : sx := L (map of_n v).
Definition enc_ret (r : ret) : sx :=
  match r with
  | RGuard b => L [A 1%Z; of_bool b]
  | RPending => L [A 2%Z]
  | RReady o => L [A 3%Z; of_option enc_value o]
  end.
Definition enc_entry (e : entry) : sx := L [enc_value (fst e); L (map (of_option enc_value) (snd e))].

Fixpoint prog13 (n : nat) (l : list sx) : list (list C13.Model.label) :=
  match n with
  | O => []
  | S k => prog13 k l ++ [map (fun e => dec_label13 (sx_nth e 1)) (filter (fun e => Nat.eqb (sx_nat (sx_nth e 0)) k) l)]
  end.

(* case (0 (lazy flags…) (actions…)): a sequential history;
   answer ((entries appended so far, after every action…) (results returned…) (entries…) panicked) *)
Definition run_variant (fx : bool) (x : sx) : sx :=
  match sx_tag x with
  | 0%Z =>
    let shape := map sx_bool (sx_list (sx_arg x 0)) in
    let ls := map dec_label13 (sx_list (sx_arg x 1)) in
    let o := seq_observe fx (C13.Model.init shape) ls in
    let fin := seq_run fx shape ls in
    L [L (map of_nat o); L (map enc_ret (rets fin)); L (map enc_entry (appended fin)); of_bool (panicked fin)]
  | 1%Z =>
    (* (1 (lazy flags…) (setup…) ((thread action)…) (granted threads…)): a scheduled multi-thread run;
       answer (((sync point, entries appended so far) per grant…) (results…) (entries…) panicked 1) *)
    let shape := map sx_bool (sx_list (sx_arg x 0)) in
    let setup := map dec_label13 (sx_list (sx_arg x 1)) in
    let pl := sx_list (sx_arg x 2) in
    let s0 := fold_left (seq_step true) setup (C13.Model.init shape) in
    let ths := map (fun p => mk_thr13 p AIdle false None) (prog13 (nthreads pl) pl) in
    let '(o, fin) := grants13 s0 ths (map sx_nat (sx_list (sx_arg x 3))) in
    L [L (map (fun p => L [of_nat (fst p); of_nat (snd p)]) o); L (map enc_ret (rets fin));
       L (map enc_entry (appended fin)); of_bool (panicked fin); A 1%Z]
  | _ => A 1%Z
  end.
Definition c13_run (x : sx) : sx := run_variant true x.
(* the code as found (wait_for_data moves the receiver into its future) *)
Definition c13_run_unrepaired (x : sx) : sx := run_variant false x.

Definition c13_spec (x : sx) : sx :=
  match sx_tag x with
  | 0%Z =>
    let shape := map sx_bool (sx_list (sx_arg x 0)) in
    let ls := map dec_label13 (sx_list (sx_arg x 1)) in
    let fin := srun shape ls in
    L [L (map of_nat (sobserve (sview_init shape) ls)); L (map enc_ret (sv_rets fin));
       L (map enc_entry (sv_appended fin)); of_bool false]
  | _ => A 1%Z
  end.

Definition dec_value (x : sx) : value := map sx_n (sx_list x).
Definition dec_entry (x : sx) : entry := (dec_value (sx_nth x 0), map (sx_option dec_value) (sx_list (sx_nth x 1))).
Definition value_eqb (a b : value) : bool := if list_eq_dec N.eq_dec a b then true else false.
Definition ovalue_eqb (a b : option value) : bool :=
  match a, b with Some x, Some y => value_eqb x y | None, None => true | _, _ => false end.
Fixpoint list_eqb {T} (f : T -> T -> bool) (a b : list T) : bool :=
  match a, b with
  | [], [] => true
  | x :: r, y :: q => f x y && list_eqb f r q
  | _, _ => false
  end.
Definition entry_eqb (a b : entry) : bool := value_eqb (fst a) (fst b) && list_eqb ovalue_eqb (snd a) (snd b).
Definition ret_eqb (a b : ret) : bool :=
  match a, b with
  | RGuard x, RGuard y => Bool.eqb x y
  | RPending, RPending => true
  | RReady x, RReady y => ovalue_eqb x y
  | _, _ => false
  end.
Definition dec_ret (x : sx) : ret :=
  match sx_tag x with
  | 1%Z => RGuard (sx_bool (sx_arg x 0))
  | 2%Z => RPending
  | _ => RReady (sx_option dec_value (sx_arg x 0))
  end.

(* the property predicate on the implementation's observation: (case impl) -> 1 *)
Definition c13_holds (x : sx) : sx :=
  let case := sx_nth x 0 in
  let imp := sx_nth x 1 in
  match sx_tag case with
  | 1%Z =>
    let shape := map sx_bool (sx_list (sx_arg case 0)) in
    let setup := map dec_label13 (sx_list (sx_arg case 1)) in
    let pl := sx_list (sx_arg case 2) in
    let n := nthreads pl in
    let tids := map sx_nat (sx_list (sx_arg case 3)) in
    let obs := sx_list (sx_nth imp 0) in
    let tr := map (fun p => (fst p, sx_nat (sx_nth (snd p) 0), sx_nat (sx_nth (snd p) 1))) (combine tids obs) in
    let v0 := fold_left sstep setup (sview_init shape) in
    let dropped0 := map (fun sl => match s_guard sl with SDropped _ => Some 0 | _ => None end) (sv_slots v0) in
    let st0 := mk_tstate v0 (prog13 n pl) (repeat false n) (length (sv_appended v0)) 1 dropped0 [] in
    let '(ok, fin) := trace13 st0 tr true in
    let vf := t_view fin in
    let expected :=
      match sv_appended v0 with
      | e :: _ => [e]
      | [] => if Nat.eqb (t_prev fin) 1
              then [(v_log (sv_ka vf), expected_slots 0 (sv_slots vf) (t_dropped_at fin) (t_closed_at fin) (t_step fin))]
              else []
      end in
    of_bool (Nat.eqb (length tids) (length obs) && ok &&
             forallb negb (t_mid fin) &&
             list_eqb ret_eqb (map dec_ret (sx_list (sx_nth imp 1))) (sv_rets vf) &&
             list_eqb entry_eqb (map dec_entry (sx_list (sx_nth imp 2))) expected &&
             negb (sx_bool (sx_nth imp 3)) && sx_bool (sx_nth imp 4))
  | 2%Z => of_bool (sx_bool imp)
  | _ => A 1%Z
  end.
