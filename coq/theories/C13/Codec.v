(* C13 — wire codec. *)
(* DISPATCH 1300 c13_run *)
(* DISPATCH 1301 c13_spec *)
(* DISPATCH 1303 c13_run_unrepaired *)
From Coq Require Import List ZArith NArith Bool Arith.
From MV Require Import Common.Sx C06.Model C06.Spec C06.Codec C13.Model C13.Spec.
Import ListNotations.

Definition dec_label13 (x : sx) : C13.Model.label :=
  match sx_tag x with
  | 10%Z => Open (sx_nat (sx_arg x 0)) (sx_bool (sx_arg x 1))
  | 11%Z => SlotMut (sx_nat (sx_arg x 0)) (sx_n (sx_arg x 1))
  | 12%Z => DelayFlush (sx_nat (sx_arg x 0))
  | 13%Z => DropGuard (sx_nat (sx_arg x 0))
  | 14%Z => WaitPoll (sx_nat (sx_arg x 0))
  | 15%Z => WaitCancel
  | 20%Z => GuardStep (sx_nat (sx_arg x 0))
  | 21%Z => CloseStep
  | _ => KA (dec_label x)
  end.

Definition enc_value (v : value) : sx := L (map of_n v).
Definition enc_ret (r : ret) : sx :=
  match r with
  | RGuard b => L [A 1%Z; of_bool b]
  | RPending => L [A 2%Z]
  | RReady o => L [A 3%Z; of_option enc_value o]
  end.
Definition enc_entry (e : entry) : sx := L [enc_value (fst e); L (map (of_option enc_value) (snd e))].

Fixpoint observe13 (fx : bool) (s : C13.Model.state) (ls : list C13.Model.label) : list nat * C13.Model.state :=
  match ls with
  | [] => ([], s)
  | l :: r => let s1 := seq_step fx s l in
              let '(o, fin) := observe13 fx s1 r in (length (appended s1) :: o, fin)
  end.

(* case (0 (lazy flags…) (actions…)): a sequential history;
   answer ((entries appended so far, after every action…) (results returned…) (entries…) panicked) *)
Definition run_variant (fx : bool) (x : sx) : sx :=
  match sx_tag x with
  | 0%Z =>
    let shape := map sx_bool (sx_list (sx_arg x 0)) in
    let ls := map dec_label13 (sx_list (sx_arg x 1)) in
    let '(o, fin) := observe13 fx (C13.Model.init shape) ls in
    L [L (map of_nat o); L (map enc_ret (rets fin)); L (map enc_entry (appended fin)); of_bool (panicked fin)]
  | _ => A 1%Z
  end.
Definition c13_run (x : sx) : sx := run_variant true x.
(* the code as found (wait_for_data moves the receiver into its future) *)
Definition c13_run_unrepaired (x : sx) : sx := run_variant false x.

Definition c13_spec (x : sx) : sx :=
  match sx_tag x with
  | 0%Z =>
    let shape := map sx_bool (sx_list (sx_arg x 0)) in
    let ls := map dec_label13 (sx_list (sx_arg x 1)) in
    let fin := srun shape ls in
    L [L (map of_nat (sobserve (sview_init shape) ls)); L (map enc_ret (sv_rets fin));
       L (map enc_entry (sv_appended fin)); of_bool false]
  | _ => A 1%Z
  end.
