(* C13 — theorems about slots, for every label list (every order of opening, mutating through the guard,
   dropping the guard, dropping the parent, waiting for data, dropping force-flush guards; every
   interleaving of the guard destructor's two actions, the keep-alive destructors' steps and the closing
   thread's per-slot steps; any number of Slot / LazySlot fields). *)
From Coq Require Import List NArith Bool Arith Lia.
From MV Require Import C06.Model C06.Spec C06.Inv C06.Proofs C13.Model C13.Inv.
Import ListNotations.

Notation run13 := (C13.Model.run true).

Theorem no_panic : forall shape ls, panicked (run13 shape ls) = false.
Proof. intros. apply j_nopanic, inv13_run. Qed.

Theorem single_open : forall shape ls i sl, nth_error (slots (run13 shape ls)) i = Some sl -> opened sl <= 1.
Proof.
  intros shape ls i sl H. destruct (slot_at _ i sl (inv13_run shape ls) H) as (Hs & _).
  apply (si_opened sl Hs).
Qed.

(* a slot that has been opened answers None to every further open, whatever the mode *)
Theorem second_open_none : forall shape ls i w sl,
  nth_error (slots (run13 shape ls)) i = Some sl -> opened sl = 1 ->
  let s := run13 shape ls in
  let s' := C13.Model.step true s (Open i w) in
  (rets s' = rets s \/ rets s' = rets s ++ [RGuard false]) /\
  (forall sl', nth_error (slots s') i = Some sl' -> opened sl' = 1).
Proof.
  intros shape ls i w sl H Ho s s'. subst s s'. set (s := run13 shape ls) in *.
  destruct (slot_at s i sl (inv13_run shape ls) H) as (Hs & _).
  assert (Hnf : (if lazy sl then negb (created sl) else match g sl with GHome => true | _ => false end) = false).
  { destruct (si_opened sl Hs) as (_ & Hi). destruct (si_created sl Hs) as (Hc1 & Hc2).
    destruct (lazy sl) eqn:Hl.
    - destruct (created sl) eqn:Hc; auto. exfalso.
      assert (opened sl = 0) by (apply Hi; split; auto). lia.
    - destruct (g sl) eqn:Hg; auto. exfalso.
      assert (opened sl = 0) by (apply Hi; split; auto; discriminate). lia. }
  cbn [C13.Model.step]. destruct (owner_free s && (negb w || Nat.ltb 0 (user_fgs s))); [|split; auto; intros; congruence].
  rewrite H, Hnf. destruct w; cbn; split; auto; intros sl' H'; rewrite H in H'; inversion H'; subst; auto.
Qed.

Lemma appended_means_done : forall s e, inv13 s -> appended s = [e] ->
  closing s = None /\ exists sn, emits (ka s) = [sn] /\ e = (sn_log sn, map result (slots s)) /\
  flags s = repeat true (n_slots s).
Proof.
  intros s e I H.
  assert (He : emits (ka s) <> []).
  { intros E. destruct (j_before s I E) as (_ & Ha & _). congruence. }
  assert (Hc : closing s = None).
  { destruct (closing s) as [k|] eqn:E; auto. destruct (j_during s I k E) as (_ & Ha & _). congruence. }
  destruct (j_after s I He Hc) as (Hf & sn & H1 & H2). split; auto. exists sn. repeat split; auto. congruence.
Qed.

Lemma all_true_nth : forall (l : list slot) i sl, map closed l = repeat true (length l) ->
  nth_error l i = Some sl -> closed sl = true.
Proof.
  induction l; intros i sl H Hn; destruct i; cbn in *; try discriminate.
  - inversion Hn; subst. injection H as H1 H2. auto.
  - injection H as H1 H2. eapply IHl; eauto.
Qed.

(* the appended entry contains slot i's value exactly when the guard's send happened before the parent
   closed slot i, and then it is the value that was sent *)
Theorem present_iff_sent_before_close : forall shape ls e i sl,
  appended (run13 shape ls) = [e] -> nth_error (slots (run13 shape ls)) i = Some sl ->
  closed sl = true /\ nth_error (snd e) i = Some (if sbc sl then sent sl else None).
Proof.
  intros shape ls e i sl Ha Hn. set (s := run13 shape ls) in *.
  pose proof (inv13_run shape ls) as I. fold s in I.
  destruct (appended_means_done s e I Ha) as (Hc & sn & H1 & H2 & Hf).
  assert (Hcl : closed sl = true) by (eapply all_true_nth; eauto).
  split; auto. subst e. cbn [snd]. rewrite nth_error_map, Hn. cbn.
  destruct (slot_at s i sl I Hn) as (Hs & _). destruct (si_closed sl Hs Hcl) as (_ & Hr & _). rewrite Hr. reflexivity.
Qed.

(* the value that is sent is the value as mutated through the guard *)
Theorem sent_is_guard_value : forall shape ls i sl v,
  nth_error (slots (run13 shape ls)) i = Some sl -> sent sl = Some v -> v = gval sl.
Proof.
  intros shape ls i sl v Hn Hs. destruct (slot_at _ i sl (inv13_run shape ls) Hn) as (Hi & _).
  pose proof (si_sent sl Hi) as H. rewrite Hs in H. tauto.
Qed.

(* wait mode: a guard that sent while it held the entry's flush guard and before any force-flush guard began
   dropping is in the appended entry, with the value as last mutated through the guard *)
Theorem wait_present : forall shape ls e i sl,
  appended (run13 shape ls) = [e] -> nth_error (slots (run13 shape ls)) i = Some sl ->
  wait_sent sl = true -> nth_error (snd e) i = Some (Some (gval sl)).
Proof.
  intros shape ls e i sl Ha Hn Hw.
  destruct (present_iff_sent_before_close shape ls e i sl Ha Hn) as (Hc & Hp).
  destruct (slot_at _ i sl (inv13_run shape ls) Hn) as (Hi & Hws).
  destruct (Hws Hw) as (Hne & Hsb). rewrite (Hsb Hc) in Hp.
  destruct (sent sl) as [v|] eqn:Es; [|congruence].
  rewrite Hp. pose proof (si_sent sl Hi) as H. rewrite Es in H. destruct H as (_ & ->). reflexivity.
Qed.

(* ... and the entry is not even being closed while such a guard has not released its flush guard *)
Theorem wait_blocks_close : forall shape ls i sl,
  nth_error (slots (run13 shape ls)) i = Some sl -> holds_guard sl = true -> forced (ka (run13 shape ls)) = 0 ->
  emits (ka (run13 shape ls)) = [] /\ closing (run13 shape ls) = None /\ appended (run13 shape ls) = [] /\ closed sl = false.
Proof. intros. eapply holding_blocks_close; eauto. apply inv13_run. Qed.

(* the rest of the entry: its own fields are those of C06's append, whatever the slots did *)
Theorem entry_log : forall shape ls e, appended (run13 shape ls) = [e] -> fst e = log (ka (run13 shape ls)).
Proof.
  intros shape ls e Ha. pose proof (inv13_run shape ls) as I.
  destruct (appended_means_done _ e I Ha) as (_ & sn & H1 & H2 & _). subst e. cbn.
  pose proof (i_snap _ (j_ka _ I)) as F. rewrite H1 in F. inversion F; subst. tauto.
Qed.

Lemma log_kstep : forall k l, log (kstep k l) = log k \/ exists v, l = LMutate v /\ log (kstep k l) = log k ++ [v].
Proof.
  intros k l. destruct l; cbn [kstep];
  try (match goal with |- context [if ?c then _ else _] => destruct c end; cbn; eauto).
  left. unfold step_task. destruct (nth_error (tasks k) i) as [p|]; auto.
  destruct p; cbn; auto.
  - destruct (closure k); auto.
  - destruct (Nat.eqb (grc k) 0); auto.
  - destruct (locked k); auto.
Qed.

(* no slot action, destructor step or closing step touches the owner's fields; only a mutation does *)
Theorem log_only_by_mutate : forall fx s l,
  log (ka (C13.Model.step fx s l)) = log (ka s) \/
  exists v, l = KA (LMutate v) /\ log (ka (C13.Model.step fx s l)) = log (ka s) ++ [v].
Proof.
  intros fx s l.
  assert (Hk : forall kl sls r, kl <> LDropFlush \/ True ->
               log (ka (ka_step s kl sls r)) = log (ka s) \/
               exists v, kl = LMutate v /\ log (ka (ka_step s kl sls r)) = log (ka s) ++ [v]).
  { intros kl sls r _. unfold ka_step. cbn [ka]. apply log_kstep. }
  destruct l; cbn [C13.Model.step].
  - destruct (ka_enabled s l); auto. destruct (Hk l (slots s) (rets s)) as [H | (v & -> & H)]; auto. right. eauto.
  - destruct (owner_free s && (negb w || Nat.ltb 0 (user_fgs s))); auto.
    destruct (nth_error (slots s) i); auto.
    match goal with |- context [if ?c then _ else _] => destruct c end; auto.
    destruct w; auto. destruct (Hk LDropFlush (slots s) (rets s ++ [RGuard false])) as [H | (v & E & _)]; auto. discriminate.
  - destruct (nth_error (slots s) i) as [sl|]; auto. destruct (g sl); auto.
  - destruct (nth_error (slots s) i) as [sl|]; auto. destruct (g sl); auto.
    destruct (Nat.ltb 0 (user_fgs s)); auto. destruct (gmode sl); auto.
    destruct (Hk LDropFlush (slots s) (rets s)) as [H | (v & E & _)]; auto. discriminate.
  - destruct (nth_error (slots s) i) as [sl|]; auto. destruct (g sl); auto.
  - destruct (nth_error (slots s) i) as [sl|]; auto. destruct (g sl); auto.
    destruct (gmode sl); auto.
    match goal with |- context [ka_step s LDropFlush ?a ?b] => destruct (Hk LDropFlush a b) as [H | (v & E & _)]; auto end.
    discriminate.
  - destruct (nth_error (slots s) i) as [sl|]; auto.
    match goal with |- context [if ?c then _ else _] => destruct c end; auto.
    destruct (rx sl); auto; destruct (chan sl); auto; destruct (tx_gone sl); auto.
  - destruct (borrowed s); auto. destruct (nth_error (slots s) n); auto.
  - destruct (closing s) as [k|]; auto. destruct (nth_error (slots s) k) as [sl|]; auto.
    destruct (close_slot sl) as [[sl' v]|]; auto.
Qed.

Theorem append_at_most_once : forall shape ls, length (appended (run13 shape ls)) <= 1.
Proof.
  intros shape ls. pose proof (inv13_run shape ls) as I. set (s := run13 shape ls) in *.
  destruct (emits (ka s)) eqn:E.
  - destruct (j_before s I E) as (_ & -> & _). cbn; lia.
  - destruct (closing s) as [k|] eqn:Ec.
    + destruct (j_during s I k Ec) as (_ & -> & _). cbn; lia.
    + assert (He : emits (ka s) <> []) by congruence.
      destruct (j_after s I He Ec) as (_ & sn & _ & ->). cbn; lia.
Qed.

(* the append happens at C06's moment, where a flush guard inside a slot guard is a live flush guard *)
Theorem appended_not_early : forall shape ls, appended (run13 shape ls) <> [] ->
  due (view_of_state (ka (run13 shape ls))) = true.
Proof.
  intros shape ls H. pose proof (inv13_run shape ls) as I. set (s := run13 shape ls) in *.
  apply emitted_due; [apply (j_ka s I)|].
  destruct (emits (ka s)) as [|sn r] eqn:E.
  - destruct (j_before s I E) as (_ & Ha & _). congruence.
  - pose proof (emitted_le_1 _ (j_ka s I)) as Hl. rewrite E in *. cbn in *. destruct r; cbn in *; lia.
Qed.

Theorem appended_not_late : forall shape ls,
  quiescent (ka (run13 shape ls)) = true -> closing (run13 shape ls) = None ->
  due (view_of_state (ka (run13 shape ls))) = true -> length (appended (run13 shape ls)) = 1.
Proof.
  intros shape ls Q Hc D. pose proof (inv13_run shape ls) as I. set (s := run13 shape ls) in *.
  pose proof (due_quiescent_emitted (ka s) (j_ka s I) Q D) as He.
  assert (Hne : emits (ka s) <> []) by (intros E; rewrite E in He; discriminate).
  destruct (j_after s I Hne Hc) as (_ & sn & _ & ->). reflexivity.
Qed.

(* the keep-alive component of every slot run is a keep-alive run: all of C06's theorems hold for it *)
Theorem ka_inv : forall shape ls, C06.Inv.inv (ka (run13 shape ls)).
Proof. intros. apply j_ka, inv13_run. Qed.

(* the unrepaired code: a wait_for_data future dropped before completion makes the parent's close panic *)
Theorem unrepaired_refuted : exists ls,
  let s := C13.Model.run false [false] ls in panicked s = true /\ appended s = [] /\
  due (view_of_state (ka s)) = true /\ quiescent (ka s) = true /\ closing s = None.
Proof.
  exists [WaitPoll 0; WaitCancel; KA LDropOwner; KA (LStep 0); KA (LStep 0); KA (LStep 0); CloseStep]. vm_compute. auto.
Qed.
