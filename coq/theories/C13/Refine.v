(* C13 — sequential refinement: for every history of user actions, each run to completion, the (repaired)
   mechanism behaves exactly as the history specification [sstep] says. *)
From Coq Require Import List NArith Bool Arith Lia.
From MV Require Import C06.Model C06.Spec C06.Inv C06.Proofs C13.Model C13.Spec C13.Inv C13.Proofs.
Import ListNotations.

Notation seqT := (C13.Model.seq_step true).
Notation iterT := (C13.Model.iter true).

(* ---------- iteration facts ---------- *)
Lemma iter_inv : forall n l s, inv13 s -> inv13 (iterT n l s).
Proof. induction n; intros l s I; cbn; auto. apply IHn. apply inv13_step; auto. Qed.

Lemma step_lstep_fields : forall s i, let s' := stepT s (KA (LStep i)) in
  ka s' = step_task (ka s) i /\ slots s' = slots s /\ borrowed s' = borrowed s /\ appended s' = appended s /\
  rets s' = rets s /\ panicked s' = panicked s.
Proof. intros s i. cbn. repeat split; reflexivity. Qed.

Lemma iter_lstep_fields : forall n s i, let s' := iterT n (KA (LStep i)) s in
  ka s' = iter_step n i (ka s) /\ slots s' = slots s /\ borrowed s' = borrowed s /\ appended s' = appended s /\
  rets s' = rets s /\ panicked s' = panicked s.
Proof.
  induction n; intros s i; cbn [C13.Model.iter iter_step]; [repeat split; reflexivity|].
  destruct (IHn (stepT s (KA (LStep i))) i) as (H1 & H2 & H3 & H4 & H5 & H6).
  destruct (step_lstep_fields s i) as (G1 & G2 & G3 & G4 & G5 & G6).
  cbv zeta in *. rewrite H1, H2, H3, H4, H5, H6, G1, G2, G3, G4, G5, G6. repeat split; reflexivity.
Qed.

Lemma repeat_true_false : forall k n, k > 0 -> repeat true k ++ repeat false (n - k) = repeat false n -> False.
Proof. intros k n Hk H. destruct k; [lia|]. destruct n; cbn in H; discriminate. Qed.

(* the closing flag after keep-alive destructor steps, from the invariant *)
Lemma closing_after_lsteps : forall n i s, inv13 s -> closing s = None ->
  let s' := iterT n (KA (LStep i)) s in
  (emits (ka s') = [] -> closing s' = None) /\
  (emits (ka s) = [] -> emits (ka s') <> [] -> closing s' = Some 0) /\
  (emits (ka s) <> [] -> closing s' = None).
Proof.
  intros n i s I Hc s'. pose proof (iter_inv n (KA (LStep i)) s I) as I'. fold s' in I'.
  destruct (iter_lstep_fields n s i) as (_ & Hs & _ & Ha & _). fold s' in Hs, Ha.
  repeat split.
  - intros E. apply (j_before s' I' E).
  - intros E E'. destruct (j_before s I E) as (_ & Hap & Hfl).
    destruct (closing s') as [k|] eqn:Ek.
    + destruct (j_during s' I' k Ek) as (_ & _ & Hk & Hf).
      unfold flags, n_slots in *. rewrite Hs in Hf. rewrite Hfl in Hf.
      destruct k; auto. exfalso. eapply (repeat_true_false (S k)); [lia|]. symmetry. exact Hf.
    + destruct (j_after s' I' E' Ek) as (_ & sn & _ & Hx). rewrite Ha, Hap in Hx. discriminate.
  - intros E. destruct (j_after s I E Hc) as (_ & sn & _ & Hx).
    destruct (closing s') as [k|] eqn:Ek; auto.
    destruct (j_during s' I' k Ek) as (_ & Hy & _). rewrite Ha, Hx in Hy. discriminate.
Qed.

(* ---------- the closing thread runs to completion ---------- *)
Definition closed_version (sl : slot) : slot :=
  match close_slot sl with Some (sl', _) => sl' | None => sl end.

Lemma firstn_set_nth_S : forall T k (x : T) l, k < length l -> firstn (S k) (set_nth k x l) = firstn k l ++ [x].
Proof. induction k; destruct l; cbn; intros; try lia; auto. f_equal. apply IHk. lia. Qed.
Lemma skipn_set_nth_S : forall T k (x : T) l, skipn (S k) (set_nth k x l) = skipn (S k) l.
Proof. induction k; destruct l; cbn; intros; auto. apply IHk. Qed.
Lemma skipn_nth : forall T k (l : list T) x, nth_error l k = Some x -> skipn k l = x :: skipn (S k) l.
Proof. induction k; destruct l; cbn; intros; try discriminate. - inversion H; auto. - apply IHk; auto. Qed.

Lemma close_iter : forall m k s, inv13 s -> closing s = Some k -> n_slots s = k + m ->
  let s' := iterT (S m) CloseStep s in
  closing s' = None /\ ka s' = ka s /\ borrowed s' = borrowed s /\ rets s' = rets s /\
  slots s' = firstn k (slots s) ++ map closed_version (skipn k (slots s)).
Proof.
  induction m; intros k s I Hc Hn.
  - cbn [C13.Model.iter C13.Model.step]. rewrite Hc.
    assert (E : nth_error (slots s) k = None) by (apply nth_error_None; unfold n_slots in Hn; lia).
    rewrite E. cbn. repeat split; auto.
    unfold n_slots in Hn. rewrite skipn_all2 by lia. rewrite firstn_all2 by lia. cbn. rewrite app_nil_r. reflexivity.
  - change (iterT (S (S m)) CloseStep s) with (iterT (S m) CloseStep (stepT s CloseStep)). set (s1 := stepT s CloseStep).
    assert (Hk : k < length (slots s)) by (unfold n_slots in Hn; lia).
    destruct (nth_error (slots s) k) as [sl|] eqn:En; [|apply nth_error_None in En; lia].
    destruct (j_during s I k Hc) as (_ & _ & _ & Hf).
    assert (Hsl : slot_inv sl) by (destruct (slot_at s k sl I En); auto).
    assert (Hcl : closed sl = false) by (eapply nth_flags_false; eauto).
    destruct (close_slot_ok sl Hsl Hcl) as (sl' & v & E & _).
    assert (Hs1 : s1 = mk (ka s) (set_slot s k sl') (borrowed s) (Some (S k)) (appended s) (panicked s) (rets s)).
    { unfold s1. cbn [C13.Model.step]. rewrite Hc, En, E. reflexivity. }
    assert (I1 : inv13 s1) by (apply inv13_step; auto).
    destruct (IHm (S k) s1 I1) as (H1 & H2 & H3 & H4 & H5).
    + rewrite Hs1. reflexivity.
    + rewrite Hs1. unfold n_slots in *. cbn [slots]. unfold set_slot. rewrite set_nth_length. lia.
    + cbv zeta in *. rewrite H1, H2, H3, H4, H5, Hs1. cbn [ka borrowed rets slots]. repeat split; auto.
      unfold set_slot. rewrite firstn_set_nth_S by auto. rewrite skipn_set_nth_S.
      rewrite (skipn_nth _ k (slots s) sl En). cbn [map]. unfold closed_version at 2. rewrite E.
      rewrite <- app_assoc. reflexivity.
Qed.

Lemma iter_closestep_idle : forall n s, closing s = None -> iterT n CloseStep s = s.
Proof. induction n; intros s H; cbn [C13.Model.iter]; auto. cbn [C13.Model.step]. rewrite H. apply IHn. auto. Qed.

(* ---------- the tail of a sequential action: keep-alive destructor, then the closing thread ---------- *)
Definition tail (n0 : nat) (s2 : state) : state :=
  let s3 := if Nat.ltb n0 (length (tasks (ka s2))) then iterT 6 (KA (LStep n0)) s2 else s2 in
  iterT (S (length (slots s3))) CloseStep s3.

Lemma seq_step_tail : forall s l,
  seqT s l = tail (length (tasks (ka s)))
                  (match l with DropGuard i => iterT 2 (GuardStep i) (stepT s l) | _ => stepT s l end).
Proof. intros. reflexivity. Qed.

Lemma rank_le_6 : forall p, rank p <= 6.
Proof. destruct p; cbn; lia. Qed.

Lemma view_iter_step : forall n i k, view_of_state (iter_step n i k) = view_of_state k.
Proof.
  intros. rewrite iter_step_run. apply view_steps_only.
  apply Forall_forall. intros x Hx. apply repeat_spec in Hx. subst. reflexivity.
Qed.

Lemma emits_nonempty_one : forall k, C06.Inv.inv k -> emits k <> [] -> exists sn, emits k = [sn].
Proof.
  intros k I H. pose proof (emitted_le_1 k I) as Hl. destruct (emits k) as [|sn r]; [congruence|].
  destruct r; [eauto | cbn in Hl; lia].
Qed.

Lemma tail_correct : forall n0 s2 pre rest, inv13 s2 -> closing s2 = None ->
  tasks (ka s2) = pre ++ rest -> length pre = n0 -> forallb (fun p => pc_eqb p PDone) pre = true ->
  (rest = [] \/ exists p, rest = [p]) ->
  let s3 := tail n0 s2 in
  inv13 s3 /\ quiescent (ka s3) = true /\ closing s3 = None /\
  view_of_state (ka s3) = view_of_state (ka s2) /\ rets s3 = rets s2 /\ borrowed s3 = borrowed s2 /\
  ((emits (ka s2) = [] /\ due (view_of_state (ka s2)) = true /\
    slots s3 = map closed_version (slots s2) /\
    appended s3 = [(v_log (view_of_state (ka s2)), map result (slots s3))])
   \/ ((emits (ka s2) <> [] \/ due (view_of_state (ka s2)) = false) /\
       slots s3 = slots s2 /\ appended s3 = appended s2)).
Proof.
  intros n0 s2 pre rest I Hc Ht Hn Hq Hr s3. subst s3. unfold tail.
  set (s' := if Nat.ltb n0 (length (tasks (ka s2))) then iterT 6 (KA (LStep n0)) s2 else s2).
  (* facts about the state after the keep-alive destructor *)
  assert (Hs' : inv13 s' /\ quiescent (ka s') = true /\ view_of_state (ka s') = view_of_state (ka s2) /\
                slots s' = slots s2 /\ borrowed s' = borrowed s2 /\ appended s' = appended s2 /\ rets s' = rets s2 /\
                (emits (ka s') = [] -> closing s' = None) /\
                (emits (ka s2) = [] -> emits (ka s') <> [] -> closing s' = Some 0) /\
                (emits (ka s2) <> [] -> closing s' = None)).
  { unfold s'. destruct Hr as [-> | (p & ->)].
    - rewrite app_nil_r in Ht. rewrite Ht, Hn, Nat.ltb_irrefl.
      split; [exact I|]. split; [unfold quiescent; rewrite Ht; auto|].
      split; [reflexivity|]. split; [reflexivity|]. split; [reflexivity|]. split; [reflexivity|].
      split; [reflexivity|]. split; [intros; auto|]. split; [intros E E'; congruence|]. intros; auto.
    - rewrite Ht, app_length, Hn. cbn [length].
      assert (Nat.ltb n0 (n0 + 1) = true) as -> by (apply Nat.ltb_lt; lia).
      destruct (iter_lstep_fields 6 s2 n0) as (H1 & H2 & H3 & H4 & H5 & H6).
      destruct (closing_after_lsteps 6 n0 s2 I Hc) as (G1 & G2 & G3).
      cbv zeta in *.
      split; [apply iter_inv; auto|].
      split.
      { rewrite H1. unfold quiescent. rewrite <- Hn.
        rewrite (iter_last 6 (ka s2) pre p (j_ka s2 I) Ht Hq (rank_le_6 p)).
        rewrite forallb_app, Hq. reflexivity. }
      split; [rewrite H1; apply view_iter_step|].
      split; [auto|]. split; [auto|]. split; [auto|]. split; [auto|].
      split; [auto|]. split; auto. }
  destruct Hs' as (I' & Q' & V' & S' & B' & A' & R' & C1 & C2 & C3).
  pose proof (quiescent_exact (ka s') (j_ka s' I') Q') as Hx. rewrite V' in Hx.
  destruct (emits (ka s2)) as [|sn2 r2] eqn:E2.
  - destruct (due (view_of_state (ka s2))) eqn:D.
    + (* the promise became due in this action: the entry is closed and appended *)
      assert (E' : emits (ka s') <> []) by (intros E; rewrite E in Hx; discriminate).
      pose proof (C2 eq_refl E') as Hcl.
      destruct (close_iter (length (slots s')) 0 s' I' Hcl) as (H1 & H2 & H3 & H4 & H5);
        [unfold n_slots; lia|].
      cbv zeta in H1, H2, H3, H4, H5. cbn [firstn skipn app] in H5.
      set (s3 := iterT (S (length (slots s'))) CloseStep s') in *.
      assert (I3 : inv13 s3) by (apply iter_inv; auto).
      split; [exact I3|]. split; [rewrite H2; exact Q'|]. split; [exact H1|].
      split; [rewrite H2; exact V'|]. split; [congruence|]. split; [congruence|].
      left. split; [reflexivity|]. split; [reflexivity|]. split; [rewrite H5, S'; reflexivity|].
      assert (E3 : emits (ka s3) <> []) by (rewrite H2; auto).
      destruct (j_after s3 I3 E3 H1) as (_ & sn & Hs & Ha). rewrite Ha. f_equal. f_equal.
      pose proof (i_snap _ (j_ka s3 I3)) as F. rewrite Hs in F. inversion F; subst.
      destruct H6 as (_ & _ & Hl & _). rewrite Hl, H2.
      change (log (ka s')) with (v_log (view_of_state (ka s'))). rewrite V'. reflexivity.
    + assert (E' : emits (ka s') = []) by (destruct (emits (ka s')); auto; discriminate).
      rewrite (iter_closestep_idle _ s' (C1 E')).
      split; [exact I'|]. split; [exact Q'|]. split; [exact (C1 E')|]. split; [exact V'|].
      split; [exact R'|]. split; [exact B'|]. right. split; [right; reflexivity|]. split; auto.
  - assert (Hcl : closing s' = None) by (apply C3; discriminate).
    rewrite (iter_closestep_idle _ s' Hcl).
    split; [exact I'|]. split; [exact Q'|]. split; [exact Hcl|]. split; [exact V'|].
    split; [exact R'|]. split; [exact B'|]. right. split; [left; discriminate|]. split; auto.
Qed.

(* ---------- the simulation relation (between quiescent mechanism states and the reader's bookkeeping) ---------- *)
Definition srel (sl : slot) (ss : sslot) : Prop :=
  lazy sl = s_lazy ss /\
  match s_guard ss with
  | SNotOut => g sl = GHome /\ gval sl = [] /\ (lazy sl = true -> created sl = false)
  | SOut c h => g sl = GLive /\ gval sl = c /\ (gmode sl = Wait <-> h = true)
  | SDropped c => g sl = GGone /\ sent sl = Some c
  end.

Record R (s : state) (v : sview) : Prop := mk_R {
  r_inv : inv13 s;
  r_view : view_of_state (ka s) = sv_ka v;
  r_slots : Forall2 srel (slots s) (sv_slots v);
  r_wait : borrowed s = sv_wait v;
  r_rets : rets s = sv_rets v;
  r_app : appended s = sv_appended v;
  r_q : quiescent (ka s) = true;
  r_c : closing s = None
}.

Lemma srel_holds : forall sl ss, srel sl ss -> holds_guard sl = s_holds ss.
Proof.
  intros sl ss (_ & H). unfold holds_guard, s_holds. destruct (s_guard ss) as [|c h|c].
  - destruct H as (-> & _). destruct (gmode sl); reflexivity.
  - destruct H as (-> & _ & Hm). destruct (gmode sl), h; auto.
    + destruct Hm as (_ & Hm). specialize (Hm eq_refl). discriminate.
    + destruct Hm as (Hm & _). specialize (Hm eq_refl). discriminate.
  - destruct H as (-> & _). destruct (gmode sl); reflexivity.
Qed.

Lemma held_rel : forall l l', Forall2 srel l l' -> length (filter holds_guard l) = length (filter s_holds l').
Proof.
  induction 1; cbn; auto. rewrite (srel_holds _ _ H). destruct (s_holds y); cbn; auto.
Qed.

Lemma user_fgs_rel : forall s v, R s v -> user_fgs s = s_user_fgs v.
Proof.
  intros s v r. unfold user_fgs, s_user_fgs, held. rewrite (held_rel _ _ (r_slots s v r)).
  rewrite <- (r_view s v r). reflexivity.
Qed.

Lemma owner_free_rel : forall s v, R s v -> owner_free s = s_owner_free v.
Proof.
  intros s v r. unfold owner_free, s_owner_free. rewrite <- (r_view s v r), <- (r_wait s v r). reflexivity.
Qed.

Lemma nth_rel : forall l l' i, Forall2 srel l l' ->
  match nth_error l i, nth_error l' i with
  | Some sl, Some ss => srel sl ss
  | None, None => True
  | _, _ => False
  end.
Proof.
  intros l l' i H. revert i. induction H; intros i; destruct i; cbn; auto. apply IHForall2.
Qed.

Lemma Forall2_set_nth : forall l l' i sl ss, Forall2 srel l l' -> srel sl ss ->
  Forall2 srel (set_nth i sl l) (set_nth i ss l').
Proof.
  intros l l' i sl ss H. revert i. induction H; intros i Hs; destruct i; cbn; auto.
Qed.

Lemma emits_iff_due : forall s v, R s v -> (emits (ka s) = [] <-> due (sv_ka v) = false).
Proof.
  intros s v r. pose proof (quiescent_exact (ka s) (j_ka s (r_inv s v r)) (r_q s v r)) as H.
  rewrite (r_view s v r) in H. destruct (due (sv_ka v)); split; intros E; auto; try discriminate.
  - rewrite E in H. discriminate.
  - destruct (emits (ka s)); auto; discriminate.
Qed.

(* closing a slot: what the parent reads is what the reader expects *)
Lemma closed_version_fields : forall sl, lazy (closed_version sl) = lazy sl /\ g (closed_version sl) = g sl /\
  gval (closed_version sl) = gval sl /\ gmode (closed_version sl) = gmode sl /\ sent (closed_version sl) = sent sl /\
  created (closed_version sl) = created sl.
Proof.
  intros sl. destruct sl as [lz cr g0 gv gm ch tg r d op se ws cl sb res].
  unfold closed_version, close_slot; cbn.
  destruct cr; cbn; [|auto 10]. destruct d; cbn; [auto 10|]. destruct r; cbn; auto 10.
Qed.

Lemma srel_closed_version : forall sl ss, srel sl ss -> srel (closed_version sl) ss.
Proof.
  intros sl ss (H1 & H2). destruct (closed_version_fields sl) as (F1 & F2 & F3 & F4 & F5 & F6).
  split; [congruence|]. destruct (s_guard ss); rewrite ?F1, ?F2, ?F3, ?F4, ?F5, ?F6; auto.
Qed.

Lemma result_closed_version : forall sl ss, slot_inv sl -> closed sl = false -> srel sl ss ->
  result (closed_version sl) = slot_value ss.
Proof.
  intros sl ss I Hc (_ & H). unfold slot_value.
  pose proof (si_open sl I Hc) as Ho. pose proof (si_sent sl I) as Hs. pose proof (si_created sl I) as (Hc1 & Hc2).
  unfold closed_version, close_slot.
  destruct (s_guard ss) as [|c h|c].
  - destruct H as (Hg & _). destruct (sent sl) as [x|]; [destruct Hs as ([?|?] & _); congruence|].
    destruct Ho as (H1 & H2 & H3 & _). destruct (created sl); cbn; rewrite ?H2, ?H3, ?H1; reflexivity.
  - destruct H as (Hg & _). destruct (sent sl) as [x|]; [destruct Hs as ([?|?] & _); congruence|].
    destruct Ho as (H1 & H2 & H3 & _). destruct (created sl); cbn; rewrite ?H2, ?H3, ?H1; reflexivity.
  - destruct H as (Hg & Hse). rewrite Hse in *.
    assert (Hcr : created sl = true).
    { destruct (created sl) eqn:E; auto. specialize (Hc2 eq_refl). congruence. }
    rewrite Hcr. cbn. destruct Ho as (_ & [(H1 & H2 & H3) | (H1 & H2 & H3)]).
    + rewrite H2, H3. cbn. exact H1.
    + rewrite H2. reflexivity.
Qed.

Lemma Forall2_map_l : forall l l', Forall2 srel l l' -> Forall2 srel (map closed_version l) l'.
Proof. induction 1; cbn; constructor; auto. apply srel_closed_version; auto. Qed.

Lemma results_rel : forall l l', Forall2 srel l l' -> Forall slot_inv l -> map closed l = repeat false (length l) ->
  map result (map closed_version l) = map slot_value l'.
Proof.
  induction 1; intros Hi Hc; cbn; auto. inversion Hi; subst. cbn in Hc. injection Hc as Hc1 Hc2.
  f_equal; [apply result_closed_version; auto | apply IHForall2; auto].
Qed.

(* ---------- a sequential action = its immediate effect, then [tail] ---------- *)
Lemma finish : forall s v s2 v' n0,
  R s v -> n0 = length (tasks (ka s)) ->
  inv13 s2 -> closing s2 = None ->
  (tasks (ka s2) = tasks (ka s) \/ exists p, tasks (ka s2) = tasks (ka s) ++ [p]) ->
  emits (ka s2) = emits (ka s) -> appended s2 = appended s ->
  view_of_state (ka s2) = sv_ka v' ->
  Forall2 srel (slots s2) (sv_slots v') ->
  borrowed s2 = sv_wait v' -> rets s2 = sv_rets v' ->
  sv_appended v' = (if due (sv_ka v') && negb (due (sv_ka v))
                    then sv_appended v ++ [(v_log (sv_ka v'), map slot_value (sv_slots v'))]
                    else sv_appended v) ->
  R (tail n0 s2) v'.
Proof.
  intros s v s2 v' n0 r Hn I2 Hc Ht He Ha Hv Hs Hb Hr Hap.
  assert (Hq : forallb (fun p => pc_eqb p PDone) (tasks (ka s)) = true) by (exact (r_q s v r)).
  assert (HT : exists rest, tasks (ka s2) = tasks (ka s) ++ rest /\ (rest = [] \/ exists p, rest = [p])).
  { destruct Ht as [Ht | (p & Ht)]; [exists []; rewrite app_nil_r; auto | exists [p]; eauto]. }
  destruct HT as (rest & Ht' & Hrest).
  destruct (tail_correct n0 s2 (tasks (ka s)) rest I2 Hc Ht' (eq_sym Hn) Hq Hrest)
    as (I3 & Q3 & C3 & V3 & R3 & B3 & Hcase).
  pose proof (emits_iff_due s v r) as Hed.
  destruct Hcase as [(E2 & D2 & S3 & A3) | (Hno & S3 & A3)].
  - assert (Hdv : due (sv_ka v) = false) by (apply Hed; congruence).
    assert (Happ0 : sv_appended v = []).
    { rewrite <- (r_app s v r). assert (emits (ka s) = []) by congruence.
      destruct (j_before s (r_inv s v r) H) as (_ & ? & _). auto. }
    rewrite Hv in D2. rewrite D2, Hdv, Happ0 in Hap. cbn in Hap.
    constructor; auto; try congruence.
    + rewrite S3. apply Forall2_map_l; auto.
    + rewrite A3, Hap, Hv, S3. f_equal. f_equal.
      destruct (j_before s2 I2 E2) as (_ & _ & Hf). apply results_rel; auto. apply (j_slots s2 I2).
  - assert (Hcond : due (sv_ka v') && negb (due (sv_ka v)) = false).
    { destruct Hno as [Hne | Hd].
      - assert (due (sv_ka v) = true).
        { destruct (due (sv_ka v)) eqn:D; auto. exfalso. apply Hne. rewrite He. apply Hed; auto. }
        rewrite H. apply andb_false_r.
      - rewrite Hv in Hd. rewrite Hd. reflexivity. }
    rewrite Hcond in Hap.
    constructor; auto; try congruence.
    rewrite A3, Ha, (r_app s v r). auto.
Qed.

Definition user13 (l : C13.Model.label) : bool :=
  match l with
  | GuardStep _ | CloseStep | KA (LStep _) => false
  | _ => true
  end.

Lemma ka_step_facts : forall s0 kl sls rs, is_user kl = true ->
  let s2 := ka_step s0 kl sls rs in
  closing s2 = closing s0 /\ emits (ka s2) = emits (ka s0) /\ appended s2 = appended s0 /\
  view_of_state (ka s2) = view_step (view_of_state (ka s0)) kl /\
  (tasks (ka s2) = tasks (ka s0) \/ exists p, tasks (ka s2) = tasks (ka s0) ++ [p]) /\
  slots s2 = sls /\ rets s2 = rs /\ borrowed s2 = borrowed s0.
Proof.
  intros s0 kl sls rs U. unfold ka_step. cbn [ka slots rets borrowed closing appended].
  rewrite (user_step_emits (ka s0) kl U), Nat.ltb_irrefl.
  repeat split; auto.
  - apply view_step_agrees.
  - destruct (step_user_tasks (ka s0) kl U) as [H | (p & H & _)]; eauto.
Qed.

Lemma andb_negb_same : forall b, b && negb b = false.
Proof. destruct b; reflexivity. Qed.

(* the immediate effect leaves the keep-alive state alone *)
Lemma finish_plain : forall s v s2 v',
  R s v -> inv13 s2 ->
  ka s2 = ka s -> closing s2 = closing s -> appended s2 = appended s ->
  Forall2 srel (slots s2) (sv_slots v') -> borrowed s2 = sv_wait v' -> rets s2 = sv_rets v' ->
  sv_ka v' = sv_ka v -> sv_appended v' = sv_appended v ->
  R (tail (length (tasks (ka s))) s2) v'.
Proof.
  intros s v s2 v' r I2 Hk Hc Ha Hs Hb Hr Hv Hap.
  apply (finish s v s2 v' _ r eq_refl I2); auto.
  - rewrite Hc. apply (r_c s v r).
  - left. rewrite Hk. reflexivity.
  - rewrite Hk. reflexivity.
  - rewrite Hk, Hv. apply (r_view s v r).
  - rewrite Hv, andb_negb_same. auto.
Qed.

(* the immediate effect ends with one user-level keep-alive action on a state whose keep-alive part is s's *)
Lemma finish_ka : forall s v s0 kl sls rs v',
  R s v -> is_user kl = true -> inv13 (ka_step s0 kl sls rs) ->
  ka s0 = ka s -> closing s0 = closing s -> appended s0 = appended s ->
  Forall2 srel sls (sv_slots v') -> borrowed s0 = sv_wait v' -> rs = sv_rets v' ->
  sv_ka v' = view_step (sv_ka v) kl ->
  sv_appended v' = (if due (sv_ka v') && negb (due (sv_ka v))
                    then sv_appended v ++ [(v_log (sv_ka v'), map slot_value (sv_slots v'))]
                    else sv_appended v) ->
  R (tail (length (tasks (ka s))) (ka_step s0 kl sls rs)) v'.
Proof.
  intros s v s0 kl sls rs v' r U I2 Hk Hc Ha Hs Hb Hr Hv Hap.
  destruct (ka_step_facts s0 kl sls rs U) as (F1 & F2 & F3 & F4 & F5 & F6 & F7 & F8). cbv zeta in *.
  apply (finish s v _ v' _ r eq_refl I2); auto; try congruence.
  - rewrite F1, Hc. apply (r_c s v r).
  - rewrite Hk in F5. exact F5.
  - rewrite F4, Hk, (r_view s v r). auto.
Qed.

Lemma ka_enabled_rel : forall s v kl, R s v -> is_user kl = true -> ka_enabled s kl = s_ka_enabled v kl.
Proof.
  intros s v kl r U. destruct kl; try discriminate; cbn [ka_enabled s_ka_enabled];
    rewrite <- ?(r_wait s v r), ?(user_fgs_rel s v r); reflexivity.
Qed.

Lemma sim_KA : forall s v kl, R s v -> is_user kl = true -> R (seqT s (KA kl)) (sstep v (KA kl)).
Proof.
  intros s v kl r U. rewrite seq_step_tail. cbn [C13.Model.step sstep].
  rewrite (ka_enabled_rel s v kl r U). destruct (s_ka_enabled v kl) eqn:En.
  - apply (finish_ka s v s kl (slots s) (rets s)); auto.
    + assert (E : stepT s (KA kl) = ka_step s kl (slots s) (rets s)).
      { cbn [C13.Model.step]. rewrite (ka_enabled_rel s v kl r U), En. reflexivity. }
      rewrite <- E. apply inv13_step. apply (r_inv s v r).
    + apply (r_slots s v r).
    + apply (r_wait s v r).
    + apply (r_rets s v r).
  - apply (finish_plain s v s v); auto. apply (r_inv s v r). apply (r_slots s v r). apply (r_wait s v r). apply (r_rets s v r).
Qed.

Ltac rfields r := first [apply (r_inv _ _ r) | apply (r_slots _ _ r) | apply (r_wait _ _ r) | apply (r_rets _ _ r)].

Lemma sim_same : forall s v v', R s v -> sv_ka v' = sv_ka v -> sv_slots v' = sv_slots v -> sv_wait v' = sv_wait v ->
  sv_rets v' = sv_rets v -> sv_appended v' = sv_appended v -> R (tail (length (tasks (ka s))) s) v'.
Proof.
  intros s v v' r H1 H2 H3 H4 H5. apply (finish_plain s v s v'); auto.
  - apply (r_inv s v r).
  - rewrite H2. apply (r_slots s v r).
  - rewrite H3. apply (r_wait s v r).
  - rewrite H4. apply (r_rets s v r).
Qed.

Lemma not_fresh : forall sl, slot_inv sl -> g sl <> GHome ->
  (if lazy sl then negb (created sl) else match g sl with GHome => true | _ => false end) = false.
Proof.
  intros sl I Hg. destruct (lazy sl).
  - destruct (created sl) eqn:E; auto. exfalso. apply Hg. apply (si_created sl I). auto.
  - destruct (g sl); auto. congruence.
Qed.

Lemma sim_Open : forall s v i w, R s v -> R (seqT s (Open i w)) (sstep v (Open i w)).
Proof.
  intros s v i w r. pose proof (inv13_step s (Open i w) (r_inv s v r)) as I2.
  rewrite seq_step_tail. cbn [C13.Model.step sstep] in *.
  rewrite (owner_free_rel s v r), (user_fgs_rel s v r) in *.
  destruct (s_owner_free v && (negb w || Nat.ltb 0 (s_user_fgs v))) eqn:En; [|apply (sim_same s v v); auto].
  pose proof (nth_rel (slots s) (sv_slots v) i (r_slots s v r)) as Hn.
  destruct (nth_error (slots s) i) as [sl|] eqn:E1; destruct (nth_error (sv_slots v) i) as [ss|] eqn:E2;
    try contradiction; [|apply (sim_same s v v); auto].
  destruct (slot_at s i sl (r_inv s v r) E1) as (Hsl & _).
  destruct Hn as (Hl & Hg). destruct (s_guard ss) as [|c h|c] eqn:Eg.
  - destruct Hg as (Hg1 & Hg2 & Hg3).
    assert (Fr : (if lazy sl then negb (created sl) else match g sl with GHome => true | _ => false end) = true).
    { destruct (lazy sl); [rewrite Hg3; auto | rewrite Hg1; auto]. }
    rewrite Fr in *.
    apply (finish_plain s v); auto; cbn [slots borrowed rets sv_slots sv_wait sv_rets sv_ka sv_appended].
    + unfold set_slot, set_sslot. apply Forall2_set_nth; [rfields r|].
      split; cbn; auto. split; auto. split; auto. destruct w; split; intros; auto; discriminate.
    + rfields r.
    + rewrite (r_rets s v r). reflexivity.
  - destruct Hg as (Hg1 & _). rewrite (not_fresh sl Hsl) in * by congruence.
    destruct w.
    + apply (finish_ka s v s LDropFlush); auto; cbn [sv_slots sv_wait sv_rets sv_ka sv_appended s_ka]; try rfields r.
      rewrite (r_rets s v r). reflexivity.
    + apply (finish_plain s v); auto; cbn [slots borrowed rets sv_slots sv_wait sv_rets sv_ka sv_appended]; try rfields r.
      rewrite (r_rets s v r). reflexivity.
  - destruct Hg as (Hg1 & _). rewrite (not_fresh sl Hsl) in * by congruence.
    destruct w.
    + apply (finish_ka s v s LDropFlush); auto; cbn [sv_slots sv_wait sv_rets sv_ka sv_appended s_ka]; try rfields r.
      rewrite (r_rets s v r). reflexivity.
    + apply (finish_plain s v); auto; cbn [slots borrowed rets sv_slots sv_wait sv_rets sv_ka sv_appended]; try rfields r.
      rewrite (r_rets s v r). reflexivity.
Qed.

Lemma sim_SlotMut : forall s v i x, R s v -> R (seqT s (SlotMut i x)) (sstep v (SlotMut i x)).
Proof.
  intros s v i x r. pose proof (inv13_step s (SlotMut i x) (r_inv s v r)) as I2.
  rewrite seq_step_tail. cbn [C13.Model.step sstep] in *.
  pose proof (nth_rel (slots s) (sv_slots v) i (r_slots s v r)) as Hn.
  destruct (nth_error (slots s) i) as [sl|] eqn:E1; destruct (nth_error (sv_slots v) i) as [ss|] eqn:E2;
    try contradiction; [|apply (sim_same s v v); auto].
  destruct Hn as (Hl & Hg). destruct (s_guard ss) as [|c h|c] eqn:Eg.
  - destruct Hg as (Hg1 & _). rewrite Hg1 in *. apply (sim_same s v v); auto.
  - destruct Hg as (Hg1 & Hg2 & Hg3). rewrite Hg1 in *.
    apply (finish_plain s v); auto; cbn [slots borrowed rets sv_slots sv_wait sv_rets sv_ka sv_appended]; try rfields r.
    unfold set_slot, set_sslot. apply Forall2_set_nth; [rfields r|].
    split; cbn; auto. split; auto. split; [congruence | auto].
  - destruct Hg as (Hg1 & _). rewrite Hg1 in *. apply (sim_same s v v); auto.
Qed.

Lemma sim_DelayFlush : forall s v i, R s v -> R (seqT s (DelayFlush i)) (sstep v (DelayFlush i)).
Proof.
  intros s v i r. pose proof (inv13_step s (DelayFlush i) (r_inv s v r)) as I2.
  rewrite seq_step_tail. cbn [C13.Model.step sstep] in *.
  rewrite (user_fgs_rel s v r) in *.
  pose proof (nth_rel (slots s) (sv_slots v) i (r_slots s v r)) as Hn.
  destruct (nth_error (slots s) i) as [sl|] eqn:E1; destruct (nth_error (sv_slots v) i) as [ss|] eqn:E2;
    try contradiction; [|apply (sim_same s v v); auto].
  destruct Hn as (Hl & Hg). destruct (s_guard ss) as [|c h|c] eqn:Eg.
  - destruct Hg as (Hg1 & _). rewrite Hg1 in *. apply (sim_same s v v); auto.
  - destruct Hg as (Hg1 & Hg2 & Hg3). rewrite Hg1 in *.
    destruct (Nat.ltb 0 (s_user_fgs v)) eqn:Hu; [|apply (sim_same s v v); auto].
    destruct (gmode sl) eqn:Hm; destruct h.
    + destruct Hg3 as (_ & Hx). specialize (Hx eq_refl). discriminate.
    + apply (finish_plain s v); auto; cbn [slots borrowed rets sv_slots sv_wait sv_rets sv_ka sv_appended]; try rfields r.
      unfold set_slot, set_sslot. apply Forall2_set_nth; [rfields r|].
      split; cbn; auto. split; auto. split; auto. split; auto.
    + apply (finish_ka s v s LDropFlush); auto; cbn [sv_slots sv_wait sv_rets sv_ka sv_appended s_ka]; try rfields r.
    + destruct Hg3 as (Hx & _). specialize (Hx eq_refl). discriminate.
  - destruct Hg as (Hg1 & _). rewrite Hg1 in *. apply (sim_same s v v); auto.
Qed.

Lemma sim_WaitCancel : forall s v, R s v -> R (seqT s WaitCancel) (sstep v WaitCancel).
Proof.
  intros s v r. pose proof (inv13_step s WaitCancel (r_inv s v r)) as I2.
  rewrite seq_step_tail. cbn [C13.Model.step sstep] in *.
  destruct (borrowed s) as [i|] eqn:Eb.
  - destruct (nth_error (slots s) i) as [sl|] eqn:E1.
    + destruct (slot_at s i sl (r_inv s v r) E1) as (Hsl & _).
      rewrite (si_cancel sl Hsl) in *. unfold set_slot in *. rewrite (set_nth_same_id _ i sl (slots s) E1) in *.
      apply (finish_plain s v); auto; cbn [slots borrowed rets sv_slots sv_wait sv_rets sv_ka sv_appended]; try rfields r.
    + apply (finish_plain s v); auto; cbn [slots borrowed rets sv_slots sv_wait sv_rets sv_ka sv_appended]; try rfields r.
  - apply (sim_same s v); auto. cbn. rewrite <- (r_wait s v r). auto.
Qed.

Lemma owners_pos_unclosed : forall s v i sl, R s v -> Nat.ltb 0 (owners (ka s)) = true ->
  nth_error (slots s) i = Some sl -> closed sl = false.
Proof.
  intros s v i sl r Ho Hn.
  assert (Hd : due (sv_ka v) = false).
  { rewrite <- (r_view s v r). unfold due, view_of_state. cbn. apply Nat.ltb_lt in Ho.
    destruct (owners (ka s)); [lia | reflexivity]. }
  apply (emits_iff_due s v r) in Hd. destruct (j_before s (r_inv s v r) Hd) as (_ & _ & Hf).
  eapply repeat_false_nth; eauto.
Qed.

Lemma sim_WaitPoll : forall s v i, R s v -> R (seqT s (WaitPoll i)) (sstep v (WaitPoll i)).
Proof.
  intros s v i r. pose proof (inv13_step s (WaitPoll i) (r_inv s v r)) as I2.
  rewrite seq_step_tail. cbn [C13.Model.step sstep] in *.
  pose proof (nth_rel (slots s) (sv_slots v) i (r_slots s v r)) as Hn.
  assert (Hal : Nat.ltb 0 (owners (ka s)) && negb (handle_mode (ka s)) &&
                match borrowed s with None => true | Some j => Nat.eqb i j end =
                Nat.ltb 0 (v_owners (sv_ka v)) && negb (v_handle (sv_ka v)) &&
                match sv_wait v with None => true | Some j => Nat.eqb i j end).
  { rewrite <- (r_view s v r), <- (r_wait s v r). reflexivity. }
  destruct (nth_error (slots s) i) as [sl|] eqn:E1; destruct (nth_error (sv_slots v) i) as [ss|] eqn:E2;
    try contradiction; [|apply (sim_same s v v); auto].
  destruct (slot_at s i sl (r_inv s v r) E1) as (Hsl & _).
  destruct Hn as (Hl & Hg). rewrite <- Hal, <- Hl in *.
  match goal with |- context [if ?c then _ else _] => destruct c eqn:Ha end; [|apply (sim_same s v v); auto].
  apply andb_prop in Ha. destruct Ha as (Ha & _).
  apply andb_prop in Ha. destruct Ha as (Ha & _). apply andb_prop in Ha. destruct Ha as (Ho & _).
  pose proof (owners_pos_unclosed s v i sl r Ho E1) as Hcl.
  pose proof (si_open sl Hsl Hcl) as Hop. pose proof (si_sent sl Hsl) as Hse.
  destruct (s_guard ss) as [|c h|c] eqn:Eg.
  1-2: (assert (Hs0 : sent sl = None) by
         (destruct (sent sl); auto; destruct Hse as ([?|?] & _); destruct Hg as (? & _); congruence);
        rewrite Hs0 in Hop; destruct Hop as (H1 & H2 & H3 & H4); rewrite H3, H1, H4 in *;
        assert (Heq : mk_slot (lazy sl) (created sl) (g sl) (gval sl) (gmode sl) None false RxSlot (data sl)
                              (opened sl) (sent sl) (wait_sent sl) (closed sl) (sbc sl) (result sl) = sl)
          by (destruct sl; cbn in *; subst; reflexivity);
        rewrite Heq in *; unfold set_slot in *; rewrite (set_nth_same_id _ i sl (slots s) E1) in *;
        apply (finish_plain s v); auto; cbn [slots borrowed rets sv_slots sv_wait sv_rets sv_ka sv_appended];
        try rfields r; rewrite (r_rets s v r); reflexivity).
  destruct Hg as (Hg1 & Hg2). rewrite Hg2 in Hop. destruct Hop as (Ht & [(H1 & H2 & H3) | (H1 & H2 & H3)]).
  - rewrite H3, H1 in *.
    apply (finish_plain s v); auto; cbn [slots borrowed rets sv_slots sv_wait sv_rets sv_ka sv_appended]; try rfields r.
    + unfold set_slot. rewrite <- (set_nth_same_id _ i ss (sv_slots v) E2).
      apply Forall2_set_nth; [rfields r|]. split; cbn; auto. rewrite Eg. cbn. auto.
    + rewrite (r_rets s v r). reflexivity.
  - rewrite H3, H2 in *.
    apply (finish_plain s v); auto; cbn [slots borrowed rets sv_slots sv_wait sv_rets sv_ka sv_appended]; try rfields r.
    rewrite (r_rets s v r). reflexivity.
Qed.

Lemma set_nth_set_nth : forall T i (x y : T) l, set_nth i y (set_nth i x l) = set_nth i y l.
Proof. induction i; destruct l; cbn; intros; auto. f_equal. apply IHi. Qed.

Lemma guardstep_idle : forall s i sl, nth_error (slots s) i = Some sl -> (g sl = GHome \/ g sl = GLive \/ g sl = GGone) ->
  stepT s (GuardStep i) = s.
Proof. intros s i sl H Hg. cbn [C13.Model.step]. rewrite H. destruct Hg as [->|[->| ->]]; reflexivity. Qed.

Lemma guardstep_none : forall s i, nth_error (slots s) i = None -> stepT s (GuardStep i) = s.
Proof. intros s i H. cbn [C13.Model.step]. rewrite H. reflexivity. Qed.
Lemma dropguard_none : forall s i, nth_error (slots s) i = None -> stepT s (DropGuard i) = s.
Proof. intros s i H. cbn [C13.Model.step]. rewrite H. reflexivity. Qed.

Lemma sim_DropGuard : forall s v i, R s v -> R (seqT s (DropGuard i)) (sstep v (DropGuard i)).
Proof.
  intros s v i r.
  assert (I2 : inv13 (iterT 2 (GuardStep i) (stepT s (DropGuard i)))).
  { apply iter_inv. apply inv13_step. apply (r_inv s v r). }
  rewrite seq_step_tail.
  pose proof (nth_rel (slots s) (sv_slots v) i (r_slots s v r)) as Hn.
  destruct (nth_error (slots s) i) as [sl|] eqn:E1; destruct (nth_error (sv_slots v) i) as [ss|] eqn:E2;
    try contradiction.
  2: { assert (E : iterT 2 (GuardStep i) (stepT s (DropGuard i)) = s).
       { cbn [C13.Model.iter]. rewrite (dropguard_none s i E1), (guardstep_none s i E1), (guardstep_none s i E1). reflexivity. }
       rewrite E. cbn [sstep]. rewrite E2. apply (sim_same s v v); auto. }
  destruct (slot_at s i sl (r_inv s v r) E1) as (Hsl & _).
  destruct Hn as (Hl & Hg).
  assert (Hlen : i < length (slots s)) by (apply nth_error_Some; congruence).
  cbn [sstep]. rewrite E2.
  destruct (s_guard ss) as [|c h|c] eqn:Eg.
  - destruct Hg as (Hg1 & _).
    assert (E : iterT 2 (GuardStep i) (stepT s (DropGuard i)) = s).
    { cbn [C13.Model.iter]. assert (Ea : stepT s (DropGuard i) = s) by (cbn [C13.Model.step]; rewrite E1, Hg1; reflexivity).
      rewrite Ea. rewrite (guardstep_idle s i sl E1) by auto. rewrite (guardstep_idle s i sl E1) by auto. reflexivity. }
    rewrite E. apply (sim_same s v v); auto.
  - destruct Hg as (Hg1 & Hg2 & Hg3).
    (* the three steps *)
    set (sl_a := upd sl GSend (gval sl) (gmode sl)).
    set (s_a := mk (ka s) (set_slot s i sl_a) (borrowed s) (closing s) (appended s) (panicked s) (rets s)).
    assert (Ea : stepT s (DropGuard i) = s_a) by (cbn [C13.Model.step]; rewrite E1, Hg1; reflexivity).
    assert (Na : nth_error (slots s_a) i = Some sl_a) by (cbn; unfold set_slot; apply nth_error_set_nth_eq; auto).
    set (sl_b := mk_slot (lazy sl_a) (created sl_a) GRelease (gval sl_a) (gmode sl_a)
                         (if match rx sl_a with RxGone => false | _ => true end then Some (gval sl_a) else chan sl_a)
                         true (rx sl_a) (data sl_a) (opened sl_a) (Some (gval sl_a))
                         (match gmode sl_a with Wait => Nat.eqb (forced (ka s_a)) 0 | Discard => false end)
                         (closed sl_a) (sbc sl_a) (result sl_a)).
    set (s_b := mk (ka s) (set_slot s_a i sl_b) (borrowed s) (closing s) (appended s) (panicked s) (rets s)).
    assert (Eb : stepT s_a (GuardStep i) = s_b) by (cbn [C13.Model.step]; rewrite Na; reflexivity).
    assert (Sb : slots s_b = set_nth i sl_b (slots s)).
    { unfold s_b, s_a, set_slot. cbn [slots]. apply set_nth_set_nth. }
    assert (Nb : nth_error (slots s_b) i = Some sl_b) by (rewrite Sb; apply nth_error_set_nth_eq; auto).
    set (sl_c := upd sl_b GGone (gval sl_b) (gmode sl_b)).
    assert (Sc : set_slot s_b i sl_c = set_nth i sl_c (slots s)).
    { unfold set_slot. rewrite Sb. apply set_nth_set_nth. }
    assert (Hrel : srel sl_c (mk_sslot (s_lazy ss) (SDropped c))).
    { split; cbn; auto. split; auto. rewrite Hg2. reflexivity. }
    assert (HF : Forall2 srel (set_nth i sl_c (slots s)) (set_sslot v i (mk_sslot (s_lazy ss) (SDropped c)))).
    { unfold set_sslot. apply Forall2_set_nth; [rfields r | exact Hrel]. }
    change (iterT 2 (GuardStep i) (stepT s (DropGuard i)))
      with (stepT (stepT (stepT s (DropGuard i)) (GuardStep i)) (GuardStep i)) in *.
    rewrite Ea, Eb in *.
    assert (Hmode : gmode sl_b = gmode sl) by reflexivity.
    destruct (gmode sl) eqn:Hm; destruct h.
    + destruct Hg3 as (_ & Hx). specialize (Hx eq_refl). discriminate.
    + assert (Ec : stepT s_b (GuardStep i) =
                   mk (ka s) (set_slot s_b i sl_c) (borrowed s) (closing s) (appended s) (panicked s) (rets s)).
      { cbn [C13.Model.step]. rewrite Nb. cbn [g sl_b]. unfold sl_b at 1. cbn [g]. rewrite Hmode. reflexivity. }
      rewrite Ec in *. rewrite Sc in *.
      apply (finish_plain s v); auto; cbn [slots borrowed rets sv_slots sv_wait sv_rets sv_ka sv_appended]; try rfields r.
    + assert (Ec : stepT s_b (GuardStep i) = ka_step s_b LDropFlush (set_slot s_b i sl_c) (rets s_b)).
      { cbn [C13.Model.step]. rewrite Nb. unfold sl_b at 1. cbn [g]. rewrite Hmode. reflexivity. }
      rewrite Ec in *. rewrite Sc in *.
      apply (finish_ka s v s_b LDropFlush); auto; cbn [sv_slots sv_wait sv_rets sv_ka sv_appended s_ka]; try rfields r.
    + destruct Hg3 as (Hx & _). specialize (Hx eq_refl). discriminate.
  - destruct Hg as (Hg1 & _).
    assert (E : iterT 2 (GuardStep i) (stepT s (DropGuard i)) = s).
    { cbn [C13.Model.iter]. assert (Ea : stepT s (DropGuard i) = s) by (cbn [C13.Model.step]; rewrite E1, Hg1; reflexivity).
      rewrite Ea. rewrite (guardstep_idle s i sl E1) by auto. rewrite (guardstep_idle s i sl E1) by auto. reflexivity. }
    rewrite E. apply (sim_same s v v); auto.
Qed.

Theorem sim_step : forall s v l, R s v -> user13 l = true -> R (seqT s l) (sstep v l).
Proof.
  intros s v l r U. destruct l; try discriminate.
  - apply sim_KA; auto; destruct l; try discriminate; reflexivity.
  - apply sim_Open; auto.
  - apply sim_SlotMut; auto.
  - apply sim_DelayFlush; auto.
  - apply sim_DropGuard; auto.
  - apply sim_WaitPoll; auto.
  - apply sim_WaitCancel; auto.
Qed.

Lemma R_init : forall shape, R (C13.Model.init shape) (sview_init shape).
Proof.
  intros shape. constructor; cbn; auto.
  - apply inv13_init.
  - induction shape as [|lz r IH]; cbn; constructor; auto.
    split; cbn; auto. split; auto. split; auto. intros ->. reflexivity.
Qed.

Lemma sim_run : forall ls s v, R s v -> Forall (fun l => user13 l = true) ls ->
  R (fold_left seqT ls s) (fold_left sstep ls v).
Proof.
  induction ls as [|l r IH]; intros s v rr F; cbn [fold_left]; auto.
  inversion F; subst. apply IH; auto. apply sim_step; auto.
Qed.

Notation mobserve := (C13.Model.seq_observe true).

Lemma observe_rel : forall ls s v, R s v -> Forall (fun l => user13 l = true) ls -> mobserve s ls = sobserve v ls.
Proof.
  induction ls as [|l r IH]; intros s v rr F; cbn [C13.Model.seq_observe sobserve]; auto.
  inversion F; subst. pose proof (sim_step s v l rr H1) as r1.
  rewrite (r_app _ _ r1). f_equal. apply IH; auto.
Qed.

(* sequential histories: entries appended after every action, every result returned to the caller, the entries
   themselves: all as the history specification says; and closing never panics *)
Theorem seq_refines_spec : forall shape ls, Forall (fun l => user13 l = true) ls ->
  mobserve (C13.Model.init shape) ls = sobserve (sview_init shape) ls /\
  rets (C13.Model.seq_run true shape ls) = sv_rets (srun shape ls) /\
  appended (C13.Model.seq_run true shape ls) = sv_appended (srun shape ls) /\
  panicked (C13.Model.seq_run true shape ls) = false.
Proof.
  intros shape ls F. pose proof (sim_run ls _ _ (R_init shape) F) as r.
  split; [apply observe_rel; auto; apply R_init|].
  split; [apply (r_rets _ _ r)|]. split; [apply (r_app _ _ r)|]. apply (j_nopanic _ (r_inv _ _ r)).
Qed.
