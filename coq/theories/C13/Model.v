(* C13 — mechanism model of metrique/src/slot.rs (Slot, LazySlot, SlotGuard, OnParentDrop, wait_for_data)
   on top of C06's keep-alive LTS (the [ka] component is a C06 state and moves only by C06 steps).

   What the code does (as read):
     Slot<T> { tx: Option<SlotGuard<T>>, rx: Option<Waiting<T::Closed>>, data: Option<T::Closed> }
     Slot::open(mode): tx.take(), stores the mode in the guard; a second open returns None (and drops the mode).
     LazySlot::open(initial, mode): None if already created, else creates a Slot and opens it.
     SlotGuard { slot: SlotI<T>, parent_drop_mode: OnParentDrop }  -- Drop's BODY sends the closed value through
       the oneshot; the FIELDS are dropped afterwards, the FlushGuard inside OnParentDrop::Wait last.
     Slot::close(self): data if present, else rx.try_recv() WITHOUT waiting, else unreachable!().
     wait_for_data(&mut self): awaits the receiver and stores the value in [data].
       [fixed = false]: the code as found: `self.rx.take()` moves the receiver into the future, so a future
                        dropped before completion loses it and a later close hits unreachable!() (panic in drop);
       [fixed = true] : the repaired code polls the receiver in place; a dropped future changes nothing.
     AppendAndCloseOnDropInner::drop: entry.close() closes the fields in declaration order, then sink.append. *)
From Coq Require Import List NArith Bool Arith.
From MV Require C06.Model.
Import ListNotations.



Inductive mode := Discard | Wait.
(* where the SlotGuard is *)
Inductive gpc :=
| GHome      (* still inside Slot.tx: never handed out *)
| GLive      (* handed out, alive *)
| GSend      (* drop begun: about to run the destructor body (close the value, send it) *)
| GRelease   (* body done: about to drop the fields (the FlushGuard of OnParentDrop::Wait) *)
| GGone.
(* where the oneshot receiver is *)
Inductive rxs :=
| RxSlot     (* in Slot.rx *)
| RxFuture   (* moved into a pending wait_for_data future (unrepaired code only) *)
| RxGone.    (* consumed or dropped *)

Definition value := list N.   (* the slot's content: the mutations applied through the guard, oldest first *)

Record slot := mk_slot {
  lazy : bool;              (* LazySlot: the inner Slot exists only once opened *)
  created : bool;
  g : gpc;
  gval : value;             (* the value inside the SlotGuard *)
  gmode : mode;             (* its parent_drop_mode (Wait holds a FlushGuard of this entry) *)
  chan : option value;      (* the value stored in the oneshot channel *)
  tx_gone : bool;           (* the sender has been consumed *)
  rx : rxs;
  data : option value;      (* Slot.data *)
  (* ghost *)
  opened : nat;             (* number of open calls that returned a guard *)
  sent : option value;      (* the value passed to send *)
  wait_sent : bool;         (* ... while in Wait mode and before any force-flush guard began dropping *)
  closed : bool;            (* the parent has closed this slot *)
  sbc : bool;               (* "sent before close": at that moment the send had happened *)
  result : option value     (* what the close returned *)
}.

Definition slot_init (lz : bool) : slot :=
  mk_slot lz (negb lz) GHome [] Discard None false RxSlot None 0 None false false false None.

Definition entry := (value * list (option value))%type.   (* the owner's log, the slots' closed values *)

(* results returned to the caller: open -> RGuard b (Some/None); wait_for_data poll -> RPending / RReady *)
Inductive ret := RGuard (b : bool) | RPending | RReady (v : option value).

Record state := mk {
  ka : C06.Model.state;
  slots : list slot;
  borrowed : option nat;          (* a pending wait_for_data future on this slot mutably borrows the owner *)
  closing : option nat;           (* AppendAndCloseOnDropInner::drop in progress: index of the next field *)
  appended : list entry;          (* what the sink received *)
  panicked : bool;                (* close hit unreachable!(): the entry is lost *)
  rets : list ret                 (* ghost: results returned so far *)
}.

Definition init (shape : list bool) : state :=
  mk C06.Model.init (map slot_init shape) None None [] false [].

Inductive label :=
| KA (l : C06.Model.label)                 (* a keep-alive action or destructor step of C06 *)
| Open (i : nat) (w : bool)        (* Slot::open / LazySlot::open; w: OnParentDrop::Wait(flush guard of this entry) *)
| SlotMut (i : nat) (v : N)        (* DerefMut through the guard *)
| DelayFlush (i : nat)             (* SlotGuard::delay_flush(flush guard of this entry) *)
| DropGuard (i : nat)              (* begin dropping the SlotGuard *)
| GuardStep (i : nat)              (* the guard destructor's next action: send, then release *)
| WaitPoll (i : nat)               (* poll a (new or pending) wait_for_data future *)
| WaitCancel                       (* drop the pending future *)
| CloseStep.                       (* the closing thread's next action: close the next slot, or append *)

Definition holds_guard (sl : slot) : bool :=
  match gmode sl, g sl with
  | Wait, (GLive | GSend | GRelease) => true
  | _, _ => false
  end.
(* FlushGuards of this entry that sit inside SlotGuards *)
Definition held (s : state) : nat := length (filter holds_guard (slots s)).
(* ... and those the user still holds directly *)
Definition user_fgs (s : state) : nat := C06.Model.fgs (ka s) - held s.

(* the owner itself (not a handle) is alive and not mutably borrowed by a pending future *)
Definition owner_free (s : state) : bool :=
  Nat.ltb 0 (C06.Model.owners (ka s)) && negb (C06.Model.handle_mode (ka s)) &&
  match borrowed s with None => true | Some _ => false end.

Definition set_slot (s : state) (i : nat) (sl : slot) : list slot := C06.Model.set_nth i sl (slots s).

(* a C06 step; when it makes the value's last reference go away, the closing of the entry begins *)
Definition ka_step (s : state) (l : C06.Model.label) (sls : list slot) (rs : list ret) : state :=
  let k1 := C06.Model.step (ka s) l in
  let started := Nat.ltb (length (C06.Model.emits (ka s))) (length (C06.Model.emits k1)) in
  mk k1 sls (borrowed s) (if started then Some 0 else closing s) (appended s) (panicked s) rs.

Definition ka_enabled (s : state) (l : C06.Model.label) : bool :=
  match l with
  | C06.Model.LStep _ => true
  | C06.Model.LDropFlush => Nat.ltb 0 (user_fgs s)
  | C06.Model.LDropForce => true
  | _ => match borrowed s with None => true | Some _ => false end   (* needs the owner *)
  end.

Definition upd (sl : slot) (g' : gpc) (v : value) (m : mode) : slot :=
  mk_slot (lazy sl) (created sl) g' v m (chan sl) (tx_gone sl) (rx sl) (data sl)
          (opened sl) (sent sl) (wait_sent sl) (closed sl) (sbc sl) (result sl).

Definition close_slot (sl : slot) : option (slot * option value) :=
  (* Some (slot afterwards, closed value); None = unreachable!() *)
  let fin := fun (r : option value) (c : option value) =>
    mk_slot (lazy sl) (created sl) (g sl) (gval sl) (gmode sl) c (tx_gone sl) RxGone None
            (opened sl) (sent sl) (wait_sent sl) true (match sent sl with Some _ => true | None => false end) r in
  if negb (created sl) then Some (fin None (chan sl), None)            (* LazySlot never opened *)
  else match data sl, rx sl with
       | Some d, _ => Some (fin (Some d) (chan sl), Some d)
       | None, RxSlot => Some (fin (chan sl) None, chan sl)           (* try_recv *)
       | None, _ => None
       end.

Section Variant.
Variable fixed : bool.

Definition step (s : state) (l : label) : state :=
  match l with
  | KA kl => if ka_enabled s kl then ka_step s kl (slots s) (rets s) else s
  | Open i w =>
      if owner_free s && (negb w || Nat.ltb 0 (user_fgs s)) then
        match nth_error (slots s) i with
        | None => s
        | Some sl =>
            let fresh := if lazy sl then negb (created sl)
                         else match g sl with GHome => true | _ => false end in
            if fresh then
              let sl' := mk_slot (lazy sl) true GLive (gval sl) (if w then Wait else Discard)
                                 (chan sl) (tx_gone sl) (rx sl) (data sl)
                                 (S (opened sl)) (sent sl) (wait_sent sl) (closed sl) (sbc sl) (result sl) in
              mk (ka s) (set_slot s i sl') (borrowed s) (closing s) (appended s) (panicked s)
                 (rets s ++ [RGuard true])
            else if w then ka_step s C06.Model.LDropFlush (slots s) (rets s ++ [RGuard false])   (* the mode is dropped *)
            else mk (ka s) (slots s) (borrowed s) (closing s) (appended s) (panicked s) (rets s ++ [RGuard false])
        end
      else s
  | SlotMut i v =>
      match nth_error (slots s) i with
      | Some sl => match g sl with
                   | GLive => mk (ka s) (set_slot s i (upd sl GLive (gval sl ++ [v]) (gmode sl))) (borrowed s)
                                 (closing s) (appended s) (panicked s) (rets s)
                   | _ => s
                   end
      | None => s
      end
  | DelayFlush i =>
      match nth_error (slots s) i with
      | Some sl => match g sl with
                   | GLive =>
                       if Nat.ltb 0 (user_fgs s) then
                         match gmode sl with
                         | Wait => ka_step s C06.Model.LDropFlush (slots s) (rets s)    (* the previous guard is dropped *)
                         | Discard => mk (ka s) (set_slot s i (upd sl GLive (gval sl) Wait)) (borrowed s)
                                         (closing s) (appended s) (panicked s) (rets s)
                         end
                       else s
                   | _ => s
                   end
      | None => s
      end
  | DropGuard i =>
      match nth_error (slots s) i with
      | Some sl => match g sl with
                   | GLive => mk (ka s) (set_slot s i (upd sl GSend (gval sl) (gmode sl))) (borrowed s)
                                 (closing s) (appended s) (panicked s) (rets s)
                   | _ => s
                   end
      | None => s
      end
  | GuardStep i =>
      match nth_error (slots s) i with
      | Some sl =>
          match g sl with
          | GSend =>
              let ok := match rx sl with RxGone => false | _ => true end in
              let sl' := mk_slot (lazy sl) (created sl) GRelease (gval sl) (gmode sl)
                                 (if ok then Some (gval sl) else chan sl) true (rx sl) (data sl)
                                 (opened sl) (Some (gval sl))
                                 (match gmode sl with Wait => Nat.eqb (C06.Model.forced (ka s)) 0 | Discard => false end)
                                 (closed sl) (sbc sl) (result sl) in
              mk (ka s) (set_slot s i sl') (borrowed s) (closing s) (appended s) (panicked s) (rets s)
          | GRelease =>
              let sls := set_slot s i (upd sl GGone (gval sl) (gmode sl)) in
              match gmode sl with
              | Wait => ka_step s C06.Model.LDropFlush sls (rets s)
              | Discard => mk (ka s) sls (borrowed s) (closing s) (appended s) (panicked s) (rets s)
              end
          | _ => s
          end
      | None => s
      end
  | WaitPoll i =>
      let allowed := Nat.ltb 0 (C06.Model.owners (ka s)) && negb (C06.Model.handle_mode (ka s)) &&
                     match borrowed s with None => true | Some j => Nat.eqb i j end in
      match nth_error (slots s) i with
      | Some sl =>
          if allowed && negb (lazy sl) then
            match rx sl with
            | RxGone =>   (* `if let Some(rx) = self.rx…` fails: returns &mut self.data at once *)
                mk (ka s) (slots s) None (closing s) (appended s) (panicked s) (rets s ++ [RReady (data sl)])
            | _ =>
                match chan sl with
                | Some v =>
                    let sl' := mk_slot (lazy sl) (created sl) (g sl) (gval sl) (gmode sl) None (tx_gone sl) RxGone (Some v)
                                       (opened sl) (sent sl) (wait_sent sl) (closed sl) (sbc sl) (result sl) in
                    mk (ka s) (set_slot s i sl') None (closing s) (appended s) (panicked s) (rets s ++ [RReady (Some v)])
                | None =>
                    if tx_gone sl then
                      let sl' := mk_slot (lazy sl) (created sl) (g sl) (gval sl) (gmode sl) None (tx_gone sl) RxGone None
                                         (opened sl) (sent sl) (wait_sent sl) (closed sl) (sbc sl) (result sl) in
                      mk (ka s) (set_slot s i sl') None (closing s) (appended s) (panicked s) (rets s ++ [RReady None])
                    else
                      let sl' := mk_slot (lazy sl) (created sl) (g sl) (gval sl) (gmode sl) None (tx_gone sl)
                                         (if fixed then RxSlot else RxFuture) (data sl)
                                         (opened sl) (sent sl) (wait_sent sl) (closed sl) (sbc sl) (result sl) in
                      mk (ka s) (set_slot s i sl') (Some i) (closing s) (appended s) (panicked s) (rets s ++ [RPending])
                end
            end
          else s
      | None => s
      end
  | WaitCancel =>
      match borrowed s with
      | Some i =>
          match nth_error (slots s) i with
          | Some sl =>
              let sl' := mk_slot (lazy sl) (created sl) (g sl) (gval sl) (gmode sl) (chan sl) (tx_gone sl)
                                 (match rx sl with RxFuture => RxGone | r => r end) (data sl)
                                 (opened sl) (sent sl) (wait_sent sl) (closed sl) (sbc sl) (result sl) in
              mk (ka s) (set_slot s i sl') None (closing s) (appended s) (panicked s) (rets s)
          | None => mk (ka s) (slots s) None (closing s) (appended s) (panicked s) (rets s)
          end
      | None => s
      end
  | CloseStep =>
      match closing s with
      | None => s
      | Some k =>
          match nth_error (slots s) k with
          | Some sl =>
              match close_slot sl with
              | Some (sl', _) => mk (ka s) (set_slot s k sl') (borrowed s) (Some (S k)) (appended s) (panicked s) (rets s)
              | None => mk (ka s) (slots s) (borrowed s) None (appended s) true (rets s)
              end
          | None =>   (* all fields closed: sink.append *)
              let lg := match C06.Model.emits (ka s) with sn :: _ => C06.Model.sn_log sn | [] => [] end in
              mk (ka s) (slots s) (borrowed s) None (appended s ++ [(lg, map result (slots s))]) (panicked s) (rets s)
          end
      end
  end.

Definition run_from (s : state) (ls : list label) : state := fold_left step ls s.
Definition run (shape : list bool) (ls : list label) : state := run_from (init shape) ls.

(* ---- sequential execution: every action runs to completion (its guard destructor, the keep-alive
   destructor it may start, and the closing of the entry it may trigger) before the next one ---- *)
Fixpoint iter (n : nat) (l : label) (s : state) : state :=
  match n with O => s | S k => iter k l (step s l) end.

Definition seq_step (s : state) (l : label) : state :=
  let n0 := length (C06.Model.tasks (ka s)) in
  let s1 := step s l in
  let s2 := match l with DropGuard i => iter 2 (GuardStep i) s1 | _ => s1 end in
  let s3 := if Nat.ltb n0 (length (C06.Model.tasks (ka s2))) then iter 6 (KA (C06.Model.LStep n0)) s2 else s2 in
  iter (S (length (slots s3))) CloseStep s3.

Definition seq_run (shape : list bool) (ls : list label) : state := fold_left seq_step ls (init shape).

(* the observation after every action of a sequential history: number of entries appended so far *)
Fixpoint seq_observe (s : state) (ls : list label) : list nat :=
  match ls with
  | [] => []
  | l :: r => let s1 := seq_step s l in length (appended s1) :: seq_observe s1 r
  end.

End Variant.

(* ---- scheduled execution at the granularity of the sync points (repaired code).
   Besides C06's points: the beginning of every action, "slotguard.sent" (between the guard destructor's body
   and the drop of its fields) and "close.field" (harness fields placed between the slots of the entry: the
   closing thread parks after each slot except the last).  One grant lets one thread run to its next sync
   point; it is a short label list of the LTS. *)
Inductive act := AIdle | ATask (i : nat) | AGuard (i : nat).
Record thr13 := mk_thr13 {
  h_rest : list label;     (* actions still to begin *)
  h_act : act;             (* what the thread is in the middle of *)
  h_closer : bool;         (* it is closing the entry *)
  h_stop : option nat      (* the sync point at which it parks once the closing is done *)
}.

Definition is_none {T} (o : option T) : bool := match o with None => true | Some _ => false end.

(* code of the sync point: 0 between actions, 1/2/3 inside DropAll::drop, 4 slotguard.sent, 5 close.field *)
Fixpoint block (fuel : nat) (s : state) (th : thr13) : state * thr13 * nat :=
  match fuel with
  | O => (s, th, 0)
  | S f =>
    if h_closer th then
      let s1 := step true s CloseStep in
      match closing s1 with
      | Some k => if Nat.ltb k (length (slots s1)) then (s1, th, 5) else block f s1 th
      | None =>
          let th1 := mk_thr13 (h_rest th) (h_act th) false None in
          match h_stop th with
          | Some c => (s1, th1, c)
          | None => block f s1 th1
          end
      end
    else
      match h_act th with
      | ATask i =>
          let p0 := C06.Model.pc_at (ka s) i in
          let s1 := step true s (KA (C06.Model.LStep i)) in
          let p1 := C06.Model.pc_at (ka s1) i in
          let started := is_none (closing s) && negb (is_none (closing s1)) in
          let a1 := if C06.Model.pc_eqb p1 C06.Model.PDone then AIdle else ATask i in
          let stop := if C06.Model.stop_after p0 p1 then Some (C06.Model.pc_code p1) else None in
          if started then block f s1 (mk_thr13 (h_rest th) a1 true stop)
          else match stop with
               | Some c => (s1, mk_thr13 (h_rest th) a1 false None, c)
               | None => block f s1 (mk_thr13 (h_rest th) a1 false None)
               end
      | AGuard i =>
          let n0 := length (C06.Model.tasks (ka s)) in
          let s1 := step true s (GuardStep i) in
          if Nat.ltb n0 (length (C06.Model.tasks (ka s1)))
          then block f s1 (mk_thr13 (h_rest th) (ATask n0) false None)
          else (s1, mk_thr13 (h_rest th) AIdle false None, 0)
      | AIdle =>
          match h_rest th with
          | [] => (s, th, 0)
          | l :: r =>
              let n0 := length (C06.Model.tasks (ka s)) in
              let s1 := step true s l in
              let sending := match l with
                             | DropGuard i => match nth_error (slots s1) i with
                                              | Some sl => match g sl with GSend => Some i | _ => None end
                                              | None => None
                                              end
                             | _ => None
                             end in
              match sending with
              | Some i => (step true s1 (GuardStep i), mk_thr13 r (AGuard i) false None, 4)
              | None =>
                  if Nat.ltb n0 (length (C06.Model.tasks (ka s1)))
                  then block f s1 (mk_thr13 r (ATask n0) false None)
                  else (s1, mk_thr13 r AIdle false None, 0)
              end
          end
      end
  end.

Fixpoint grants13 (s : state) (ths : list thr13) (ts : list nat) : list (nat * nat) * state :=
  match ts with
  | [] => ([], s)
  | t :: r =>
      match nth_error ths t with
      | None => let '(o, fin) := grants13 s ths r in ((0, length (appended s)) :: o, fin)
      | Some th =>
          let '(s1, th1, c) := block 40 s th in
          let '(o, fin) := grants13 s1 (C06.Model.set_nth t th1 ths) r in
          ((c, length (appended s1)) :: o, fin)
      end
  end.
