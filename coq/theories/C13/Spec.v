(* C13 — what the user is promised about slots, stated over the user-visible history only (no channel,
   no receiver, no destructor steps): the entry is appended at C06's moment, where a flush guard handed to a
   slot guard lives as long as that slot guard; the entry contains a slot's value exactly when the slot's
   guard was dropped before the entry was closed, and then it is the value as mutated through the guard;
   nothing else in the entry depends on the slots; a slot can be opened once; closing never fails. *)
From Coq Require Import List NArith Bool Arith.
From MV Require Import C06.Model C06.Spec C13.Model.
Import ListNotations.

Inductive sguard :=
| SNotOut                                   (* never opened *)
| SOut (v : value) (holds : bool)           (* the guard is out; holds: it keeps a flush guard of this entry *)
| SDropped (v : value).                     (* the guard has been dropped with this content *)

Record sslot := mk_sslot { s_lazy : bool; s_guard : sguard }.

Record sview := mk_sview {
  sv_ka : view;                   (* C06's bookkeeping; v_fgs counts the flush guards inside slot guards too *)
  sv_slots : list sslot;
  sv_wait : option nat;           (* a pending wait_for_data borrows the owner *)
  sv_appended : list entry;
  sv_rets : list ret
}.

Definition sview_init (shape : list bool) : sview :=
  mk_sview view_init (map (fun lz => mk_sslot lz SNotOut) shape) None [] [].

Definition s_holds (sl : sslot) : bool := match s_guard sl with SOut _ true => true | _ => false end.
Definition s_user_fgs (v : sview) : nat := v_fgs (sv_ka v) - length (filter s_holds (sv_slots v)).
Definition s_owner_free (v : sview) : bool :=
  Nat.ltb 0 (v_owners (sv_ka v)) && negb (v_handle (sv_ka v)) &&
  match sv_wait v with None => true | Some _ => false end.

Definition slot_value (sl : sslot) : option value :=
  match s_guard sl with SDropped v => Some v | _ => None end.

(* a keep-alive action in the reader's bookkeeping; the entry is appended by the action that makes the
   promise due, containing the values of the slots whose guards have been dropped by then *)
Definition s_ka (v : sview) (l : C06.Model.label) (sls : list sslot) (rs : list ret) : sview :=
  let k1 := view_step (sv_ka v) l in
  let now_due := due k1 && negb (due (sv_ka v)) in
  mk_sview k1 sls (sv_wait v)
           (if now_due then sv_appended v ++ [(v_log k1, map slot_value sls)] else sv_appended v) rs.

Definition s_ka_enabled (v : sview) (l : C06.Model.label) : bool :=
  match l with
  | LStep _ => false
  | LDropFlush => Nat.ltb 0 (s_user_fgs v)
  | LDropForce => true
  | _ => match sv_wait v with None => true | Some _ => false end
  end.

Definition set_sslot (v : sview) (i : nat) (sl : sslot) : list sslot := set_nth i sl (sv_slots v).

Definition sstep (v : sview) (l : C13.Model.label) : sview :=
  match l with
  | KA kl => if s_ka_enabled v kl then s_ka v kl (sv_slots v) (sv_rets v) else v
  | Open i w =>
      if s_owner_free v && (negb w || Nat.ltb 0 (s_user_fgs v)) then
        match nth_error (sv_slots v) i with
        | None => v
        | Some sl =>
            match s_guard sl with
            | SNotOut => mk_sview (sv_ka v) (set_sslot v i (mk_sslot (s_lazy sl) (SOut [] w))) (sv_wait v)
                                  (sv_appended v) (sv_rets v ++ [RGuard true])
            | _ => if w then s_ka v LDropFlush (sv_slots v) (sv_rets v ++ [RGuard false])
                   else mk_sview (sv_ka v) (sv_slots v) (sv_wait v) (sv_appended v) (sv_rets v ++ [RGuard false])
            end
        end
      else v
  | SlotMut i x =>
      match nth_error (sv_slots v) i with
      | Some sl => match s_guard sl with
                   | SOut c h => mk_sview (sv_ka v) (set_sslot v i (mk_sslot (s_lazy sl) (SOut (c ++ [x]) h)))
                                          (sv_wait v) (sv_appended v) (sv_rets v)
                   | _ => v
                   end
      | None => v
      end
  | DelayFlush i =>
      match nth_error (sv_slots v) i with
      | Some sl => match s_guard sl with
                   | SOut c h =>
                       if Nat.ltb 0 (s_user_fgs v) then
                         if h then s_ka v LDropFlush (sv_slots v) (sv_rets v)
                         else mk_sview (sv_ka v) (set_sslot v i (mk_sslot (s_lazy sl) (SOut c true)))
                                       (sv_wait v) (sv_appended v) (sv_rets v)
                       else v
                   | _ => v
                   end
      | None => v
      end
  | DropGuard i =>
      match nth_error (sv_slots v) i with
      | Some sl => match s_guard sl with
                   | SOut c h =>
                       let sls := set_sslot v i (mk_sslot (s_lazy sl) (SDropped c)) in
                       if h then s_ka v LDropFlush sls (sv_rets v)
                       else mk_sview (sv_ka v) sls (sv_wait v) (sv_appended v) (sv_rets v)
                   | _ => v
                   end
      | None => v
      end
  | WaitPoll i =>
      let allowed := Nat.ltb 0 (v_owners (sv_ka v)) && negb (v_handle (sv_ka v)) &&
                     match sv_wait v with None => true | Some j => Nat.eqb i j end in
      match nth_error (sv_slots v) i with
      | Some sl =>
          if allowed && negb (s_lazy sl) then
            match s_guard sl with
            | SDropped c => mk_sview (sv_ka v) (sv_slots v) None (sv_appended v) (sv_rets v ++ [RReady (Some c)])
            | _ => mk_sview (sv_ka v) (sv_slots v) (Some i) (sv_appended v) (sv_rets v ++ [RPending])
            end
          else v
      | None => v
      end
  | WaitCancel => mk_sview (sv_ka v) (sv_slots v) None (sv_appended v) (sv_rets v)
  | GuardStep _ | CloseStep => v
  end.

(* expected observation of a sequential history: number of appended entries after every action *)
Fixpoint sobserve (v : sview) (ls : list C13.Model.label) : list nat :=
  match ls with
  | [] => []
  | l :: r => let v1 := sstep v l in length (sv_appended v1) :: sobserve v1 r
  end.
Definition srun (shape : list bool) (ls : list C13.Model.label) : sview := fold_left sstep ls (sview_init shape).

(* ---- the promise checked on the observation of a scheduled (multi-thread) run.
   A grant is (thread, sync point reached, entries appended so far).  A thread that is not in the middle of
   an action begins its next action when granted; the reader's bookkeeping [sstep] is applied at that moment
   (an action's visible effect - the guard's send, the begin of a drop - happens in its first block).
   Observed: the slot whose guard began dropping in an earlier grant than the one in which the parent closed
   that slot is present with the guard's content, every other slot is absent; the entry's own fields are the
   owner's mutations; the append is not early and not late; open/wait results are the specification's. *)
Record tstate := mk_tstate {
  t_view : sview;
  t_rest : list (list C13.Model.label);
  t_mid : list bool;
  t_prev : nat;                       (* entries appended so far *)
  t_step : nat;                       (* index of the grant *)
  t_dropped_at : list (option nat);   (* per slot: grant in which its guard began dropping *)
  t_closed_at : list nat              (* grants in which the closing thread finished one more slot (code 5) *)
}.

Fixpoint nth_list {T} (l : list (list T)) (t : nat) : list T :=
  match l, t with [], _ => [] | x :: _, O => x | _ :: r, S k => nth_list r k end.

Definition guard_out (v : sview) (i : nat) : bool :=
  match nth_error (sv_slots v) i with
  | Some sl => match s_guard sl with SOut _ _ => true | _ => false end
  | None => false
  end.

Fixpoint trace13 (st : tstate) (tr : list (nat * nat * nat)) (ok : bool) : bool * tstate :=
  match tr with
  | [] => (ok, st)
  | (t, code, cnt) :: r =>
      let in_mid := nth t (t_mid st) false in
      let op := match nth_list (t_rest st) t with [] => None | l :: _ => Some l end in
      let begins := negb in_mid in
      let v := t_view st in
      let v1 := if begins then match op with Some l => sstep v l | None => v end else v in
      let rest1 := if begins then set_nth t (tl (nth_list (t_rest st) t)) (t_rest st) else t_rest st in
      let mid1 := set_nth t (negb (Nat.eqb code 0)) (t_mid st) in
      let dropped1 := if begins then
                        match op with
                        | Some (DropGuard i) => if guard_out v i then set_nth i (Some (t_step st)) (t_dropped_at st)
                                                else t_dropped_at st
                        | _ => t_dropped_at st
                        end
                      else t_dropped_at st in
      let closed1 := if Nat.eqb code 5 then t_closed_at st ++ [t_step st] else t_closed_at st in
      let d1 := due (sv_ka v1) in
      let ok1 := ok && Nat.leb (t_prev st) cnt && Nat.leb cnt 1 &&
                 (if Nat.eqb cnt 1 then d1 else true) &&
                 (if forallb negb mid1 then Nat.eqb cnt (if d1 then 1 else 0) else true) in
      let closed2 := if Nat.eqb cnt 1 && Nat.eqb (t_prev st) 0 then closed1 ++ [t_step st] else closed1 in
      trace13 (mk_tstate v1 rest1 mid1 cnt (S (t_step st)) dropped1 closed2) r ok1
  end.

(* the expected entry: slot i is present iff its guard began dropping in an earlier grant than the one that
   closed slot i (the k-th close event closes slot k; slots closed in the appending grant share its index) *)
Fixpoint expected_slots (i : nat) (sls : list sslot) (dropped : list (option nat)) (closed : list nat) (last : nat)
  : list (option value) :=
  match sls with
  | [] => []
  | sl :: r =>
      let c := nth i closed last in
      let present := match nth i dropped None with Some d => Nat.ltb d c | None => false end in
      (if present then slot_value sl else None) :: expected_slots (S i) r dropped closed last
  end.
