(* C13 — invariants of the slot mechanism (repaired wait_for_data), for every label list. *)
From Coq Require Import List NArith Bool Arith Lia.
From MV Require Import C06.Model C06.Spec C06.Inv C06.Proofs C13.Model.
Import ListNotations.

Notation kstate := C06.Model.state.
Notation kstep := C06.Model.step.
Notation stepT := (C13.Model.step true).

(* ---------- list facts ---------- *)
Lemma set_nth_length : forall T i (x : T) l, length (set_nth i x l) = length l.
Proof. induction i; destruct l; cbn; auto. Qed.

Lemma Forall_set_nth : forall T (P : T -> Prop) i x l, Forall P l -> P x -> Forall P (set_nth i x l).
Proof.
  induction i; destruct l; cbn; intros H Hx; auto; inversion H; subst; constructor; auto.
Qed.

Lemma map_set_nth_same : forall T U (f : T -> U) i x y l, nth_error l i = Some y -> f x = f y ->
  map f (set_nth i x l) = map f l.
Proof.
  induction i; destruct l; cbn; intros H E; try discriminate; auto.
  - inversion H; subst. rewrite E. reflexivity.
  - f_equal. eapply IHi; eauto.
Qed.

Lemma map_set_nth : forall T U (f : T -> U) i x l, map f (set_nth i x l) = set_nth i (f x) (map f l).
Proof. induction i; destruct l; cbn; intros; auto. f_equal. apply IHi. Qed.

Lemma filter_len_set_nth : forall T (f : T -> bool) i x y l, nth_error l i = Some y ->
  length (filter f (set_nth i x l)) + b2n (f y) = length (filter f l) + b2n (f x).
Proof.
  induction i; destruct l; cbn; intros H; try discriminate.
  - inversion H; subst. destruct (f x), (f y); cbn; lia.
  - specialize (IHi x y l H). destruct (f t); cbn; lia.
Qed.

Lemma nth_error_set_nth_eq : forall T i (x : T) l, i < length l -> nth_error (set_nth i x l) i = Some x.
Proof. induction i; destruct l; cbn; intros; try lia; auto. apply IHi. lia. Qed.
Lemma nth_error_set_nth_neq : forall T i j (x : T) l, i <> j -> nth_error (set_nth i x l) j = nth_error l j.
Proof. induction i; destruct l, j; cbn; intros; try congruence; auto. Qed.

Lemma set_nth_repeat : forall k n, k < n ->
  set_nth k true (repeat true k ++ repeat false (n - k)) = repeat true (S k) ++ repeat false (n - S k).
Proof.
  induction k; intros n H.
  - destruct n; [lia|]. cbn. rewrite Nat.sub_0_r. reflexivity.
  - destruct n; [lia|]. cbn [repeat app set_nth Nat.sub]. f_equal.
    replace (n - k) with (n - k) by lia. apply (IHk n). lia.
Qed.

(* ---------- the per-slot invariant (facts that involve one slot only) ---------- *)
Definition is_some {T} (o : option T) : bool := match o with Some _ => true | None => false end.

Record slot_inv (sl : slot) : Prop := mk_slot_inv {
  si_rx : rx sl <> RxFuture;
  si_open : closed sl = false ->
      match sent sl with
      | None => chan sl = None /\ data sl = None /\ rx sl = RxSlot /\ tx_gone sl = false
      | Some v => tx_gone sl = true /\
                  ((chan sl = Some v /\ data sl = None /\ rx sl = RxSlot) \/
                   (chan sl = None /\ data sl = Some v /\ rx sl = RxGone))
      end;
  si_closed : closed sl = true ->
      rx sl = RxGone /\ result sl = (if sbc sl then sent sl else None) /\ (sbc sl = true -> sent sl <> None);
  si_sent : match sent sl with
            | None => g sl = GHome \/ g sl = GLive \/ g sl = GSend
            | Some v => (g sl = GRelease \/ g sl = GGone) /\ v = gval sl
            end;
  si_created : (lazy sl = false -> created sl = true) /\ (created sl = false -> g sl = GHome);
  si_opened : opened sl <= 1 /\ (opened sl = 0 <-> (g sl = GHome /\ (lazy sl = true -> created sl = false)));
  si_home : g sl = GHome -> gmode sl = Discard
}.

Lemma slot_inv_init : forall lz, slot_inv (slot_init lz).
Proof.
  intros lz. constructor; cbn; auto; try discriminate; try tauto.
  - split; intros; auto. destruct lz; cbn in *; auto; discriminate.
  - split; [lia|]. split; auto. intros _. split; auto. destruct lz; auto.
Qed.

(* ---------- the global invariant ---------- *)
Definition flags (s : state) : list bool := map closed (slots s).
Definition n_slots (s : state) : nat := length (slots s).

Record inv13 (s : state) : Prop := mk_inv13 {
  j_ka : C06.Inv.inv (ka s);
  j_slots : Forall slot_inv (slots s);
  j_held : held s <= fgs (ka s);
  j_nopanic : panicked s = false;
  j_before : emits (ka s) = [] -> closing s = None /\ appended s = [] /\ flags s = repeat false (n_slots s);
  j_during : forall k, closing s = Some k ->
             emits (ka s) <> [] /\ appended s = [] /\ k <= n_slots s /\
             flags s = repeat true k ++ repeat false (n_slots s - k);
  j_after : emits (ka s) <> [] -> closing s = None ->
            flags s = repeat true (n_slots s) /\
            exists sn, emits (ka s) = [sn] /\ appended s = [(sn_log sn, map result (slots s))];
  (* a guard that sent while it held its flush guard and no force-flush guard had begun dropping
     sent before the parent closed the slot *)
  j_wait : Forall (fun sl => wait_sent sl = true -> sent sl <> None /\ (closed sl = true -> sbc sl = true)) (slots s)
}.

Lemma inv13_init : forall shape, inv13 (init shape).
Proof.
  intros shape. constructor; cbn.
  - apply inv_init.
  - apply Forall_forall. intros x Hx. apply in_map_iff in Hx. destruct Hx as (lz & <- & _). apply slot_inv_init.
  - unfold held. cbn. induction shape; cbn; auto.
  - reflexivity.
  - intros _. repeat split; auto. unfold flags, n_slots. cbn. rewrite map_map, map_length. cbn.
    induction shape; cbn; auto. f_equal. auto.
  - intros k H. discriminate.
  - intros H. congruence.
  - apply Forall_forall. intros x Hx. apply in_map_iff in Hx. destruct Hx as (lz & <- & _). cbn. discriminate.
Qed.

Lemma held_pos : forall s i sl, nth_error (slots s) i = Some sl -> holds_guard sl = true -> held s >= 1.
Proof.
  intros s i sl H Hh. unfold held. revert i H. induction (slots s) as [|x r IH]; intros i H.
  - destruct i; discriminate.
  - destruct i; cbn in H.
    + inversion H; subst. cbn. rewrite Hh. cbn. lia.
    + cbn. specialize (IH i H). destruct (holds_guard x); cbn; lia.
Qed.

Lemma repeat_false_nth : forall (l : list slot) i sl, map closed l = repeat false (length l) ->
  nth_error l i = Some sl -> closed sl = false.
Proof.
  induction l; intros i sl H Hn; destruct i; cbn in *; try discriminate.
  - inversion Hn; subst. injection H as H1 H2. auto.
  - injection H as H1 H2. eapply IHl; eauto.
Qed.

(* while a slot guard holds its flush guard and no force-flush guard has begun dropping, the entry's close
   has not begun *)
Lemma holding_blocks_close : forall s i sl, inv13 s -> nth_error (slots s) i = Some sl ->
  holds_guard sl = true -> forced (ka s) = 0 ->
  emits (ka s) = [] /\ closing s = None /\ appended s = [] /\ closed sl = false.
Proof.
  intros s i sl I Hn Hh Hf.
  pose proof (held_pos s i sl Hn Hh) as Hp. pose proof (j_held s I) as Hhe.
  assert (He : emits (ka s) = []).
  { destruct (emits (ka s)) as [|sn r] eqn:E; auto. exfalso.
    pose proof (emitted_le_1 _ (j_ka s I)) as Hl. rewrite E in Hl. destruct r; [|cbn in Hl; lia].
    assert (Hd : due (view_of_state (ka s)) = true) by (apply emitted_due; [apply (j_ka s I) | rewrite E; reflexivity]).
    apply due_iff in Hd. unfold view_of_state in Hd. cbn in Hd. lia. }
  destruct (j_before s I He) as (H1 & H2 & H3).
  repeat split; auto. eapply repeat_false_nth; eauto.
Qed.

(* ---------- shape P: one slot is replaced, the keep-alive state is untouched ---------- *)
Lemma P_preserve : forall s i sl sl' b r, inv13 s -> nth_error (slots s) i = Some sl ->
  slot_inv sl' -> closed sl' = closed sl -> result sl' = result sl ->
  (holds_guard sl' = true -> holds_guard sl = true \/ user_fgs s > 0) ->
  (wait_sent sl' = true -> sent sl' <> None /\ (closed sl' = true -> sbc sl' = true)) ->
  inv13 (mk (ka s) (set_slot s i sl') b (closing s) (appended s) (panicked s) r).
Proof.
  intros s i sl sl' b r I Hn Hsi Hc Hr Hh Hw.
  assert (Hfl : map closed (set_slot s i sl') = map closed (slots s)) by (eapply map_set_nth_same; eauto).
  assert (Hre : map result (set_slot s i sl') = map result (slots s)) by (eapply map_set_nth_same; eauto).
  assert (Hlen : length (set_slot s i sl') = length (slots s)) by apply set_nth_length.
  constructor; cbn [ka slots closing appended panicked].
  - apply (j_ka s I).
  - apply Forall_set_nth; auto. apply (j_slots s I).
  - pose proof (filter_len_set_nth _ holds_guard i sl' sl (slots s) Hn) as Hf.
    pose proof (j_held s I) as Hhe. unfold user_fgs, held in *. cbn [slots ka].
    unfold set_slot. destruct (holds_guard sl') eqn:E1, (holds_guard sl) eqn:E2; cbn [b2n] in *; try lia.
    all: destruct (Hh eq_refl) as [?|?]; [discriminate | lia].
  - apply (j_nopanic s I).
  - intros He. destruct (j_before s I He) as (H1 & H2 & H3). repeat split; auto.
    unfold flags, n_slots in *. cbn [slots]. rewrite Hfl, Hlen. auto.
  - intros k Hk. destruct (j_during s I k Hk) as (H1 & H2 & H3 & H4). repeat split; auto.
    + unfold n_slots in *. cbn [slots]. rewrite Hlen. auto.
    + unfold flags, n_slots in *. cbn [slots]. rewrite Hfl, Hlen. auto.
  - intros He Hk. destruct (j_after s I He Hk) as (H1 & sn & H2 & H3). split.
    + unfold flags, n_slots in *. cbn [slots]. rewrite Hfl, Hlen. auto.
    + exists sn. split; auto. rewrite Hre. auto.
  - apply Forall_set_nth; auto. apply (j_wait s I).
Qed.

(* ---------- shape K: a keep-alive step, the slots are untouched ---------- *)
Lemma fgs_kstep : forall k l, fgs (kstep k l) = fgs k \/ (l = LNewFlush /\ fgs (kstep k l) = S (fgs k)) \/
                               (l = LDropFlush /\ fgs (kstep k l) = pred (fgs k)).
Proof.
  intros k l. destruct l; cbn [kstep];
  try (match goal with |- context [if ?c then _ else _] => destruct c end; cbn; auto).
  left. unfold step_task. destruct (nth_error (tasks k) i) as [p|]; auto.
  destruct p; cbn; auto.
  - destruct (closure k); auto.
  - destruct (Nat.eqb (grc k) 0); auto.
  - destruct (locked k); auto.
Qed.

Lemma emits_kstep : forall k l, C06.Inv.inv k ->
  (emits (kstep k l) = emits k) \/ (emits k = [] /\ exists sn, emits (kstep k l) = [sn]).
Proof.
  intros k l I. destruct (step_emits_ext k l) as (ext & E).
  pose proof (emitted_le_1 _ (inv_step k l I)) as Hl. rewrite E in *.
  destruct ext as [|x ext]; [left; rewrite app_nil_r; auto|].
  right. rewrite app_length in Hl. cbn in Hl. destruct (emits k); cbn in Hl; [|lia].
  destruct ext; cbn in Hl; [|lia]. split; auto. exists x. reflexivity.
Qed.

Lemma K_preserve : forall s kl r, inv13 s -> (kl = LDropFlush -> user_fgs s > 0) ->
  inv13 (ka_step s kl (slots s) r).
Proof.
  intros s kl r I Hd. unfold ka_step.
  pose proof (j_ka s I) as Ik.
  destruct (emits_kstep (ka s) kl Ik) as [E | (E0 & sn & E1)].
  - rewrite E, Nat.ltb_irrefl. constructor; cbn [ka slots closing appended panicked].
    + apply inv_step; auto.
    + apply (j_slots s I).
    + pose proof (j_held s I). unfold user_fgs, held in *. cbn [slots ka].
      destruct (fgs_kstep (ka s) kl) as [F | [(_ & F) | (Hl & F)]]; rewrite F; try lia.
      specialize (Hd Hl). lia.
    + apply (j_nopanic s I).
    + rewrite E. apply (j_before s I).
    + rewrite E. apply (j_during s I).
    + rewrite E. apply (j_after s I).
    + apply (j_wait s I).
  - rewrite E0, E1. cbn [length Nat.ltb Nat.leb].
    destruct (j_before s I E0) as (H1 & H2 & H3).
    constructor; cbn [ka slots closing appended panicked].
    + apply inv_step; auto.
    + apply (j_slots s I).
    + pose proof (j_held s I). unfold user_fgs, held in *. cbn [slots ka].
      destruct (fgs_kstep (ka s) kl) as [F | [(_ & F) | (Hl & F)]]; rewrite F; try lia.
      specialize (Hd Hl). lia.
    + apply (j_nopanic s I).
    + rewrite E1. discriminate.
    + intros k Hk. inversion Hk; subst. rewrite E1. repeat split; auto; try discriminate; try lia.
      cbn. rewrite Nat.sub_0_r. exact H3.
    + intros _ Hk. discriminate.
    + apply (j_wait s I).
Qed.

Lemma ka_step_via : forall s kl sls r,
  ka_step s kl sls r = ka_step (mk (ka s) sls (borrowed s) (closing s) (appended s) (panicked s) r) kl sls r.
Proof. reflexivity. Qed.

(* ---------- shape C: the closing thread closes the next slot, or appends ---------- *)
Lemma nth_flags_false : forall k n (l : list slot) sl, map closed l = repeat true k ++ repeat false (n - k) ->
  nth_error l k = Some sl -> closed sl = false.
Proof.
  induction k; intros n l sl H Hn; destruct l; cbn in Hn; try discriminate.
  - inversion Hn; subst. cbn in H. destruct (n - 0); cbn in H; [discriminate|]. injection H as H1 _. auto.
  - cbn in H. injection H as _ H2. destruct n; cbn in H2.
    + apply (IHk 0 l sl); auto.
    + eapply IHk; eauto.
Qed.

Lemma close_slot_ok : forall sl, slot_inv sl -> closed sl = false ->
  exists sl' v, close_slot sl = Some (sl', v) /\ slot_inv sl' /\ closed sl' = true /\
                holds_guard sl' = holds_guard sl /\ wait_sent sl' = wait_sent sl /\ sent sl' = sent sl /\
                sbc sl' = is_some (sent sl).
Proof.
  intros sl I Hc. destruct I as [Irx Iop Icl Ise Icr Iopn Ih]. specialize (Iop Hc).
  destruct sl as [lz cr g0 gv gm ch tg r d op se ws cl sb res]; cbn in *. subst cl.
  unfold close_slot; cbn.
  destruct cr; cbn.
  - destruct se as [v|].
    + destruct Iop as (Ht & [(H1 & H2 & H3) | (H1 & H2 & H3)]); subst; cbn.
      * eexists _, _. split; [reflexivity|]. repeat split; cbn; auto; try discriminate; try tauto.
      * eexists _, _. split; [reflexivity|]. repeat split; cbn; auto; try discriminate; try tauto.
    + destruct Iop as (H1 & H2 & H3 & H4); subst; cbn.
      eexists _, _. split; [reflexivity|]. repeat split; cbn; auto; try discriminate; try tauto.
  - assert (g0 = GHome) by (apply Icr; auto). subst g0.
    destruct se as [v|]; [destruct Ise as ([?|?] & _); discriminate|].
    eexists _, _. split; [reflexivity|]. repeat split; cbn; auto; try discriminate; try tauto.
Qed.

Lemma C_preserve : forall s, inv13 s -> inv13 (stepT s CloseStep).
Proof.
  intros s I. cbn [C13.Model.step]. destruct (closing s) as [k|] eqn:Ek; [|exact I].
  destruct (j_during s I k Ek) as (He & Ha & Hk & Hf).
  destruct (nth_error (slots s) k) as [sl|] eqn:En.
  - assert (Hsl : slot_inv sl).
    { pose proof (j_slots s I) as F. rewrite Forall_forall in F. apply F. eapply nth_error_In; eauto. }
    assert (Hc : closed sl = false) by (eapply nth_flags_false; eauto).
    destruct (close_slot_ok sl Hsl Hc) as (sl' & v & E & Hsl' & Hc' & Hh & Hw & Hs & Hb). rewrite E.
    assert (Hkn : k < n_slots s) by (unfold n_slots; apply nth_error_Some; congruence).
    assert (Hlen : length (set_slot s k sl') = length (slots s)) by apply set_nth_length.
    constructor; cbn [ka slots closing appended panicked].
    + apply (j_ka s I).
    + apply Forall_set_nth; auto. apply (j_slots s I).
    + pose proof (filter_len_set_nth _ holds_guard k sl' sl (slots s) En) as Hfl.
      pose proof (j_held s I). unfold held in *. cbn [slots ka]. unfold set_slot. rewrite Hh in Hfl. lia.
    + apply (j_nopanic s I).
    + intros; contradiction.
    + intros k' Hk'. inversion Hk'; subst k'. repeat split; auto.
      * unfold n_slots in *. cbn [slots]. rewrite Hlen. lia.
      * unfold flags, n_slots in *. cbn [slots]. rewrite Hlen. unfold set_slot. rewrite map_set_nth, Hc', Hf.
        apply set_nth_repeat. auto.
    + intros _ Hk'. discriminate.
    + apply Forall_set_nth; [apply (j_wait s I)|]. intros Hws. rewrite Hw in Hws.
      pose proof (j_wait s I) as F. rewrite Forall_forall in F.
      destruct (F sl (nth_error_In _ _ En) Hws) as (Hne & _). rewrite Hs. split; auto.
      intros _. rewrite Hb. destruct (sent sl); auto; congruence.
  - assert (Hkn : k = n_slots s).
    { unfold n_slots in *. apply nth_error_None in En. lia. }
    subst k. rewrite Nat.sub_diag in Hf. cbn in Hf. rewrite app_nil_r in Hf.
    pose proof (emitted_le_1 _ (j_ka s I)) as Hl.
    destruct (emits (ka s)) as [|sn rest] eqn:Ee; [congruence|]. destruct rest; [|cbn in Hl; lia].
    constructor; cbn [ka slots closing appended panicked].
    + apply (j_ka s I).
    + apply (j_slots s I).
    + apply (j_held s I).
    + apply (j_nopanic s I).
    + rewrite Ee. discriminate.
    + intros k' Hk'. discriminate.
    + intros _ _. split; auto. exists sn. rewrite Ee, Ha. split; reflexivity.
    + apply (j_wait s I).
Qed.

Lemma inv13_ext : forall s b r, inv13 s -> inv13 (mk (ka s) (slots s) b (closing s) (appended s) (panicked s) r).
Proof. intros s b r I. destruct I. constructor; auto. Qed.

(* ---------- per-slot updates ---------- *)
Ltac break_inv I := destruct I as [Irx Iop Icl Ise Icr Iopn Ih].
Ltac slot_simpl := cbn [lazy created g gval gmode chan tx_gone rx data opened sent wait_sent closed sbc result] in *.

Lemma si_open_fresh : forall sl (w : bool), slot_inv sl ->
  (if lazy sl then negb (created sl) else match g sl with GHome => true | _ => false end) = true ->
  slot_inv (mk_slot (lazy sl) true GLive (gval sl) (if w then Wait else Discard) (chan sl) (tx_gone sl) (rx sl) (data sl)
                    (S (opened sl)) (sent sl) (wait_sent sl) (closed sl) (sbc sl) (result sl))
  /\ holds_guard sl = false.
Proof.
  intros sl w I F. break_inv I.
  assert (Hg : g sl = GHome).
  { destruct (lazy sl); [apply Icr; destruct (created sl); auto; discriminate | destruct (g sl); auto; discriminate]. }
  assert (Hs : sent sl = None).
  { destruct (sent sl); auto. destruct Ise as ([?|?] & _); congruence. }
  assert (Ho : opened sl = 0).
  { apply Iopn. split; auto. intros Hl. rewrite Hl in F. destruct (created sl); auto; discriminate. }
  split.
  - constructor; slot_simpl; auto.
    + rewrite Hs in *. auto.
    + split; auto. intros; discriminate.
    + rewrite Ho. split; [lia|]. split; [discriminate | intros (? & _); discriminate].
    + discriminate.
  - unfold holds_guard. rewrite Hg. destruct (gmode sl); reflexivity.
Qed.

Lemma si_upd_live : forall sl v m, slot_inv sl -> g sl = GLive -> slot_inv (upd sl GLive v m).
Proof.
  intros sl v m I Hg. break_inv I.
  assert (Hs : sent sl = None) by (destruct (sent sl); auto; destruct Ise as ([?|?] & _); congruence).
  constructor; unfold upd; slot_simpl; auto.
  - rewrite Hs in *. auto.
  - destruct Icr as (? & Hc). split; auto. intros Hcr. specialize (Hc Hcr). congruence.
  - destruct Iopn as (? & Hi). split; auto. split.
    + intros Ho. apply Hi in Ho. destruct Ho; congruence.
    + intros (? & _). discriminate.
  - discriminate.
Qed.

Lemma si_upd_send : forall sl, slot_inv sl -> g sl = GLive -> slot_inv (upd sl GSend (gval sl) (gmode sl)).
Proof.
  intros sl I Hg. break_inv I.
  assert (Hs : sent sl = None) by (destruct (sent sl); auto; destruct Ise as ([?|?] & _); congruence).
  constructor; unfold upd; slot_simpl; auto.
  - rewrite Hs in *. auto.
  - destruct Icr as (? & Hc). split; auto. intros Hcr. specialize (Hc Hcr). congruence.
  - destruct Iopn as (? & Hi). split; auto. split.
    + intros Ho. apply Hi in Ho. destruct Ho; congruence.
    + intros (? & _). discriminate.
  - discriminate.
Qed.

Lemma si_send : forall sl ws, slot_inv sl -> g sl = GSend ->
  slot_inv (mk_slot (lazy sl) (created sl) GRelease (gval sl) (gmode sl)
                    (if match rx sl with RxGone => false | _ => true end then Some (gval sl) else chan sl)
                    true (rx sl) (data sl) (opened sl) (Some (gval sl)) ws (closed sl) (sbc sl) (result sl)).
Proof.
  intros sl ws I Hg. break_inv I.
  assert (Hs : sent sl = None) by (destruct (sent sl); auto; destruct Ise as ([?|?] & _); congruence).
  rewrite Hs in *.
  constructor; slot_simpl; auto.
  - intros Hc. destruct (Iop Hc) as (H1 & H2 & H3 & H4). rewrite H3. split; auto.
  - intros Hc. destruct (Icl Hc) as (H1 & H2 & H3). split; auto.
    destruct (sbc sl); [exfalso; apply H3; auto|]. split; auto. intros; discriminate.
  - destruct Icr as (? & Hc). split; auto. intros Hcr. specialize (Hc Hcr). congruence.
  - destruct Iopn as (? & Hi). split; auto. split.
    + intros Ho. apply Hi in Ho. destruct Ho; congruence.
    + intros (? & _). discriminate.
  - discriminate.
Qed.

Lemma si_gone : forall sl, slot_inv sl -> g sl = GRelease -> slot_inv (upd sl GGone (gval sl) (gmode sl)).
Proof.
  intros sl I Hg. break_inv I.
  constructor; unfold upd; slot_simpl; auto.
  - destruct (sent sl); [destruct Ise; auto | destruct Ise as [?|[?|?]]; congruence].
  - destruct Icr as (? & Hc). split; auto. intros Hcr. specialize (Hc Hcr). congruence.
  - destruct Iopn as (? & Hi). split; auto. split.
    + intros Ho. apply Hi in Ho. destruct Ho; congruence.
    + intros (? & _). discriminate.
  - discriminate.
Qed.

Lemma si_recv : forall sl v, slot_inv sl -> rx sl <> RxGone -> chan sl = Some v ->
  slot_inv (mk_slot (lazy sl) (created sl) (g sl) (gval sl) (gmode sl) None (tx_gone sl) RxGone (Some v)
                    (opened sl) (sent sl) (wait_sent sl) (closed sl) (sbc sl) (result sl))
  /\ closed sl = false.
Proof.
  intros sl v I Hr Hc. break_inv I.
  assert (Hcl : closed sl = false).
  { destruct (closed sl); auto. destruct (Icl eq_refl) as (? & _). congruence. }
  split; auto. specialize (Iop Hcl).
  constructor; slot_simpl; auto; try discriminate.
  - intros _. destruct (sent sl) as [v0|].
    + destruct Iop as (Ht & [(H1 & H2 & H3) | (H1 & H2 & H3)]); [|congruence].
      split; auto. right. rewrite H1 in Hc. inversion Hc; subst. auto.
    + destruct Iop as (H1 & _). congruence.
  - intros Hx. congruence.
Qed.

Lemma si_txgone_unreachable : forall sl, slot_inv sl -> rx sl <> RxGone -> chan sl = None -> tx_gone sl = true -> False.
Proof.
  intros sl I Hr Hc Ht. break_inv I.
  assert (Hcl : closed sl = false).
  { destruct (closed sl); auto. destruct (Icl eq_refl) as (? & _). congruence. }
  specialize (Iop Hcl). destruct (sent sl).
  - destruct Iop as (_ & [(H1 & _) | (_ & _ & H3)]); congruence.
  - destruct Iop as (_ & _ & _ & H4). congruence.
Qed.

Lemma si_pending : forall sl, slot_inv sl -> rx sl <> RxGone -> chan sl = None ->
  mk_slot (lazy sl) (created sl) (g sl) (gval sl) (gmode sl) None (tx_gone sl) RxSlot (data sl)
          (opened sl) (sent sl) (wait_sent sl) (closed sl) (sbc sl) (result sl) = sl.
Proof.
  intros sl I Hr Hc. break_inv I. destruct sl as [a1 a2 a3 a4 a5 a6 a7 r a9 b1 b2 b3 b4 b5 b6]; slot_simpl. subst.
  destruct r; try congruence.
Qed.

Lemma si_cancel : forall sl, slot_inv sl ->
  mk_slot (lazy sl) (created sl) (g sl) (gval sl) (gmode sl) (chan sl) (tx_gone sl)
          (match rx sl with RxFuture => RxGone | r => r end) (data sl)
          (opened sl) (sent sl) (wait_sent sl) (closed sl) (sbc sl) (result sl) = sl.
Proof.
  intros sl I. break_inv I. destruct sl as [a1 a2 a3 a4 a5 a6 a7 r a9 b1 b2 b3 b4 b5 b6]; slot_simpl.
  destruct r; try congruence.
Qed.

Lemma set_nth_same_id : forall T i (x : T) l, nth_error l i = Some x -> set_nth i x l = l.
Proof. induction i; destruct l; cbn; intros H; try discriminate; auto. - inversion H; auto. - f_equal; auto. Qed.

Lemma slot_at : forall s i sl, inv13 s -> nth_error (slots s) i = Some sl ->
  slot_inv sl /\ (wait_sent sl = true -> sent sl <> None /\ (closed sl = true -> sbc sl = true)).
Proof.
  intros s i sl I H. pose proof (j_slots s I) as F1. pose proof (j_wait s I) as F2.
  rewrite Forall_forall in F1, F2. apply nth_error_In in H. split; [apply F1 | apply F2]; auto.
Qed.

(* the guard's last action: the slot is marked gone and its flush guard begins dropping *)
Lemma PK_release : forall s i sl sl' r, inv13 s -> nth_error (slots s) i = Some sl ->
  slot_inv sl' -> closed sl' = closed sl -> result sl' = result sl ->
  holds_guard sl = true -> holds_guard sl' = false ->
  (wait_sent sl' = true -> sent sl' <> None /\ (closed sl' = true -> sbc sl' = true)) ->
  inv13 (ka_step s LDropFlush (set_slot s i sl') r).
Proof.
  intros s i sl sl' r I Hn H1 H2 H3 Ha Hb H5.
  rewrite ka_step_via.
  assert (I0 : inv13 (mk (ka s) (set_slot s i sl') (borrowed s) (closing s) (appended s) (panicked s) r)).
  { apply (P_preserve s i sl sl'); auto. }
  apply (K_preserve _ LDropFlush r I0). intros _.
  unfold user_fgs, held in *. cbn [ka slots].
  pose proof (filter_len_set_nth _ holds_guard i sl' sl (slots s) Hn) as Hf. unfold set_slot.
  rewrite Ha, Hb in Hf. cbn [b2n] in Hf. pose proof (j_held s I) as Hh. unfold held in Hh. lia.
Qed.

Lemma wait_same : forall sl sl', wait_sent sl' = wait_sent sl -> sent sl' = sent sl -> closed sl' = closed sl ->
  sbc sl' = sbc sl ->
  (wait_sent sl = true -> sent sl <> None /\ (closed sl = true -> sbc sl = true)) ->
  (wait_sent sl' = true -> sent sl' <> None /\ (closed sl' = true -> sbc sl' = true)).
Proof. intros sl sl' -> -> -> ->. auto. Qed.

Ltac psolve sl :=
  auto; try (apply (wait_same sl); auto; fail);
  try (unfold holds_guard, upd; cbn [g gmode]; intros; auto; fail).

Theorem inv13_step : forall s l, inv13 s -> inv13 (stepT s l).
Proof.
  intros s l I. destruct l; cbn [C13.Model.step].
  - (* KA *)
    destruct (ka_enabled s l) eqn:En; [|exact I].
    apply K_preserve; auto. intros ->. cbn [ka_enabled] in En. apply Nat.ltb_lt in En. lia.
  - (* Open *)
    destruct (owner_free s && (negb w || Nat.ltb 0 (user_fgs s))) eqn:En; [|exact I].
    apply andb_prop in En. destruct En as [_ En].
    destruct (nth_error (slots s) i) as [sl|] eqn:Hn; [|exact I].
    destruct (slot_at s i sl I Hn) as (Hsl & Hw).
    match goal with |- context [if ?c then _ else _] => destruct c eqn:Fr end.
    + destruct (si_open_fresh sl w Hsl Fr) as (Hsl' & Hh).
      apply (P_preserve s i sl); psolve sl.
      intros Hh'. right. unfold holds_guard in Hh'. cbn in Hh'. destruct w; [|discriminate].
      cbn [negb orb] in En. apply Nat.ltb_lt in En. lia.
    + destruct w.
      * apply K_preserve; auto. intros _. cbn [negb orb] in En. apply Nat.ltb_lt in En. lia.
      * apply inv13_ext; auto.
  - (* SlotMut *)
    destruct (nth_error (slots s) i) as [sl|] eqn:Hn; [|exact I].
    destruct (slot_at s i sl I Hn) as (Hsl & Hw).
    destruct (g sl) eqn:Hg; try exact I.
    apply (P_preserve s i sl); psolve sl.
    + apply si_upd_live; auto.
    + unfold holds_guard, upd. cbn. rewrite Hg. auto.
  - (* DelayFlush *)
    destruct (nth_error (slots s) i) as [sl|] eqn:Hn; [|exact I].
    destruct (slot_at s i sl I Hn) as (Hsl & Hw).
    destruct (g sl) eqn:Hg; try exact I.
    destruct (Nat.ltb 0 (user_fgs s)) eqn:Hu; [|exact I]. apply Nat.ltb_lt in Hu.
    destruct (gmode sl) eqn:Hm.
    + apply (P_preserve s i sl); psolve sl.
      apply si_upd_live; auto.
    + apply K_preserve; auto.
  - (* DropGuard *)
    destruct (nth_error (slots s) i) as [sl|] eqn:Hn; [|exact I].
    destruct (slot_at s i sl I Hn) as (Hsl & Hw).
    destruct (g sl) eqn:Hg; try exact I.
    apply (P_preserve s i sl); psolve sl.
    + apply si_upd_send; auto.
    + unfold holds_guard, upd. cbn. rewrite Hg. auto.
  - (* GuardStep *)
    destruct (nth_error (slots s) i) as [sl|] eqn:Hn; [|exact I].
    destruct (slot_at s i sl I Hn) as (Hsl & Hw).
    destruct (g sl) eqn:Hg; try exact I.
    + (* send *)
      apply (P_preserve s i sl); psolve sl.
      * apply si_send; auto.
      * unfold holds_guard. cbn. rewrite Hg. auto.
      * cbn. intros Hws. split; [discriminate|]. intros Hc.
        destruct (gmode sl) eqn:Hm; [discriminate|]. apply Nat.eqb_eq in Hws.
        assert (Hh : holds_guard sl = true) by (unfold holds_guard; rewrite Hm, Hg; reflexivity).
        destruct (holding_blocks_close s i sl I Hn Hh Hws) as (_ & _ & _ & Hcl). congruence.
    + (* release *)
      destruct (gmode sl) eqn:Hm.
      * apply (P_preserve s i sl); psolve sl.
        -- rewrite <- Hm. apply si_gone; auto.
        -- unfold holds_guard, upd. cbn. rewrite Hm. discriminate.
      * apply (PK_release s i sl); psolve sl.
        -- rewrite <- Hm. apply si_gone; auto.
        -- unfold holds_guard. rewrite Hm, Hg. reflexivity.
  - (* WaitPoll *)
    destruct (nth_error (slots s) i) as [sl|] eqn:Hn; [|exact I].
    destruct (slot_at s i sl I Hn) as (Hsl & Hw).
    match goal with |- context [if ?c then _ else _] => destruct c end; [|exact I].
    destruct (rx sl) eqn:Hr.
    + destruct (chan sl) as [v|] eqn:Hc.
      * destruct (si_recv sl v Hsl) as (Hsl' & Hcl); auto; try congruence.
        apply (P_preserve s i sl); psolve sl.
      * destruct (tx_gone sl) eqn:Ht.
        -- exfalso. eapply si_txgone_unreachable; eauto. congruence.
        -- assert (Heq : forall t r0, t = tx_gone sl -> r0 = rx sl ->
                     mk_slot (lazy sl) (created sl) (g sl) (gval sl) (gmode sl) None t r0 (data sl)
                             (opened sl) (sent sl) (wait_sent sl) (closed sl) (sbc sl) (result sl) = sl).
           { intros t r0 -> ->. destruct sl; cbn in *; subst; reflexivity. }
           rewrite (Heq false RxSlot) by congruence.
           unfold set_slot. rewrite set_nth_same_id by auto. apply inv13_ext; auto.
    + exfalso. apply (si_rx sl Hsl). auto.
    + apply inv13_ext; auto.
  - (* WaitCancel *)
    destruct (borrowed s) as [i|]; [|exact I].
    destruct (nth_error (slots s) i) as [sl|] eqn:Hn; [|apply inv13_ext; auto].
    destruct (slot_at s i sl I Hn) as (Hsl & Hw).
    rewrite si_cancel by auto. unfold set_slot. rewrite set_nth_same_id by auto. apply inv13_ext; auto.
  - (* CloseStep *)
    apply C_preserve; auto.
Qed.

Lemma inv13_run_from : forall ls s, inv13 s -> inv13 (C13.Model.run_from true s ls).
Proof. induction ls as [|l r IH]; intros s I; cbn; auto. apply IH. apply inv13_step. exact I. Qed.

Theorem inv13_run : forall shape ls, inv13 (C13.Model.run true shape ls).
Proof. intros. apply inv13_run_from. apply inv13_init. Qed.
