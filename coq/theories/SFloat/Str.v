(* Byte strings with literal notation that do not use Coq's [string] type (the flat OCaml extraction would shadow
   OCaml's own [string], which the generic driver needs). *)
From Coq Require Import List NArith Strings.Byte Bool.
Import ListNotations.

Inductive str := Str (b : list byte).
Definition str_parse (b : list byte) : str := Str b.
Definition str_print (s : str) : list byte := match s with Str b => b end.
Declare Scope str_scope.
Delimit Scope str_scope with str.
String Notation str str_parse str_print : str_scope.

Definition str_app (a b : str) : str := Str (str_print a ++ str_print b).
Infix "+++" := str_app (at level 60, right associativity) : str_scope.

Fixpoint bytes_eqb (a b : list byte) : bool :=
  match a, b with
  | [], [] => true
  | x :: a', y :: b' => Byte.eqb x y && bytes_eqb a' b'
  | _, _ => false
  end.
Definition str_eqb (a b : str) : bool := bytes_eqb (str_print a) (str_print b).

Definition str_bytes (s : str) : list N := map Byte.to_N (str_print s).
Definition byte_of_N (n : N) : byte := match Byte.of_N n with Some b => b | None => x00 end.
Definition str_of_bytes (l : list N) : str := Str (map byte_of_N l).

Fixpoint str_join (sep : str) (l : list str) : str :=
  match l with
  | [] => Str []
  | [x] => x
  | x :: r => str_app x (str_app sep (str_join sep r))
  end.

Lemma bytes_eqb_eq : forall a b, bytes_eqb a b = true <-> a = b.
Proof.
  induction a as [|x a IH]; destruct b as [|y b]; cbn; split; intros H; try reflexivity; try discriminate.
  - apply andb_prop in H. destruct H as [H1 H2]. apply Byte.byte_dec_bl in H1. apply IH in H2. subst. reflexivity.
  - inversion H; subst. rewrite Byte.byte_dec_lb by reflexivity. cbn. apply IH. reflexivity.
Qed.
Lemma str_eqb_eq : forall a b, str_eqb a b = true <-> a = b.
Proof.
  intros [a] [b]. unfold str_eqb. cbn. rewrite bytes_eqb_eq. split; intros H; [subst; reflexivity|inversion H; reflexivity].
Qed.
Lemma str_eqb_refl : forall a, str_eqb a a = true.
Proof. intros a. apply str_eqb_eq. reflexivity. Qed.
Definition str_eq_dec (a b : str) : {a = b} + {a <> b}.
Proof. destruct (str_eqb a b) eqn:E; [left; apply str_eqb_eq; exact E | right; intros H; apply str_eqb_eq in H; congruence]. Defined.
