(* Facts about the float helpers of SFloat/Defs.v, on top of Flocq's correctness theorems:
   exactness of integer -> float and f32 -> f64 conversions, comparisons as comparisons of reals,
   the rational value of a finite float. *)
From Coq Require Import ZArith NArith Reals QArith Qreals Lra Lia Bool.
From Flocq Require Import Core.Core IEEE754.BinarySingleNaN IEEE754.Binary IEEE754.Bits.
From MV Require Import SFloat.Defs.
Local Open Scope R_scope.

Notation fmt64 := (FLT_exp (-1074) 53).
Notation fmt32 := (FLT_exp (-149) 24).
Notation R64 := (Binary.B2R 53 1024).
Notation R32 := (Binary.B2R 24 128).
Notation rnd64 := (round radix2 fmt64 ZnearestE).
Notation rnd32 := (round radix2 fmt32 ZnearestE).

Lemma F2R_exp0 : forall m : Z, F2R (Float radix2 m 0) = IZR m.
Proof. intros m. unfold F2R. cbn. ring. Qed.

(* ---------------------------------------------------------------- integers are in the format *)
Section Generic.
  Variables prec emax : Z.
  Context (prec_gt_0_ : Prec_gt_0 prec) (Hmax : Prec_lt_emax prec emax).
  Let emin := (3 - emax - prec)%Z.
  Let fexp := FLT_exp emin prec.

  Lemma fexp_is : SpecFloat.fexp prec emax = fexp.
  Proof. reflexivity. Qed.

  (* m * 2^e with |m| <= 2^prec and e >= emin is representable *)
  Lemma format_m_e : forall m e : Z, (Z.abs m <= 2 ^ prec)%Z -> (emin <= e)%Z ->
    generic_format radix2 fexp (F2R (Float radix2 m e)).
  Proof.
    intros m e Hm He. assert (P : (0 < prec)%Z) by exact prec_gt_0_.
    destruct (Z.eq_dec (Z.abs m) (2 ^ prec)) as [E|NE].
    - (* m = +-2^prec: shift the mantissa to +-1 *)
      assert (m = 2 ^ prec \/ m = - 2 ^ prec)%Z as [M|M] by lia; subst m.
      + apply generic_format_FLT. apply (FLT_spec _ _ _ _ (Float radix2 1 (e + prec))).
        * unfold F2R. cbn [Fnum Fexp]. rewrite bpow_plus. rewrite <- (IZR_Zpower radix2 prec) by lia. cbn [radix_val radix2]. ring.
        * cbn. apply Z.pow_gt_1; lia.
        * cbn. lia.
      + apply generic_format_FLT. apply (FLT_spec _ _ _ _ (Float radix2 (-1) (e + prec))).
        * unfold F2R. cbn [Fnum Fexp]. rewrite bpow_plus. rewrite <- (IZR_Zpower radix2 prec) by lia. cbn [radix_val radix2]. rewrite opp_IZR. ring.
        * cbn. apply Z.pow_gt_1; lia.
        * cbn. lia.
    - apply generic_format_FLT. apply (FLT_spec _ _ _ _ (Float radix2 m e)); cbn; [reflexivity|lia|lia].
  Qed.

  Lemma format_Z : forall z : Z, (Z.abs z <= 2 ^ prec)%Z -> generic_format radix2 fexp (IZR z).
  Proof.
    intros z H. rewrite <- F2R_exp0. apply format_m_e; [exact H|].
    unfold emin. assert (prec < emax)%Z by exact Hmax. assert (0 < prec)%Z by exact prec_gt_0_. lia.
  Qed.
End Generic.

Lemma two53_lt_emax : bpow radix2 53 < bpow radix2 1024.
Proof. apply bpow_lt. lia. Qed.

(* ---------------------------------------------------------------- n as f64 *)
Lemma u64_as_f64_correct : forall n : N, (n < 2 ^ 64)%N ->
  R64 (u64_as_f64 n) = rnd64 (IZR (Z.of_N n)) /\ Binary.is_finite 53 1024 (u64_as_f64 n) = true /\
  Binary.Bsign 53 1024 (u64_as_f64 n) = false.
Proof.
  intros n Hn. unfold u64_as_f64.
  pose proof (Binary.binary_normalize_correct 53 1024 (eq_refl _) (eq_refl _) mode_NE (Z.of_N n) 0 false) as C.
  rewrite F2R_exp0 in C. cbn [round_mode] in C.
  assert (B : Rabs (rnd64 (IZR (Z.of_N n))) < bpow radix2 1024).
  { apply Rle_lt_trans with (bpow radix2 64).
    - apply abs_round_le_generic; [apply FLT_exp_valid; reflexivity | apply valid_rnd_N | |].
      + apply generic_format_bpow. unfold FLT_exp. lia.
      + rewrite Rabs_pos_eq by (apply IZR_le; lia). change (bpow radix2 64) with (IZR (2 ^ 64)). apply IZR_le. lia.
    - apply bpow_lt. lia. }
  change (SpecFloat.fexp 53 1024) with fmt64 in C.
  rewrite (Rlt_bool_true _ _ B) in C. destruct C as (C1 & C2 & C3). repeat split; try assumption.
  rewrite C3. destruct (Rcompare_spec (IZR (Z.of_N n)) 0) as [L|E|G]; try reflexivity.
  exfalso. assert (0 <= IZR (Z.of_N n)) by (apply IZR_le; lia). lra.
Qed.

Lemma u64_as_f64_exact : forall n : N, (n <= 2 ^ 53)%N ->
  R64 (u64_as_f64 n) = IZR (Z.of_N n) /\ Binary.is_finite 53 1024 (u64_as_f64 n) = true.
Proof.
  intros n Hn. destruct (u64_as_f64_correct n ltac:(lia)) as (C1 & C2 & _). split; [|exact C2].
  rewrite C1. apply round_generic; [apply valid_rnd_N|].
  apply (format_Z 53 1024 (eq_refl _) (eq_refl _)). lia.
Qed.

(* ---------------------------------------------------------------- n as f32 *)
Lemma u32_as_f32_correct : forall n : N, (n < 2 ^ 64)%N ->
  R32 (u32_as_f32 n) = rnd32 (IZR (Z.of_N n)) /\ Binary.is_finite 24 128 (u32_as_f32 n) = true.
Proof.
  intros n Hn. unfold u32_as_f32.
  pose proof (Binary.binary_normalize_correct 24 128 (eq_refl _) (eq_refl _) mode_NE (Z.of_N n) 0 false) as C.
  rewrite F2R_exp0 in C. cbn [round_mode] in C.
  assert (B : Rabs (rnd32 (IZR (Z.of_N n))) < bpow radix2 128).
  { apply Rle_lt_trans with (bpow radix2 64).
    - apply abs_round_le_generic; [apply FLT_exp_valid; reflexivity | apply valid_rnd_N | |].
      + apply generic_format_bpow. unfold FLT_exp. lia.
      + rewrite Rabs_pos_eq by (apply IZR_le; lia). change (bpow radix2 64) with (IZR (2 ^ 64)). apply IZR_le. lia.
    - apply bpow_lt. lia. }
  change (SpecFloat.fexp 24 128) with fmt32 in C.
  rewrite (Rlt_bool_true _ _ B) in C. destruct C as (C1 & C2 & C3). split; assumption.
Qed.

Lemma u32_as_f32_exact : forall n : N, (n <= 2 ^ 24)%N ->
  R32 (u32_as_f32 n) = IZR (Z.of_N n) /\ Binary.is_finite 24 128 (u32_as_f32 n) = true.
Proof.
  intros n Hn. destruct (u32_as_f32_correct n ltac:(lia)) as (C1 & C2). split; [|exact C2].
  rewrite C1. apply round_generic; [apply valid_rnd_N|].
  apply (format_Z 24 128 (eq_refl _) (eq_refl _)). lia.
Qed.

(* ---------------------------------------------------------------- x as f64 for x : f32 is exact *)
Lemma f32_in_fmt64 : forall x : f32, generic_format radix2 fmt64 (R32 x).
Proof.
  intros x. destruct (Binary.FLT_format_B2R 24 128 (eq_refl _) x) as [f E Hm He].
  rewrite E. destruct f as [m e]. cbn [Fnum Fexp] in *.
  apply (format_m_e 53 1024 (eq_refl _)); [|cbn in He |- *; lia].
  apply Z.le_trans with (2 ^ 24)%Z; [|apply Z.pow_le_mono_r; lia].
  change (radix_val radix2 ^ 24)%Z with (2 ^ 24)%Z in Hm. lia.
Qed.

Lemma f32_as_f64_exact : forall x : f32, Binary.is_finite 24 128 x = true ->
  R64 (f32_as_f64 x) = R32 x /\ Binary.is_finite 53 1024 (f32_as_f64 x) = true.
Proof.
  intros x F. destruct x as [s|s|s pl H|s m e H]; try discriminate.
  - cbn. split; reflexivity.
  - unfold f32_as_f64.
    pose proof (Binary.binary_normalize_correct 53 1024 (eq_refl _) (eq_refl _) mode_NE (cond_Zopp s (Zpos m)) e s) as C.
    cbn [round_mode] in C. change (SpecFloat.fexp 53 1024) with fmt64 in C.
    assert (V : F2R (Float radix2 (cond_Zopp s (Zpos m)) e) = R32 (Binary.B754_finite 24 128 s m e H)) by reflexivity.
    rewrite V in C.
    assert (G : rnd64 (R32 (Binary.B754_finite 24 128 s m e H)) = R32 (Binary.B754_finite 24 128 s m e H)).
    { apply round_generic; [apply valid_rnd_N | apply f32_in_fmt64]. }
    rewrite G in C.
    assert (B : Rabs (R32 (Binary.B754_finite 24 128 s m e H)) < bpow radix2 1024).
    { apply Rlt_trans with (bpow radix2 128); [apply Binary.abs_B2R_lt_emax | apply bpow_lt; lia]. }
    rewrite (Rlt_bool_true _ _ B) in C. destruct C as (C1 & C2 & _). split; assumption.
Qed.

(* ---------------------------------------------------------------- comparisons are comparisons of the reals *)
Lemma f32_le_correct : forall x y : f32, Binary.is_finite 24 128 x = true -> Binary.is_finite 24 128 y = true ->
  (f32_le x y = true <-> R32 x <= R32 y).
Proof.
  intros x y Fx Fy. unfold f32_le, b32_compare. rewrite (Binary.Bcompare_correct 24 128 x y Fx Fy).
  destruct (Rcompare_spec (R32 x) (R32 y)); cbn; split; intros; try reflexivity; try discriminate; lra.
Qed.
Lemma f32_lt_correct : forall x y : f32, Binary.is_finite 24 128 x = true -> Binary.is_finite 24 128 y = true ->
  (f32_lt x y = true <-> R32 x < R32 y).
Proof.
  intros x y Fx Fy. unfold f32_lt, b32_compare. rewrite (Binary.Bcompare_correct 24 128 x y Fx Fy).
  destruct (Rcompare_spec (R32 x) (R32 y)); cbn; split; intros; try reflexivity; try discriminate; lra.
Qed.
Lemma f32_eq_correct : forall x y : f32, Binary.is_finite 24 128 x = true -> Binary.is_finite 24 128 y = true ->
  (f32_eq x y = true <-> R32 x = R32 y).
Proof.
  intros x y Fx Fy. unfold f32_eq, b32_compare. rewrite (Binary.Bcompare_correct 24 128 x y Fx Fy).
  destruct (Rcompare_spec (R32 x) (R32 y)); cbn; split; intros; try reflexivity; try discriminate; lra.
Qed.
Lemma f64_lt_correct : forall x y : f64, Binary.is_finite 53 1024 x = true -> Binary.is_finite 53 1024 y = true ->
  (f64_lt x y = true <-> R64 x < R64 y).
Proof.
  intros x y Fx Fy. unfold f64_lt, b64_compare. rewrite (Binary.Bcompare_correct 53 1024 x y Fx Fy).
  destruct (Rcompare_spec (R64 x) (R64 y)); cbn; split; intros; try reflexivity; try discriminate; lra.
Qed.
Lemma f64_eq_correct : forall x y : f64, Binary.is_finite 53 1024 x = true -> Binary.is_finite 53 1024 y = true ->
  (f64_eq x y = true <-> R64 x = R64 y).
Proof.
  intros x y Fx Fy. unfold f64_eq, b64_compare. rewrite (Binary.Bcompare_correct 53 1024 x y Fx Fy).
  destruct (Rcompare_spec (R64 x) (R64 y)); cbn; split; intros; try reflexivity; try discriminate; lra.
Qed.

(* ---------------------------------------------------------------- the rational value of a finite float *)
Lemma q_of_me_correct : forall s m e, Q2R (q_of_me s m e) = F2R (Float radix2 (cond_Zopp s (Zpos m)) e).
Proof.
  intros s m e. unfold q_of_me, F2R. cbn [Fnum Fexp]. destruct e as [|p|p].
  - unfold Q2R. cbn. field.
  - unfold Q2R. cbn [Qnum Qden bpow]. rewrite mult_IZR. cbn [radix_val radix2]. field.
  - unfold Q2R. cbn [Qnum Qden bpow]. cbn [radix_val radix2]. rewrite Pos2Z.inj_pow_pos. reflexivity.
Qed.
Lemma f32_to_Q_correct : forall x q, f32_to_Q x = Some q -> Q2R q = R32 x /\ Binary.is_finite 24 128 x = true.
Proof.
  intros x q H. destruct x as [s|s|s pl Hp|s m e Hb]; try discriminate; cbn in H; inversion H; subst.
  - split; [|reflexivity]. unfold Q2R. cbn. field.
  - split; [|reflexivity]. apply q_of_me_correct.
Qed.
Lemma f64_to_Q_correct : forall x q, f64_to_Q x = Some q -> Q2R q = R64 x /\ Binary.is_finite 53 1024 x = true.
Proof.
  intros x q H. destruct x as [s|s|s pl Hp|s m e Hb]; try discriminate; cbn in H; inversion H; subst.
  - split; [|reflexivity]. unfold Q2R. cbn. field.
  - split; [|reflexivity]. apply q_of_me_correct.
Qed.
Lemma f32_to_Q_finite : forall x, Binary.is_finite 24 128 x = true -> exists q, f32_to_Q x = Some q.
Proof. intros x F. destruct x; try discriminate; eexists; reflexivity. Qed.
