(* Computable IEEE-754 helpers shared by C12 (sampling) and C19 (units): thin definitions on top of
   Flocq's binary32 / binary64 that mirror Rust's primitive float operations and `as` casts.
   No proofs here (see SFloat/Facts.v); everything evaluates under vm_compute and extracts. *)
From Coq Require Import ZArith NArith Bool QArith.
From Flocq Require Import Core.Core IEEE754.Binary IEEE754.BinarySingleNaN IEEE754.Bits.

Definition f64 := binary64.
Definition f32 := binary32.

Definition f64_of_bits (n : N) : f64 := b64_of_bits (Z.of_N n mod 2 ^ 64).
Definition f32_of_bits (n : N) : f32 := b32_of_bits (Z.of_N n mod 2 ^ 32).

(* bit pattern with every NaN mapped to the canonical quiet NaN: payload propagation is hardware specific *)
Definition f64_bits (x : f64) : N :=
  if Binary.is_nan 53 1024 x then 9221120237041090560%N (* 0x7ff8000000000000 *) else Z.to_N (bits_of_b64 x).
Definition f32_bits (x : f32) : N :=
  if Binary.is_nan 24 128 x then 2143289344%N (* 0x7fc00000 *) else Z.to_N (bits_of_b32 x).

(* `n as f64` / `n as f32` for an unsigned integer: round to nearest even *)
Definition u64_as_f64 (n : N) : f64 :=
  Binary.binary_normalize 53 1024 (eq_refl _) (eq_refl _) mode_NE (Z.of_N n) 0 false.
Definition u32_as_f32 (n : N) : f32 :=
  Binary.binary_normalize 24 128 (eq_refl _) (eq_refl _) mode_NE (Z.of_N n) 0 false.

Definition f64_one : f64 := u64_as_f64 1.
Definition f32_one : f32 := u32_as_f32 1.

(* `x as f64` for x : f32 (exact) *)
Definition f32_as_f64 (x : f32) : f64 :=
  match x with
  | Binary.B754_zero _ _ s => Binary.B754_zero 53 1024 s
  | Binary.B754_infinity _ _ s => Binary.B754_infinity 53 1024 s
  | Binary.B754_nan _ _ _ _ _ => proj1_sig default_nan_pl64
  | Binary.B754_finite _ _ s m e _ =>
      Binary.binary_normalize 53 1024 (eq_refl _) (eq_refl _) mode_NE (cond_Zopp s (Zpos m)) e s
  end.

(* `x as u64` for x : f64: truncation toward zero, saturating, NaN -> 0 *)
Definition u64_max : N := 18446744073709551615%N.
Definition f64_as_u64 (x : f64) : N :=
  match x with
  | Binary.B754_zero _ _ _ => 0%N
  | Binary.B754_nan _ _ _ _ _ => 0%N
  | Binary.B754_infinity _ _ s => if s then 0%N else u64_max
  | Binary.B754_finite _ _ s _ _ _ =>
      if s then 0%N else N.min u64_max (Z.to_N (Binary.Btrunc 53 1024 x))
  end.

Definition f64_mul := b64_mult mode_NE.
Definition f64_div := b64_div mode_NE.
Definition f64_add := b64_plus mode_NE.
Definition f64_sub := b64_minus mode_NE.
Definition f32_mul := b32_mult mode_NE.
Definition f32_div := b32_div mode_NE.
Definition f32_add := b32_plus mode_NE.
Definition f32_sub := b32_minus mode_NE.

(* Rust's ==, <, <= on floats (false whenever a NaN is involved) *)
Definition cmp_eq (c : option comparison) : bool := match c with Some Eq => true | _ => false end.
Definition cmp_lt (c : option comparison) : bool := match c with Some Lt => true | _ => false end.
Definition cmp_le (c : option comparison) : bool := match c with Some Lt | Some Eq => true | _ => false end.
Definition f64_eq (x y : f64) : bool := cmp_eq (b64_compare x y).
Definition f64_lt (x y : f64) : bool := cmp_lt (b64_compare x y).
Definition f64_le (x y : f64) : bool := cmp_le (b64_compare x y).
Definition f32_eq (x y : f32) : bool := cmp_eq (b32_compare x y).
Definition f32_lt (x y : f32) : bool := cmp_lt (b32_compare x y).
Definition f32_le (x y : f32) : bool := cmp_le (b32_compare x y).

(* exact rational value of a finite float; None for infinities and NaN *)
Definition q_of_me (s : bool) (m : positive) (e : Z) : Q :=
  match e with
  | Z0 => Qmake (cond_Zopp s (Zpos m)) 1
  | Zpos p => Qmake (cond_Zopp s (Zpos m) * Z.pow_pos 2 p) 1
  | Zneg p => Qmake (cond_Zopp s (Zpos m)) (Pos.pow 2 p)
  end.
Definition f64_to_Q (x : f64) : option Q :=
  match x with
  | Binary.B754_zero _ _ _ => Some (Qmake 0 1)
  | Binary.B754_finite _ _ s m e _ => Some (q_of_me s m e)
  | _ => None
  end.
Definition f32_to_Q (x : f32) : option Q :=
  match x with
  | Binary.B754_zero _ _ _ => Some (Qmake 0 1)
  | Binary.B754_finite _ _ s m e _ => Some (q_of_me s m e)
  | _ => None
  end.
Definition f64_is_nan (x : f64) : bool := Binary.is_nan 53 1024 x.
Definition f64_is_inf (x : f64) : option bool :=
  match x with Binary.B754_infinity _ _ s => Some s | _ => None end.
