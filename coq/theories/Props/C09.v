(* C09 — pinned statements (model: Queue/Model.v; specification of the ring: Queue/Spec.v ring_push/ring_take). *)
From Coq Require Import List NArith Bool.
From MV Require Import Queue.Model Queue.Spec Queue.Inv Queue.Delivery Queue.Overflow Queue.RingSound C09.Codec.
Import ListNotations.

(* Appending is always possible: for every reachable state (any ring contents, the writer anywhere, parked
   or stalled for ever), a thread that holds a handle and is not inside another append can append. The step
   needs no cooperation from any other thread (it is one atomic action), so it cannot block or fail. *)
Theorem c09_append_never_blocks : forall c s t n,
  0 < cap c -> reachable c s ->
  0 < handles (sh s) -> memN t (pend (sh s)) = false ->
  exists s', step c s (LPush t n) = Some s'.
Proof. exact push_never_blocks. Qed.
Print Assumptions c09_append_never_blocks.

(* The mechanism's ring is the specification's ring. *)
Theorem c09_push_is_ring_push : forall c s t n s',
  step c s (LPush t n) = Some s' ->
  q (sh s') = fst (ring_push (cap c) (q (sh s)) (t, n)) /\
  match snd (ring_push (cap c) (q (sh s)) (t, n)) with
  | None => removed (gh s') = removed (gh s) /\ out (gh s') = out (gh s) /\ overflow (gh s') = overflow (gh s)
  | Some h => removed (gh s') = removed (gh s) ++ [(h, Displaced)] /\ out (gh s') = out (gh s) ++ [EOver] /\
              overflow (gh s') = S (overflow (gh s))
  end.
Proof. exact push_is_ring_push. Qed.
Print Assumptions c09_push_is_ring_push.

Theorem c09_pop_is_ring_take : forall c s o s',
  pc (wr s) = WPop -> step c s (LW o) = Some s' ->
  match ring_take (q (sh s)) with
  | None => q (sh s') = [] /\ inflight (wr s') = inflight (wr s) /\ dres (wr s') = Drained /\
            pc (wr s') = drain_done (wr s) /\ removed (gh s') = removed (gh s)
  | Some (h, r) => q (sh s') = r /\ inflight (wr s') = Some h /\ pc (wr s') = WConsume /\
                   removed (gh s') = removed (gh s) ++ [(h, Popped)]
  end.
Proof. exact pop_is_ring_take. Qed.
Print Assumptions c09_pop_is_ring_take.

Theorem c09_nothing_else_touches_the_ring : forall c s l s',
  step c s l = Some s' ->
  (forall t n, l <> LPush t n) -> (forall o, l = LW o -> pc (wr s) <> WPop) ->
  q (sh s') = q (sh s).
Proof. exact ring_untouched_otherwise. Qed.
Print Assumptions c09_nothing_else_touches_the_ring.

(* A push into a full ring displaces exactly the oldest entry still queued — the earliest appended entry that
   has neither been taken by the writer nor displaced before. *)
Theorem c09_displaces_oldest : forall c s t n s',
  reachable c s -> step c s (LPush t n) = Some s' -> length (q (sh s)) = cap c ->
  exists h r,
    q (sh s) = h :: r /\ q (sh s') = r ++ [(t, n)] /\
    removed (gh s') = removed (gh s) ++ [(h, Displaced)] /\
    nth_error (pushed (gh s)) (length (removed (gh s))) = Some h /\
    overflow (gh s') = S (overflow (gh s)) /\ out (gh s') = out (gh s) ++ [EOver].
Proof. exact push_full_displaces_oldest. Qed.
Print Assumptions c09_displaces_oldest.

Theorem c09_no_loss_when_not_full : forall c s t n s',
  step c s (LPush t n) = Some s' -> length (q (sh s)) < cap c ->
  q (sh s') = q (sh s) ++ [(t, n)] /\ removed (gh s') = removed (gh s) /\ overflow (gh s') = overflow (gh s)
  /\ out (gh s') = out (gh s).
Proof. exact push_not_full. Qed.
Print Assumptions c09_no_loss_when_not_full.

(* An entry is lost only if at least `cap` newer entries were appended while it was still queued: the i-th
   appended entry, if displaced, has at least `cap` successors in the append order. *)
Theorem c09_lost_only_if_cap_newer : forall c s, reachable c s ->
  forall i e, nth_error (removed (gh s)) i = Some (e, Displaced) ->
              nth_error (pushed (gh s)) i = Some e /\ i + cap c < length (pushed (gh s)).
Proof. exact displaced_late_reachable. Qed.
Print Assumptions c09_lost_only_if_cap_newer.

(* What reaches the stream is still in append order (the C01 statement holds with overflow). *)
Theorem c09_order_kept : forall c ls s,
  run c init ls = Some s -> subseq (nexts (out (gh s))) (pushes ls).
Proof. exact delivered_subseq_schedule. Qed.
Print Assumptions c09_order_kept.

(* The overflow counter, and the increments reported to the metrics recorder, equal the number of displaced
   entries. *)
Theorem c09_counter : forall c s, reachable c s ->
  overflow (gh s) = length (displaced (removed (gh s))) /\ count_over (out (gh s)) = overflow (gh s).
Proof. exact overflow_counter. Qed.
Print Assumptions c09_counter.

Theorem c09_ring_bounded : forall c s, reachable c s -> length (q (sh s)) <= cap c.
Proof. exact ring_bounded. Qed.
Print Assumptions c09_ring_bounded.

(* The executable ring specification that is replayed over the implementation's observations (appends, take
   moments, `next` calls, counter increments) accepts every execution of the model. *)
Theorem c09_ring_spec_holds_of_every_run : forall c ls,
  ring_check (cap c) (trace c init ls) [] None = true.
Proof. exact ring_check_sound_init. Qed.
Print Assumptions c09_ring_spec_holds_of_every_run.

(* ---- non-vacuity: capacity 2, writer completely stalled, four appends: the two oldest are displaced *)
Local Open Scope N_scope.
Example c09_example_stalled_writer :
  option_map (fun s => (q (sh s), removed (gh s), overflow (gh s), out (gh s)))
    (run {| cap := 2%nat; nosub := true; extra_clone := false |} init
         [LPush 1 0; LUnpark 1; LPush 1 1; LUnpark 1; LPush 1 2; LUnpark 1; LPush 1 3])
  = Some ([(1, 2); (1, 3)], [(1, 0, Displaced); (1, 1, Displaced)], 2%nat, [EOver; EOver]).
Proof. vm_compute. reflexivity. Qed.

(* the writer holds an entry (popped, not yet written) while the ring wraps: it is not lost *)
Example c09_example_inflight_survives :
  option_map (fun s => (q (sh s), removed (gh s), inflight (wr s)))
    (run {| cap := 1%nat; nosub := true; extra_clone := false |} init
         [LPush 1 0; LW {| o_res := ROk; o_rep := None; o_dl := false; o_fl := true |}; LUnpark 1; LPush 1 1;
          LUnpark 1; LPush 1 2])
  = Some ([(1, 2)], [(1, 0, Popped); (1, 1, Displaced)], Some (1, 0)).
Proof. vm_compute. reflexivity. Qed.
