(* C08 — pinned statements. [rejected] = the call returns a validation error and has written nothing. *)
From Coq Require Import String.
From Coq Require Import List NArith ZArith Bool.
From MV Require Import Common.Sx Common.Bytes Emf.Model Emf.Validate Emf.Complete.
Import ListNotations.

(* --- transparency: validation only gates; an accepted entry's bytes are those written with every check off,
   for every configuration (any subset of checks on), formatter state, multiplicity, entry, writer script *)
Theorem c08_transparent : forall c s mult e now ftab script s1 out,
  format c s mult e now ftab script = (s1, ROk, out) ->
  exists s2, format (all_off c) s mult e now ftab script = (s2, ROk, out).
Proof. exact validation_transparent. Qed.
Print Assumptions c08_transparent.

(* --- completeness: each listed defect, at any position of the entry, is rejected *)
Theorem c08_two_timestamps : forall c s mult e1 t1 e2 t2 e3 now ftab script,
  rejected c s mult (e1 ++ ITimestamp t1 :: e2 ++ ITimestamp t2 :: e3) now ftab script.
Proof. exact two_timestamps_rejected. Qed.
Print Assumptions c08_two_timestamps.

Theorem c08_empty_or_reserved_name : forall c s mult e1 name v e2 now ftab script,
  skip_names c = false -> name = [] \/ name = bs "_aws" ->
  rejected c s mult (e1 ++ IValue name v :: e2) now ftab script.
Proof. exact bad_name_rejected. Qed.
Print Assumptions c08_empty_or_reserved_name.

Theorem c08_two_strings_one_name : forall c s mult e1 n a e2 b e3 now ftab script,
  skip_unique c = false ->
  rejected c s mult (e1 ++ IValue n (VString a) :: e2 ++ IValue n (VString b) :: e3) now ftab script.
Proof. exact dup_string_string_rejected. Qed.
Print Assumptions c08_two_strings_one_name.

Theorem c08_string_then_metric_one_name : forall c s mult e1 n a e2 os u dims fl e3 now ftab script,
  skip_unique c = false -> has_unroutable (e1 ++ IValue n (VString a) :: e2) = false ->
  rejected c s mult (e1 ++ IValue n (VString a) :: e2 ++ IValue n (VMetric os u dims fl) :: e3) now ftab script.
Proof. exact dup_string_metric_rejected. Qed.
Print Assumptions c08_string_then_metric_one_name.

Theorem c08_metric_then_string_one_name : forall c s mult e1 n os u fl e2 b e3 now ftab script,
  skip_unique c = false -> has_unroutable e1 = false ->
  rejected c s mult (e1 ++ IValue n (VMetric os u [] fl) :: e2 ++ IValue n (VString b) :: e3) now ftab script.
Proof. exact dup_metric_string_rejected. Qed.
Print Assumptions c08_metric_then_string_one_name.

Theorem c08_two_metrics_one_name : forall c s mult e1 n os u fl e2 os' u' fl' e3 now ftab script,
  skip_unique c = false -> has_unroutable (e1 ++ IValue n (VMetric os u [] fl) :: e2) = false ->
  rejected c s mult (e1 ++ IValue n (VMetric os u [] fl) :: e2 ++ IValue n (VMetric os' u' [] fl') :: e3) now ftab script.
Proof. exact dup_metric_metric_rejected. Qed.
Print Assumptions c08_two_metrics_one_name.

Theorem c08_metric_under_dimension_name : forall c s mult e1 d os u dims fl e2 now ftab script,
  skip_unique c = false -> skip_dims c = false -> In d (concat (default_dims c)) -> has_unroutable e1 = false ->
  rejected c s mult (e1 ++ IValue d (VMetric os u dims fl) :: e2) now ftab script.
Proof. exact metric_under_dimension_rejected. Qed.
Print Assumptions c08_metric_under_dimension_name.

Theorem c08_missing_declared_dimension : forall c s mult e d now ftab script,
  skip_dims c = false -> In d (concat (default_dims c)) ->
  writes_string d e = false -> has_unroutable e = false ->
  rejected c s mult e now ftab script.
Proof. exact missing_dimension_rejected. Qed.
Print Assumptions c08_missing_declared_dimension.

Theorem c08_dimensions_without_split : forall c s mult e1 name os u d0 dims fl e2 now ftab script,
  allow_ignored c = false -> has_split e1 = false ->
  rejected c s mult (e1 ++ IValue name (VMetric os u (d0 :: dims) fl) :: e2) now ftab script.
Proof. exact dims_without_split_rejected. Qed.
Print Assumptions c08_dimensions_without_split.

Theorem c08_entry_dimensions_empty : forall c s mult e1 e2 now ftab script,
  rejected c s mult (e1 ++ IConfig (CEntryDims []) :: e2) now ftab script.
Proof. exact entry_dims_empty_rejected. Qed.
Print Assumptions c08_entry_dimensions_empty.

Theorem c08_entry_dimensions_twice : forall c s mult e1 d1 e2 d2 e3 now ftab script,
  rejected c s mult (e1 ++ IConfig (CEntryDims d1) :: e2 ++ IConfig (CEntryDims d2) :: e3) now ftab script.
Proof. exact entry_dims_twice_rejected. Qed.
Print Assumptions c08_entry_dimensions_twice.

Theorem c08_entry_dimensions_late : forall c s mult e1 name os u d0 dims fl e2 d e3 now ftab script,
  allow_ignored c = false ->
  rejected c s mult (e1 ++ IValue name (VMetric os u (d0 :: dims) fl) :: e2 ++ IConfig (CEntryDims d) :: e3) now ftab script.
Proof. exact entry_dims_late_rejected. Qed.
Print Assumptions c08_entry_dimensions_late.

(* --- constructors: all_validations always validates; builder() follows the build profile; no_validations never *)
Theorem c08_constructors : forall debug,
  ctor_skip debug AllValidations = false /\ ctor_skip debug NoValidations = true /\
  ctor_skip debug Builder = negb debug /\ ctor_skip debug (BuilderSkip false) = negb debug /\
  ctor_skip debug (BuilderSkip true) = true.
Proof. intros [|]; repeat split; reflexivity. Qed.
Print Assumptions c08_constructors.

(* --- the soundness clause ("no emitted record has two members with one name") is REFUTED by the faithful model:
   a per-metric dimension key is never validated (known finding C08-dim-key-unvalidated) *)
Definition c08_witness_cfg : config := mk_config false false false [bs "N"] [[]] [] None false.
Definition c08_witness_entry : entry :=
  [ITimestamp 0; IConfig CSplit; IValue (bs "k") (VString (bs "strval"));
   IValue (bs "m") (VMetric [OUnsigned 1] UNone [(bs "k", bs "dimval")] FNone)].
Example c08_sound_refuted_example :
  exists out s', format c08_witness_cfg (fresh c08_witness_cfg) None c08_witness_entry 0 [] [] = (s', ROk, out) /\
    out = bs "{""_aws"":{""CloudWatchMetrics"":[{""Namespace"":""N"",""Dimensions"":[[""k""]],""Metrics"":[{""Name"":""m""}]}],""Timestamp"":0},""k"":""dimval"",""m"":1,""k"":""strval""}" ++ [10%N].
Proof. eexists _, _. split; vm_compute; reflexivity. Qed.

(* non-vacuity of the completeness theorems: a concrete rejected entry, and a concrete accepted one *)
Example c08_example_rejected :
  rejected c08_witness_cfg (fresh c08_witness_cfg) None
    ([] ++ IValue (bs "a") (VString (bs "x")) :: [ITimestamp 5] ++ IValue (bs "a") (VString (bs "y")) :: []) 0 [] [].
Proof. apply dup_string_string_rejected. reflexivity. Qed.
Example c08_example_accepted :
  exists s' out, format c08_witness_cfg (fresh c08_witness_cfg) None
    [ITimestamp 1000000; IValue (bs "a") (VString (bs "x")); IValue (bs "m") (VMetric [OUnsigned 3] UNone [] FNone)] 0 [] []
    = (s', ROk, out).
Proof. eexists _, _. vm_compute. reflexivity. Qed.

(* --- soundness for entries that route no metric to a dimension-set record: with the uniqueness and name checks on,
   an accepted entry yields exactly one record and no two of its members share a name *)
From MV Require Import Json.Json Emf.Spec Emf.Content Emf.Sound.
Theorem c08_sound_without_routing : forall c s mult e now ftab script s' out,
  skip_unique c = false -> skip_names c = false ->
  no_routing e -> has_unroutable e = false ->
  format c s mult e now ftab script = (s', ROk, out) ->
  exists a, emf_docs c mult e now ftab = [global_doc c (doc_ts e now) a] /\
            NoDup (map fst (members_of (global_doc c (doc_ts e now) a))).
Proof. exact sound_without_routing. Qed.
Print Assumptions c08_sound_without_routing.

(* --- soundness in general: with the uniqueness and name checks on, EVERY record of an accepted entry — the record
   without per-metric dimensions and every dimension-set record — has pairwise different member names, provided the
   entry is outside the class excused by the known finding: `keys_ok` says that the dimension keys of each dimension-set
   record are pairwise different, none is `_aws`, and none is the name of another member of that record (dimension keys
   are the one kind of member the formatter never validates).  Together with c08_sound_refuted_example this delimits the
   finding exactly: duplicates can only come from dimension keys. *)
From MV Require Import Emf.SoundRouting Emf.KeysPred.
Theorem c08_sound_with_routing : forall c s mult e now ftab script s' out,
  skip_unique c = false -> skip_names c = false -> has_unroutable e = false ->
  format c s mult e now ftab script = (s', ROk, out) ->
  keys_ok (abuild c ftab mult e) ->
  Forall (fun d => NoDup (map fst (members_of d))) (emf_docs c mult e now ftab).
Proof. exact sound_with_routing. Qed.
Print Assumptions c08_sound_with_routing.

(* the class is decidable: `keys_okb` is what the `nodup_strict` comparison evaluates on every case *)
Theorem c08_keys_class_decided : forall a, keys_okb a = true -> keys_ok a.
Proof. exact keys_okb_sound. Qed.
Print Assumptions c08_keys_class_decided.

Theorem c08_sound_with_routing_executable : forall c s mult e now ftab script s' out,
  skip_unique c = false -> skip_names c = false -> has_unroutable e = false ->
  keys_okb (abuild c ftab mult e) = true ->
  format c s mult e now ftab script = (s', ROk, out) ->
  Forall (fun d => NoDup (map fst (members_of d))) (emf_docs c mult e now ftab).
Proof. exact sound_with_routing_b. Qed.
Print Assumptions c08_sound_with_routing_executable.

(* the hypotheses are satisfiable with routing: a string `k`, a global metric and a metric routed under (`d`,`v`) *)
Example c08_example_routing_ok :
  let e := [ITimestamp 5; IConfig CSplit; IValue (bs "k") (VString (bs "s")); IValue (bs "m") (VMetric [OUnsigned 1] UNone [] FNone);
            IValue (bs "m") (VMetric [OUnsigned 2] UNone [(bs "d", bs "v")] FNone)] in
  let c := mk_config false false false [bs "ns"] [[]] [] None false in
  (keys_okb (abuild c [] None e) = true) /\ (has_unroutable e = false) /\
  (snd (fst (format c (fresh c) None e 0%N [] [])) = ROk) /\
  (length (emf_docs c None e 0%N []) = 2%nat).
Proof. vm_compute. repeat split; reflexivity. Qed.

(* --- completeness for split mode: two metrics of one name written INTO THE SAME RECORD are rejected, wherever that
   record is (`route`: the record without per-metric dimensions, or the record of a sorted dimension list) and whether or
   not either has a usable value; the same name in two different records is one member per record and is accepted. *)
From MV Require Import Emf.ContentSplit Emf.CompleteRouting.
Theorem c08_duplicate_metric_in_one_record_rejected :
  forall c s mult e1 n os u dims fl e2 os' u' dims' fl' e3 now ftab script,
  skip_unique c = false ->
  has_unroutable (e1 ++ IValue n (VMetric os u dims fl) :: e2) = false ->
  route c dims = route c dims' ->
  rejected c s mult (e1 ++ IValue n (VMetric os u dims fl) :: e2 ++ IValue n (VMetric os' u' dims' fl') :: e3) now ftab script.
Proof. exact dup_metric_metric_same_record_rejected. Qed.
Print Assumptions c08_duplicate_metric_in_one_record_rejected.

Example c08_example_same_name_two_records_accepted :
  let c := mk_config false false false [bs "ns"] [[]] [] None false in
  let e := [ITimestamp 5; IConfig CSplit;
            IValue (bs "m") (VMetric [OUnsigned 1] UNone [(bs "d", bs "a")] FNone);
            IValue (bs "m") (VMetric [OUnsigned 2] UNone [(bs "d", bs "b")] FNone);
            IValue (bs "m") (VMetric [OUnsigned 3] UNone [] FNone)] in
  snd (fst (format c (fresh c) None e 0%N [] [])) = ROk.
Proof. exact same_name_two_records_accepted. Qed.
