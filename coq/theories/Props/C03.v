(* C03 — pinned statements about the documents of the reference interpretation; by C02's refinement theorem they
   are statements about the bytes of every accepted entry. *)
From Coq Require Import String.
From Coq Require Import List NArith ZArith Bool.
From MV Require Import Common.Sx Common.Bytes Common.F64 Json.Json Emf.Model Emf.Spec Emf.Content Emf.Refine.
Import ListNotations.

Theorem c03_bytes_are_documents : forall c ns0 nss mult e now ftab s' out,
  namespaces c = ns0 :: nss ->
  format c (fresh c) mult e now ftab [] = (s', ROk, out) ->
  out = concat (map (fun d => print d ++ [10%N]) (emf_docs c mult e now ftab)).
Proof. exact format_prints_docs. Qed.
Print Assumptions c03_bytes_are_documents.

(* every string property is in every record, with its exact text; the records end with exactly the entry's string
   properties in write order *)
Theorem c03_strings : forall c mult e now ftab n s d,
  In (IValue n (VString s)) e -> In d (emf_docs c mult e now ftab) -> In (n, JStr s) (members_of d).
Proof. exact string_in_every_record. Qed.
Print Assumptions c03_strings.
Theorem c03_strings_exact : forall c mult e now ftab d,
  In d (emf_docs c mult e now ftab) -> exists front, members_of d = front ++ strings_of e.
Proof. exact docs_strings. Qed.
Print Assumptions c03_strings_exact.

(* Timestamp: the entry's timestamp in whole epoch milliseconds (0 before the epoch; the clock when absent), and one
   directive per configured namespace, all with the same Dimensions and Metrics *)
Theorem c03_timestamp_and_namespaces : forall c mult e now ftab d,
  In d (emf_docs c mult e now ftab) ->
  exists sets decls extra members,
    d = JObj ((bs "_aws", aws_doc c (doc_ts e now)
                 (map (fun ns => directive_doc ns sets decls) (namespaces c) ++ extra)) :: members).
Proof. exact docs_timestamp. Qed.
Print Assumptions c03_timestamp_and_namespaces.
Theorem c03_millis : forall t, millis t = if (t <? 0)%Z then 0%N else Z.to_N (t / 1000000).
Proof. exact millis_spec. Qed.
Print Assumptions c03_millis.

(* an entry without per-metric routing yields exactly one record whose metric members are, in order, the metrics
   with a usable value, each declared (unless flagged no-metric) with its unit and resolution *)
Theorem c03_single_record : forall c mult e now ftab, all_global c e ->
  exists a, emf_docs c mult e now ftab = [global_doc c (doc_ts e now) a] /\
            a_members a = gmembers ftab mult e /\ a_decls a = gdecls ftab mult e /\ a_strings a = strings_of e.
Proof. exact global_only_docs. Qed.
Print Assumptions c03_single_record.

(* observations: exact integers; floats clamped; means of repeated observations with saturating counts *)
Theorem c03_unsigned : forall ftab mult v,
  obs_json ftab mult (OUnsigned v) = Some (JNum (render_dec v), JNum (render_dec (mult_or_1 mult))).
Proof. exact obs_unsigned. Qed.
Print Assumptions c03_unsigned.
Theorem c03_repeated_mean_and_count : forall ftab mult total occ,
  obs_json ftab mult (ORepeated total occ) =
  match clamp_to_finite (if (occ =? 0)%N then f64_zero_bits else f64_div_bits total occ) with
  | Some f => Some (JNum (write_float ftab f), JNum (render_dec (N.min (occ * mult_or_1 mult) u64_max)))
  | None => None
  end.
Proof. exact obs_repeated. Qed.
Print Assumptions c03_repeated_mean_and_count.
Theorem c03_clamp : clamp_to_finite 9218868437227405312%N = Some f64_max_bits /\
                    clamp_to_finite 18442240474082181120%N = Some f64_neg_max_bits /\
                    (forall b, f64_is_nan b = true -> clamp_to_finite b = None) /\
                    (forall b, f64_is_nan b = false -> f64_is_inf b = false -> clamp_to_finite b = Some b).
Proof. exact (conj clamp_pos_inf (conj clamp_neg_inf (conj clamp_nan clamp_finite))). Qed.
Print Assumptions c03_clamp.

(* metrics with no usable observation appear nowhere *)
Theorem c03_skipped : forall ftab mult name os u fl members decls,
  kept ftab mult os = [] -> add_metric ftab mult name os u fl members decls = (members, decls).
Proof. exact add_metric_skipped. Qed.
Print Assumptions c03_skipped.
Theorem c03_skipped_iff : forall ftab mult os, metric_value ftab mult os = None <-> kept ftab mult os = [].
Proof. exact metric_value_none_iff. Qed.
Print Assumptions c03_skipped_iff.

(* sampling: with a multiplicity every metric is in Values/Counts form *)
Theorem c03_sampled_histogram : forall ftab m os v,
  metric_value ftab (Some m) os = Some v ->
  exists ks, v = JObj [(bs "Values", JArr (map fst ks)); (bs "Counts", JArr (map snd ks))] /\
             ks = kept ftab (Some m) os /\ ks <> [].
Proof. exact metric_value_sampled_is_histogram. Qed.
Print Assumptions c03_sampled_histogram.

Example c03_example_mean :
  obs_json [(4612811918334230528%N, bs "2.5")] (Some 3%N) (ORepeated 4617315517961601024%N 2%N)
  = Some (JNum (bs "2.5"), JNum (bs "6")).
Proof. vm_compute. reflexivity. Qed.

(* Parsing back: for every accepted entry, every emitted line parses (with the executable parser that is also the
   predicate applied to the implementation's bytes) to exactly the corresponding reference document. *)
From MV Require Import Json.Valid Json.RoundTrip Emf.DocsWf.
Theorem c03_lines_parse_to_documents : forall c mult e now ftab,
  floats_ok ftab mult e ->
  Forall (fun d => parse (print d ++ [10%N]) = Some d) (emf_docs c mult e now ftab).
Proof.
  intros c mult e now ftab Hf. pose proof (emf_docs_wf c mult e now ftab Hf) as W.
  eapply Forall_impl; [|exact W]. intros d Hd. apply parse_print_line. exact Hd.
Qed.
Print Assumptions c03_lines_parse_to_documents.

(* ---- split mode and everything else: the records in terms of the entry, for EVERY entry and configuration.
   `route c dims` says where a metric goes (None = the record without per-metric dimensions: no dimensions, or the
   formatter ignores them; Some key = the record of the sorted dimension list); `members_for` / `decls_for` list, in entry
   order, the (name, JSON value) members and the declarations of the metrics with a usable value routed there. *)
From MV Require Import Emf.ContentSplit.

(* every emitted record is one of the two kinds and carries exactly those members and declarations (plus metadata,
   dimension-key members and the entry's strings, by the definitions of global_doc / set_doc) *)
Theorem c03_records_exactly : forall c mult e now ftab d,
  In d (emf_docs c mult e now ftab) ->
  (exists a, d = global_doc c (doc_ts e now) a /\
             a_members a = members_for c ftab mult None e /\ a_decls a = decls_for c ftab mult None e /\
             a_strings a = strings_of e) \/
  (exists s, d = set_doc c (doc_ts e now) (strings_of e) s /\ routed_to c (as_key s) e = true /\
             as_members s = members_for c ftab mult (Some (as_key s)) e /\ as_members s <> [] /\
             as_decls s = decls_for c ftab mult (Some (as_key s)) e).
Proof. exact docs_content. Qed.
Print Assumptions c03_records_exactly.

(* conversely, a metric with a usable value is a member of the record it is routed to, that record is emitted, and the
   metric is declared there unless flagged no-metric *)
Theorem c03_metric_in_its_record : forall c mult e now ftab n os u dims fl v,
  In (IValue n (VMetric os u dims fl)) e -> metric_value ftab mult os = Some v ->
  match route c dims with
  | None => exists a, In (global_doc c (doc_ts e now) a) (emf_docs c mult e now ftab) /\ In (n, v) (a_members a) /\
                      (fl <> FNoMetric -> In (metric_decl n u fl) (a_decls a))
  | Some key => exists s, In (set_doc c (doc_ts e now) (strings_of e) s) (emf_docs c mult e now ftab) /\ as_key s = key /\
                          In (n, v) (as_members s) /\ (fl <> FNoMetric -> In (metric_decl n u fl) (as_decls s))
  end.
Proof. exact metric_in_its_record. Qed.
Print Assumptions c03_metric_in_its_record.

(* the state of the reference interpretation after an entry, in terms of the entry *)
Theorem c03_abuild_content : forall c ftab mult e,
  let a := abuild c ftab mult e in
  a_members a = members_for c ftab mult None e /\
  a_decls a = decls_for c ftab mult None e /\
  forall key,
    match as_find (a_sets a) key with
    | Some s => routed_to c key e = true /\ as_key s = key /\
                as_members s = members_for c ftab mult (Some key) e /\ as_decls s = decls_for c ftab mult (Some key) e
    | None => routed_to c key e = false
    end.
Proof. exact abuild_content. Qed.
Print Assumptions c03_abuild_content.

(* dimension-set records have pairwise different keys: one record per distinct sorted dimension list *)
Theorem c03_one_record_per_dimension_list : forall c ftab mult e, NoDup (map as_key (a_sets (abuild c ftab mult e))).
Proof. exact abuild_keys_nodup. Qed.
Print Assumptions c03_one_record_per_dimension_list.

Example c03_example_split :
  let e := [ITimestamp 5000000; IConfig CSplit; IValue (bs "k") (VString (bs "s"));
            IValue (bs "g") (VMetric [OUnsigned 1] UNone [] FNone);
            IValue (bs "m") (VMetric [OUnsigned 2] UNone [(bs "d", bs "v")] FNoMetric);
            IValue (bs "x") (VMetric [OFloat 9221120237041090560] UNone [(bs "d", bs "v")] FNone)] in
  let c := mk_config false false false [bs "ns"] [[]] [] None false in
  (members_for c [] None (Some [(bs "d", bs "v")]) e = [(bs "m", JNum (bs "2"))]) /\
  (decls_for c [] None (Some [(bs "d", bs "v")]) e = []) /\
  (members_for c [] None None e = [(bs "g", JNum (bs "1"))]) /\
  (length (emf_docs c None e 0%N []) = 2%nat).
Proof. vm_compute. repeat split; reflexivity. Qed.
