(* C07 — pinned statements (work in progress). *)
From Coq Require Import List NArith String.
From MV Require Import Common.Sx C07.Inflector C07.Model C07.Spec.
Import ListNotations.

Example c07_inflector_example : to_snake_case (bs "fooBar"%string) = bs "foo_bar"%string.
Proof. vm_compute. reflexivity. Qed.
