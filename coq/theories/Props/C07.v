(* C07 — pinned statements. Nothing but statements, [exact] and Print Assumptions. *)
From Coq Require Import List NArith Bool String.
From MV Require Import Common.Sx C07.Inflector C07.Model C07.Spec C07.Proofs.
Import ListNotations.
Local Open Scope N_scope.

(* ---- concat.rs: const concatenation is plain concatenation, for every tree and every length ---- *)

(* whenever the constant exists (HAVE_VAL) it is the concatenation ... *)
Theorem c07_concat : forall t : cstr, have_val t = true -> maybe_val t = c_flat t.
Proof. exact maybe_val_flat. Qed.
Print Assumptions c07_concat.

(* ... and const_str_value returns the concatenation whether or not it exists (heap fallback above 100 bytes) *)
Theorem c07_concat_value : forall t : cstr, fst (const_str_value t) = c_flat t.
Proof. exact const_str_value_flat. Qed.
Print Assumptions c07_concat_value.

(* it allocates exactly when the string is a proper concatenation longer than 100 bytes *)
Theorem c07_concat_borrowed : forall t : cstr,
  snd (const_str_value t) = match t with CLeaf _ => true | CCat _ _ => blen (c_flat t) <=? 100 end.
Proof. exact const_str_value_borrowed. Qed.
Print Assumptions c07_concat_borrowed.

(* consequently every name the macro-generated code writes is a borrowed constant exactly when it is at most 100
   bytes long (names of hand-written flattened entries are short static strings: [raw_short]) *)
Theorem c07_name_borrowed_iff_short : forall (pascal snake kebab : bytes -> bytes) (ftag : bool) (d : edef),
  raw_short d = true -> Forall cow_kind_ok (root_write pascal snake kebab ftag d).
Proof. exact cow_kind. Qed.
Print Assumptions c07_name_borrowed_iff_short.

(* ---- naming: for EVERY Inflector (three arbitrary functions), every type tree of any depth and every value in
   it, what the repaired mechanism (four pre-inflected strings selected by the type-level style, prefix chain as a
   concatenation tree, const_str_value) writes is what the documentation's naming function says ---- *)

(* every EntryWriter call, absent values included: name and closed value *)
Theorem c07_refine_calls : forall (pascal snake kebab : bytes -> bytes) (d : edef),
  units_ok pascal snake kebab d = true ->
  map strip (root_write pascal snake kebab true d) = spec_calls pascal snake kebab d.
Proof. exact (fun pascal snake kebab d => refine_calls pascal snake kebab true d). Qed.
Print Assumptions c07_refine_calls.

(* what a formatter sees: absent Options contribute nothing *)
Theorem c07_refine : forall (pascal snake kebab : bytes -> bytes) (d : edef),
  units_ok pascal snake kebab d = true ->
  observe (root_write pascal snake kebab true d) = spec_items pascal snake kebab d.
Proof. exact (fun pascal snake kebab d => refine_items pascal snake kebab true d). Qed.
Print Assumptions c07_refine.

(* exactly one EntryWriter call per non-ignored field reached through present flattened children
   (holds for the code as found and for the repaired code) *)
Theorem c07_one_item_per_field : forall (pascal snake kebab : bytes -> bytes) (fixed : bool) (d : edef),
  List.length (root_write pascal snake kebab fixed d) = n_calls d.
Proof. exact one_call_per_field. Qed.
Print Assumptions c07_one_item_per_field.

(* the formatter's view drops exactly the absent values and nothing else *)
Theorem c07_absent_options_contribute_nothing : forall its : list item,
  observe its = map strip (filter (fun it => match it with IValue _ _ VNone => false | _ => true end) its).
Proof. exact observe_drops_exactly_absent. Qed.
Print Assumptions c07_absent_options_contribute_nothing.

(* value, unit and string-or-metric kind are those of the closed field; a declared unit replaces the unit and
   leaves the observation alone (ratio-1 attachments; the other ratios are property C19) *)
Theorem c07_units : forall (pascal snake kebab : bytes -> bytes) (unit : option N) (v : leaf),
  leaf_units_ok pascal snake kebab v = true ->
  unit_compatible unit (sp_leaf pascal snake kebab v) = true ->
  attach_opt unit (leaf_call pascal snake kebab v) = with_unit unit (sp_leaf pascal snake kebab v).
Proof. exact field_value_spec. Qed.
Print Assumptions c07_units.

(* sample-group pairs.  FULL STATEMENT (refuted by the code as it is, see c07_sample_group_refuted):
     forall d, units_ok d = true -> root_sg ... d = spec_groups ... d.
   Proved for the code as it is on every tree in which no flatten PREFIX sits above a sample-group declaration
   ([sg_safe]), and for every tree once the proposed repair (docs/C07-sample-group-repair.patch) is applied. *)
Theorem c07_sample_group_partial : forall (pascal snake kebab : bytes -> bytes) (d : edef),
  units_ok pascal snake kebab d = true -> sg_safe d = true ->
  root_sg pascal snake kebab true false true d = spec_groups pascal snake kebab d.
Proof. exact (fun pascal snake kebab d H S => refine_groups pascal snake kebab false d H (or_intror S)). Qed.
Print Assumptions c07_sample_group_partial.

Theorem c07_sample_group_repaired : forall (pascal snake kebab : bytes -> bytes) (d : edef),
  units_ok pascal snake kebab d = true ->
  root_sg pascal snake kebab true true true d = spec_groups pascal snake kebab d.
Proof. exact (fun pascal snake kebab d H => refine_groups pascal snake kebab true d H (or_introl eq_refl)). Qed.
Print Assumptions c07_sample_group_repaired.

(* ... in particular every pair's name is the name of an item the same entry writes (pairs of a hand-written
   flattened Entry excepted: they are whatever that Entry says) *)
Theorem c07_sample_group_names_written_partial : forall (pascal snake kebab : bytes -> bytes) (d : edef) (n g : bytes),
  units_ok pascal snake kebab d = true -> sg_safe d = true ->
  In (n, g) (root_sg pascal snake kebab true false true d) ->
  (exists b v, In (IValue n b v) (root_write pascal snake kebab true d)) \/
  In (RGroup n g) (spec_rows pascal snake kebab d).
Proof. exact (fun pascal snake kebab d n g H S => groups_use_written_names pascal snake kebab false d n g H (or_intror S)). Qed.
Print Assumptions c07_sample_group_names_written_partial.

(* REFUTED for the code as it is (before and after the tag repair), for every Inflector: a flattened child with a
   flatten prefix writes "foo_op" and reports the sample group "op".  Known finding C07-sample-group-flatten-prefix;
   the witness is replayed on the implementation (corpus/C07/cases.sx). *)
Theorem c07_sample_group_refuted : forall (pascal snake kebab : bytes -> bytes) (ftag fwrap : bool),
  root_sg pascal snake kebab ftag false fwrap witness_group_prefix = [(bs "op", bs "Get")] /\
  spec_groups pascal snake kebab witness_group_prefix = [(bs "foo_op", bs "Get")] /\
  observe (root_write pascal snake kebab ftag witness_group_prefix) = [SValue (bs "foo_op") (VString (bs "Get"))] /\
  units_ok pascal snake kebab witness_group_prefix = true /\ sg_safe witness_group_prefix = false.
Proof. exact group_prefix_refuted. Qed.
Print Assumptions c07_sample_group_refuted.

(* a flattened child wrapped in WithDimensions / ForceFlag lost its sample group (as found); repaired by the
   repository's second fix: commit (the wrappers forward sample_group) *)
Theorem c07_wrapped_sample_group_refuted_as_found : forall (pascal snake kebab : bytes -> bytes) (ftag fsg : bool),
  root_sg pascal snake kebab ftag fsg false witness_wrapped_group = [] /\
  spec_groups pascal snake kebab witness_wrapped_group = [(bs "op", bs "Get")] /\
  observe (root_write pascal snake kebab ftag witness_wrapped_group)
    = [SValue (bs "op") (VString (bs "Get")); SValue (bs "n") (VMetric (OU 1) 0 [(bs "k", bs "v")] false)] /\
  root_sg pascal snake kebab ftag fsg true witness_wrapped_group = [(bs "op", bs "Get")].
Proof. exact wrapped_group_refuted_as_found. Qed.
Print Assumptions c07_wrapped_sample_group_refuted_as_found.

(* ---- the tag naming as found (flag false) violated c07_refine; repaired by the repository's fix: commit;
   witnesses kept in corpus/C07/cases.sx ---- *)

(* tag(name_exact = "MyOp") under rename_all = "snake_case" *)
Theorem c07_tag_name_exact_refuted_as_found :
  observe (root_write to_pascal_case to_snake_case to_kebab_case false witness_tag_exact)
    = [SValue (bs "my_op") (VString (bs "read"))] /\
  spec_items to_pascal_case to_snake_case to_kebab_case witness_tag_exact
    = [SValue (bs "MyOp") (VString (bs "read"))].
Proof. exact tag_exact_refuted_as_found. Qed.
Print Assumptions c07_tag_name_exact_refuted_as_found.

(* a container exact_prefix is inflected in the tag's name *)
Theorem c07_tag_exact_prefix_refuted_as_found :
  observe (root_write to_pascal_case to_snake_case to_kebab_case false witness_tag_exact_prefix)
    = [SValue (bs "api_operation") (VString (bs "read")); SValue (bs "API:bytes") (VMetric (OU 1) 0 [] false)] /\
  spec_items to_pascal_case to_snake_case to_kebab_case witness_tag_exact_prefix
    = [SValue (bs "API:operation") (VString (bs "read")); SValue (bs "API:bytes") (VMetric (OU 1) 0 [] false)].
Proof. exact tag_exact_prefix_refuted_as_found. Qed.
Print Assumptions c07_tag_exact_prefix_refuted_as_found.

(* an inflectable tag name is inflected twice (Inflector is not idempotent) *)
Theorem c07_tag_inflected_twice_refuted_as_found :
  observe (root_write to_pascal_case to_snake_case to_kebab_case false witness_tag_twice)
    = [SValue (bs "api-cache-s-3") (VString (bs "read"))] /\
  spec_items to_pascal_case to_snake_case to_kebab_case witness_tag_twice
    = [SValue (bs "api-cache-s3") (VString (bs "read"))].
Proof. exact tag_twice_refuted_as_found. Qed.
Print Assumptions c07_tag_inflected_twice_refuted_as_found.

(* ---- non-vacuity: the documentation's own examples, evaluated through the mechanism model with the Inflector
   model (metrique/README.md "Combining renaming strategies": "his-ApiLatency", "his-exact_name") ---- *)
Example c07_example_readme :
  root_write to_pascal_case to_snake_case to_kebab_case true readme_combined
  = [IValue (bs "foo-bar") true (VMetric (OU 1) 0 [] false);
     IValue (bs "custom_name") true (VString (bs "x"));
     IValue (bs "his-ApiLatency") true (VMetric (OU 5) 4 [] false);
     IValue (bs "his-exact_name") true VNone;
     IValue (bs "his-ApiOperation") true (VString (bs "count_ducks"))]
  /\ root_sg to_pascal_case to_snake_case to_kebab_case true true true readme_combined = [(bs "his-ApiOperation", bs "count_ducks")]
  /\ root_sg to_pascal_case to_snake_case to_kebab_case true false true readme_combined = [(bs "ApiOperation", bs "count_ducks")]
  /\ units_ok to_pascal_case to_snake_case to_kebab_case readme_combined = true
  /\ spec_items to_pascal_case to_snake_case to_kebab_case readme_combined
     = [SValue (bs "foo-bar") (VMetric (OU 1) 0 [] false); SValue (bs "custom_name") (VString (bs "x"));
        SValue (bs "his-ApiLatency") (VMetric (OU 5) 4 [] false); SValue (bs "his-ApiOperation") (VString (bs "count_ducks"))].
Proof. vm_compute. repeat split. Qed.

(* a prefix chain crossing the 100-byte limit: the name is heap-built, and still the plain concatenation *)
Example c07_example_long_chain :
  let p := repeat 80 50%nat in
  let d := EStruct Snake None (FCons (bs "a") (KFlatten (Some (PExact p)) OptSome
             (EStruct Preserve None (FCons (bs "b") (KFlatten (Some (PExact p)) Plain
                (EStruct Preserve None (FCons (bs "RequestCount") (KField None None false (LNum (OU 1) 0)) FNil))) FNil))) FNil) in
  root_write to_pascal_case to_snake_case to_kebab_case true d
  = [IValue (p ++ p ++ bs "request_count") false (VMetric (OU 1) 0 [] false)].
Proof. vm_compute. reflexivity. Qed.

Example c07_example_concat_limit :
  const_str_value (CCat (CLeaf (repeat 97 100%nat)) (CLeaf [])) = (repeat 97 100%nat, true) /\
  const_str_value (CCat (CLeaf (repeat 97 101%nat)) (CLeaf [])) = (repeat 97 101%nat, false) /\
  maybe_val (CCat (CCat (CLeaf (repeat 97 101%nat)) (CLeaf [])) (CLeaf [98])) = [98].
Proof. vm_compute. repeat split. Qed.

(* the examples of the macro documentation ("Metric Names" in metrique-macro/src/lib.rs, "Add a prefix to all
   metrics in a subfield" in metrique/README.md, metrique/tests/enum_tag.rs), names only *)
Example c07_example_macro_docs :
  (* 1. flatten exact_prefix "API:" / prefix "alt" under kebab-case *)
  (let d := EStruct Kebab None
      (FCons (bs "api") (KFlatten (Some (PExact (bs "API:"))) Plain sub_ducks)
      (FCons (bs "alt") (KFlatten (Some (PInfl (bs "alt"))) Plain sub_ducks) FNil)) in
   run_names d = [bs "API:request-latency"; bs "API:NDucks"; bs "alt-request-latency"; bs "alt-NDucks"]
   /\ spec_names d = run_names d) /\
  (* 2. container prefix "Foo-" under kebab-case does not reach flattened or named fields *)
  (let d := EStruct Kebab (Some (PInfl (bs "Foo-")))
      (FCons (bs "sub") (KFlatten None Plain
           (EStruct Preserve None (FCons (bs "request_latency") (KField None None false (LNum (OF 0) 4)) FNil)))
      (FCons (bs "number_of_ducks") (KField (Some (bs "n-ducks")) None false (LNum (OU 0) 0))
      (FCons (bs "number_of_geese") (KField None None false (LNum (OU 0) 0)) FNil))) in
   run_names d = [bs "request-latency"; bs "n-ducks"; bs "foo-number-of-geese"] /\ spec_names d = run_names d) /\
  (* 3. "waterfowl_NDucks" *)
  (let d := EStruct Snake None
      (FCons (bs "waterfowl") (KFlatten (Some (PInfl (bs "Waterfowl_"))) Plain
           (EStruct Preserve None (FCons (bs "number_of_ducks") (KField (Some (bs "NDucks")) None false (LNum (OU 0) 0)) FNil))) FNil) in
   run_names d = [bs "waterfowl_NDucks"] /\ spec_names d = run_names d) /\
  (* 4. README: prefix = "Downstream" + success in the four styles *)
  (let d := fun ra => EStruct ra None
      (FCons (bs "success") (KField None None false (LNum (OU 1) 0))
      (FCons (bs "downstream") (KFlatten (Some (PInfl (bs "Downstream"))) Plain
           (EStruct Preserve None (FCons (bs "success") (KField None None false (LNum (OU 1) 0)) FNil))) FNil)) in
   map (fun ra => run_names (d ra)) [Preserve; Pascal; Kebab; Snake]
   = [[bs "success"; bs "Downstreamsuccess"]; [bs "Success"; bs "DownstreamSuccess"];
      [bs "success"; bs "downstream-success"]; [bs "success"; bs "downstream_success"]]
   /\ map (fun ra => spec_names (d ra)) [Preserve; Pascal; Kebab; Snake] = map (fun ra => run_names (d ra)) [Preserve; Pascal; Kebab; Snake]) /\
  (* 5. tests/enum_tag.rs: tag(name_exact = "op") / tag(name = "op"), prefix = "api_", snake_case *)
  (let d := fun exact => EEnum Snake (Some (PInfl (bs "api_"))) (Some (Tag exact (bs "op") false))
      (VCons (bs "ReadData") None (DStruct (FCons (bs "count") (KField None None false (LNum (OU 42) 0)) FNil)) VNil) 0 in
   run_names (d true) = [bs "op"; bs "api_count"] /\ run_names (d false) = [bs "api_op"; bs "api_count"]
   /\ spec_names (d true) = run_names (d true) /\ spec_names (d false) = run_names (d false)).
Proof. vm_compute. repeat split. Qed.

(* satisfiable premises: a tree with sample groups below an un-prefixed flatten is [sg_safe] (and the code as it
   is reports them); with a prefixed flatten it is not; hand-written entries with short names are [raw_short] *)
Example c07_example_premises :
  let child := EStruct Snake None (FCons (bs "OpName") (KField None None true (LStr (bs "Get"))) FNil) in
  let raw := KFlattenEntry [(bs "custom", VString (bs "x"))] [(bs "grp", bs "y")] in
  let safe := EStruct Pascal None (FCons (bs "c") (KFlatten None OptSome child) (FCons (bs "r") raw FNil)) in
  let unsafe := EStruct Pascal None (FCons (bs "c") (KFlatten (Some (PInfl (bs "up"))) OptSome child) FNil) in
  sg_safe safe = true /\ raw_short safe = true /\ units_ok to_pascal_case to_snake_case to_kebab_case safe = true /\
  root_sg to_pascal_case to_snake_case to_kebab_case true false true safe = [(bs "op_name", bs "Get"); (bs "grp", bs "y")] /\
  sg_safe unsafe = false /\
  root_sg to_pascal_case to_snake_case to_kebab_case true false true unsafe = [(bs "op_name", bs "Get")] /\
  spec_groups to_pascal_case to_snake_case to_kebab_case unsafe = [(bs "Upop_name", bs "Get")].
Proof. vm_compute. repeat split. Qed.
