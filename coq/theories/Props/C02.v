(* C02 — pinned statements. *)
From Coq Require Import String.
From Coq Require Import List NArith ZArith.
From MV Require Import Common.Sx Common.Bytes Json.Json Json.Valid Json.Dec
                       Emf.Model Emf.Spec Emf.ErrorNothing Emf.Refine Emf.DocsWf Emf.Reuse Emf.Content.
Import ListNotations.

(* When the formatter reports a validation error it has written nothing at all — for every configuration,
   formatter state (history), multiplicity, entry, clock value, float-printer table and writer behaviour. *)
Theorem c02_error_writes_nothing :
  forall c s mult e now ftab script s' msgs out,
    format c s mult e now ftab script = (s', RValidation msgs, out) -> out = [] /\ msgs <> [].
Proof. exact format_validation_no_bytes. Qed.
Print Assumptions c02_error_writes_nothing.

(* Refinement: whenever the buffer mechanism reports success, the bytes it wrote are exactly the printed
   documents of the reference interpretation, one per line, newline-terminated. *)
Theorem c02_refine : forall c ns0 nss mult e now ftab s' out,
  namespaces c = ns0 :: nss ->
  format c (fresh c) mult e now ftab [] = (s', ROk, out) ->
  out = concat (map (fun d => print d ++ [10%N]) (emf_docs c mult e now ftab)).
Proof. exact format_prints_docs. Qed.
Print Assumptions c02_refine.

(* Validity: ... so the output is one or more complete lines, each a syntactically valid JSON object (derivable in
   the RFC 8259 grammar) whose first member is the `_aws` metadata block — provided the float printer's texts
   are JSON numbers (hypothesis on the oracle, checked per literal by the correspondence run). *)
Definition emf_record (c : config) (d : json) : Prop :=
  exists ts sets decls extra members,
    d = JObj ((bs "_aws", aws_doc c ts (map (fun ns => directive_doc ns sets decls) (namespaces c) ++ extra)) :: members).

Theorem c02_valid : forall c ns0 nss mult e now ftab s' out,
  namespaces c = ns0 :: nss ->
  floats_ok ftab mult e ->
  format c (fresh c) mult e now ftab [] = (s', ROk, out) ->
  exists docs, docs <> [] /\
    out = concat (map (fun d => print d ++ [10%N]) docs) /\
    Forall (fun d => value (print d) /\ emf_record c d) docs.
Proof.
  intros c ns0 nss mult e now ftab s' out Hns Hfl Hf.
  exists (emf_docs c mult e now ftab). split; [|split].
  - unfold emf_docs.
    destruct (filter _ (a_sets (abuild c ftab mult e))) as [|x xs]; cbn [map app orb]; discriminate.
  - exact (format_prints_docs c ns0 nss mult e now ftab s' out Hns Hf).
  - apply Forall_forall. intros d Hd. split.
    + apply print_compact. pose proof (emf_docs_wf c mult e now ftab Hfl) as W. rewrite Forall_forall in W. exact (W d Hd).
    + destruct (docs_timestamp c mult e now ftab d Hd) as (sets & decls & extra & members & ->).
      eexists _, _, _, _, _. reflexivity.
Qed.
Print Assumptions c02_valid.

(* ... and this holds for every reachable formatter state, not only a fresh one (by C14). *)
Theorem c02_refine_any_history : forall c s k s' out,
  Reach c s -> format_call c s k = (s', ROk, out) ->
  exists s'', format_call c (fresh c) k = (s'', ROk, out).
Proof.
  intros c s k s' out HR Hf. pose proof (history_free c s k HR) as [H1 H2].
  rewrite Hf in H1, H2. cbn [fst snd] in H1, H2.
  destruct (format_call c (fresh c) k) as [[s2 r2] o2]. cbn [fst snd] in *. subst. eexists. reflexivity.
Qed.
Print Assumptions c02_refine_any_history.

(* the hand-rolled encoders: every byte string is printed as a valid JSON string token, every natural number as a
   valid JSON number token *)
Theorem c02_escape : forall s, value (print_str s).
Proof. exact print_str_value. Qed.
Print Assumptions c02_escape.
Theorem c02_dec : forall n, number_text (render_dec n).
Proof. exact render_dec_number. Qed.
Print Assumptions c02_dec.

(* every well-formed JSON value prints to text derivable in the grammar *)
Theorem c02_printer_valid : forall j, wf j -> value (print j).
Proof. exact print_compact. Qed.
Print Assumptions c02_printer_valid.

(* non-vacuity: an accepted split entry with two namespaces, a NaN in the middle of a distribution, escapes *)
Example c02_example :
  let c := mk_config false false false [bs "A"; bs "B"] [[bs "R"]] [] None false in
  let e := [ITimestamp 1500000; IConfig CSplit; IValue (bs "R") (VString (bs "x""y"));
            IValue (bs "m") (VMetric [OUnsigned 1; OFloat 9221120237041090560; OUnsigned 2] UNone [] FNone);
            IValue (bs "d") (VMetric [OUnsigned 7] (UName (bs "Count")) [(bs "k", bs "v")] FHigh)] in
  exists s' out, format c (fresh c) None e 0 [] [] = (s', ROk, out) /\
                 out = concat (map (fun d => print d ++ [10%N]) (emf_docs c None e 0 [])) /\
                 length (emf_docs c None e 0 []) = 2.
Proof. cbv zeta. eexists _, _. split; [vm_compute; reflexivity | split; vm_compute; reflexivity]. Qed.

(* the executable parser (the predicate applied to the implementation's bytes) inverts the printer *)
From MV Require Import Json.RoundTrip.
Theorem c02_parse_print : forall j, wf j -> parse (print j) = Some j.
Proof. exact parse_print. Qed.
Print Assumptions c02_parse_print.
