(* C02 — pinned statements. *)
From Coq Require Import List NArith ZArith.
From MV Require Import Common.Sx Common.Bytes Emf.Model Emf.ErrorNothing.
Import ListNotations.

(* When the formatter reports a validation error it has written nothing at all — for every configuration,
   formatter state (history), multiplicity, entry, clock value, float-printer table and writer behaviour. *)
Theorem c02_error_writes_nothing :
  forall c s mult e now ftab script s' msgs out,
    format c s mult e now ftab script = (s', RValidation msgs, out) -> out = [] /\ msgs <> [].
Proof. exact format_validation_no_bytes. Qed.
Print Assumptions c02_error_writes_nothing.
