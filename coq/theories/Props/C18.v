(* C18 — pinned statements. Nothing but statements, [exact] and Print Assumptions. *)
From Coq Require Import List NArith ZArith.
From MV Require Import C18.Model C18.Spec C18.Proofs.
Import ListNotations.
Local Open Scope N_scope.

(* For every operation sequence (any clock advances, borrowed and owned guards, any number live at once),
   the closed stopwatch reports the total of the completed, undiscarded spans since the last clear or
   overwrite, and nothing when there is none. *)
Theorem c18_stopwatch : forall ops : list op, sw_close (run ops) = spec ops.
Proof. exact stopwatch_refines_spec. Qed.
Print Assumptions c18_stopwatch.

(* ... and this holds after every prefix of the sequence (what a by-reference close observes). *)
Theorem c18_stopwatch_every_prefix : forall ops : list op,
  observe sw_init ops = map (fun k => spec (firstn k ops)) (seq 1 (length ops)).
Proof. exact observe_spec. Qed.
Print Assumptions c18_stopwatch_every_prefix.

Theorem c18_borrowed_owned_same : forall ops, sw_close (run (map erase_kind ops)) = sw_close (run ops).
Proof. exact borrowed_owned_same. Qed.
Print Assumptions c18_borrowed_owned_same.

(* A timer reports creation -> first stop, or creation -> close when never stopped. *)
Theorem c18_timer : forall t0 ops, timer_close (fold_left tstep ops (timer_init t0)) = timer_spec ops.
Proof. exact timer_refines_spec. Qed.
Print Assumptions c18_timer.

Theorem c18_timer_repeated_stop : forall t, tstep (tstep t TStop) TStop = tstep t TStop.
Proof. exact timer_stop_idempotent. Qed.
Print Assumptions c18_timer_repeated_stop.

Theorem c18_timer_fixed_after_stop : forall ops t d,
  t_dur t = Some d -> timer_close (fold_left tstep ops t) = d.
Proof. exact timer_stopped_is_fixed. Qed.
Print Assumptions c18_timer_fixed_after_stop.

(* Timestamps: the injected wall clock at creation (Timestamp) or at close (TimestampOnClose), as the duration since
   the epoch (zero before it); microseconds by integer division. *)
Theorem c18_timestamp_instant : forall w0 w1,
  ts_value false w0 w1 = since_epoch w0 /\ ts_value true w0 w1 = since_epoch w1.
Proof. intros; split; [apply ts_at_creation | apply ts_on_close]. Qed.
Print Assumptions c18_timestamp_instant.
Theorem c18_timestamp_epoch : forall w, ((w < 0)%Z -> since_epoch w = 0) /\ ((0 <= w)%Z -> Z.of_N (since_epoch w) = w).
Proof. intros w; split; [apply since_epoch_before | apply since_epoch_after]. Qed.
Print Assumptions c18_timestamp_epoch.
Theorem c18_timestamp_micros : forall d, ts_micros d * 1000 <= d < (ts_micros d + 1) * 1000.
Proof. exact micros_exact. Qed.
Print Assumptions c18_timestamp_micros.
(* seconds / milliseconds are the binary64 values of as_secs_f64() and as_secs_f64() * 1000 (Flocq, bit-exact) *)
Example c18_example_timestamp :
  (ts_micros 1500000123, ts_secs_bits 1500000000, ts_millis_bits 1500000000) = (1500000, 4609434218613702656, 4654311885213007872).
Proof. vm_compute. reflexivity. Qed.

(* non-vacuity: two owned guards live at once, an overwrite in between, a discard, then a clear *)
Example c18_example :
  observe sw_init [StartO; Adv 5; StartO; Adv 2; Overwrite 1; Adv 1; Stop 0; StartB; Adv 4; Discard 2; Clear]
  = [None; None; None; None; Some 2; Some 2; Some 10; Some 10; Some 10; Some 10; None].
Proof. vm_compute. reflexivity. Qed.
