(* C18 — pinned statements. Nothing but statements, [exact] and Print Assumptions. *)
From Coq Require Import List NArith.
From MV Require Import C18.Model C18.Spec C18.Proofs.
Import ListNotations.
Local Open Scope N_scope.

(* For every operation sequence (any clock advances, borrowed and owned guards, any number live at once),
   the closed stopwatch reports the total of the completed, undiscarded spans since the last clear or
   overwrite, and nothing when there is none. *)
Theorem c18_stopwatch : forall ops : list op, sw_close (run ops) = spec ops.
Proof. exact stopwatch_refines_spec. Qed.
Print Assumptions c18_stopwatch.

(* ... and this holds after every prefix of the sequence (what a by-reference close observes). *)
Theorem c18_stopwatch_every_prefix : forall ops : list op,
  observe sw_init ops = map (fun k => spec (firstn k ops)) (seq 1 (length ops)).
Proof. exact observe_spec. Qed.
Print Assumptions c18_stopwatch_every_prefix.

Theorem c18_borrowed_owned_same : forall ops, sw_close (run (map erase_kind ops)) = sw_close (run ops).
Proof. exact borrowed_owned_same. Qed.
Print Assumptions c18_borrowed_owned_same.

(* A timer reports creation -> first stop, or creation -> close when never stopped. *)
Theorem c18_timer : forall t0 ops, timer_close (fold_left tstep ops (timer_init t0)) = timer_spec ops.
Proof. exact timer_refines_spec. Qed.
Print Assumptions c18_timer.

Theorem c18_timer_repeated_stop : forall t, tstep (tstep t TStop) TStop = tstep t TStop.
Proof. exact timer_stop_idempotent. Qed.
Print Assumptions c18_timer_repeated_stop.

Theorem c18_timer_fixed_after_stop : forall ops t d,
  t_dur t = Some d -> timer_close (fold_left tstep ops t) = d.
Proof. exact timer_stopped_is_fixed. Qed.
Print Assumptions c18_timer_fixed_after_stop.

(* non-vacuity: two owned guards live at once, an overwrite in between, a discard, then a clear *)
Example c18_example :
  observe sw_init [StartO; Adv 5; StartO; Adv 2; Overwrite 1; Adv 1; Stop 0; StartB; Adv 4; Discard 2; Clear]
  = [None; None; None; None; Some 2; Some 2; Some 10; Some 10; Some 10; Some 10; None].
Proof. vm_compute. reflexivity. Qed.
