(* C19 — pinned statements. Nothing but statements, [exact] and Print Assumptions.
   Everything here is about the tables that tools/gen_units.py regenerates from unit.rs on every run. *)
From Coq Require Import List ZArith NArith Reals QArith Qreals Bool.
From Flocq Require Import Core.Core IEEE754.Binary IEEE754.Bits.
From MV Require Import SFloat.Defs SFloat.Facts SFloat.Str C19.UnitsGen C19.Model C19.Spec C19.Proofs C19.ProofsFloat C19.ProofsValue C19.ProofsMean.
Import ListNotations.
Local Open Scope Q_scope.

(* A Convert impl exists exactly for the documented pairs: unitless -> anything, time -> time, data -> data. *)
Theorem c19_convertible : forall a b : tag, convertible a b = spec_convertible (tag_unit a) (tag_unit b).
Proof. exact convertible_is_spec. Qed.
Print Assumptions c19_convertible.

(* For every convertible pair the constant RATIO denotes (as the exact quotient the source writes) the quotient of
   the documented unit sizes - or 1 when a unit is declared on a unitless value. *)
Theorem c19_ratio : forall a b : tag, convertible a b = true ->
  ratio_q a b == spec_ratio (tag_unit a) (tag_unit b).
Proof. exact ratio_is_spec. Qed.
Print Assumptions c19_ratio.

(* number x unit size is invariant under a conversion *)
Theorem c19_quantity_exact : forall a b : tag, convertible a b = true -> unitless_source a = false ->
  forall x : Q, (x * ratio_q a b) * phys (tag_unit b) == x * phys (tag_unit a).
Proof. exact ratio_preserves_quantity. Qed.
Print Assumptions c19_quantity_exact.

Theorem c19_declare_keeps_number : forall a b : tag, convertible a b = true -> unitless_source a = true ->
  ratio_q a b == 1.
Proof. exact declare_keeps_number. Qed.
Print Assumptions c19_declare_keeps_number.

(* a conversion composed with its inverse is the identity; conversions compose *)
Theorem c19_inverse : forall a b : tag, convertible a b = true -> convertible b a = true ->
  ratio_q a b * ratio_q b a == 1.
Proof. exact ratio_inverse. Qed.
Print Assumptions c19_inverse.

Theorem c19_compose : forall a b c : tag, convertible a b = true -> convertible b c = true -> unitless_source a = false ->
  convertible a c = true /\ ratio_q a b * ratio_q b c == ratio_q a c.
Proof. exact ratio_compose. Qed.
Print Assumptions c19_compose.

(* the printed name of every tag's unit is the one its Rust identifier promises - a name CloudWatch defines;
   distinct tags print distinct names; a custom unit prints its own string *)
Theorem c19_name : forall t : tag,
  unit_name (tag_unit t) = spec_name_of_tag t /\ cloudwatch_name (tag_unit t) = spec_name_of_tag t /\
  exists info, lookup (spec_name_of_tag t) cloudwatch_units = Some info.
Proof. exact name_is_cloudwatch. Qed.
Print Assumptions c19_name.

Theorem c19_custom_name : forall n, unit_name (U_Custom n) = n /\ cloudwatch_name (U_Custom n) = n.
Proof. exact custom_name. Qed.
Print Assumptions c19_custom_name.

Theorem c19_names_distinct : forall a b : tag, unit_name (tag_unit a) = unit_name (tag_unit b) -> a = b.
Proof. exact names_distinct. Qed.
Print Assumptions c19_names_distinct.

(* ---- binary64 ---- *)
Local Open Scope R_scope.
(* the constant the compiler computes for `(x as f64)/(y as f64)` (one IEEE division of two exactly converted
   integers) is the documented ratio correctly rounded to binary64: within half an ulp *)
Theorem c19_ratio_f64 : forall a b : tag, convertible a b = true ->
  R64 (ratio_f64 a b) = rnd64 (Q2R (spec_ratio (tag_unit a) (tag_unit b))) /\
  Binary.is_finite 53 1024 (ratio_f64 a b) = true.
Proof. intros a b H. split; [apply ratio_f64_is_rounded_spec; exact H | apply ratio_f64_correct; exact H]. Qed.
Print Assumptions c19_ratio_f64.

(* when the documented factor is 1 the observation is handed on untouched (integers stay integers) *)
Theorem c19_convert_identity : forall a b : tag, convertible a b = true ->
  Q2R (spec_ratio (tag_unit a) (tag_unit b)) = 1 -> forall o, convert (ratio_f64 a b) o = o.
Proof. exact convert_identity. Qed.
Print Assumptions c19_convert_identity.

(* otherwise every kind of observation is multiplied by the constant; occurrences are kept *)
Theorem c19_convert_scales : forall a b : tag, convertible a b = true ->
  Q2R (spec_ratio (tag_unit a) (tag_unit b)) <> 1 -> forall o,
  convert (ratio_f64 a b) o = match o with
                              | OUnsigned u => OFloat (f64_mul (u64_as_f64 u) (ratio_f64 a b))
                              | OFloat f => OFloat (f64_mul f (ratio_f64 a b))
                              | ORepeated t n => ORepeated (f64_mul t (ratio_f64 a b)) n
                              end.
Proof. exact convert_scales. Qed.
Print Assumptions c19_convert_scales.

(* quantity preserved up to floating-point rounding: for a finite number whose product stays in the normal range,
   |emitted - original * ratio| <= (2^-52 + 2^-106) * |original * ratio|, ratio being the exact documented one;
   multiply both sides by the target unit's size to read it as "emitted x new size = original x old size" *)
Theorem c19_quantity : forall a b : tag, convertible a b = true ->
  forall x : f64, Binary.is_finite 53 1024 x = true ->
  let rho := Q2R (spec_ratio (tag_unit a) (tag_unit b)) in
  Rabs (rnd64 (R64 x * rnd64 rho)) < bpow radix2 1024 ->
  bpow radix2 (-1022) <= Rabs (R64 x * rnd64 rho) ->
  Rabs (R64 (f64_mul x (ratio_f64 a b)) - R64 x * rho) <= (bpow radix2 (-52) + bpow radix2 (-106)) * Rabs (R64 x * rho).
Proof. exact scaled_error. Qed.
Print Assumptions c19_quantity.

(* the same with premises on the number only: any finite observation of magnitude between 2^-900 and 2^900 *)
Theorem c19_quantity_moderate : forall a b : tag, convertible a b = true ->
  forall x : f64, Binary.is_finite 53 1024 x = true ->
  bpow radix2 (-900) <= Rabs (R64 x) <= bpow radix2 900 ->
  let rho := Q2R (spec_ratio (tag_unit a) (tag_unit b)) in
  Rabs (R64 (f64_mul x (ratio_f64 a b)) - R64 x * rho) <= (bpow radix2 (-52) + bpow radix2 (-106)) * Rabs (R64 x * rho).
Proof. exact scaled_error_moderate. Qed.
Print Assumptions c19_quantity_moderate.

(* ---- value trees ---- *)
(* every well-typed tree of WithUnit / Distribution / Mean / Option / Duration / primitive / arbitrary scripted
   values makes the call the specification prescribes - nothing, string, validation error or metric with the same
   unit, dimensions, flags, number and kind of observations, untouched integers and occurrences - leaving only the
   floating-point digits to c19_quantity *)
Theorem c19_refines_spec : forall v : value, well_typed v = true -> script_errors_ok v ->
  agrees (write v) (spec_write v).
Proof. exact write_agrees_spec. Qed.
Print Assumptions c19_refines_spec.

(* THE PROPERTY'S MAIN CLAUSE, END TO END: a value that promised unit a and writes one finite number (magnitude in
   [2^-900, 2^900]) in unit a, wrapped as unit b, emits one number in unit b with the same dimensions and flags, and
   emitted x size(b) = original x size(a) up to two roundings *)
Theorem c19_with_unit_preserves_quantity : forall (a b : tag) (x : f64) dims fl,
  convertible a b = true -> unitless_source a = false ->
  Binary.is_finite 53 1024 x = true -> (bpow radix2 (-900) <= Rabs (R64 x) <= bpow radix2 900)%R ->
  exists y : f64,
    write (WithUnit (Script a (VMetric [OFloat x] (tag_unit a) dims fl)) b) = VMetric [OFloat y] (tag_unit b) dims fl /\
    (Rabs (R64 y * Q2R (phys (tag_unit b)) - R64 x * Q2R (phys (tag_unit a)))
      <= (bpow radix2 (-52) + bpow radix2 (-106)) * Rabs (R64 x * Q2R (phys (tag_unit a))))%R.
Proof. exact with_unit_preserves_quantity. Qed.
Print Assumptions c19_with_unit_preserves_quantity.

(* ... and for every kind of observation (an unsigned integer up to 2^53, a float, a repeated total): the number it
   carries is preserved as a quantity, its occurrences are kept *)
Theorem c19_with_unit_preserves_quantity_any_kind : forall (a b : tag) (o : obs) dims fl,
  convertible a b = true -> unitless_source a = false -> obs_moderate o ->
  exists o' : obs,
    write (WithUnit (Script a (VMetric [o] (tag_unit a) dims fl)) b) = VMetric [o'] (tag_unit b) dims fl /\
    obs_occurrences o' = obs_occurrences o /\
    (Rabs (obs_number o' * Q2R (phys (tag_unit b)) - obs_number o * Q2R (phys (tag_unit a)))
      <= (bpow radix2 (-52) + bpow radix2 (-106)) * Rabs (obs_number o * Q2R (phys (tag_unit a))))%R.
Proof. exact with_unit_preserves_quantity_any_kind. Qed.
Print Assumptions c19_with_unit_preserves_quantity_any_kind.

(* declaring a unit on a unitless value keeps every observation of every kind bit for bit *)
Theorem c19_declare_unit_keeps_observations : forall (a b : tag) os dims fl,
  convertible a b = true -> unitless_source a = true ->
  write (WithUnit (Script a (VMetric os (tag_unit a) dims fl)) b) = VMetric os (tag_unit b) dims fl.
Proof. exact declare_unit_keeps_observations. Qed.
Print Assumptions c19_declare_unit_keeps_observations.

Theorem c19_emitted_unit_is_declared : forall v to os u dims fl,
  write (WithUnit v to) = VMetric os u dims fl -> u = tag_unit to.
Proof. exact with_unit_emits_declared_unit. Qed.
Print Assumptions c19_emitted_unit_is_declared.

Theorem c19_unit_on_string_is_error : forall v to s, write v = VString s ->
  write (WithUnit v to) = VError [msg_unit_on_string].
Proof. exact unit_on_string_is_error. Qed.
Print Assumptions c19_unit_on_string_is_error.

Theorem c19_wrong_unit_is_error : forall v to os u dims fl, write v = VMetric os u dims fl ->
  u <> tag_unit (declared v) ->
  write (WithUnit v to) = VError [msg_wrong_unit (tag_unit (declared v)) u].
Proof. exact wrong_unit_is_error. Qed.
Print Assumptions c19_wrong_unit_is_error.

Theorem c19_right_unit_is_converted : forall v to os dims fl,
  write v = VMetric os (tag_unit (declared v)) dims fl ->
  write (WithUnit v to) = VMetric (map (convert (ratio_f64 (declared v) to)) os) (tag_unit to) dims fl.
Proof. exact right_unit_is_converted. Qed.
Print Assumptions c19_right_unit_is_converted.

(* durations: milliseconds unless another time unit is declared *)
Theorem c19_duration_default : forall s n, exists x,
  write (PDuration s n) = VMetric [OFloat x] (U_Second NS_Milli) [] None.
Proof. exact duration_default_unit. Qed.
Print Assumptions c19_duration_default.

Theorem c19_duration_declared : forall s n to, convertible millisecond_tag to = true -> exists x,
  write (WithUnit (PDuration s n) to) = VMetric [x] (tag_unit to) [] None.
Proof. exact duration_declared_unit. Qed.
Print Assumptions c19_duration_declared.

(* the translated body of Convert::convert is the one the model mirrors *)
Theorem c19_convert_body_unchanged : convert_body_as_modelled = true.
Proof. exact convert_body_unchanged. Qed.
Print Assumptions c19_convert_body_unchanged.
Local Close Scope R_scope.

(* ---- Mean<U> fed by record_value calls: a rejected value leaves no trace ---- *)
(* a record_value that returns Err (string, error, another unit than U::UNIT, dimensions) leaves (total, occurrences)
   exactly as they were, whatever they were *)
Theorem c19_mean_rejected_leaves_accumulator : forall (expected : unit_) (acc : mean_acc) (c : vcall),
  rejected expected acc c -> fst (record_call expected acc c) = acc.
Proof. exact rejected_leaves_accumulator. Qed.
Print Assumptions c19_mean_rejected_leaves_accumulator.

(* ... so at any position of any sequence of records (after every prefix) the rejected call can be deleted *)
Theorem c19_mean_rejected_call_can_be_deleted : forall (expected : unit_) (pre : list vcall) (c : vcall) (post : list vcall),
  rejected expected mean_zero c ->
  mean_run_calls expected (pre ++ c :: post) = mean_run_calls expected (pre ++ post).
Proof. exact rejected_call_can_be_deleted. Qed.
Print Assumptions c19_mean_rejected_call_can_be_deleted.

(* the accumulator after any sequence is the fold over the observations of the accepted calls only *)
Theorem c19_mean_accepted_only : forall (expected : unit_) (cs : list vcall),
  mean_run_calls expected cs = fold_left mean_add_obs (accepted_obs expected cs) mean_zero.
Proof. exact mean_run_is_accepted_only. Qed.
Print Assumptions c19_mean_accepted_only.

(* the mean that is finally written: nothing when no occurrence was accepted; otherwise one Repeated observation in
   the mean's unit whose occurrences are exactly those of the accepted observations and whose total is their
   binary64 running sum, within [error_bound] (per addition: e(1+2^-53) + 2^-53 |partial sum| + 2^-1075) of their
   exact sum - whatever was rejected, wherever *)
Theorem c19_mean_quantity : forall (u : tag) (vs : list value),
  let os := accepted_obs (tag_unit u) (map write vs) in
  sum_safe 0 os ->
  (sum_occurrences os = 0%N -> write (MeanSeq u vs) = VNone) /\
  (sum_occurrences os <> 0%N ->
     exists t : f64,
       write (MeanSeq u vs) = VMetric [ORepeated t (sum_occurrences os)] (tag_unit u) [] None /\
       Binary.is_finite 53 1024 t = true /\
       R64 t = rounded_sum 0 os /\
       (Rabs (R64 t - exact_sum 0 os) <= error_bound 0 0 os)%R).
Proof. exact mean_seq_quantity. Qed.
Print Assumptions c19_mean_quantity.

(* when every partial sum is representable the total is the exact sum *)
Theorem c19_mean_total_exact : forall os s, (forall pre o post, os = pre ++ o :: post ->
     generic_format radix2 fmt64 (exact_sum s (pre ++ [o]))) -> rounded_sum s os = exact_sum s os.
Proof. exact rounded_sum_exact. Qed.
Print Assumptions c19_mean_total_exact.

(* non-vacuity *)
Example c19_example_convertible : convertible T_Terabit T_Kilobyte = true /\ unitless_source T_Terabit = false.
Proof. split; reflexivity. Qed.
Example c19_example_ratio : ratio_q T_Terabit T_Kilobyte == 125000000 /\ ratio_q T_Microsecond T_Second == 1 # 1000000.
Proof. split; vm_compute; reflexivity. Qed.
Example c19_example_unitless : convertible T_None T_Percent = true /\ unitless_source T_None = true.
Proof. split; reflexivity. Qed.

(* the premises of c19_quantity_moderate are satisfiable: 1.5 Terabits converted to Kilobytes *)
Example c19_example_quantity_premises :
  convertible T_Terabit T_Kilobyte = true /\
  (Binary.is_finite 53 1024 (f64_of_bits 4609434218613702656) = true /\
   (bpow radix2 (-900) <= Rabs (R64 (f64_of_bits 4609434218613702656)) <= bpow radix2 900)%R).
Proof.
  split; [reflexivity|].
  eapply f64_moderate_by_Q; [vm_compute; reflexivity | vm_compute; reflexivity | vm_compute; reflexivity].
Qed.
(* 1500 milliseconds declared as Seconds: one observation, 1.5, unit Seconds *)
Example c19_example_duration :
  match write (WithUnit (PDuration 1 500000000) T_Second) with
  | VMetric [OFloat x] u [] None => f64_bits x = 4609434218613702656%N (* 1.5 *) /\ u = U_Second NS_One
  | _ => False
  end.
Proof. vm_compute. split; reflexivity. Qed.
(* a value that promised Bytes but wrote Seconds, wrapped as Kilobytes *)
Example c19_example_wrong_unit :
  write (WithUnit (Script T_Byte (VMetric [OUnsigned 1] (U_Second NS_One) [] None)) T_Kilobyte) =
  VError ["value promised to write unit `Bytes` but wrote `Seconds` instead"%str].
Proof. vm_compute. reflexivity. Qed.
Example c19_example_well_typed :
  well_typed (Distribution T_Kilobit [WithUnit (Script T_Gigabyte (VMetric [OUnsigned 3] (U_Byte PS_Giga) [] None)) T_Kilobit]) = true.
Proof. reflexivity. Qed.

(* the seeded scenario: a raw Duration (Milliseconds) recorded into a Mean<Second> between two honest 2.0 s values is
   rejected with the code's message and leaves no trace: the mean written is 4.0 over 2 occurrences *)
Example c19_example_mean_rejects_duration :
  let two := VMetric [OFloat (f64_of_bits 4611686018427387904)] (U_Second NS_One) [] None in
  let vs := [Script T_Second two; PDuration 1 500000000; Script T_Second two] in
  mean_results T_Second vs = [[]; ["value promised to write unit `Seconds` but wrote `Milliseconds` instead"%str]; []] /\
  rejected (tag_unit T_Second) mean_zero (write (PDuration 1 500000000)) /\
  match write (MeanSeq T_Second vs) with
  | VMetric [ORepeated t n] u [] None => f64_bits t = 4616189618054758400%N (* 4.0 *) /\ n = 2%N /\ u = U_Second NS_One
  | _ => False
  end.
Proof. vm_compute. split; [reflexivity|]. split; [discriminate|]. repeat split; reflexivity. Qed.
(* the premise of c19_mean_quantity is satisfiable *)
Example c19_example_mean_sum_safe : sum_safe 0 [OFloat (u64_as_f64 2); OFloat (u64_as_f64 40)].
Proof. apply small_int_sum_safe; vm_compute; discriminate. Qed.
