(* C19 — pinned statements. Nothing but statements, [exact] and Print Assumptions.
   Everything here is about the tables that tools/gen_units.py regenerates from unit.rs on every run. *)
From Coq Require Import List ZArith NArith QArith Bool.
From MV Require Import SFloat.Defs SFloat.Str C19.UnitsGen C19.Model C19.Spec C19.Proofs.
Import ListNotations.
Local Open Scope Q_scope.

(* A Convert impl exists exactly for the documented pairs: unitless -> anything, time -> time, data -> data. *)
Theorem c19_convertible : forall a b : tag, convertible a b = spec_convertible (tag_unit a) (tag_unit b).
Proof. exact convertible_is_spec. Qed.
Print Assumptions c19_convertible.

(* For every convertible pair the constant RATIO denotes (as the exact quotient the source writes) the quotient of
   the documented unit sizes - or 1 when a unit is declared on a unitless value. *)
Theorem c19_ratio : forall a b : tag, convertible a b = true ->
  ratio_q a b == spec_ratio (tag_unit a) (tag_unit b).
Proof. exact ratio_is_spec. Qed.
Print Assumptions c19_ratio.

(* number x unit size is invariant under a conversion *)
Theorem c19_quantity_exact : forall a b : tag, convertible a b = true -> unitless_source a = false ->
  forall x : Q, (x * ratio_q a b) * phys (tag_unit b) == x * phys (tag_unit a).
Proof. exact ratio_preserves_quantity. Qed.
Print Assumptions c19_quantity_exact.

Theorem c19_declare_keeps_number : forall a b : tag, convertible a b = true -> unitless_source a = true ->
  ratio_q a b == 1.
Proof. exact declare_keeps_number. Qed.
Print Assumptions c19_declare_keeps_number.

(* a conversion composed with its inverse is the identity; conversions compose *)
Theorem c19_inverse : forall a b : tag, convertible a b = true -> convertible b a = true ->
  ratio_q a b * ratio_q b a == 1.
Proof. exact ratio_inverse. Qed.
Print Assumptions c19_inverse.

Theorem c19_compose : forall a b c : tag, convertible a b = true -> convertible b c = true -> unitless_source a = false ->
  convertible a c = true /\ ratio_q a b * ratio_q b c == ratio_q a c.
Proof. exact ratio_compose. Qed.
Print Assumptions c19_compose.

(* the printed name of every unit is CloudWatch's; distinct tags print distinct names *)
Theorem c19_name : forall u : unit_, unit_name u = cloudwatch_name u.
Proof. exact name_is_cloudwatch. Qed.
Print Assumptions c19_name.

Theorem c19_names_distinct : forall a b : tag, unit_name (tag_unit a) = unit_name (tag_unit b) -> a = b.
Proof. exact names_distinct. Qed.
Print Assumptions c19_names_distinct.

(* non-vacuity *)
Example c19_example_convertible : convertible T_Terabit T_Kilobyte = true /\ unitless_source T_Terabit = false.
Proof. split; reflexivity. Qed.
Example c19_example_ratio : ratio_q T_Terabit T_Kilobyte == 125000000 /\ ratio_q T_Microsecond T_Second == 1 # 1000000.
Proof. split; vm_compute; reflexivity. Qed.
Example c19_example_unitless : convertible T_None T_Percent = true /\ unitless_source T_None = true.
Proof. split; reflexivity. Qed.
