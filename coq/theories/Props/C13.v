(* C13 — pinned statements (placeholder while the development is in progress). *)
From Coq Require Import List NArith Bool Arith.
From MV Require Import C06.Model C13.Model C13.Spec.
Import ListNotations.
