(* C13 — pinned statements. Nothing but statements, [exact] and Print Assumptions. *)
From Coq Require Import List NArith Bool Arith.
From MV Require Import C06.Model C06.Spec C06.Inv C13.Model C13.Spec C13.Inv C13.Proofs C13.Refine.
Import ListNotations.

(* [run true shape ls]: the repaired mechanism, an entry with one field per element of [shape]
   ([false] = Slot, [true] = LazySlot), after the label list [ls].  A label list is a history AND a
   schedule: user actions (open, mutate through the guard, delay_flush, begin dropping a guard, poll or drop a
   wait_for_data future, every keep-alive action of C06) interleaved arbitrarily with the atomic steps of the
   guard destructor ([GuardStep i]: first the send, then the release of its flush guard), of the keep-alive
   destructors ([KA (LStep j)]) and of the thread that closes the entry ([CloseStep]: one slot, or the append). *)

(* wait mode: a guard that sent while holding the entry's flush guard, before any force-flush guard began
   dropping, is present in the appended entry with its value as last mutated through the guard ... *)
Theorem c13_wait_present : forall (shape : list bool) (ls : list C13.Model.label) (e : entry) (i : nat) (sl : slot),
  appended (C13.Model.run true shape ls) = [e] ->
  nth_error (slots (C13.Model.run true shape ls)) i = Some sl ->
  wait_sent sl = true ->
  nth_error (snd e) i = Some (Some (gval sl)).
Proof. exact wait_present. Qed.
Print Assumptions c13_wait_present.

(* ... because the entry is not closed, let alone appended, while such a guard still holds its flush guard:
   whichever of parent and guard is dropped first, on whichever threads *)
Theorem c13_wait_blocks_close : forall (shape : list bool) (ls : list C13.Model.label) (i : nat) (sl : slot),
  nth_error (slots (C13.Model.run true shape ls)) i = Some sl ->
  holds_guard sl = true -> forced (ka (C13.Model.run true shape ls)) = 0 ->
  emits (ka (C13.Model.run true shape ls)) = [] /\ closing (C13.Model.run true shape ls) = None /\
  appended (C13.Model.run true shape ls) = [] /\ closed sl = false.
Proof. exact wait_blocks_close. Qed.
Print Assumptions c13_wait_blocks_close.

(* any mode (discard mode in particular): the appended entry contains the slot's value exactly when the
   guard's send happened before the parent closed that slot ([sbc]), and then it is the value sent *)
Theorem c13_present_iff_sent_before_close :
  forall (shape : list bool) (ls : list C13.Model.label) (e : entry) (i : nat) (sl : slot),
  appended (C13.Model.run true shape ls) = [e] ->
  nth_error (slots (C13.Model.run true shape ls)) i = Some sl ->
  closed sl = true /\ nth_error (snd e) i = Some (if sbc sl then sent sl else None).
Proof. exact present_iff_sent_before_close. Qed.
Print Assumptions c13_present_iff_sent_before_close.

Theorem c13_sent_is_guard_value : forall (shape : list bool) (ls : list C13.Model.label) (i : nat) (sl : slot) (v : value),
  nth_error (slots (C13.Model.run true shape ls)) i = Some sl -> sent sl = Some v -> v = gval sl.
Proof. exact sent_is_guard_value. Qed.
Print Assumptions c13_sent_is_guard_value.

(* the rest of the entry is unaffected either way: its own fields are the keep-alive state's content, which
   no slot action, destructor step or closing step changes *)
Theorem c13_rest_unaffected : forall (shape : list bool) (ls : list C13.Model.label) (e : entry),
  appended (C13.Model.run true shape ls) = [e] -> fst e = log (ka (C13.Model.run true shape ls)).
Proof. exact entry_log. Qed.
Print Assumptions c13_rest_unaffected.

Theorem c13_log_only_by_mutate : forall (fx : bool) (s : C13.Model.state) (l : C13.Model.label),
  log (ka (C13.Model.step fx s l)) = log (ka s) \/
  exists v, l = KA (LMutate v) /\ log (ka (C13.Model.step fx s l)) = log (ka s) ++ [v].
Proof. exact log_only_by_mutate. Qed.
Print Assumptions c13_log_only_by_mutate.

(* a slot can be opened at most once (Slot and LazySlot): at most one open ever returns a guard, and every
   later open returns None *)
Theorem c13_single_open : forall (shape : list bool) (ls : list C13.Model.label) (i : nat) (sl : slot),
  nth_error (slots (C13.Model.run true shape ls)) i = Some sl -> opened sl <= 1.
Proof. exact single_open. Qed.
Print Assumptions c13_single_open.

Theorem c13_second_open_none : forall (shape : list bool) (ls : list C13.Model.label) (i : nat) (w : bool) (sl : slot),
  nth_error (slots (C13.Model.run true shape ls)) i = Some sl -> opened sl = 1 ->
  let s := C13.Model.run true shape ls in
  let s' := C13.Model.step true s (Open i w) in
  (rets s' = rets s \/ rets s' = rets s ++ [RGuard false]) /\
  (forall sl', nth_error (slots s') i = Some sl' -> opened sl' = 1).
Proof. exact second_open_none. Qed.
Print Assumptions c13_second_open_none.

(* closing an entry never fails (repaired code), it is appended at most once, at C06's moment *)
Theorem c13_close_never_panics : forall (shape : list bool) (ls : list C13.Model.label),
  panicked (C13.Model.run true shape ls) = false.
Proof. exact no_panic. Qed.
Print Assumptions c13_close_never_panics.

Theorem c13_append_at_most_once : forall (shape : list bool) (ls : list C13.Model.label),
  length (appended (C13.Model.run true shape ls)) <= 1.
Proof. exact append_at_most_once. Qed.
Print Assumptions c13_append_at_most_once.

Theorem c13_appended_not_early : forall (shape : list bool) (ls : list C13.Model.label),
  appended (C13.Model.run true shape ls) <> [] -> due (view_of_state (ka (C13.Model.run true shape ls))) = true.
Proof. exact appended_not_early. Qed.
Print Assumptions c13_appended_not_early.

Theorem c13_appended_not_late : forall (shape : list bool) (ls : list C13.Model.label),
  quiescent (ka (C13.Model.run true shape ls)) = true -> closing (C13.Model.run true shape ls) = None ->
  due (view_of_state (ka (C13.Model.run true shape ls))) = true ->
  length (appended (C13.Model.run true shape ls)) = 1.
Proof. exact appended_not_late. Qed.
Print Assumptions c13_appended_not_late.

(* sequential histories (every user action runs to completion before the next): the mechanism is exactly the
   history specification [Spec.sstep]: the number of entries appended after every action, every result returned
   by open / wait_for_data, and the entries themselves (own fields and, per slot, the value iff its guard was
   dropped before the entry was closed); closing never panics *)
Theorem c13_sequential_refines_spec : forall (shape : list bool) (ls : list C13.Model.label),
  Forall (fun l => user13 l = true) ls ->
  C13.Model.seq_observe true (C13.Model.init shape) ls = sobserve (sview_init shape) ls /\
  rets (C13.Model.seq_run true shape ls) = sv_rets (srun shape ls) /\
  appended (C13.Model.seq_run true shape ls) = sv_appended (srun shape ls) /\
  panicked (C13.Model.seq_run true shape ls) = false.
Proof. exact seq_refines_spec. Qed.
Print Assumptions c13_sequential_refines_spec.

(* the keep-alive component obeys C06's invariant, hence every C06 theorem *)
Theorem c13_keep_alive_invariant : forall (shape : list bool) (ls : list C13.Model.label),
  C06.Inv.inv (ka (C13.Model.run true shape ls)).
Proof. exact ka_inv. Qed.
Print Assumptions c13_keep_alive_invariant.

(* the code as found (wait_for_data moved the receiver into its future): refuted; the witness is
   corpus/C13/cases.sx line 1, replayed on the implementation before the fix: commit *)
Theorem c13_unrepaired_refuted : exists ls : list C13.Model.label,
  let s := C13.Model.run false [false] ls in
  panicked s = true /\ appended s = [] /\
  due (view_of_state (ka s)) = true /\ quiescent (ka s) = true /\ closing s = None.
Proof. exact unrepaired_refuted. Qed.
Print Assumptions c13_unrepaired_refuted.

(* non-vacuity *)
(* wait mode, parent dropped first, then the guard: the entry waits and contains the value *)
Example c13_example_wait :
  appended (seq_run true [false; true]
     [KA LNewFlush; Open 0 true; SlotMut 0 5; KA (LMutate 1); KA LDropOwner; SlotMut 0 6; DropGuard 0])
  = [([1%N], [Some [5%N; 6%N]; None])].
Proof. vm_compute. reflexivity. Qed.
(* the two-instruction window: the parent's closing thread reads the slot between the guard's send and its release *)
Example c13_example_window :
  let s := C13.Model.run true [false]
     [KA LNewFlush; KA LNewForce; Open 0 true; KA LDropOwner; KA (LStep 0); KA (LStep 0);
      DropGuard 0; GuardStep 0; KA LDropForce; KA (LStep 1); KA (LStep 1); KA (LStep 1); CloseStep; CloseStep; GuardStep 0] in
  appended s = [([], [Some []])] /\ (exists sl, nth_error (slots s) 0 = Some sl /\ wait_sent sl = true /\ sbc sl = true).
Proof. vm_compute. split; [reflexivity|]. eexists; split; [reflexivity|]. auto. Qed.
(* discard mode: the parent closes the slot before the guard sends: absent, rest intact *)
Example c13_example_discard_late :
  let s := C13.Model.run true [false]
     [Open 0 false; SlotMut 0 9; KA (LMutate 2); KA LDropOwner; KA (LStep 0); KA (LStep 0); KA (LStep 0); DropGuard 0;
      CloseStep; GuardStep 0; CloseStep; GuardStep 0] in
  appended s = [([2%N], [None])] /\ (exists sl, nth_error (slots s) 0 = Some sl /\ sbc sl = false /\ sent sl = Some [9%N]).
Proof. vm_compute. split; [reflexivity|]. eexists; split; [reflexivity|]. auto. Qed.
(* discard mode, send first: present *)
Example c13_example_discard_early :
  appended (C13.Model.run true [false]
     [Open 0 false; SlotMut 0 9; KA LDropOwner; KA (LStep 0); KA (LStep 0); KA (LStep 0); DropGuard 0;
      GuardStep 0; CloseStep; CloseStep])
  = [([], [Some [9%N]])].
Proof. vm_compute. reflexivity. Qed.
(* force flush releases the entry although the wait-mode guard is alive *)
Example c13_example_forced :
  appended (seq_run true [false] [KA LNewFlush; KA LNewForce; Open 0 true; KA LDropOwner; KA LDropForce; DropGuard 0])
  = [([], [None])].
Proof. vm_compute. reflexivity. Qed.
Example c13_example_second_open :
  rets (seq_run true [false; true] [Open 0 false; Open 0 false; Open 1 false; Open 1 false])
  = [RGuard true; RGuard false; RGuard true; RGuard false].
Proof. vm_compute. reflexivity. Qed.
(* a dropped wait_for_data future is harmless in the repaired code and fatal in the code as found *)
Example c13_example_cancel :
  appended (seq_run true [false] [WaitPoll 0; WaitCancel; KA LDropOwner]) = [([], [None])] /\
  panicked (seq_run false [false] [WaitPoll 0; WaitCancel; KA LDropOwner]) = true.
Proof. vm_compute. auto. Qed.
