(* C20 — pinned statements. Nothing but statements, [exact] and Print Assumptions. *)
From Coq Require Import List NArith ZArith.
From MV Require Import C11.Model C20.Model C20.Proofs.
Import ListNotations.
Local Open Scope N_scope.

(* Counters: for every interleaving of increments with the steps of any number of readouts, what has been
   reported for a key (all completed readouts and the one in progress) plus what its cell still holds is
   exactly what was incremented. *)
Theorem c20_counter_once : forall ez k ls s, run (init ez) ls = Some s -> incs k ls < 2 ^ 64 ->
  accounted k s = incs k ls.
Proof. exact counter_accounted_init. Qed.
Print Assumptions c20_counter_once.
