(* C20 — pinned statements. Nothing but statements, [exact] and Print Assumptions.
   A run is a label list accepted by the machine of C20/Model.v: every interleaving of metric updates (any
   number of threads) with the per-key steps of any number of readouts is such a list. *)
From Coq Require Import List NArith ZArith.
From MV Require Import C11.Model C11.Float C20.Model C20.Proofs C20.EntryProofs C20.RepeatProofs C20.PromptProofs.
Import ListNotations.
Local Open Scope N_scope.

(* ---- counters ---- *)

(* What has been reported for a key (all completed readouts and the one in progress) plus what its cell still
   holds is exactly what was incremented: no increment is lost or reported twice, whatever the interleaving. *)
Theorem c20_counter_once : forall ez k ls s, run (init ez) ls = Some s -> incs k ls < 2 ^ 64 ->
  accounted k s = incs k ls.
Proof. exact counter_accounted_init. Qed.
Print Assumptions c20_counter_once.

(* ... from any reachable state onwards (e.g. between two readouts). *)
Theorem c20_counter_once_from : forall k ls s s' total, run s ls = Some s' -> idle_clean s ->
  accounted k s = total -> total + incs k ls < 2 ^ 64 -> accounted k s' = total + incs k ls.
Proof. exact counter_accounted. Qed.
Print Assumptions c20_counter_once_from.

(* Promptness: whatever was incremented on a registered counter before a readout begins has been reported once
   that readout finishes (possibly by an earlier one), and nothing is reported before it was incremented. With
   c20_counter_once: every increment is reported in exactly one readout, the first one that swaps the counter
   after it. *)
Theorem c20_counter_prompt : forall ez k pre mid ts s,
  run (init ez) (pre ++ RBegin :: mid ++ [RFinish ts]) = Some s -> ~ In RBegin mid ->
  In (LRegister KCounter k) pre -> incs k (pre ++ RBegin :: mid ++ [RFinish ts]) < 2 ^ 64 ->
  incs k pre <= out_csum k (out s) /\ out_csum k (out s) <= incs k (pre ++ RBegin :: mid).
Proof. exact counter_prompt. Qed.
Print Assumptions c20_counter_prompt.

(* ---- histograms ---- *)

(* Per key and slot: the counts swapped out (all completed readouts, the readout and the drain in progress)
   plus what the slot still holds are exactly the observations recorded into that slot. *)
Theorem c20_histogram_once : forall ez k i ls s, run (init ez) ls = Some s -> hrecs k i ls < 2 ^ 64 ->
  haccounted k i s = hrecs k i ls.
Proof. exact hist_accounted_init. Qed.
Print Assumptions c20_histogram_once.

(* Every swapped-out count is written completely, at the slot's midpoint, in pieces that fit the u32 field
   (the mechanism after the repair of the `count as u32` truncation). *)
Theorem c20_histogram_written : forall i c, i < 464 ->
  bucket_count (bucket_of (i, c)) = c /\
  Forall (fun b => fst b = bucket_mid 32 i /\ 0 < snd b <= u32_max) (bucket_of (i, c)).
Proof. exact bucket_written. Qed.
Print Assumptions c20_histogram_written.

Theorem c20_histogram_written_small : forall i c, i < 464 -> 0 < c <= u32_max ->
  bucket_of (i, c) = [(bucket_mid 32 i, c)].
Proof. exact bucket_written_small. Qed.
Print Assumptions c20_histogram_written_small.

(* `times` consecutive records of one thread are one label: c records followed by t single records leave the
   state that one label with c + t records leaves. *)
Theorem c20_hrec_repeat : forall k b t s c s1, step s (LHRec k b c) = Some s1 ->
  run s1 (repeat (LHRec k b 1) t) = step s (LHRec k b (c + N.of_nat t)).
Proof. exact hrec_repeat. Qed.
Print Assumptions c20_hrec_repeat.

(* The value an observation is reported at: the midpoint m of the slot of its u32 value v, |m - v| <= v/32 + 1. *)
Theorem c20_histogram_value_error : forall b i, value_to_index 32 (hist_value b) = Some i ->
  32 * bucket_mid 32 i <= 33 * hist_value b + 32 /\ 31 * hist_value b <= 32 * bucket_mid 32 i + 32.
Proof. exact bucket_value_error. Qed.
Print Assumptions c20_histogram_value_error.

(* Before the repair (count as u32) the statement was false: 2^32 observations in a slot were written as 0. *)
Theorem c20_u32_truncation_refuted : exists i c, i < 464 /\ 0 < c /\ snd (bucket_of_before_fix (i, c)) <> c.
Proof. exact u32_truncation_refuted. Qed.
Print Assumptions c20_u32_truncation_refuted.

(* ---- gauges ---- *)

(* The cell holds the fold of the gauge's own operations, whatever else is interleaved. *)
Theorem c20_gauge : forall k ls s s', run s ls = Some s' -> gcell k s' = gauge_at k (gcell k s) ls.
Proof. exact gauge_holds_fold. Qed.
Print Assumptions c20_gauge.

(* A readout's load reports the cell as it is at that moment ... *)
Theorem c20_gauge_load : forall k s s', step s (RGauge k) = Some s' -> acc_g s' = acc_g s ++ [(k, gcell k s)].
Proof. exact gauge_load_reports. Qed.
Print Assumptions c20_gauge_load.

(* ... which is the last value set when nothing touched this gauge since. *)
Theorem c20_gauge_last_set : forall k b g0 pre mid, forallb (fun l => negb (touches_gauge k l)) mid = true ->
  gauge_at k g0 (pre ++ LGSet k b :: mid) = b.
Proof. exact gauge_last_set. Qed.
Print Assumptions c20_gauge_last_set.

(* ---- entries ---- *)

(* In every entry of every run each key is written at most once per kind. *)
Theorem c20_entry_no_duplicates : forall ez ls s, run (init ez) ls = Some s ->
  Forall (fun e => NoDup (keys (e_counters e)) /\ NoDup (keys (e_gauges e)) /\ NoDup (keys (e_hists e))) (out s).
Proof. exact entries_no_duplicates_init. Qed.
Print Assumptions c20_entry_no_duplicates.

(* Take any moment at which the reporter is idle or still visiting counters: every gauge and every histogram
   registered by then is written by the entry that the next RFinish completes, with that readout's timestamp. *)
Theorem c20_entry_complete : forall K ls ts s0 s1 s2,
  pc s0 = Idle \/ pc s0 = PCounters -> all_gauges K s0 -> all_hists K s0 ->
  run s0 ls = Some s1 -> step s1 (RFinish ts) = Some s2 ->
  exists e, out s2 = out s1 ++ [e] /\ e_ts e = ts /\
            (forall k, In k K -> In k (keys (e_gauges e))) /\ (forall k, In k K -> In k (keys (e_hists e))).
Proof. exact entry_complete. Qed.
Print Assumptions c20_entry_complete.

(* The unit written for a metric name is the one last described for it, whatever the order of describes and
   registrations; None (code 0) when it was never described. *)
Theorem c20_units : forall name ls s s', run s ls = Some s' ->
  unit_of (units s') name = described name ls (unit_of (units s) name).
Proof. exact units_last_described. Qed.
Print Assumptions c20_units.

(* What Entry::write emits for a readout: timestamp, split-entries config, then every counter, gauge, histogram
   under its name with its labels as dimensions and the unit of its name (definition of the model, pinned). *)
Theorem c20_entry_items : forall e,
  entry_items e =
  [ITimestamp (e_ts e); IConfigSplit] ++
  map (fun kv => IMetric (fst (fst kv)) [OU (snd kv)] (unit_of (e_units e) (fst (fst kv))) (snd (fst kv))) (e_counters e) ++
  map (fun kv => IMetric (fst (fst kv)) [OF (snd kv)] (unit_of (e_units e) (fst (fst kv))) (snd (fst kv))) (e_gauges e) ++
  map (fun kv => IMetric (fst (fst kv)) (map bucket_obs (drained_buckets (snd kv))) (unit_of (e_units e) (fst (fst kv))) (snd (fst kv))) (e_hists e).
Proof. reflexivity. Qed.
Print Assumptions c20_entry_items.

(* ---- non-vacuity ---- *)

Definition kc : key := ([99], []).          (* "c" *)
Definition kh : key := ([104], [([107], [118])]).   (* "h" {k=v} *)

(* an increment lands between the begin of a readout and the swap, another after the swap: the first is in
   this readout, the second in the next; nothing is lost *)
Example c20_example_counter :
  match run (init false) [LRegister KCounter kc; LCInc kc 3; RBegin; LCInc kc 4; RCounter kc; LCInc kc 5;
                          RGauges; RHists; RFinish 1; RBegin; RCounter kc; RGauges; RHists; RFinish 2] with
  | Some s => map e_counters (out s) = [[(kc, 7)]; [(kc, 5)]] /\ cell kc s = 0
  | None => False
  end.
Proof. vm_compute. split; reflexivity. Qed.

(* a record lands in a slot the drain in progress has already swapped: it is reported by the next readout *)
Example c20_example_histogram :
  match run (init false) [LRegister KHist kh; LHRec kh 4617315517961601024 2; RBegin; RGauges; RHists;
                          RHistStart kh; RHistSwap 100; LHRec kh 4617315517961601024 1; RHistSwap 364; RHistDone; RFinish 1;
                          RBegin; RGauges; RHists; RHistStart kh; RHistSwap 464; RHistDone; RFinish 2] with
  | Some s => map (fun e => map (fun kv => drained_buckets (snd kv)) (e_hists e)) (out s) = [[[(5, 2)]]; [[(5, 1)]]]
  | None => False
  end.
Proof. vm_compute. reflexivity. Qed.

(* 2^32 + 5 observations in one slot are written as two buckets *)
Example c20_example_large_count : bucket_of (5, 2 ^ 32 + 5) = [(5, 4294967295); (5, 6)].
Proof. vm_compute. reflexivity. Qed.

(* premises of c20_entry_complete are satisfiable: a gauge registered and described after the readout began *)
Example c20_example_entry :
  match run (init true) [LRegister KCounter kc; RBegin; LRegister KGauge kh; LDescribe [104] 4; LGSet kh 4617315517961601024;
                         RCounter kc; RGauges; RGauge kh; RHists; RFinish 7] with
  | Some s => map entry_items (out s) =
      [[ITimestamp 7; IConfigSplit; IMetric [99] [OU 0] 0 []; IMetric [104] [OF 4617315517961601024] 4 [([107], [118])]]]
  | None => False
  end.
Proof. vm_compute. reflexivity. Qed.
