(* C14 — pinned statements. *)
From Coq Require Import String.
From Coq Require Import List NArith ZArith.
From MV Require Import Common.Sx Common.Bytes Emf.Model Emf.Reuse.
Import ListNotations.

(* For every configuration, every formatter state reachable through ANY sequence of earlier calls (accepted,
   rejected, split, sampled, I/O-failed at any point, any size), and every call (multiplicity, entry, clock,
   float table, writer script): result and bytes are exactly those of a freshly built formatter. *)
Theorem c14_history_free : forall c s k,
  Reach c s ->
  snd (fst (format_call c s k)) = snd (fst (format_call c (fresh c) k)) /\
  snd (format_call c s k) = snd (format_call c (fresh c) k).
Proof. exact history_free. Qed.
Print Assumptions c14_history_free.

(* ... hence the observations of a whole sequence are those of each call alone. *)
Theorem c14_sequence : forall c ks,
  run_calls c (fresh c) ks = map (fun k => let '(_, r, o) := format_call c (fresh c) k in (r, o)) ks.
Proof. intros c ks. apply run_calls_reach. apply reach_fresh. Qed.
Print Assumptions c14_sequence.

(* the invariant behind it: the constant prefixes of the reused buffers are never damaged *)
Theorem c14_prefixes_preserved : forall c s, Reach c s -> Inv c s.
Proof. exact reach_inv. Qed.
Print Assumptions c14_prefixes_preserved.

(* non-vacuity: a reachable state that differs from the fresh one (dirty buffers after a rejected entry) *)
Example c14_example_dirty_state :
  let c := mk_config false false false [bs "N"] [[]] [] None false in
  let k := mk_call None [IValue (bs "a") (VString (bs "x")); IValue (bs "a") (VString (bs "y"))] 0 [] [] in
  let s := fst (fst (format_call c (fresh c) k)) in
  Reach c s /\ s <> fresh c.
Proof.
  cbv zeta. split.
  - apply (reach_call _ _ _ (reach_fresh _)).
  - vm_compute. discriminate.
Qed.
