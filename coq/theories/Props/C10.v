(* C10 — pinned statements. Nothing but statements, [exact] and Print Assumptions. *)
From Coq Require Import List NArith Bool.
From MV Require Import C10.Model C10.Spec C10.Fields C10.Keyed.
Import ListNotations.
Local Open Scope N_scope.

(* Conservation, sequential core.  For every hasher h, every shape (numbers of Sum / KeepLast / distribution
   fields), every tree of tee'd keyed aggregators and raw sinks that starts empty, and every sequence of
   merges and flushes: each keyed leaf has emitted exactly one batch per flush, and the batch of a flush
   epoch contains one aggregate per distinct key of that epoch (per the leaf's own key function), whose
   summed fields are the sums of the inputs with that key, whose keep-last fields are their last values and
   whose distributions hold exactly their observations by count; what is still held is the same for the
   open epoch; raw leaves received every input in order. *)
Theorem c10_conservation : forall (h : key -> N) (sh : shape) (t : sink) (ops : list op),
  tree_empty t -> tree_ok sh ops (sink_run h sh t ops).
Proof. exact tree_run_ok. Qed.
Print Assumptions c10_conservation.

(* Every input is in exactly one emitted aggregate of its epoch's batch: the one selected by its key. *)
Theorem c10_exactly_one : forall kf sh ep b, batch_ok kf sh ep b ->
  forall e, In e ep ->
  exists c, In (kf e, c) b /\ agg_ok sh (group kf (kf e) ep) c /\ In e (group kf (kf e) ep) /\
            forall k' c', In (k', c') b -> In e (group kf k' ep) -> (k', c') = (kf e, c).
Proof. exact batch_exactly_one. Qed.
Print Assumptions c10_exactly_one.

(* Each branch of a tee sees the whole history (by reference or owned alike). *)
Theorem c10_tee : forall h sh ops a b,
  sink_run h sh (STee a b) ops = STee (sink_run h sh a ops) (sink_run h sh b ops).
Proof. exact tee_run. Qed.
Print Assumptions c10_tee.

(* Embedded Aggregate<T> (no key): one aggregate of everything inserted. *)
Theorem c10_embedded : forall sh es, embedded_ok sh es (agg_run sh es).
Proof. exact acc_of_ok. Qed.
Print Assumptions c10_embedded.

(* SortAndMerge closing represents the recorded observations exactly, by count. *)
Theorem c10_distribution_exact : forall l, dist_is l (close_dist l).
Proof. exact close_dist_exact. Qed.
Print Assumptions c10_distribution_exact.

(* non-vacuity: two keys colliding under a constant hasher, a flush in between, a tee with a raw branch *)
Example c10_example_run :
  let e1 := mkE 1 ([97], 0) [1; 7] [Some 1; None] [[3]] in
  let e2 := mkE 2 ([98], 0) [2; 1] [Some 2; Some 4] [[1]] in
  let e3 := mkE 3 ([97], 0) [6; 0] [Some 3; None] [[3]] in
  sink_run (fun _ => 0) (mkS 2 2 1) (STee (SKeyed KFull [] []) (SRaw [])) [OMerge e1; OMerge e2; OMerge e3; OFlush; OMerge e2]
  = STee (SKeyed KFull [(([98], 0), mkA [2; 1] [Some 2; Some 4] [[1]])]
                 [[(([97], 0), mkC [7; 7] [Some 3; None] [[(3, 2)]]); (([98], 0), mkC [2; 1] [Some 2; Some 4] [[(1, 1)]])]])
         (SRaw [e1; e2; e3; e2]).
Proof. vm_compute. reflexivity. Qed.

(* ---------------------------------------------------------------- the worker loop as found (before the fix) *)
From MV Require Import C10.Roots C10.Spin.

(* REFUTATION of "its thread terminates once its last handle is dropped" for worker.rs as found
   (recv_timeout's Err(Disconnected) handled like a timeout): under no schedule does the thread return ... *)
Theorem c10_worker_never_exits_before_fix : forall h sh ls s s',
  wrun false h sh s ls = Some s' -> w_exited s = false -> w_exited s' = false.
Proof. exact worker_v0_never_exits. Qed.
Print Assumptions c10_worker_never_exits_before_fix.

(* ... and with no handle left and the channel drained it busy-loops: n more unblocked iterations for
   every n, each a flush call on the inner sink. *)
Theorem c10_worker_spins_before_fix : forall h sh n s,
  w_exited s = false -> w_senders s = 0%nat -> w_chan s = [] ->
  exists s', wrun false h sh s (repeat WDisc n) = Some s' /\
             w_exited s' = false /\ w_senders s' = 0%nat /\ w_chan s' = [] /\
             w_trace s' = w_trace s ++ repeat TFlushTimed n.
Proof. exact worker_v0_spins. Qed.
Print Assumptions c10_worker_spins_before_fix.
