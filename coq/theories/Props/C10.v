(* C10 — pinned statements. Nothing but statements, [exact] and Print Assumptions. *)
From Coq Require Import List NArith Bool.
From MV Require Import C10.Model C10.Spec C10.Fields C10.Keyed C10.Roots C10.Spin C10.Worker C10.Guards.
Import ListNotations.
Local Open Scope N_scope.

(* Conservation, sequential core.  For every hasher h, every shape (numbers of Sum / KeepLast / distribution
   fields), every tree of tee'd keyed aggregators and raw sinks that starts empty, and every sequence of
   merges and flushes: each keyed leaf has emitted exactly one batch per flush, and the batch of a flush
   epoch contains one aggregate per distinct key of that epoch (per the leaf's own key function), whose
   summed fields are the sums of the inputs with that key, whose keep-last fields are their last values and
   whose distributions hold exactly their observations by count; what is still held is the same for the
   open epoch; raw leaves received every input in order. *)
Theorem c10_conservation : forall (h : key -> N) (sh : shape) (t : sink) (ops : list op),
  tree_empty t -> tree_ok sh ops (sink_run h sh t ops).
Proof. exact tree_run_ok. Qed.
Print Assumptions c10_conservation.

(* Every input is in exactly one emitted aggregate of its epoch's batch: the one selected by its key. *)
Theorem c10_exactly_one : forall kf sh ep b, batch_ok kf sh ep b ->
  forall e, In e ep ->
  exists c, In (kf e, c) b /\ agg_ok sh (group kf (kf e) ep) c /\ In e (group kf (kf e) ep) /\
            forall k' c', In (k', c') b -> In e (group kf k' ep) -> (k', c') = (kf e, c).
Proof. exact batch_exactly_one. Qed.
Print Assumptions c10_exactly_one.

(* Each branch of a tee sees the whole history (by reference or owned alike). *)
Theorem c10_tee : forall h sh ops a b,
  sink_run h sh (STee a b) ops = STee (sink_run h sh a ops) (sink_run h sh b ops).
Proof. exact tee_run. Qed.
Print Assumptions c10_tee.

(* Embedded Aggregate<T> (no key): one aggregate of everything inserted. *)
Theorem c10_embedded : forall sh es, embedded_ok sh es (agg_run sh es).
Proof. exact acc_of_ok. Qed.
Print Assumptions c10_embedded.

(* SortAndMerge closing represents the recorded observations exactly, by count. *)
Theorem c10_distribution_exact : forall l, dist_is l (close_dist l).
Proof. exact close_dist_exact. Qed.
Print Assumptions c10_distribution_exact.

(* non-vacuity: two keys colliding under a constant hasher, a flush in between, a tee with a raw branch *)
Example c10_example_run :
  let e1 := mkE 1 ([97], 0) [1; 7] [Some 1; None] [[3]] in
  let e2 := mkE 2 ([98], 0) [2; 1] [Some 2; Some 4] [[1]] in
  let e3 := mkE 3 ([97], 0) [6; 0] [Some 3; None] [[3]] in
  sink_run (fun _ => 0) (mkS 2 2 1) (STee (SKeyed KFull [] []) (SRaw [])) [OMerge e1; OMerge e2; OMerge e3; OFlush; OMerge e2]
  = STee (SKeyed KFull [(([98], 0), mkA [2; 1] [Some 2; Some 4] [[1]])]
                 [[(([97], 0), mkC [7; 7] [Some 3; None] [[(3, 2)]]); (([98], 0), mkC [2; 1] [Some 2; Some 4] [[(1, 1)]])]])
         (SRaw [e1; e2; e3; e2]).
Proof. vm_compute. reflexivity. Qed.

(* ---------------------------------------------------------------- the worker loop as found (before the fix) *)

(* REFUTATION of "its thread terminates once its last handle is dropped" for worker.rs as found
   (recv_timeout's Err(Disconnected) handled like a timeout): under no schedule does the thread return ... *)
Theorem c10_worker_never_exits_before_fix : forall h sh ls s s',
  wrun false h sh s ls = Some s' -> w_exited s = false -> w_exited s' = false.
Proof. exact worker_v0_never_exits. Qed.
Print Assumptions c10_worker_never_exits_before_fix.

(* ... and with no handle left and the channel drained it busy-loops: n more unblocked iterations for
   every n, each a flush call on the inner sink. *)
Theorem c10_worker_spins_before_fix : forall h sh n s,
  w_exited s = false -> w_senders s = 0%nat -> w_chan s = [] ->
  exists s', wrun false h sh s (repeat WDisc n) = Some s' /\
             w_exited s' = false /\ w_senders s' = 0%nat /\ w_chan s' = [] /\
             w_trace s' = w_trace s ++ repeat TFlushTimed n.
Proof. exact worker_v0_spins. Qed.
Print Assumptions c10_worker_spins_before_fix.

(* ---------------------------------------------------------------- the worker sink (any loop variant unless stated) *)

(* FIFO: under every schedule, the messages processed so far are exactly the first ones enqueued, in
   order; the others are still in the channel: nothing is lost, duplicated or reordered. *)
Theorem c10_worker_fifo : forall fixed h sh t0 ls s, wrun fixed h sh (w_init t0) ls = Some s ->
  w_sent s = tev_msgs (w_trace s) ++ w_chan s.
Proof. exact worker_fifo. Qed.
Print Assumptions c10_worker_fifo.

(* What is enqueued is what the clients did: sends, flush requests, and for every dropped guard the last
   value written to it (creation or DerefMut mutation), in schedule order. *)
Theorem c10_worker_sent_history : forall fixed h sh t0 ls s,
  wrun fixed h sh (w_init t0) ls = Some s -> w_sent s = whistory [] ls.
Proof. exact worker_sent_history. Qed.
Print Assumptions c10_worker_sent_history.

(* Conservation through the worker: the inner tree satisfies the conservation promise for the history of
   calls the thread made, and every entry ever sent is in a completed epoch, or held, or still queued. *)
Theorem c10_worker_conservation : forall fixed h sh t0 ls s,
  tree_empty t0 -> wrun fixed h sh (w_init t0) ls = Some s ->
  tree_ok sh (trace_ops s) (w_inner s) /\
  msg_entries (w_sent s)
  = concat (complete_epochs (trace_ops s)) ++ open_epoch (trace_ops s) ++ msg_entries (w_chan s).
Proof. exact worker_conservation. Qed.
Print Assumptions c10_worker_conservation.

(* Flush barrier: an acknowledged flush request id was served by a flush call before which exactly the
   messages enqueued before the request had been processed (m1 is that prefix, whichever way the history
   is split at the request), after which nothing was held, and whose epochs stay completed. *)
Theorem c10_flush_barrier : forall fixed h sh t0 ls s id,
  wrun fixed h sh (w_init t0) ls = Some s -> In id (w_acks s) ->
  exists t1 t2,
    w_trace s = t1 ++ TFlushMsg id :: t2 /\
    (forall m1 m2, w_sent s = m1 ++ MFlush id :: m2 -> m1 = tev_msgs t1) /\
    open_epoch (map tev_op (t1 ++ [TFlushMsg id])) = [] /\
    complete_epochs (trace_ops s)
    = complete_epochs (map tev_op (t1 ++ [TFlushMsg id])) ++ complete_epochs (map tev_op t2).
Proof. exact worker_flush_barrier. Qed.
Print Assumptions c10_flush_barrier.

(* The worker is never blocked for good: while the thread runs, one of its actions is enabled. *)
Theorem c10_worker_progress : forall fixed h sh s, w_exited s = false ->
  exists l, is_worker l = true /\ wstep fixed h sh s l <> None.
Proof. exact worker_progress. Qed.
Print Assumptions c10_worker_progress.

(* Worker exit (repaired loop).  With no handle left, under every schedule the worker takes at most
   |channel| + 1 further steps (no spinning) ... *)
Theorem c10_worker_exit_bound : forall h sh ls s s',
  wrun true h sh s ls = Some s' -> w_senders s = 0%nat -> w_exited s = false ->
  (count_worker ls <= length (w_chan s) + 1)%nat /\
  (count_worker ls = (length (w_chan s) + 1)%nat ->
     w_exited s' = true /\ w_chan s' = [] /\ w_sent s' = w_sent s /\
     exists t, w_trace s' = t ++ [TFlushTimed]).
Proof. exact worker_exit_bound. Qed.
Print Assumptions c10_worker_exit_bound.

(* ... and having taken them, from any reachable state: the thread has returned (inner sink dropped),
   nothing was lost, every entry ever sent is in a completed flush epoch of the inner tree, nothing is
   held, and the tree satisfies the conservation promise. *)
Theorem c10_worker_exit : forall h sh t0 ls s ls2 s',
  tree_empty t0 ->
  wrun true h sh (w_init t0) ls = Some s -> w_senders s = 0%nat -> w_exited s = false ->
  wrun true h sh s ls2 = Some s' -> count_worker ls2 = (length (w_chan s) + 1)%nat ->
  w_exited s' = true /\ w_chan s' = [] /\ w_sent s' = w_sent s /\
  msg_entries (w_sent s') = concat (complete_epochs (trace_ops s')) /\
  open_epoch (trace_ops s') = [] /\
  tree_ok sh (trace_ops s') (w_inner s').
Proof. exact worker_exit_all_emitted. Qed.
Print Assumptions c10_worker_exit.

(* ---------------------------------------------------------------- the mutex sink and guards *)
(* Every close returns the aggregate of exactly the entries merged since the previous close (guards
   contributing the last value written to them, at their drop), for every interleaving of the critical
   sections; what is held is the aggregate of the open epoch. *)
Theorem c10_mutex_conservation : forall sh ls s, mrun sh (m_init sh) ls = Some s ->
  let hist := mhistory [] ls in
  m_closed s = map (fun ep => close_acc (acc_of sh ep)) (complete_epochs hist) /\
  Forall2 (agg_ok sh) (complete_epochs hist) (m_closed s) /\
  m_log s = open_epoch hist /\
  embedded_ok sh (open_epoch hist) (m_acc s).
Proof. exact mutex_conservation. Qed.
Print Assumptions c10_mutex_conservation.

(* A guard is merged at most once. *)
Theorem c10_guard_once : forall sh ls1 g ls2 s,
  mrun sh (m_init sh) (ls1 ++ MGDrop g :: ls2) = Some s -> dropped g (map m_gact ls1) = false.
Proof. exact mutex_guard_once. Qed.
Print Assumptions c10_guard_once.

(* non-vacuity: a schedule with a guard mutated before its drop, an acknowledged flush, interleaved
   worker steps, the last handle dropped, and the worker's last |channel|+1 steps *)
Example c10_example_worker :
  let e1 := mkE 1 ([97], 0) [1] [Some 1] [[3]] in
  let e2 := mkE 2 ([98], 0) [2] [Some 2] [[1]] in
  let e3 := mkE 3 ([97], 0) [6] [Some 3] [[3]] in
  let ls := [GNew e1; HSend e2; WRecv false; GSet 0 e3; HFlush 7; GDrop 0; HDrop; WRecv false; HDrop] in
  match wrun true (fun _ => 0) (mkS 1 1 1) (w_init (SKeyed KFull [] [])) ls with
  | Some s =>
      w_acks s = [7] /\ w_senders s = 0%nat /\ w_exited s = false /\ length (w_chan s) = 1%nat /\
      match wrun true (fun _ => 0) (mkS 1 1 1) s [WRecv false; WDisc] with
      | Some s' => w_exited s' = true /\
                   w_inner s' = SKeyed KFull []
                     [[(([98], 0), mkC [2] [Some 2] [[(1, 1)]])];
                      [(([97], 0), mkC [6] [Some 3] [[(3, 1)]])]]
      | None => False
      end
  | None => False
  end.
Proof. vm_compute. repeat split; reflexivity. Qed.

Example c10_example_mutex :
  let e1 := mkE 1 ([], 0) [1] [Some 1] [[3]] in
  let e2 := mkE 2 ([], 0) [2] [Some 2] [[1]] in
  let e3 := mkE 3 ([], 0) [6] [Some 3] [[3]] in
  match mrun (mkS 1 1 1) (m_init (mkS 1 1 1)) [MGNew e1; MMerge e2; MGSet 0 e3; MGDrop 0; MClose; MMerge e1] with
  | Some s => m_closed s = [mkC [8] [Some 3] [[(1, 1); (3, 1)]]] /\ m_log s = [e1]
  | None => False
  end.
Proof. vm_compute. split; reflexivity. Qed.

(* ---------------------------------------------------------------- the executed predicate is the specification *)
From MV Require Import C10.Check C10.CheckSound.

(* Whatever output the boolean checker (run on every case of the correspondence, on the implementation's
   output) accepts satisfies the Prop-level promise of Spec.v. *)
Theorem c10_checker_sound : forall kf sh eps out,
  batches_okb kf sh eps out = true -> Forall2 (batch_ok kf sh) eps out.
Proof. exact batches_okb_sound. Qed.
Print Assumptions c10_checker_sound.

Theorem c10_checker_sound_aggregate : forall sh es c, agg_okb sh es c = true -> agg_ok sh es c.
Proof. exact agg_okb_sound. Qed.
Print Assumptions c10_checker_sound_aggregate.

(* ---------------------------------------------------------------- hash-equal borrowed / owned keys *)
From MV Require Import C10.HashKeys.

(* A table that stores hashes (lookup and first insert hash the borrowed key, resizes at ARBITRARY moments
   re-hash the owned key): if owned and borrowed keys hash alike it conserves, for every operation list. *)
Theorem c10_hash_equal_keys : forall (hb ho : key -> N) sh, (forall k, ho k = hb k) ->
  forall f ops,
  let r := hrun hb ho sh (apply_kf f) ops in
  tree_ok sh (flat_map hop_op ops) (SKeyed f (erase (fst r)) (snd r)).
Proof. exact stored_hashes_conserve. Qed.
Print Assumptions c10_hash_equal_keys.

(* ... and the premise is needed: with unequal hashes a resize makes one flush emit a key twice. *)
Theorem c10_hash_unequal_keys_refuted :
  exists (hb ho : key -> N) (e : entry),
    let r := hrun hb ho (mkS 1 0 0) e_key [HMerge e; HRehash; HMerge e; HFlushOp] in
    snd r = [[(e_key e, mkC [1] [] []); (e_key e, mkC [1] [] [])]].
Proof. exact stored_hashes_need_equality. Qed.
Print Assumptions c10_hash_unequal_keys_refuted.

(* ---------------------------------------------------------------- schedule independence without timers *)
From MV Require Import C10.Untimed.

(* When the flush interval never elapses (no timed flush, no timeout label), under EVERY interleaving the
   calls made on the inner sink are exactly the first n messages sent, in order (plus the final flush once
   the thread has returned): the emitted batches do not depend on the schedule. *)
Theorem c10_worker_untimed_deterministic : forall h sh t0 ls s,
  forallb untimed ls = true -> wrun true h sh (w_init t0) ls = Some s ->
  exists n,
    w_trace s = map tev_of_msg (firstn n (w_sent s)) ++ (if w_exited s then [TFlushTimed] else []) /\
    n = length (tev_msgs (w_trace s)) /\
    w_inner s = sink_run h sh t0 (map tev_op (w_trace s)).
Proof. exact worker_untimed_deterministic. Qed.
Print Assumptions c10_worker_untimed_deterministic.

(* ... and it rejects nothing the specification allows: the checker decides the per-batch promise. *)
Theorem c10_checker_decides : forall kf sh ep b, batch_okb kf sh ep b = true <-> batch_ok kf sh ep b.
Proof. exact batch_okb_iff. Qed.
Print Assumptions c10_checker_decides.
