(* C05 — pinned statements (model: Queue/Model.v, with `extra_clone c = false` for the repaired mechanism and
   `= true` for the tree as found, where Receiver::run kept a second Arc<Inner> alive). *)
From Coq Require Import List NArith Bool Arith.
From MV Require Import Queue.Model Queue.Spec Queue.Inv Queue.Reports Queue.Shutdown Queue.Terminate Queue.Overflow.
Import ListNotations.

(* drop(join handle) has returned (label LJJoin executed): the writer thread is gone; the stream's last two
   events are its flush and its drop; and unless the shutdown drain gave up at its (30 s) deadline, every entry
   appended before the shutdown flag was stored has been handed to the stream or had been displaced. *)
Theorem c05_drop_drains : forall c s, reachable c s -> jh (sh s) = JJoined ->
  pc (wr s) = WExited /\
  (exists pre b, stream_events (out (gh s)) = pre ++ [EFlush b; EDropStream]) /\
  (sdhit (gh s) = false ->
   exists n, sdmark (gh s) = Some n /\ n <= length (removed (gh s)) /\
             forall e, In e (firstn n (pushed (gh s))) ->
                       In e (nexts (out (gh s))) \/ In e (displaced (removed (gh s)))).
Proof. exact drop_drains. Qed.
Print Assumptions c05_drop_drains.

(* drop(join handle) can only return after the thread ended *)
Theorem c05_join_waits_for_exit : forall c s s',
  step c s LJJoin = Some s' -> pc (wr s) = WExited.
Proof.
  intros c s s' H. cbn [step] in H. unfold do_jjoin in H.
  destruct (jh (sh s)); try discriminate. destruct (is_exited (pc (wr s))) eqn:E; [|discriminate].
  now apply is_exited_true.
Qed.
Print Assumptions c05_join_waits_for_exit.

(* However the thread came to its end: the stream was flushed and then dropped; after a complete drain with no
   shutdown request (the forget path) the ring is empty and every appended entry was written or displaced. *)
Theorem c05_exit_means_closed : forall c s, reachable c s -> pc (wr s) = WExited ->
  (exists pre b, stream_events (out (gh s)) = pre ++ [EFlush b; EDropStream]) /\
  (sdhit (gh s) = false -> shutdown (sh s) = false ->
   q (sh s) = [] /\ forall e, In e (pushed (gh s)) ->
                              In e (nexts (out (gh s))) \/ In e (displaced (removed (gh s)))).
Proof. exact exit_means_closed. Qed.
Print Assumptions c05_exit_means_closed.

(* Afterwards nothing reaches the stream: entries appended later are never written (they stay in the ring). *)
Theorem c05_nothing_after_exit : forall c ls s s',
  pc (wr s) = WExited -> run c s ls = Some s' ->
  pc (wr s') = WExited /\ stream_events (out (gh s')) = stream_events (out (gh s)) /\
  nexts (out (gh s')) = nexts (out (gh s)).
Proof. exact nothing_after_exit. Qed.
Print Assumptions c05_nothing_after_exit.

(* ... while appending itself stays possible and silent (C09's statement holds in every reachable state). *)
Theorem c05_late_appends_only_touch_the_ring : forall c s t n s',
  pc (wr s) = WExited -> step c s (LPush t n) = Some s' ->
  q (sh s') = fst (Spec.ring_push (cap c) (q (sh s)) (t, n)) /\ wr s' = wr s.
Proof.
  intros c s t n s' Hpc H. split; [apply (push_is_ring_push _ _ _ _ _ H)|].
  exact (step_pc _ _ _ _ H).
Qed.
Print Assumptions c05_late_appends_only_touch_the_ring.

(* The shutdown protocol's invariant (flag / join-handle state / why shut_down was entered / drained). *)
Theorem c05_shutdown_invariant : forall c s, reachable c s -> sd_inv c s.
Proof. exact sd_reachable. Qed.
Print Assumptions c05_shutdown_invariant.

(* THE FORGET PATH.  On the tree as found (second Arc<Inner> alive in run()), a forgotten handle means the
   thread never ends and the stream is never dropped — in every reachable state, whatever else happens: *)
Theorem c05_forget_refuted_before_fix : forall c s,
  extra_clone c = true -> reachable c s -> jh (sh s) = JForgotten ->
  pc (wr s) <> WExited /\ has_drop (out (gh s)) = false.
Proof. exact forget_refuted_before_fix. Qed.
Print Assumptions c05_forget_refuted_before_fix.

(* ... and on the repaired mechanism: once the handle is forgotten and no queue handle is left, the writer on
   its own ends within fuel s <= 2*cap + |pending flush requests| + 76 of its steps, having written everything,
   flushed and dropped the stream.  Oracle hypotheses (explicit): every flush-interval deadline the writer asks
   about has passed; the shutdown deadline has not. *)
Theorem c05_forget_terminates : forall c s os,
  extra_clone c = false -> reachable c s ->
  jh (sh s) = JForgotten -> handles (sh s) = 0 -> sdhit (gh s) = false ->
  oracles_ok c s os -> fuel s <= length os ->
  exists k s', k <= fuel s /\ run c s (map LW (firstn k os)) = Some s' /\
    pc (wr s') = WExited /\ q (sh s') = [] /\ pushed (gh s') = pushed (gh s) /\
    (forall e, In e (pushed (gh s)) -> In e (nexts (out (gh s'))) \/ In e (displaced (removed (gh s')))) /\
    exists pre b, stream_events (out (gh s')) = pre ++ [EFlush b; EDropStream].
Proof. exact forget_terminates. Qed.
Print Assumptions c05_forget_terminates.

Theorem c05_fuel_bound : forall c s, reachable c s ->
  fuel s <= 2 * cap c + length (fch (sh s)) + 76.
Proof. exact fuel_bound. Qed.
Print Assumptions c05_fuel_bound.

(* the same bound for any handle-less state (e.g. join handle still held but every queue dropped) *)
Theorem c05_writer_terminates_without_handles : forall c n s os,
  fuel s <= n -> reachable c s -> handles (sh s) = 0 -> extra_clone c = false ->
  oracles_ok c s os -> fuel s <= length os ->
  exists k s', k <= fuel s /\ run c s (map LW (firstn k os)) = Some s' /\ pc (wr s') = WExited /\
               (sdhit (gh s) = false -> sdhit (gh s') = false).
Proof. exact writer_terminates. Qed.
Print Assumptions c05_writer_terminates_without_handles.

(* ---- non-vacuity *)
Local Open Scope N_scope.
Definition ex_dl := {| o_res := ROk; o_rep := None; o_dl := true; o_fl := true |}.
Definition ex_nd := {| o_res := ROk; o_rep := None; o_dl := false; o_fl := true |}.

(* shutdown through the join handle with two entries queued: written, flushed, dropped, then joined; an entry
   appended afterwards is never written *)
Example c05_example_drop :
  option_map (fun s => (out (gh s), jh (sh s), q (sh s), sdmark (gh s)))
    (run {| cap := 4%nat; nosub := true; extra_clone := false |} init
       ([LPush 1 0; LUnpark 1; LPush 1 1; LUnpark 1; LJStore; LJUnpark] ++ repeat (LW ex_nd) 14 ++
        [LJJoin; LPush 1 2; LUnpark 1]))
  = Some ([ENext (1, 0) ROk; ENext (1, 1) ROk; EFlush true; EFlush true; EDropStream], JJoined, [(1, 2)], Some 2%nat).
Proof. vm_compute. reflexivity. Qed.

(* the forget path on the repaired mechanism: the thread ends after 15 writer steps (fuel of the state after
   the last handle was dropped is larger); on the mechanism as found the writer loops for ever, flushing *)
Example c05_example_forget_fixed :
  option_map (fun s => (out (gh s), pc (wr s)))
    (run {| cap := 4%nat; nosub := true; extra_clone := false |} init
       ([LPush 1 0; LUnpark 1; LForget; LDropHandle] ++ repeat (LW ex_dl) 11 ++ repeat (LW ex_nd) 4))
  = Some ([ENext (1, 0) ROk; EFlush true; EFlush true; EDropStream], WExited).
Proof. vm_compute. reflexivity. Qed.

Example c05_example_forget_before_fix :
  option_map (fun s => (out (gh s), pc (wr s), sd (wr s)))
    (run {| cap := 4%nat; nosub := true; extra_clone := true |} init
       ([LPush 1 0; LUnpark 1; LForget; LDropHandle] ++ repeat (LW ex_dl) 60))
  = Some ([ENext (1, 0) ROk; EFlush true; EFlush true; EFlush true; EFlush true; EFlush true; EFlush true],
          WPark, false).
Proof. vm_compute. reflexivity. Qed.

(* the oracle hypothesis of c05_forget_terminates is satisfiable: the 15 oracles of the example above *)
Example c05_example_oracles_ok :
  match run {| cap := 4%nat; nosub := true; extra_clone := false |} init [LPush 1 0; LUnpark 1; LForget; LDropHandle] with
  | Some s => oracles_ok {| cap := 4%nat; nosub := true; extra_clone := false |} s (repeat ex_dl 11 ++ repeat ex_nd 4)
              /\ jh (sh s) = JForgotten /\ handles (sh s) = 0%nat
  | None => False
  end.
Proof. vm_compute. repeat split; intros; try discriminate. Qed.
