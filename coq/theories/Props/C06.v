(* C06 — pinned statements. Nothing but statements, [exact] and Print Assumptions. *)
From Coq Require Import List NArith Bool Arith.
From MV Require Import C06.Model C06.Spec C06.Proofs C06.Sched.
Import ListNotations.

(* A label list is a history AND a schedule: user actions (create guards, clone handles, mutate, begin
   dropping an object) interleaved arbitrarily with the atomic steps [LStep i] of the destructors in
   progress.  All statements are for every label list: every number of handles, flush guards and
   force-flush guards, every creation/drop order (guards created after a force-flush guard was dropped
   included), every interleaving of the destructors' steps. *)

(* never twice *)
Theorem c06_at_most_once : forall ls : list label, length (emits (run ls)) <= 1.
Proof. exact at_most_once. Qed.
Print Assumptions c06_at_most_once.

(* never earlier: whenever the entry has been appended, the owner and every handle clone have begun
   dropping and (every flush guard has begun dropping or some force-flush guard has) *)
Theorem c06_not_early : forall ls : list label,
  length (emits (run ls)) = 1 -> due (view_of_history ls) = true.
Proof. exact not_early. Qed.
Print Assumptions c06_not_early.

(* ... and the world the sink observed at the instant of the append was such a world, and the entry it
   received carries every mutation of the whole history (none is lost, none comes later) *)
Theorem c06_append_instant_and_content : forall (ls : list label) (sn : snapshot), In sn (emits (run ls)) ->
  sn_owners sn = 0 /\ (sn_fgs sn = 0 \/ sn_forced sn > 0) /\ sn_log sn = v_log (view_of_history ls).
Proof. exact append_instant. Qed.
Print Assumptions c06_append_instant_and_content.

(* never not at all / not late: as soon as no destructor is in progress and the promise is due, the
   entry has been appended *)
Theorem c06_not_late : forall ls : list label,
  quiescent (run ls) = true -> due (view_of_history ls) = true -> length (emits (run ls)) = 1.
Proof. exact not_late. Qed.
Print Assumptions c06_not_late.

Theorem c06_final : forall ls : list label,
  quiescent (run ls) = true -> all_dropped (view_of_history ls) = true -> length (emits (run ls)) = 1.
Proof. exact final. Qed.
Print Assumptions c06_final.

(* the premise of the two statements above can always be reached: destructors in progress can be run to
   completion from every reachable state (the guard mutex never deadlocks) *)
Theorem c06_can_finish : forall ls : list label,
  exists sched, Forall (fun l => is_user l = false) sched /\ quiescent (run (ls ++ sched)) = true.
Proof. exact can_finish. Qed.
Print Assumptions c06_can_finish.

(* what was appended stays the one and only append, whatever is created or dropped afterwards *)
Theorem c06_appended_is_final : forall (ls more : list label) (sn : snapshot),
  emits (run ls) = [sn] -> emits (run (ls ++ more)) = [sn].
Proof. exact appended_is_final. Qed.
Print Assumptions c06_appended_is_final.

(* the model's bookkeeping of live objects is the reader's bookkeeping of the history *)
Theorem c06_view : forall ls : list label, view_of_state (run ls) = view_of_history ls.
Proof. exact view_agrees. Qed.
Print Assumptions c06_view.

(* sequential histories (each destructor completes before the next action): the append happens during
   exactly the action that makes the promise due, with the world and content of that moment *)
Theorem c06_sequential_exact : forall ls : list label, Forall (fun l => is_user l = true) ls ->
  seq_observe init ls = spec_observe view_init ls /\ emits (seq_run ls) = spec_emits view_init ls.
Proof. exact sequential_exact. Qed.
Print Assumptions c06_sequential_exact.

(* multi-thread runs at the granularity of the harness's sync points: a sequential prefix, then per-thread
   programs of user actions, one thread at a time running to its next sync point ([grants]).  For EVERY thread
   sequence after which no thread is left inside a destructor, the observation (sync point reached and number of
   appends after every grant, the sink's records) satisfies the promise-predicate [trace_ok] that the check
   executes on the implementation's observations: at most one append, never before the promise is due, the
   record is the world and content of the appending block, and appended whenever nobody is inside a destructor
   and the promise is due *)
Theorem c06_scheduled_observation_ok : forall (setup : list label) (progs : list (list label)) (ts : list nat),
  Forall (fun l => is_user l = true) setup ->
  Forall (Forall (fun l => is_user l = true)) progs ->
  let s0 := fold_left seq_step setup init in
  let ths := map (fun p => mk_thr p None) progs in
  let v0 := fold_left view_step setup view_init in
  (forall th, In th (snd (final_st (s0, ths) ts)) -> t_cur th = None) ->
  trace_ok v0 progs (repeat false (length progs)) (if due v0 then 1 else 0)
           (zip3 ts (fst (grants (s0, ths) ts))) (emits (snd (grants (s0, ths) ts))) = true.
Proof. exact scheduled_observation_ok. Qed.
Print Assumptions c06_scheduled_observation_ok.

(* non-vacuity *)
(* owner dropped while two flush guards live; the last guard's drop appends; a force guard dropped later is harmless *)
Example c06_example_guards :
  seq_observe init [LNewFlush; LNewFlush; LNewForce; LMutate 7; LDropOwner; LDropFlush; LDropFlush; LDropForce]
  = [0; 0; 0; 0; 0; 0; 1; 1].
Proof. vm_compute. reflexivity. Qed.
(* a force guard dropped first: flush guards created afterwards keep nothing alive *)
Example c06_example_force_first :
  emits (seq_run [LNewForce; LDropForce; LNewFlush; LMutate 1; LDropOwner; LDropFlush])
  = [mk_snap 0 1 1 [1%N]].
Proof. vm_compute. reflexivity. Qed.
(* a racing schedule: the owner's drop and a force guard's drop interleaved step by step; the closure call
   of the force guard (task 1) is the last reference and appends under the guard mutex *)
Example c06_example_race :
  let ls := [LNewFlush; LNewForce; LDropForce; LStep 0; LDropOwner; LStep 0; LStep 1; LStep 0] in
  length (emits (run ls)) = 1 /\ quiescent (run ls) = false /\ due (view_of_history ls) = true.
Proof. vm_compute. auto. Qed.
(* handles: the append waits for the last clone *)
Example c06_example_handles :
  seq_observe init [LMakeHandle; LCloneHandle; LDropOwner; LMutate 3; LDropOwner] = [0; 0; 0; 0; 1].
Proof. vm_compute. reflexivity. Qed.
Example c06_example_premises :
  quiescent (run [LNewFlush; LDropOwner; LStep 0; LStep 0; LDropFlush; LStep 1; LStep 1]) = true /\
  all_dropped (view_of_history [LNewFlush; LDropOwner; LStep 0; LStep 0; LDropFlush; LStep 1; LStep 1]) = true.
Proof. vm_compute. auto. Qed.

(* a complete schedule of three threads (owner / force guard / last flush guard) *)
Example c06_example_schedule :
  let setup := [LNewFlush; LNewForce; LMutate 1] in
  let progs := [[LDropOwner]; [LDropForce]; [LDropFlush]] in
  let ts := [1; 0; 1; 2; 1; 1] in
  let st := (fold_left seq_step setup init, map (fun p => mk_thr p None) progs) in
  fst (grants st ts) = [(1, 0); (0, 0); (2, 0); (0, 0); (3, 1); (0, 1)] /\
  forallb (fun th => match t_cur th with None => true | Some _ => false end) (snd (final_st st ts)) = true.
Proof. vm_compute. auto. Qed.

(* Known finding (known_findings.json `C06-entry-owns-its-force-guard`): the theorems above are about entries that do
   not own guards of themselves (the model's alphabet has no such object).  For the excluded class the property
   fails on the code as it is: the destructor run under the guard mutex drops the entry's own force-flush guard,
   whose drop locks the same mutex; the thread is stuck for ever and nothing is appended. *)
From MV Require Import C06.SelfOwned.
Theorem c06_self_owned_force_guard_refuted : forall n,
  s_appended (siter n s_as_found) = 0 /\ s_pc (siter n s_as_found) <> SDone.
Proof. exact self_owned_never_appended. Qed.
Print Assumptions c06_self_owned_force_guard_refuted.
