(* C01 — pinned statements. *)
From Coq Require Import List NArith.
From MV Require Import Queue.Model.
Import ListNotations.
