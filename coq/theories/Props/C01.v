(* C01 — pinned statements.  Nothing but statements, [exact] and Print Assumptions (plus non-vacuity examples).
   Model: Queue/Model.v (labelled transition system of background.rs; `run c init ls = Some s` = "the schedule
   ls is an execution leading to s"; `reachable c s` = "some schedule leads to s"). All statements hold for
   every capacity, every number of producers/handles and every schedule, including all push/unpark vs.
   drain/park races. *)
From Coq Require Import List NArith Bool Permutation.
From MV Require Import Queue.Model Queue.Spec Queue.Inv Queue.Delivery Queue.Reports Queue.Isolation Queue.Wakeup.
From MV Require Import Queue.RateLimit Queue.RateLimitProofs.
Import ListNotations.

(* Removal from the ring is in append order, and the stream has seen exactly the popped entries, in that
   order, except the one the writer holds at this moment. *)
Theorem c01_fifo : forall c s, reachable c s ->
  pushed (gh s) = map fst (removed (gh s)) ++ q (sh s) /\
  popped (removed (gh s)) = nexts (out (gh s)) ++ opt_list (inflight (wr s)).
Proof. exact delivery_fifo. Qed.
Print Assumptions c01_fifo.

(* What the stream was handed is an order-preserving sub-sequence of the appends of the schedule. *)
Theorem c01_delivered_in_append_order : forall c ls s,
  run c init ls = Some s -> subseq (nexts (out (gh s))) (pushes ls).
Proof. exact delivered_subseq_schedule. Qed.
Print Assumptions c01_delivered_in_append_order.

(* Every appended entry is in exactly one place: handed to the stream, in the writer's hand, displaced by
   overflow, or still queued. *)
Theorem c01_every_entry_in_exactly_one_place : forall c s, reachable c s ->
  Permutation (pushed (gh s))
              (nexts (out (gh s)) ++ opt_list (inflight (wr s)) ++ displaced (removed (gh s)) ++ q (sh s)).
Proof. exact pushed_partition. Qed.
Print Assumptions c01_every_entry_in_exactly_one_place.

Theorem c01_exactly_once : forall c s, reachable c s ->
  NoDup (pushed (gh s)) -> NoDup (nexts (out (gh s))).
Proof. exact exactly_once. Qed.
Print Assumptions c01_exactly_once.

Theorem c01_only_appended_entries_delivered : forall c s, reachable c s ->
  forall e, In e (nexts (out (gh s))) -> In e (pushed (gh s)).
Proof. exact only_pushed_delivered. Qed.
Print Assumptions c01_only_appended_entries_delivered.

Theorem c01_per_producer_order : forall c s, reachable c s -> forall t,
  subseq (by_thread t (nexts (out (gh s)))) (by_thread t (pushed (gh s))).
Proof. exact per_producer_order. Qed.
Print Assumptions c01_per_producer_order.

(* Without overflow nothing is lost: appended = delivered ++ in flight ++ still queued. *)
Theorem c01_no_overflow_nothing_lost : forall c s, reachable c s ->
  overflow (gh s) = 0 ->
  pushed (gh s) = nexts (out (gh s)) ++ opt_list (inflight (wr s)) ++ q (sh s).
Proof. exact no_overflow_nothing_lost. Qed.
Print Assumptions c01_no_overflow_nothing_lost.

(* A drain pass that ended with an empty ring has delivered everything appended before (nothing in the
   writer's hand at that point): every appended entry was handed to the stream or displaced. *)
Theorem c01_empty_ring_all_delivered : forall c s, reachable c s ->
  q (sh s) = [] -> inflight (wr s) = None ->
  forall e, In e (pushed (gh s)) -> In e (nexts (out (gh s))) \/ In e (displaced (removed (gh s))).
Proof. exact empty_ring_all_delivered. Qed.
Print Assumptions c01_empty_ring_all_delivered.

(* Nothing else reaches the stream: an in-band report only directly after a `next` that returned a validation
   error, none at all with a tracing subscriber, nothing after the stream was dropped. *)
Theorem c01_only_reports_added : forall c s, reachable c s ->
  reports_ok false (out (gh s)) = true /\
  (nosub c = false -> no_reports (out (gh s)) = true) /\
  nothing_after_drop (out (gh s)) = true.
Proof.
  intros c s R. destruct (rep_reachable c s R) as [H1 H2]. destruct (drop_reachable c s R) as [H3 _]. auto.
Qed.
Print Assumptions c01_only_reports_added.

(* A validation or I/O error for one entry does not prevent, repeat or reorder any other entry. *)
Theorem c01_errors_isolated : forall c ls1 ls2 s1 s2,
  map erase_l ls1 = map erase_l ls2 ->
  run c init ls1 = Some s1 -> run c init ls2 = Some s2 ->
  nexts (out (gh s1)) = nexts (out (gh s2)) /\
  erase_out (out (gh s1)) = erase_out (out (gh s2)) /\
  sh s1 = sh s2 /\ wr s1 = wr s2 /\ removed (gh s1) = removed (gh s2) /\ pushed (gh s1) = pushed (gh s2).
Proof. exact errors_isolated. Qed.
Print Assumptions c01_errors_isolated.

Theorem c01_results_do_not_block : forall c ls s,
  run c init ls = Some s -> exists s', run c init (map erase_l ls) = Some s'.
Proof. exact results_do_not_block. Qed.
Print Assumptions c01_results_do_not_block.

(* Wake-up races cannot lose a wake-up. *)
Theorem c01_no_lost_wakeup : forall c s, reachable c s ->
  pc (wr s) = WPark \/ pc (wr s) = WParked ->
  q (sh s) <> [] \/ fch (sh s) <> [] \/ shutdown (sh s) = true ->
  token (sh s) = true \/ pend (sh s) <> [] \/ jh (sh s) = JStored.
Proof. exact no_lost_wakeup. Qed.
Print Assumptions c01_no_lost_wakeup.

Theorem c01_token_ends_park : forall c s o s',
  pc (wr s) = WPark \/ pc (wr s) = WParked -> token (sh s) = true ->
  step c s (LW o) = Some s' -> pc (wr s') = WCheckTime /\ token (sh s') = false.
Proof. exact token_ends_park. Qed.
Print Assumptions c01_token_ends_park.

(* The executable specification compared with the implementation on every case holds of every model run. *)
Theorem c01_spec_holds_of_every_run : forall c ls s,
  run c init ls = Some s -> NoDup (pushes ls) ->
  c01_spec (nosub c) (pushes ls) (out (gh s)) = true.
Proof. exact c01_spec_sound. Qed.
Print Assumptions c01_spec_holds_of_every_run.

(* ---- non-vacuity *)
Local Open Scope N_scope.
Definition ex_ok := {| o_res := ROk; o_rep := None; o_dl := false; o_fl := true |}.
Definition ex_val := {| o_res := RVal; o_rep := Some ROk; o_dl := false; o_fl := true |}.
Definition ex_io := {| o_res := RIo; o_rep := None; o_dl := false; o_fl := true |}.
Definition ex_cfg := {| cap := 2%nat; nosub := true; extra_clone := false |}.

(* two producers, mixed stream results with an in-band report, and a push that lands between the writer's
   empty pop and its park: the token makes the park return *)
Example c01_example_run :
  option_map (fun s => (out (gh s), pc (wr s), token (sh s), removed (gh s)))
    (run ex_cfg init
       [LClone; LPush 1 0; LUnpark 1; LW ex_ok; LPush 2 0; LW ex_val; LW ex_ok; LUnpark 2; LW ex_io; LW ex_ok;
        LW ex_ok; LW ex_ok; LPush 1 1; LW ex_ok; LW ex_ok; LW ex_ok; LUnpark 1; LW ex_ok; LW ex_ok; LW ex_ok;
        LW ex_ok; LW ex_ok; LW ex_ok])
  = Some ([ENext (1, 0) RVal; EReport ROk; ENext (2, 0) RIo; ENext (1, 1) ROk], WPark, true,
          [(1, 0, Popped); (2, 0, Popped); (1, 1, Popped)]).
Proof. vm_compute. reflexivity. Qed.

(* the premises of c01_no_lost_wakeup are satisfiable with the token clear: the producer still owes its unpark *)
Example c01_example_wakeup_window :
  option_map (fun s => (pc (wr s), q (sh s), token (sh s), pend (sh s)))
    (run ex_cfg init [LW ex_ok; LW ex_ok; LW ex_ok; LW ex_ok; LPush 1 0])
  = Some (WPark, [(1, 0)], false, [1]).
Proof. vm_compute. reflexivity. Qed.

(* two schedules that differ only in the stream's answers (premise of c01_errors_isolated) *)
Example c01_example_isolation :
  map erase_l [LPush 1 0; LW ex_ok; LW ex_val] = map erase_l [LPush 1 0; LW ex_ok; LW ex_io] /\
  run ex_cfg init [LPush 1 0; LW ex_ok; LW ex_val] <> None /\ run ex_cfg init [LPush 1 0; LW ex_ok; LW ex_io] <> None.
Proof. vm_compute. repeat split; discriminate. Qed.

(* ---- "rate-limited": the limiter in front of the in-band report (Queue/RateLimit.v = the macro rate_limited!,
   tied to the code by the `rate` comparison through a forced clock).  In the transition system above the
   limiter's verdict is an oracle bit of the writer's step; these statements say what that bit can be. *)

(* Two reports: the later one's clock reading has reached the slot computed at the earlier one (whatever the
   clock does in between; a and b are positions among the validation failures). *)
Theorem c01_reports_spaced : forall i next ts a b ta tb,
  times_ok ts -> (a < b)%nat ->
  nth_error ts a = Some ta -> nth_error ts b = Some tb ->
  nth_error (fst (rl_run i next ts)) a = Some true ->
  nth_error (fst (rl_run i next ts)) b = Some true ->
  (next_slot ta i <= as_secs tb)%N.
Proof. exact rl_spacing. Qed.
Print Assumptions c01_reports_spaced.

(* With the queue's interval of one second no two reports carry the same whole second of the clock. *)
Theorem c01_one_report_per_second : forall next ts a b ta tb,
  times_ok ts -> (a < b)%nat ->
  nth_error ts a = Some ta -> nth_error ts b = Some tb ->
  nth_error (fst (rl_run NS next ts)) a = Some true ->
  nth_error (fst (rl_run NS next ts)) b = Some true ->
  (as_secs ta < U64MAX)%N ->
  (as_secs ta + 1 <= as_secs tb)%N.
Proof. exact rl_one_per_second. Qed.
Print Assumptions c01_one_report_per_second.

(* While the clock's whole seconds stay within [lo, hi], at most (hi - lo) / interval + 1 reports are written,
   however many entries fail. *)
Theorem c01_report_count_bounded : forall i next ts lo hi,
  (1 <= as_secs i)%N -> (hi + as_secs i <= U64MAX)%N ->
  Forall (fun t => (lo <= as_secs t <= hi)%N) ts ->
  (N.of_nat (count_true (fst (rl_run i next ts))) <= (hi - lo) / as_secs i + 1)%N.
Proof. exact rl_count_bound. Qed.
Print Assumptions c01_report_count_bounded.

(* A failure goes unreported only while an earlier report (or the initial slot) still covers its second. *)
Theorem c01_unreported_only_if_recent : forall i next ts b tb,
  times_ok ts ->
  nth_error ts b = Some tb ->
  nth_error (fst (rl_run i next ts)) b = Some false ->
  (as_secs tb < next)%N \/
  exists a ta, (a < b)%nat /\ nth_error ts a = Some ta /\ nth_error (fst (rl_run i next ts)) a = Some true /\
               (as_secs tb < next_slot ta i)%N.
Proof. exact rl_refused_means_recent. Qed.
Print Assumptions c01_unreported_only_if_recent.

(* The limiter's word is shared by every queue of the process: for any interleaving of the loads and
   compare-exchanges of any number of writer threads the allowed calls are spaced in the same way. *)
Theorem c01_reports_spaced_concurrently : forall i next ls,
  labels_ok ls -> spaced i (r_allowed (rrun i (rinit next) ls)).
Proof. exact rl_concurrent_spacing. Qed.
Print Assumptions c01_reports_spaced_concurrently.

(* The observation compared with the implementation counts exactly the limiter's allowed calls at the failures. *)
Theorem c01_rate_observation : forall i ops next now,
  count_true (rate_obs i next now ops) = count_true (fst (rl_run i next (fail_times now ops))).
Proof. exact rate_obs_reports. Qed.
Print Assumptions c01_rate_observation.

(* The property-level reading of an observed run — reports spaced, a failure unreported only while the previous
   report's slot covers it, nothing reported elsewhere — holds exactly when the run equals the model's: a
   difference found by the `rate` comparison is a violation of that reading, not only of the correspondence. *)
Theorem c01_rate_spec_characterises : forall i ops obs last now,
  rate_spec i last now ops obs = true <-> obs = rate_obs i (slot_of i last) now ops.
Proof. exact rate_spec_characterises. Qed.
Print Assumptions c01_rate_spec_characterises.

(* The limiter composed with the queue: in the transition system the limiter is consulted exactly at the consume steps
   whose `next` returned a validation error (`verdicts`), and the log of any run contains exactly as many in-band reports
   as verdict bits are set; so if those bits are the limiter's verdicts for clock readings whose whole seconds lie in
   [lo, hi], the stream sees at most (hi - lo) / interval + 1 reports, however many entries fail validation. *)
From MV Require Import Queue.RateCompose.
Theorem c01_reports_are_the_verdicts : forall c ls s s', run c s ls = Some s' ->
  count_reports (out (gh s')) = (count_reports (out (gh s)) + count_true (verdicts c s ls))%nat.
Proof. exact run_reports. Qed.
Print Assumptions c01_reports_are_the_verdicts.

Theorem c01_reports_in_stream_bounded : forall c ls s i next ts lo hi,
  run c init ls = Some s ->
  verdicts c init ls = fst (rl_run i next ts) ->
  (1 <= as_secs i)%N -> (hi + as_secs i <= U64MAX)%N ->
  Forall (fun t => (lo <= as_secs t <= hi)%N) ts ->
  (N.of_nat (count_reports (out (gh s))) <= (hi - lo) / as_secs i + 1)%N.
Proof. exact reports_in_stream_bounded. Qed.
Print Assumptions c01_reports_in_stream_bounded.

(* The writer thread has ended without a shutdown request (all queue handles dropped after the join handle was
   forgotten), nothing was displaced and the final drain was not cut short: every appended entry was handed to the
   stream.  `exit_complete_b` is that statement on a recorded schedule and its event log; it is part of the `spec`
   comparison and holds of every run of the model. *)
From MV Require Import Queue.ExitComplete.
Theorem c01_delivered_when_writer_ended_without_shutdown : forall c s, reachable c s ->
  has_drop (out (gh s)) = true -> shutdown (sh s) = false -> sdhit (gh s) = false ->
  forall e, In e (pushed (gh s)) -> In e (nexts (out (gh s))) \/ In e (displaced (removed (gh s))).
Proof. exact dropped_without_shutdown_complete. Qed.
Print Assumptions c01_delivered_when_writer_ended_without_shutdown.

Theorem c01_exit_complete_holds_of_every_run : forall c ls s,
  run c init ls = Some s -> exit_complete_b ls (out (gh s)) = true.
Proof. exact exit_complete_sound. Qed.
Print Assumptions c01_exit_complete_holds_of_every_run.

Example c01_example_rate_burst :
  rate_obs NS 0 0 [OSet (3600 * NS); OFail; OFail; OOk; OFail; OSet (3600 * NS + 999999999); OFail;
                   OSet (3601 * NS); OFail; OFail]
  = [false; true; false; false; false; false; false; false; true; false].
Proof. exact rl_example_burst. Qed.
