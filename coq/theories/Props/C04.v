(* C04 — pinned statements (model: Queue/Model.v; pure WakerTracker: Queue/Waker.v). *)
From Coq Require Import List NArith Bool Arith.
From MV Require Import Queue.Model Queue.Spec Queue.Inv Queue.Reports Queue.Flush Queue.FlushLog Queue.Bounded
                       Queue.Wakeup Queue.Waker Queue.WakerRefine Queue.Shutdown Queue.BoundedSteps.
Import ListNotations.

(* THE BARRIER.  For every capacity and every schedule: if request w — sent when n entries had been appended —
   is reported complete at position k of the log while the stream still exists, then the last thing the stream
   saw before position k is a flush, and each of those n entries has been handed to the stream before
   position k or was displaced by overflow. *)
Theorem c04_barrier : forall c ls s k w n,
  0 < cap c -> run c init ls = Some s ->
  nth_error (out (gh s)) k = Some (EWake w) ->
  has_drop (firstn k (out (gh s))) = false ->
  In (w, n) (freq (gh s)) ->
  flushed (firstn k (out (gh s))) = true /\
  forall e, In e (firstn n (pushed (gh s))) ->
            In e (nexts (firstn k (out (gh s)))) \/ In e (displaced (removed (gh s))).
Proof. exact flush_barrier. Qed.
Print Assumptions c04_barrier.

(* The same at the waking step: handle_waiting_wakers wakes only when everything requested before has left the
   ring and nothing is in the writer's hand; it flushes first. *)
Theorem c04_barrier_at_wake : forall c s o s',
  0 < cap c -> reachable c s ->
  pc (wr s) = WHandle -> step c s (LW o) = Some s' ->
  waiting (wr s) <> [] -> waiting (wr s') = [] ->
  out (gh s') = out (gh s) ++ EFlush (o_fl o) :: map EWake (waiting (wr s)) /\
  inflight (wr s) = None /\
  forall w n, In w (waiting (wr s)) -> In (w, n) (freq (gh s)) ->
    n <= length (removed (gh s)) /\
    forall e, In e (firstn n (pushed (gh s))) ->
              In e (nexts (out (gh s))) \/ In e (displaced (removed (gh s))).
Proof. exact barrier_at_wake. Qed.
Print Assumptions c04_barrier_at_wake.

(* The counter protocol (invariants S1/L1 of the source comment, made precise). *)
Theorem c04_counter_protocol : forall c s, 0 < cap c -> reachable c s -> flush_inv c s.
Proof. exact flush_reachable. Qed.
Print Assumptions c04_counter_protocol.

(* BOUNDED PROGRESS, counted in drain passes: as long as request w (pending in the channel or collected) has not
   been woken, at most passes_left <= 2*(cap/32+1) calls of handle_waiting_wakers can take place — whatever the
   producers do, however full the ring stays, whatever the clock says. *)
Theorem c04_bounded_passes : forall c ls s s' w,
  0 < cap c -> reachable c s ->
  In w (fch (sh s) ++ waiting (wr s)) ->
  run c s ls = Some s' ->
  ~ In (EWake w) (skipn (length (out (gh s))) (out (gh s'))) ->
  handle_steps c s ls <= passes_left c s w /\ In w (fch (sh s') ++ waiting (wr s')).
Proof. exact bounded_passes. Qed.
Print Assumptions c04_bounded_passes.

Theorem c04_bounded_passes_cap : forall c ls s s' w,
  0 < cap c -> reachable c s ->
  In w (fch (sh s) ++ waiting (wr s)) ->
  run c s ls = Some s' ->
  2 * (cap c / 32 + 1) < handle_steps c s ls ->
  In (EWake w) (skipn (length (out (gh s))) (out (gh s'))).
Proof. exact bounded_passes_cap. Qed.
Print Assumptions c04_bounded_passes_cap.

(* BOUNDED PROGRESS, counted in writer steps, under explicit hypotheses (live_run): along the run the queue is
   live (no shutdown request, at least one queue handle) and every flush-interval deadline the writer asks about
   has passed.  Then, whatever the producers append meanwhile, a pending request is woken after at most
   phi <= 144*(cap/32+1) + 71 + |pending requests| writer steps plus one per flush request made meanwhile. *)
Theorem c04_bounded_writer_steps : forall c ls s s' w,
  0 < cap c -> reachable c s ->
  In w (fch (sh s) ++ waiting (wr s)) ->
  run c s ls = Some s' -> live_run c s ls ->
  ~ In (EWake w) (skipn (length (out (gh s))) (out (gh s'))) ->
  count_w ls <= phi c s w + count_fr ls.
Proof. exact bounded_writer_steps. Qed.
Print Assumptions c04_bounded_writer_steps.

Theorem c04_bounded_writer_steps_cap : forall c ls s s' w,
  0 < cap c -> reachable c s ->
  In w (fch (sh s) ++ waiting (wr s)) ->
  run c s ls = Some s' -> live_run c s ls ->
  144 * (cap c / 32 + 1) + 71 + length (fch (sh s)) + count_fr ls < count_w ls ->
  In (EWake w) (skipn (length (out (gh s))) (out (gh s'))).
Proof. exact bounded_writer_steps_cap. Qed.
Print Assumptions c04_bounded_writer_steps_cap.

(* a pass that stops at its deadline has consumed at least 32 entries: passes are real progress *)
Theorem c04_deadline_pass_consumes_32 : forall c s, reachable c s ->
  pc (wr s) = WHandle -> dres (wr s) = HitDeadline -> 32 <= count (wr s).
Proof. exact cnt_reachable. Qed.
Print Assumptions c04_deadline_pass_consumes_32.

(* the writer does not go to sleep while requests are being served *)
Theorem c04_no_park_while_waiting : forall c s,
  reachable c s -> pc (wr s) = WPark \/ pc (wr s) = WParked -> waiting (wr s) = [].
Proof. exact no_park_while_waiting. Qed.
Print Assumptions c04_no_park_while_waiting.

(* No request is dropped silently: it is pending, collected, or has been woken. *)
Theorem c04_requests_accounted : forall c s, 0 < cap c -> reachable c s ->
  forall w, In w (map fst (freq (gh s))) ->
            In (EWake w) (out (gh s)) \/ In w (fch (sh s) ++ waiting (wr s)).
Proof. exact req_accounted_reachable. Qed.
Print Assumptions c04_requests_accounted.

(* AFTER SHUTDOWN: a request completes at once; leaving `run` completes everything outstanding. *)
Theorem c04_immediate_after_exit : forall c s t w s',
  pc (wr s) = WExited -> step c s (LFlushReq t w) = Some s' ->
  out (gh s') = out (gh s) ++ [EWake w] /\ fch (sh s') = fch (sh s).
Proof. exact flush_after_exit. Qed.
Print Assumptions c04_immediate_after_exit.

Theorem c04_exit_wakes_all : forall c s o s',
  pc (wr s) = WExit -> step c s (LW o) = Some s' ->
  out (gh s') = out (gh s) ++ map EWake (waiting (wr s) ++ fch (sh s)) /\
  waiting (wr s') = [] /\ fch (sh s') = [] /\ pc (wr s') = WExited.
Proof. exact exit_wakes_all. Qed.
Print Assumptions c04_exit_wakes_all.

Theorem c04_all_woken_after_exit : forall c s, 0 < cap c -> reachable c s -> pc (wr s) = WExited ->
  forall w, In w (map fst (freq (gh s))) -> In (EWake w) (out (gh s)).
Proof. exact all_woken_after_exit. Qed.
Print Assumptions c04_all_woken_after_exit.

(* A request that is only completed by the thread's end: if it was sent before the shutdown flag was stored and
   the shutdown drain was complete, the barrier holds for it too (the stream was flushed before it was dropped). *)
Theorem c04_barrier_at_exit : forall c s w n m,
  0 < cap c -> reachable c s -> pc (wr s) = WExited -> sdhit (gh s) = false ->
  In (w, n) (freq (gh s)) -> sdmark (gh s) = Some m -> n <= m ->
  (exists pre b, stream_events (out (gh s)) = pre ++ [EFlush b; EDropStream]) /\
  forall e, In e (firstn n (pushed (gh s))) ->
            In e (nexts (out (gh s))) \/ In e (displaced (removed (gh s))).
Proof. exact barrier_at_exit. Qed.
Print Assumptions c04_barrier_at_exit.

(* THE COMPONENT: the pure WakerTracker function is what the LTS executes (cut at its shared operations) ... *)
Theorem c04_waker_refines : forall c s o,
  pc (wr s) = WHandle ->
  let res := wt_handle (wt_of s) (cap c) (negb (is_drained (dres (wr s)))) (count (wr s)) in
  exists n s', run c s (repeat (LW o) n) = Some s' /\
    wt_of s' = r_state res /\
    out (gh s') = out (gh s) ++ (if r_flushed res then EFlush (o_fl o) :: map EWake (r_woken res) else []) /\
    pc (wr s') = after_handle (wr s).
Proof. exact handle_refines_waker. Qed.
Print Assumptions c04_waker_refines.

(* ... and has the local properties the source comment claims *)
Theorem c04_waker_wakes : forall t capacity hit cnt,
  w_waiting t <> [] -> hit = false \/ w_ebw t <= cnt ->
  let r := wt_handle t capacity hit cnt in
  r_flushed r = true /\ r_woken r = w_waiting t /\ w_waiting (r_state r) = w_chan t /\ w_chan (r_state r) = [].
Proof. exact wt_handle_wakes. Qed.
Print Assumptions c04_waker_wakes.

Theorem c04_waker_counts_down : forall t capacity cnt,
  w_waiting t <> [] -> cnt < w_ebw t ->
  let r := wt_handle t capacity true cnt in
  r_flushed r = false /\ r_woken r = [] /\ w_waiting (r_state r) = w_waiting t /\
  w_ebw (r_state r) = w_ebw t - cnt /\ w_chan (r_state r) = w_chan t.
Proof. exact wt_handle_counts_down. Qed.
Print Assumptions c04_waker_counts_down.

Theorem c04_waker_progress_is_real : forall t capacity cnt,
  wt_will_progress t = true -> r_woken (wt_handle t capacity false cnt) <> [].
Proof. exact wt_progress_is_real. Qed.
Print Assumptions c04_waker_progress_is_real.

Theorem c04_waker_collects : forall t capacity hit cnt,
  w_waiting t = [] ->
  let r := wt_handle t capacity hit cnt in
  w_waiting (r_state r) = w_chan t /\ w_chan (r_state r) = [] /\
  (w_chan t <> [] -> w_ebw (r_state r) = capacity) /\ r_flushed r = false /\ r_woken r = [].
Proof. exact wt_handle_collects. Qed.
Print Assumptions c04_waker_collects.

(* ---- non-vacuity: capacity 2, three appends (one displaced), a flush request, a fourth append that arrives
   while the request is being served; the request is woken after the flush, entries 2,3,4 were written *)
Local Open Scope N_scope.
Definition ex_o := {| o_res := ROk; o_rep := None; o_dl := false; o_fl := true |}.
Example c04_example_barrier_run :
  option_map (fun s => (out (gh s), removed (gh s), freq (gh s)))
    (run {| cap := 2%nat; nosub := true; extra_clone := false |} init
       ([LPush 1 1; LUnpark 1; LPush 1 2; LUnpark 1; LPush 1 3; LUnpark 1; LFlushReq 1 7; LUnpark 1]
          ++ repeat (LW ex_o) 9 ++ [LPush 1 4; LUnpark 1] ++ repeat (LW ex_o) 9))
  = Some ([EOver; ENext (1, 2) ROk; ENext (1, 3) ROk; ENext (1, 4) ROk; EFlush true; EWake 7],
          [((1, 1), Displaced); ((1, 2), Popped); ((1, 3), Popped); ((1, 4), Popped)], [(7, 3%nat)]).
Proof. vm_compute. reflexivity. Qed.

(* the ring never becomes empty (three bursts of 40 appends against passes of 32 that stop at their deadline,
   capacity 40): the request is woken by the counter reaching zero, with 9 entries still queued *)
Example c04_example_never_empty :
  let hit := {| o_res := ROk; o_rep := None; o_dl := true; o_fl := true |} in
  let burst b := flat_map (fun i => [LPush 1 (N.of_nat i); LUnpark 1]) (seq b 40) in
  option_map (fun s => (existsb (fun e => match e with EWake 9 => true | _ => false end) (out (gh s)),
                        length (q (sh s)), length (nexts (out (gh s))), pc (wr s)))
    (run {| cap := 40%nat; nosub := true; extra_clone := false |} init
       (burst 0%nat ++ [LFlushReq 1 9; LUnpark 1] ++ repeat (LW hit) 70 ++ burst 40%nat ++ repeat (LW hit) 69
          ++ burst 80%nat ++ repeat (LW hit) 65))
  = Some (true, 9%nat, 96%nat, WOuterFlush).
Proof. vm_compute. reflexivity. Qed.

(* the hypotheses of c04_bounded_writer_steps are satisfiable: a live queue, a pending request, producers that
   keep appending, a clock past every deadline *)
Example c04_example_live_run :
  let hit := {| o_res := ROk; o_rep := None; o_dl := true; o_fl := true |} in
  let c := {| cap := 2%nat; nosub := true; extra_clone := false |} in
  match run c init [LPush 1 0; LUnpark 1; LFlushReq 1 5] with
  | Some s => live_run c s ([LUnpark 1; LW hit; LPush 1 1; LW hit; LW hit; LUnpark 1; LW hit]) /\
              In 5 (fch (sh s) ++ waiting (wr s))
  | None => False
  end.
Proof.
  vm_compute. repeat split; intros; try discriminate; auto;
    match goal with H : LW _ = LW _ |- _ => inversion H; reflexivity end.
Qed.
