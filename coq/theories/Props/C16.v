(* C16 — pinned statements. *)
From Coq Require Import List NArith Bool.
From MV Require Import Common.Sx Common.Bytes Emf.Model C16.Model C16.Proofs.
Import ListNotations.

(* However the writer splits, shortens or interrupts a vectored write (any script), what it has received is a
   prefix of the payload — nothing duplicated, nothing out of order — and is exactly the payload when the
   call reports success. *)
Theorem c16_prefix : forall script bufs received,
  let '(_, rec, res) := write_all_vectored script bufs received in
  (exists rest, rec ++ rest = received ++ concat bufs) /\ (res = WOk -> rec = received ++ concat bufs).
Proof. exact write_all_vectored_prefix. Qed.
Print Assumptions c16_prefix.

(* Loop invariant form: at every point, received ++ pending = payload. *)
Theorem c16_no_duplication : forall script slices received payload,
  received ++ concat slices = payload ->
  let '(_, rec, res) := write_all script slices received in
  (exists rest, rec ++ rest = payload /\ (res = WOk -> rest = [])) /\ (res = WOk -> rec = payload).
Proof. exact write_all_invariant. Qed.
Print Assumptions c16_no_duplication.

(* A writer that only shortens or interrupts (never Ok(0), never a hard error) cannot stall or tear the output:
   the call succeeds with exactly the payload. *)
Theorem c16_short_writes_complete : forall script slices received,
  forallb benign script = true ->
  let '(_, rec, res) := write_all script slices received in res = WOk /\ rec = received ++ concat slices.
Proof. exact write_all_benign. Qed.
Print Assumptions c16_short_writes_complete.

Theorem c16_interrupted_retried : forall sc slices received,
  slices <> [] -> write_all (Interrupted :: sc) slices received = write_all sc slices received.
Proof. exact write_all_interrupted. Qed.
Print Assumptions c16_interrupted_retried.

Theorem c16_zero_is_write_zero : forall sc slices received,
  slices <> [] -> write_all (Zero :: sc) slices received = (sc, received, WZero).
Proof. exact write_all_zero. Qed.
Print Assumptions c16_zero_is_write_zero.

Theorem c16_hard_error_surfaces : forall sc slices received,
  slices <> [] -> write_all (Fail :: sc) slices received = (sc, received, WFail).
Proof. exact write_all_fail. Qed.
Print Assumptions c16_hard_error_surfaces.

(* Sinks: every entry is handed to the stream exactly once, in order, each followed by one flush, whatever the
   stream returned for it or for any other entry; a tee hands it to both streams. *)
Theorem c16_immediate_exactly_once : forall cs, nexts_of 0 (immediate cs) = map sc_id cs.
Proof. exact immediate_nexts. Qed.
Print Assumptions c16_immediate_exactly_once.

Theorem c16_immediate_flush_each : forall cs, flushes_of 0 (immediate cs) = length cs.
Proof. exact immediate_flushes. Qed.
Print Assumptions c16_immediate_flush_each.

Theorem c16_tee_both_receive : forall cs, nexts_of 0 (tee cs) = map sc_id cs /\ nexts_of 1 (tee cs) = map sc_id cs.
Proof. intros cs. split; [exact (tee_nexts_0 cs) | exact (tee_nexts_1 cs)]. Qed.
Print Assumptions c16_tee_both_receive.

Theorem c16_errors_do_not_stop_sinks : forall cs f,
  (forall c, sc_id (f c) = sc_id c) -> immediate (map f cs) = immediate cs /\ tee (map f cs) = tee cs.
Proof. intros cs f H. split; [exact (immediate_result_independent cs f H) | exact (tee_result_independent cs f H)]. Qed.
Print Assumptions c16_errors_do_not_stop_sinks.

(* The background queue (the family's transition system, Queue/Model.v): the stream's answers never change what is
   delivered — two schedules that differ only in the stream's results deliver the same entries in the same order and
   leave the same queue; a schedule stays executable whatever the stream answers; and drop(join handle) returns only
   after everything appended before it was handed to the stream (or displaced), for every reachable state, i.e. also
   when the entries around and inside the shutdown drain fail. *)
From MV Require Queue.Model Queue.Spec Queue.Isolation Queue.Shutdown.
Theorem c16_queue_errors_isolated : forall c ls1 ls2 s1 s2,
  map Queue.Isolation.erase_l ls1 = map Queue.Isolation.erase_l ls2 ->
  Queue.Model.run c Queue.Model.init ls1 = Some s1 -> Queue.Model.run c Queue.Model.init ls2 = Some s2 ->
  Queue.Model.nexts (Queue.Model.out (Queue.Model.gh s1)) = Queue.Model.nexts (Queue.Model.out (Queue.Model.gh s2)) /\
  Queue.Model.sh s1 = Queue.Model.sh s2 /\ Queue.Model.wr s1 = Queue.Model.wr s2.
Proof.
  intros c ls1 ls2 s1 s2 H R1 R2. destruct (Queue.Isolation.errors_isolated c ls1 ls2 s1 s2 H R1 R2) as (A & _ & B & C & _).
  repeat split; assumption.
Qed.
Print Assumptions c16_queue_errors_isolated.

Theorem c16_queue_results_do_not_block : forall c ls s,
  Queue.Model.run c Queue.Model.init ls = Some s ->
  exists s', Queue.Model.run c Queue.Model.init (map Queue.Isolation.erase_l ls) = Some s'.
Proof. exact Queue.Isolation.results_do_not_block. Qed.
Print Assumptions c16_queue_results_do_not_block.

(* the observation compared for the queue scenarios is "every entry once, in order" *)
Theorem c16_background_exactly_once : forall cs, nexts_of 0 (background cs) = map sc_id cs.
Proof. induction cs as [|c r IH]; cbn; [reflexivity | f_equal; exact IH]. Qed.
Print Assumptions c16_background_exactly_once.

Example c16_example_short_write :
  write_all_vectored [Accept 2; Interrupted; Accept 1] [[1; 2; 3]; []; [4; 5]]%N [] = ([], [1; 2; 3; 4; 5]%N, WOk).
Proof. vm_compute. reflexivity. Qed.
Example c16_example_zero :
  write_all_vectored [Accept 4; Zero] [[1; 2; 3]; [4; 5]]%N [] = ([], [1; 2; 3; 4]%N, WZero).
Proof. vm_compute. reflexivity. Qed.

(* Whole entries: for every configuration, formatter state, entry and writer script, compared with an all-accepting
   writer — a rejected entry is rejected alike and writes nothing; otherwise the bytes received are a prefix of the
   entry's records (nothing duplicated, nothing out of order), exactly the records when the call reports success, and
   the only other outcome is an I/O error for this entry. *)
From MV Require Import Emf.Partial.
Theorem c16_entry_records : forall c s mult e now ftab script,
  let a := format c s mult e now ftab script in
  let b := format c s mult e now ftab [] in
  (forall m, res_of b = RValidation m -> res_of a = RValidation m /\ out_of a = []) /\
  (res_of b = ROk ->
     is_prefix (out_of a) (out_of b) /\
     (res_of a = ROk -> out_of a = out_of b) /\
     (exists z, res_of a = ROk \/ res_of a = RIo z)).
Proof. intros. unfold a, b, format. apply finish_vs_accept. Qed.
Print Assumptions c16_entry_records.
