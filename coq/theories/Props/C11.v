(* C11 — pinned statements. Nothing but statements, [exact] and Print Assumptions. *)
From Coq Require Import List NArith ZArith Permutation Sorted.
From MV Require Import C11.Model C11.BucketProofs C11.HistProofs C11.SortProofs.
Import ListNotations.
Local Open Scope N_scope.

(* Every value the configuration accepts lies between the bounds of the bucket it is counted in. *)
Theorem c11_index_range : forall n v i, 5 <= n -> value_to_index n v = Some i ->
  i < total_buckets n /\ index_to_lower_bound i <= v /\ v <= index_to_upper_bound n i.
Proof. exact index_range. Qed.
Print Assumptions c11_index_range.
