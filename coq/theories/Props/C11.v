(* C11 — pinned statements. Nothing but statements, [exact] and Print Assumptions.
   n is the configuration's max_value_power: 64 for metrique-aggregation, 32 for the metrics.rs bridge. *)
From Coq Require Import List NArith ZArith Permutation Sorted Reals.
From Flocq Require Import Core.Core IEEE754.Binary.
From MV Require Import C11.Model C11.Float C11.BucketProofs C11.HistProofs C11.SortProofs C11.ReaggProofs C11.FloatProofs C11.FloatDrainProofs.
Import ListNotations.
Local Open Scope N_scope.

(* ---- the bucket layout ---- *)

(* Every accepted value lies between the bounds of the bucket it is counted in, and that bucket exists. *)
Theorem c11_index_range : forall n v i, 5 <= n -> value_to_index n v = Some i ->
  i < total_buckets n /\ index_to_lower_bound i <= v /\ v <= index_to_upper_bound n i.
Proof. exact index_range. Qed.
Print Assumptions c11_index_range.

(* Conversely every value between the bounds of a bucket is counted in that bucket: the buckets are disjoint. *)
Theorem c11_bucket_inverse : forall n i v, 5 <= n -> i < total_buckets n ->
  index_to_lower_bound i <= v -> v <= index_to_upper_bound n i -> value_to_index n v = Some i.
Proof. exact index_of_bucket. Qed.
Print Assumptions c11_bucket_inverse.

(* The buckets tile [0, 2^n): first starts at 0, each ends right before the next starts, last ends at the maximum. *)
Theorem c11_partition : forall n, 5 <= n ->
  index_to_lower_bound 0 = 0 /\
  (forall i, index_to_lower_bound i <= index_to_upper_bound n i) /\
  (forall i, index_to_upper_bound n i + 1 = index_to_lower_bound (i + 1)) /\
  index_to_upper_bound n (total_buckets n - 1) = max_value n.
Proof.
  intros n Hn. split; [exact first_lower|]. split; [intro i; exact (bounds_ordered n i Hn)|].
  split; [intro i; exact (buckets_adjacent n i Hn)|exact (last_upper n)].
Qed.
Print Assumptions c11_partition.

Theorem c11_bucket_count : total_buckets 64 = 976 /\ total_buckets 32 = 464 /\ max_value 64 = 18446744073709551615.
Proof. repeat split. Qed.
Print Assumptions c11_bucket_count.

Theorem c11_index_monotone : forall n v v' i i', 5 <= n -> v <= v' ->
  value_to_index n v = Some i -> value_to_index n v' = Some i' -> i <= i'.
Proof. exact index_monotone. Qed.
Print Assumptions c11_index_monotone.

(* The bound formulas never exceed the configuration's maximum: for n = 64 the model's N arithmetic is the
   code's u64 arithmetic (the last index takes the code's special case). *)
Theorem c11_bounds_fit : forall n i, 5 <= n -> i < total_buckets n -> index_to_upper_bound n i <= max_value n.
Proof. exact upper_fits. Qed.
Print Assumptions c11_bounds_fit.

(* ---- the error of reporting the midpoint ---- *)

(* s = a/d the scaled value, floor s bucketed, m the reported midpoint: |m - s| <= s/32 + 1. *)
Theorem c11_error_scaled : forall n a d i, 5 <= n -> 0 < d -> value_to_index n (a / d) = Some i ->
  let m := bucket_mid n i in
  32 * (m * d) <= 33 * a + 32 * d /\ 31 * a <= 32 * (m * d) + 32 * d.
Proof. exact mid_error. Qed.
Print Assumptions c11_error_scaled.

(* x = a/d >= 1/32 is reported as m/1024 with |m/1024 - x| <= x/16 (6.25%). *)
Theorem c11_error_relative : forall n a d i, 5 <= n -> 0 < d -> d <= 32 * a ->
  value_to_index n (1024 * a / d) = Some i ->
  let m := bucket_mid n i in
  16 * (m * d) <= 17 * (1024 * a) /\ 15 * (1024 * a) <= 16 * (m * d).
Proof. exact reported_within_16th. Qed.
Print Assumptions c11_error_relative.

(* x = a/d < 1/32 is reported as m/1024 with 0 <= x - m/1024 < 1/1024. *)
Theorem c11_error_absolute : forall n a d i, 5 <= n -> 0 < d -> 32 * a < d ->
  value_to_index n (1024 * a / d) = Some i ->
  let m := bucket_mid n i in
  m * d <= 1024 * a /\ 1024 * a < m * d + d.
Proof. exact reported_within_1024th. Qed.
Print Assumptions c11_error_absolute.

(* ---- the float pipeline (Flocq binary64) ---- *)

(* For every finite non-negative double x with 1024 x < 2^64 (i.e. x < 2^54), the integer that record_many
   buckets — scale_up (x * 1024.0), min with u64::MAX as f64, `as u64` — is exactly floor (1024 x): the
   multiplication is exact, the clamp is inactive, the cast truncates. *)
Theorem c11_scaled_floor : forall x : f64, is_finite 53 1024 x = true -> Bsign 53 1024 x = false ->
  (B2R 53 1024 x * 1024 < bpow radix2 64)%R -> Z.of_N (scaled_u64 x) = Zfloor (B2R 53 1024 x * 1024).
Proof. exact scaled_u64_floor. Qed.
Print Assumptions c11_scaled_floor.

(* Hence the accuracy clause for actual doubles: x = a/d is reported at midpoint/1024 within x/16 ... *)
Theorem c11_float_error_relative : forall (x : f64) (a d : N),
  is_finite 53 1024 x = true -> Bsign 53 1024 x = false -> 0 < d ->
  B2R 53 1024 x = (IZR (Z.of_N a) / IZR (Z.of_N d))%R -> (B2R 53 1024 x * 1024 < bpow radix2 64)%R ->
  d <= 32 * a ->
  exists i, value_to_index 64 (scaled_u64 x) = Some i /\
            16 * (bucket_mid 64 i * d) <= 17 * (1024 * a) /\ 15 * (1024 * a) <= 16 * (bucket_mid 64 i * d).
Proof. exact float_reported_within_16th. Qed.
Print Assumptions c11_float_error_relative.

(* ... and within 1/1024 when x < 1/32. *)
Theorem c11_float_error_absolute : forall (x : f64) (a d : N),
  is_finite 53 1024 x = true -> Bsign 53 1024 x = false -> 0 < d ->
  B2R 53 1024 x = (IZR (Z.of_N a) / IZR (Z.of_N d))%R -> (B2R 53 1024 x * 1024 < bpow radix2 64)%R ->
  32 * a < d ->
  exists i, value_to_index 64 (scaled_u64 x) = Some i /\
            bucket_mid 64 i * d <= 1024 * a /\ 1024 * a < bucket_mid 64 i * d + d.
Proof. exact float_reported_within_1024th. Qed.
Print Assumptions c11_float_error_absolute.

(* ---- the bucket array under any record sequence ---- *)

(* Slot i holds (mod 2^64) the occurrences of exactly the records whose value is indexed to i. *)
Theorem c11_slot : forall n rs i, 5 <= n -> nth (N.to_nat i) (hist_run n rs) 0 = wrap64 (count_in n i rs).
Proof. exact slot_closed. Qed.
Print Assumptions c11_slot.

(* Count conservation: the occurrences of the closed distribution add up to the recorded occurrences. *)
Theorem c11_count : forall n rs, 5 <= n -> Forall (fun r => fst r <= max_value n) rs -> total_count rs < 2 ^ 64 ->
  drained_total (drain_mids n (hist_run n rs)) = total_count rs.
Proof. exact drain_conserves_count. Qed.
Print Assumptions c11_count.

(* Permutation invariance of the whole array, hence of everything closed from it. *)
Theorem c11_permutation : forall n rs rs', 5 <= n -> Permutation rs rs' -> hist_run n rs = hist_run n rs'.
Proof. exact hist_run_perm. Qed.
Print Assumptions c11_permutation.

(* Concurrent recording: under every schedule, once all threads are done the array is the sequential one. *)
Theorem c11_concurrent : forall n ts sched h' ts', 5 <= n ->
  conc_run n (hist_empty n) ts sched = (h', ts') -> concat ts' = [] -> h' = hist_run n (concat ts).
Proof. exact conc_run_complete. Qed.
Print Assumptions c11_concurrent.

(* ... and part-way through, exactly the performed records are in, each once. *)
Theorem c11_concurrent_prefix : forall n sched h ts h' ts', conc_run n h ts sched = (h', ts') ->
  exists done, Permutation (concat ts) (done ++ concat ts') /\ h' = fold_left (hist_record n) done h.
Proof. exact conc_run_spec. Qed.
Print Assumptions c11_concurrent_prefix.

(* The drained list: exactly the non-empty buckets with their midpoints, in strictly ascending order. *)
Theorem c11_drain_contents : forall n h m c, In (m, c) (drain_mids n h) <->
  exists i, (N.to_nat i < length h)%nat /\ nth (N.to_nat i) h 0 = c /\ 0 < c /\ m = bucket_mid n i.
Proof. exact drain_contents. Qed.
Print Assumptions c11_drain_contents.

Theorem c11_drain_ascending : forall n h, 5 <= n -> StronglySorted (fun p q : N * N => fst p < fst q) (drain_mids n h).
Proof. exact drain_ascending. Qed.
Print Assumptions c11_drain_ascending.

(* The accuracy clause end to end: a value x = a/d recorded c times is found in the closed distribution in a
   bucket of at least c occurrences reported within x/16 (x >= 1/32) resp. within 1/1024 (x < 1/32). *)
Theorem c11_observation_error_relative : forall n rs a d c, 5 <= n -> 0 < d -> d <= 32 * a -> 0 < c ->
  1024 * a / d <= max_value n -> In (1024 * a / d, c) rs -> (forall i, count_in n i rs < 2 ^ 64) ->
  exists m k, In (m, k) (drain_mids n (hist_run n rs)) /\ c <= k /\
              16 * (m * d) <= 17 * (1024 * a) /\ 15 * (1024 * a) <= 16 * (m * d).
Proof. exact observation_within_16th. Qed.
Print Assumptions c11_observation_error_relative.

Theorem c11_observation_error_absolute : forall n rs a d c, 5 <= n -> 0 < d -> 32 * a < d -> 0 < c ->
  In (1024 * a / d, c) rs -> (forall i, count_in n i rs < 2 ^ 64) ->
  exists m k, In (m, k) (drain_mids n (hist_run n rs)) /\ c <= k /\ m * d <= 1024 * a /\ 1024 * a < m * d + d.
Proof. exact observation_within_1024th. Qed.
Print Assumptions c11_observation_error_absolute.

(* ---- sort-and-merge ---- *)

Theorem c11_sort_merge_ascending : forall values, StronglySorted run_lt (sort_merge values).
Proof. exact sort_merge_ascending. Qed.
Print Assumptions c11_sort_merge_ascending.

(* The runs expand to exactly the recorded non-NaN values in ascending order. *)
Theorem c11_sort_merge_expand : forall values, N.of_nat (length values) < 2 ^ 64 ->
  expand (sort_merge values) = map okey (non_nan (sort_by_key values)) /\
  Permutation (sort_by_key values) values /\ StronglySorted key_le (sort_by_key values).
Proof. intros values H. split; [exact (sort_merge_expand values H)|]. split; [exact (sort_perm values)|exact (sort_sorted values)]. Qed.
Print Assumptions c11_sort_merge_expand.

Theorem c11_sort_merge_count : forall values, N.of_nat (length values) < 2 ^ 64 ->
  runs_total (sort_merge values) = N.of_nat (length (non_nan values)).
Proof. exact sort_merge_total. Qed.
Print Assumptions c11_sort_merge_count.

Theorem c11_sort_merge_runs : forall values p, In p (sort_merge values) ->
  0 < snd p /\ In (fst p) values /\ is_nan_bits (fst p) = false.
Proof. exact sort_merge_runs. Qed.
Print Assumptions c11_sort_merge_runs.

(* The sort is stable: equal values (-0 and +0) keep their recording order, so a run is labelled by the
   first recorded of them. *)
Theorem c11_sort_stable : forall k l,
  filter (fun y => (okey y =? k)%Z) (sort_by_key l) = filter (fun y => (okey y =? k)%Z) l.
Proof. exact sort_stable. Qed.
Print Assumptions c11_sort_stable.

(* ---- re-aggregation ---- *)

(* The reported midpoint is counted in its own bucket again. *)
Theorem c11_reagg_index : forall n i, 5 <= n -> i < total_buckets n -> value_to_index n (bucket_mid n i) = Some i.
Proof. exact index_of_mid. Qed.
Print Assumptions c11_reagg_index.

(* Replaying the drained (midpoint, count) pairs rebuilds the same array. *)
Theorem c11_reagg_integer : forall n h, 5 <= n -> length h = N.to_nat (total_buckets n) ->
  (forall i, nth i h 0 < 2 ^ 64) -> hist_run n (drain_mids n h) = h.
Proof. exact rerecord_drained. Qed.
Print Assumptions c11_reagg_integer.

(* With floats, under the explicit exactness condition (the mean of each written observation scales back to
   its midpoint): closing, re-aggregating into the same strategy and closing changes nothing. *)
Theorem c11_reagg_exact : forall h, length h = N.to_nat (total_buckets 64) -> (forall i, nth i h 0 < 2 ^ 64) ->
  Forall mean_scales_back (drain_mids 64 h) -> exp_close (exp_drain h) = exp_drain h.
Proof. exact reaggregate_exact_obs. Qed.
Print Assumptions c11_reagg_exact.

(* The exactness condition follows from a numeric one: with fewer than 2^53 occurrences and
   midpoint * count < 2^53 every float operation between the bucket and its re-recording is exact (Flocq). *)
Theorem c11_scales_back : forall mid c, 0 < c -> c < 2 ^ 53 -> mid * c < 2 ^ 53 -> mean_scales_back (mid, c).
Proof. exact scales_back_exact. Qed.
Print Assumptions c11_scales_back.

Theorem c11_reagg_exact_numeric : forall h, length h = N.to_nat (total_buckets 64) -> (forall i, nth i h 0 < 2 ^ 64) ->
  (forall m c, In (m, c) (drain_mids 64 h) -> c < 2 ^ 53 /\ m * c < 2 ^ 53) ->
  exp_close (exp_drain h) = exp_drain h.
Proof. exact reaggregate_exact_numeric. Qed.
Print Assumptions c11_reagg_exact_numeric.

(* The condition is needed: 2.1e15 occurrences in the bucket [18/1024, 19/1024) come back as 17/1024. *)
Theorem c11_reagg_inexact_refuted :
  reaggregate Exponential Exponential [reagg_witness] <> close Exponential reagg_witness.
Proof. exact reaggregate_inexact_refuted. Qed.
Print Assumptions c11_reagg_inexact_refuted.

(* ---- non-vacuity ---- *)

Example c11_example_layout :
  value_to_index 64 1055 = Some 112 /\ index_to_lower_bound 112 = 1024 /\ index_to_upper_bound 64 112 = 1087 /\
  bucket_mid 64 112 = 1055 /\ value_to_index 64 (2 ^ 64 - 1) = Some 975 /\ value_to_index 32 (2 ^ 32) = None.
Proof. vm_compute. repeat split. Qed.

(* premises of c11_error_relative / c11_error_absolute are satisfiable: x = 3/2 and x = 1/100 *)
Example c11_example_error :
  value_to_index 64 (1024 * 3 / 2) = Some 120 /\ bucket_mid 64 120 = 1567 /\
  value_to_index 64 (1024 * 1 / 100) = Some 10 /\ bucket_mid 64 10 = 10.
Proof. vm_compute. repeat split. Qed.

Example c11_example_run :
  drain_mids 64 (hist_run 64 [(1024, 1); (5, 7); (1087, 2); (2 ^ 64 - 1, 3)]) = [(5, 7); (1055, 3); (18158513697557839871, 3)].
Proof. vm_compute. reflexivity. Qed.

(* two threads, an interleaving that finishes both: same array as the sequential run *)
Example c11_example_concurrent :
  let ts := [[(1024, 1); (5, 1)]; [(1030, 2); (5, 4); (77, 1)]] in
  match conc_run 64 (hist_empty 64) ts [1; 0; 1; 1; 0]%nat with
  | (h, rest) => concat rest = [] /\ drain_mids 64 h = [(5, 5); (77, 1); (1055, 3)]
  end.
Proof. vm_compute. split; reflexivity. Qed.

(* sort-and-merge: -0.0 recorded before +0.0 merge into one run labelled -0.0; NaN dropped; 1.0 twice *)
Example c11_example_sort_merge :
  sort_merge [4607182418800017408; 9223372036854775808; 9221120237041090560; 0; 4607182418800017408; 13830554455654793216]
  = [(13830554455654793216, 1); (9223372036854775808, 2); (4607182418800017408, 2)].
Proof. vm_compute. reflexivity. Qed.

(* the exactness condition of c11_reagg_exact holds for ordinary counts *)
Example c11_example_reagg_exact :
  Forall mean_scales_back (drain_mids 64 (hist_run 64 [(1024, 1); (5, 7); (1087, 2); (123456789, 1000000)])).
Proof. apply scales_back_sound. vm_compute. reflexivity. Qed.

(* the premises of the float theorems are satisfiable: the double 1.5 = 3/2, bucketed as 1536 *)
Example c11_example_float :
  is_finite 53 1024 one_and_half = true /\ Bsign 53 1024 one_and_half = false /\
  B2R 53 1024 one_and_half = (IZR (Z.of_N 3) / IZR (Z.of_N 2))%R /\
  (B2R 53 1024 one_and_half * 1024 < bpow radix2 64)%R /\ scaled_u64 one_and_half = 1536.
Proof. exact float_example_premises. Qed.
