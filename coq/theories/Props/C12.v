(* C12 — pinned statements. *)
From Coq Require Import List ZArith NArith Bool.
From MV Require Import C12.Model C12.Spec C12.Proofs.
Local Open Scope N_scope.

Theorem c12_weight_two_values_partial : forall I k, weight_exact I k = w_floor I \/ weight_exact I k = w_floor I + 1.
Proof. exact weight_exact_two_values. Qed.
Print Assumptions c12_weight_two_values_partial.
