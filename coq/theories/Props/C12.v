(* C12 — pinned statements. Nothing but statements, [exact] and Print Assumptions. *)
From Coq Require Import List ZArith NArith Reals QArith Bool.
From Flocq Require Import Core.Core IEEE754.Binary IEEE754.Bits.
From MV Require Import SFloat.Defs SFloat.Facts C12.Model C12.Spec C12.ProofsFloat C12.ProofsWeight C12.ProofsWeightLink C12.ProofsCongress.
Import ListNotations.

(* ================================================================ decision *)
(* FixedFractionSample::format, for every f32 rate with a rational value q and every u32 from the generator:
   the entry reaches the inner format iff the draw (u >> 8) * 2^-24 is at most q, and with exactly that rate. *)
Theorem c12_decision : forall (rate : f32) (u : N) (q : Q), f32_to_Q rate = Some q ->
  fixed_format rate u = if spec_emit q u then Some rate else None.
Proof. exact fixed_format_spec. Qed.
Print Assumptions c12_decision.

(* every rate the constructor accepts is a rational in (0,1] *)
Theorem c12_rate_accepted : forall rate : f32, fixed_rate_ok rate = true ->
  exists q, f32_to_Q rate = Some q /\ (0 < q)%Q /\ (q <= 1)%Q.
Proof. exact fixed_rate_ok_spec. Qed.
Print Assumptions c12_rate_accepted.

(* CongressSample::format on a group rate: 1 emits without a draw, any other rate decides by draw <= rate *)
Theorem c12_decision_congress : forall (rate : f32) (u : N) (q : Q), f32_to_Q rate = Some q ->
  congress_decide rate u =
    if Qeq_bool q 1 then (Some rate, 0%N) else (if spec_emit q u then Some rate else None, 1%N).
Proof. exact congress_decide_spec. Qed.
Print Assumptions c12_decision_congress.

(* how many of the 2^24 equally likely draws emit at a rate num/den: floor(rate * 2^24) + 1, capped at 2^24.
   (The decision is `draw <= rate`, so the emission probability is that count / 2^24: above the rate by at most
   2^-24, and never below 2^-24 however small the rate.) *)
Theorem c12_emitting_draws : forall num den : N, (0 < den)%N ->
  sum_below (fun k => if emits_k num den k then 1 else 0)%N (2 ^ 24) = N.min (2 ^ 24) (num * 2 ^ 24 / den + 1).
Proof. exact emitting_draws. Qed.
Print Assumptions c12_emitting_draws.

Theorem c12_emits_k_is_spec : forall (num : N) (den : positive) (u : N),
  spec_emit (Qmake (Z.of_N num) den) u = emits_k num (Npos den) (N.shiftr (u mod 2 ^ 32) 8).
Proof. exact spec_emit_is_emits_k. Qed.
Print Assumptions c12_emits_k_is_spec.

(* ================================================================ weight *)
Local Open Scope N_scope.
(* exact-rational weight for inv = I / 2^52 and the 2^53 equally likely draws k:
   floor or ceiling (the ceiling only when inv is not an integer) ... *)
Theorem c12_weight_floor_or_ceiling : forall I k, k < two53 ->
  (weight_exact I k = w_floor I /\ w_floor I * two52 <= I < (w_floor I + 1) * two52) \/
  (weight_exact I k = w_floor I + 1 /\ w_floor I * two52 < I < (w_floor I + 1) * two52).
Proof. exact weight_floor_or_ceiling. Qed.
Print Assumptions c12_weight_floor_or_ceiling.

(* ... with mean exactly inv: the weights of all 2^53 draws add up to 2^53 * inv = 2 * I *)
Theorem c12_weight_mean_exact : forall I, sum_below (weight_exact I) two53 = 2 * I.
Proof. exact weight_mean_exact. Qed.
Print Assumptions c12_weight_mean_exact.

Theorem c12_weight_counts : forall I,
  sum_below (fun k => if weight_exact I k =? w_floor I then 1 else 0) two53 = w_threshold I.
Proof. exact weight_counts. Qed.
Print Assumptions c12_weight_counts.

Local Open Scope R_scope.
(* the bit-exact computation of emf.rs (f32 -> f64, 1.0/rate, truncation, (n+1) as f64 - inv, 53-bit draw compared
   with alpha) IS that exact weight, applied to the computed inverse, whenever the computed inverse is below 2^53 *)
Theorem c12_weight_link : forall rate : f32,
  Binary.is_finite 24 128 rate = true -> 0 < R32 rate -> R32 rate <= 1 ->
  inv_real rate < bpow radix2 53 ->
  exists I : N, inv_real rate = IZR (Z.of_N I) * bpow radix2 (-52) /\ (two52 <= I)%N /\
    forall u, rate_to_n rate u = weight_exact I (draw64_k u).
Proof. exact weight_exact_link. Qed.
Print Assumptions c12_weight_link.

Theorem c12_weight_link_rate : forall rate : f32,
  Binary.is_finite 24 128 rate = true -> 0 < R32 rate -> R32 rate <= 1 ->
  bpow radix2 (-52) <= R32 rate ->
  exists I : N, inv_real rate = IZR (Z.of_N I) * bpow radix2 (-52) /\ (two52 <= I)%N /\
    forall u, rate_to_n rate u = weight_exact I (draw64_k u).
Proof. exact weight_exact_link_rate. Qed.
Print Assumptions c12_weight_link_rate.

(* UNBIASED, END TO END: for every f32 rate in [2^-52, 1], the weights the bit-exact computation hands out over the
   2^53 equally likely 53-bit draws add up to exactly 2^53 x the computed inverse rate: the mean weight is 1/rate *)
Theorem c12_weight_unbiased : forall rate : f32,
  Binary.is_finite 24 128 rate = true -> 0 < R32 rate -> R32 rate <= 1 -> bpow radix2 (-52) <= R32 rate ->
  IZR (Z.of_N (sum_below (fun k => rate_to_n rate (k * 2 ^ 11)) two53)) = bpow radix2 53 * inv_real rate.
Proof. exact weight_unbiased. Qed.
Print Assumptions c12_weight_unbiased.

(* the computed inverse is 1/rate correctly rounded to binary64 *)
Theorem c12_inverse_correctly_rounded : forall rate : f32, 0 < R32 rate -> R32 rate <= 1 ->
  Rabs (inv_real rate - 1 / R32 rate) <= bpow radix2 (-53) * Rabs (1 / R32 rate).
Proof. exact inv_real_error. Qed.
Print Assumptions c12_inverse_correctly_rounded.

(* from 2^-63 up (also beyond 2^53): the weight is the integer part of the computed inverse or that plus one *)
Theorem c12_weight_within_one : forall rate : f32,
  Binary.is_finite 24 128 rate = true -> 0 < R32 rate -> R32 rate <= 1 ->
  bpow radix2 (-63) <= R32 rate -> forall u,
  (1 <= inv_real rate <= bpow radix2 63) /\
  (rate_to_n rate u = Z.to_N (Zfloor (inv_real rate)) \/ rate_to_n rate u = (Z.to_N (Zfloor (inv_real rate)) + 1)%N).
Proof. exact weight_two_values. Qed.
Print Assumptions c12_weight_within_one.

(* below 2^-63: the largest 64-bit value *)
Theorem c12_weight_saturates : forall rate : f32, Binary.is_finite 24 128 rate = true ->
  R32 rate < bpow radix2 (-63) -> forall u, rate_to_n rate u = u64_max.
Proof. exact weight_saturates. Qed.
Print Assumptions c12_weight_saturates.

(* one multiplicity per record: every count of every metric is derived from the same weight *)
Theorem c12_one_multiplicity : forall rate u1 u2 metrics css,
  fixed_emf_pipeline rate u1 u2 metrics = Some css ->
  fixed_format rate u1 = Some rate /\ css = map (map (count_of (rate_to_n rate u2))) metrics.
Proof. exact pipeline_one_multiplicity. Qed.
Print Assumptions c12_one_multiplicity.

(* ================================================================ congressional sampler *)
Local Open Scope Q_scope.
(* for every history of observations and interval ends, every rate handed to an entry lies in (0,1] *)
Theorem c12_congress_rate_handed_out : forall (target : N) (ops : list cop) (g : group), (0 < target)%N ->
  0 < snd (observe (crun target ops) g) /\ snd (observe (crun target ops) g) <= 1.
Proof. exact congress_rate_handed_out. Qed.
Print Assumptions c12_congress_rate_handed_out.

(* ... and right after every end of interval: rates in (0,1] and averages >= 1; all rates 1 if the interval saw no
   more than the target; otherwise sum(average x rate) <= target and rates are antitone in the average *)
Theorem c12_congress : forall (target : N) (ops : list cop), (0 < target)%N ->
  let before := crun target ops in
  let after := update_rates before in
  (forall g, In g (groups_of after) -> 0 < g_rate g /\ g_rate g <= 1 /\ 1 <= g_avg g) /\
  ((c_cur before <= target)%N -> forall g, In g (groups_of after) -> g_rate g == 1) /\
  ((target < c_cur before)%N ->
     qsum (map (fun g => g_avg g * g_rate g) (groups_of after)) <= q_of_N target /\
     forall g h, In g (groups_of after) -> In h (groups_of after) -> g_avg g <= g_avg h -> g_rate h <= g_rate g).
Proof. exact congress_after_interval. Qed.
Print Assumptions c12_congress.

(* the executable predicate the correspondence evaluates holds for every history *)
Theorem c12_congress_predicate : forall (target : N) (ops : list cop), (0 < target)%N ->
  after_interval_ok (c_cur (crun target ops)) (update_rates (crun target ops)) = true.
Proof. exact congress_after_interval_bool. Qed.
Print Assumptions c12_congress_predicate.

(* the first format call's update on the empty state changes nothing *)
Theorem c12_congress_first_update_noop : forall target, update_rates (c_init target) = c_init target.
Proof. exact update_rates_empty. Qed.
Print Assumptions c12_congress_first_update_noop.

(* ================================================================ non-vacuity *)
(* rate 0.4f32 (0x3ecccccd): inverse 2.4999999068677445, n = 2; a draw below alpha gives 2, above gives 3 *)
Example c12_example_weight :
  fst (rate_to_n_alpha (f32_of_bits 1053609165)) = 2%N /\
  rate_to_n (f32_of_bits 1053609165) 0 = 2%N /\ rate_to_n (f32_of_bits 1053609165) (2 ^ 64 - 1) = 3%N /\
  rate_to_n (f32_of_bits 1) 0 = u64_max.
Proof. vm_compute. repeat split; reflexivity. Qed.
(* the premises of c12_weight_link_rate / c12_weight_within_one are satisfiable: rate 0.4f32 *)
Example c12_example_link_premises :
  let rate := f32_of_bits 1053609165 in
  Binary.is_finite 24 128 rate = true /\ (0 < R32 rate)%R /\ (R32 rate <= 1)%R /\ (bpow radix2 (-52) <= R32 rate)%R.
Proof. eapply rate_premises_by_Q; [vm_compute; reflexivity | vm_compute; reflexivity | vm_compute; reflexivity]. Qed.
(* ... and of c12_weight_saturates: the smallest positive f32 *)
Example c12_example_saturation_premises :
  Binary.is_finite 24 128 (f32_of_bits 1) = true /\ (R32 (f32_of_bits 1) < bpow radix2 (-63))%R.
Proof. eapply rate_tiny_by_Q; [vm_compute; reflexivity | vm_compute; reflexivity]. Qed.
Example c12_example_decision :
  fixed_format (f32_of_bits 1053609165) (6710886 * 256) = Some (f32_of_bits 1053609165) /\
  fixed_format (f32_of_bits 1053609165) (6710887 * 256) = None.
Proof. vm_compute. split; reflexivity. Qed.
(* target 2, one interval with 3 + 1 observations of two groups: the frequent group is sampled at 2/5, the rare one
   at 4/5; 3 * 2/5 + 1 * 4/5 = 2 = target *)
Example c12_example_congress :
  let c := crun 2 [Observe [(0, 0)%N]; Observe [(0, 0)%N]; Observe [(0, 0)%N]; Observe [(0, 1)%N]; EndInterval] in
  map (fun g => (g_avg g, g_rate g)) (groups_of c) = [(3, 2 # 5); (1, 4 # 5)] /\ within_budget c = true.
Proof. vm_compute. split; reflexivity. Qed.
