(* C15 — pinned statements. Nothing but statements, [exact] and Print Assumptions. *)
From Coq Require Import List NArith Bool.
From MV Require Import Common.Sx C15.Model C15.Spec C15.Proofs.
Import ListNotations.
Local Open Scope N_scope.

(* For every nesting of wrappers (any depth, any user entries and values underneath) a format sees exactly
   the items the item-level specification describes: the plain entries' items in order, changed only by the
   wrappers' documented additions. *)
Theorem c15_compose : forall e : wentry, calls e = spec_calls e.
Proof. exact calls_spec. Qed.
Print Assumptions c15_compose.

(* ... and this holds against every stack of writer wrappers, not only the bare format (the induction that
   carries the result through BoxEntry's bridge and the wrapper writers). *)
Theorem c15_compose_any_writer : forall (e : wentry) (w : ewriter),
  ewrite e w = cut (map (ew_xf w) (spec_calls e)).
Proof. exact ewrite_spec. Qed.
Print Assumptions c15_compose_any_writer.

(* Values: whatever wrappers surround a value and whatever value-writer wrappers it is written through. *)
Theorem c15_value_compose : forall (v : wvalue) (w : vwriter), vwrite v w = vw_xf w (spec_v v).
Proof. exact vwrite_spec. Qed.
Print Assumptions c15_value_compose.

Theorem c15_value_wrappers : forall v,
  (forall k, vwrite (ContV k v) VWTerm = vwrite v VWTerm) /\
  vwrite (OptSomeV v) VWTerm = vwrite v VWTerm /\ vwrite OptNoneV VWTerm = VNone /\
  (forall d, vwrite (WithDimsV v d) VWTerm = v_dims d (vwrite v VWTerm)) /\
  (forall f, vwrite (ForceV v f) VWTerm = v_force f (vwrite v VWTerm)).
Proof. exact value_wrappers. Qed.
Print Assumptions c15_value_wrappers.

(* Per wrapper. *)
Theorem c15_boxed : forall e, calls (Boxed e) = calls e /\ sgroup (Boxed e) = sgroup e.
Proof. exact calls_boxed. Qed.
Print Assumptions c15_boxed.

Theorem c15_containers :
  transparent Boxed /\ transparent Root /\ transparent OptSomeE /\ transparent OptSomeI /\
  (forall k, transparent (ContE k)) /\ (forall k, transparent (ContI k)).
Proof. exact calls_containers. Qed.
Print Assumptions c15_containers.

Theorem c15_root : forall e, calls (Root e) = calls e /\ sgroup (Root e) = sgroup e.
Proof. exact (proj1 (proj2 calls_containers)). Qed.
Print Assumptions c15_root.

(* first's items, then second's (a panic in the first unwinds past the second); groups chained *)
Theorem c15_merged : forall a b,
  calls (Merged a b) = seq (calls a) (calls b) /\ calls (MergedRef a b) = seq (calls a) (calls b) /\
  sgroup (Merged a b) = sgroup a ++ sgroup b /\ sgroup (MergedRef a b) = sgroup a ++ sgroup b.
Proof. exact calls_merged. Qed.
Print Assumptions c15_merged.

(* every metric item gains the extra dimensions after its own; everything else is untouched *)
Theorem c15_with_dims : forall e d,
  calls (WithDimsE e d) = map (i_dims d) (calls e) /\ calls (WithDimsI e d) = map (i_dims d) (calls e) /\
  sgroup (WithDimsE e d) = sgroup e /\ sgroup (WithDimsI e d) = sgroup e.
Proof. exact calls_with_dims. Qed.
Print Assumptions c15_with_dims.

Theorem c15_global_dims : forall e d deny,
  calls (WithGDimsE e d deny) = map (i_gdims d deny) (calls e) /\ sgroup (WithGDimsE e d deny) = sgroup e.
Proof. exact calls_global_dims. Qed.
Print Assumptions c15_global_dims.

Theorem c15_force_flag : forall e f,
  calls (ForceE e f) = cut (map (i_force f) (calls e)) /\ calls (ForceI e f) = cut (map (i_force f) (calls e)) /\
  sgroup (ForceE e f) = sgroup e /\ sgroup (ForceI e f) = sgroup e.
Proof. exact calls_force. Qed.
Print Assumptions c15_force_flag.

(* Whatever the nesting: unless a flag merge panicked, the items are the user entries' items in order with
   identical names, timestamps, configs, strings, errors, observations and units - only dimensions and
   flags can differ. *)
Theorem c15_only_dims_and_flags : forall e, panicked (calls e) = false ->
  map skel (calls e) = map skel (map leaf_item (leaves e)).
Proof. exact calls_skeleton. Qed.
Print Assumptions c15_only_dims_and_flags.

(* Even when a merge panics: a wrapper never adds, removes, reorders or renames an item - what is written is a
   prefix of the user entries' items (kind and name), and all of them when nothing panicked. *)
Theorem c15_never_adds_removes_reorders : forall e,
  prefix (keys (calls e)) (leaf_keys e) /\ (panicked (calls e) = false -> keys (calls e) = leaf_keys e).
Proof. exact calls_keys. Qed.
Print Assumptions c15_never_adds_removes_reorders.

(* Extra dimensions only ever come after a metric's own: item by item, the dimensions a format sees start with
   the dimensions the user value wrote. *)
Theorem c15_own_dimensions_first : forall e, panicked (calls e) = false ->
  Forall2 extends (calls e) (map leaf_item (leaves e)).
Proof. exact calls_dims_first. Qed.
Print Assumptions c15_own_dimensions_first.

(* Two laws that follow: nested WithDimensions add the inner dimensions first; WithDimensions and ForceFlag commute. *)
Theorem c15_dims_nest : forall e d1 d2, calls (WithDimsE (WithDimsE e d1) d2) = calls (WithDimsE e (d1 ++ d2)).
Proof. exact calls_dims_nest. Qed.
Print Assumptions c15_dims_nest.
Theorem c15_dims_force_commute : forall e d f, calls (WithDimsE (ForceE e f) d) = calls (ForceE (WithDimsE e d) f).
Proof. exact calls_dims_force_comm. Qed.
Print Assumptions c15_dims_force_commute.

(* Sample groups: the wrapped entries' groups in order, for every nesting (true after the repair). *)
Theorem c15_sample_group : forall e, sgroup e = spec_group e.
Proof. exact sgroup_spec. Qed.
Print Assumptions c15_sample_group.

(* The mechanism as it was before the repair violated it. *)
Theorem c15_sample_group_refuted_before_fix :
  exists e, sgroup_before_fix e <> spec_group e /\ sgroup e = spec_group e.
Proof. exact sgroup_before_fix_refuted. Qed.
Print Assumptions c15_sample_group_refuted_before_fix.

(* Stream and format adapters hand every terminal an entry with the specified items and sample group. *)
Theorem c15_streams : forall s e,
  map (fun p : N * wentry => (fst p, calls (snd p), sgroup (snd p))) (deliver s e) =
  map (fun p : N * wentry => (fst p, calls (snd p), sgroup (snd p))) (spec_deliver s e).
Proof. exact deliver_calls. Qed.
Print Assumptions c15_streams.

(* Adapters keep their construction parameters: for every sequence of entries through one adapter instance and
   every history of terminal failures (validation or I/O, at any positions), entry number i is handed to the
   terminals exactly as a fresh adapter would hand it - global dimensions, deny list, globals and forced flag
   are the same for every entry - and the Result is the first failing terminal's error. *)
Theorem c15_adapter_state_constant : forall fs es k s, sfeed fs k s es = spec_feed deliver fs k s es.
Proof. exact sfeed_spec. Qed.
Print Assumptions c15_adapter_state_constant.
Theorem c15_adapter_entry_i : forall fs es k s i e, nth_error es i = Some e ->
  nth_error (sfeed fs k s es) i = Some (spec_result fs (k + i) s, deliver s e).
Proof. exact sfeed_nth. Qed.
Print Assumptions c15_adapter_entry_i.

(* ---- non-vacuity ---- *)
Definition ex_metric (ds : dims) (fl : flags) := VMetric [OUnsigned 7] 1 ds fl.
Definition ex_entry : wentry :=
  Plain [STimestamp 5; SConfig 2;
         SValue [109] (ForceV (WithDimsV (PlainV (ex_metric [([97], [98])] (Some (FEmf 0)))) [([99], [100])]) (FEmf 1));
         SValue [115] (PlainV (VString [120]))] [([111], [112])].
Definition ex_globals : wentry := Plain [SValue [97; 122] (PlainV (VString [49]))] [([103], [104])].

(* boxed, globals merged first, global dimensions with a deny list, forced flag, three levels of nesting *)
Example c15_example_nested :
  calls (Boxed (ForceE (WithGDimsE (MergedRef ex_globals (Boxed (ContE CArc ex_entry))) [([103], [100])] [[115]]) (FEmf 0)))
  = [IValue [97; 122] (VString [49]); ITimestamp 5; IConfig 2;
     IValue [109] (VMetric [OUnsigned 7] 1 [([97], [98]); ([99], [100]); ([103], [100])] (Some (FEmf 1)));
     IValue [115] (VString [120])]
  /\ sgroup (Boxed (ForceE (WithGDimsE (MergedRef ex_globals (Boxed (ContE CArc ex_entry))) [([103], [100])] [[115]]) (FEmf 0)))
  = [([103], [104]); ([111], [112])].
Proof. vm_compute. split; reflexivity. Qed.

(* the premise of c15_only_dims_and_flags is satisfiable, and its negation too: an unmergeable flag panics
   at that item and nothing after it is written *)
Example c15_example_no_panic : panicked (calls (ForceE ex_entry (FEmf 0))) = false.
Proof. vm_compute. reflexivity. Qed.
Example c15_example_panic :
  calls (Merged (ForceE ex_entry (FUser 2)) ex_globals) = [ITimestamp 5; IConfig 2; IValue [109] VPanic].
Proof. vm_compute. reflexivity. Qed.
(* the user-defined merge is not commutative: the inner wrapper merges first *)
Example c15_example_merge_order :
  vwrite (ForceV (ForceV (PlainV (ex_metric [] (Some (FUser 1)))) (FUser 2)) (FUser 3)) VWTerm
  = VMetric [OUnsigned 7] 1 [] (Some (FUser 14)).
Proof. vm_compute. reflexivity. Qed.
Example c15_example_stream :
  map (fun p : N * wentry => (fst p, calls (snd p), sgroup (snd p)))
      (deliver (SMergeGlobals (STee (SMergeGDims (STerm 0) [] []) (STerm 1)) ex_globals) (Plain [SConfig 1] [([111], [112])]))
  = [(0, [IValue [97; 122] (VString [49]); IConfig 1], [([103], [104]); ([111], [112])]);
     (1, [IValue [97; 122] (VString [49]); IConfig 1], [([103], [104]); ([111], [112])])].
Proof. vm_compute. reflexivity. Qed.

(* a deny-listed metric stays without the global dimension after an earlier entry failed in the terminal *)
Example c15_example_sequence :
  let m := Plain [SValue [109] (PlainV (ex_metric [] None))] [] in
  map (fun p => (fst p, map (fun q : N * wentry => calls (snd q)) (snd p)))
      (sfeed [(0, 0%nat, 1)] 0 (SMergeGDims (STerm 0) [([103], [100])] [[109]]) [m; m])
  = [(Some (0, 1), [[IValue [109] (ex_metric [] None)]]); (None, [[IValue [109] (ex_metric [] None)]])].
Proof. vm_compute. reflexivity. Qed.
