(* C15 — pinned statements. Nothing but statements, [exact] and Print Assumptions. *)
From Coq Require Import List NArith.
From MV Require Import Common.Sx C15.Model C15.Spec C15.Proofs.
Import ListNotations.
Local Open Scope N_scope.

(* For every nesting of wrappers (any depth, any user entries and values underneath) a format sees exactly
   the items the item-level specification describes. *)
Theorem c15_compose : forall e : wentry, calls e = spec_calls e.
Proof. exact calls_spec. Qed.
Print Assumptions c15_compose.
