(* C17 — pinned statements. Nothing but statements, [exact] and Print Assumptions. *)
From Coq Require Import List NArith Bool.
From MV Require Import C17.Model C17.Spec C17.Proofs C17.Race C17.RaceProofs C17.JoinProofs.
Import ListNotations.
Local Open Scope N_scope.

(* For every sequence of operations on any number of globals, threads and runtimes, the slot mechanism
   (RwLock<Option>, thread-local cell, runtime map, guards that clear unconditionally) returns the same results,
   delivers the same entries to the same sinks in the same order, and joins the same sinks as the
   specification phrased over the history of guards. *)
Theorem c17_refines : forall ops,
  spec_run rinit ops = (erase (fst (run init ops)), snd (run init ops)).
Proof. exact (fun ops => proj1 (run_refines ops init inv_init)). Qed.
Print Assumptions c17_refines.

(* Precedence on every reachable state: the calling thread's test sink, else the current runtime's, else the
   attached sink; with none, try_append hands the entry back unchanged, append and sink() panic. *)
Theorem c17_precedence : forall s g c e, reach s ->
  step s (TryAppend g c e) = match precedence s g c with Some d => (emit s [Recv d e], ROk d) | None => (s, RErr e) end /\
  step s (Append g c e) = match precedence s g c with Some d => (emit s [Recv d e], ROk d) | None => (s, RPanic) end /\
  step s (Sink g c) = match precedence s g c with Some d => (with_held s (held s ++ [d]), ROk (of_len (held s))) | None => (s, RPanic) end /\
  step s (IsAttached g c) = (s, ROk (match precedence s g c with Some _ => 1 | None => 0 end)).
Proof. exact precedence_holds. Qed.
Print Assumptions c17_precedence.

(* Exactly one destination (or none), for every state and operation. *)
Theorem c17_exactly_one : forall s o,
  match o with
  | DropHandle _ _ | Attach _ _ _ => exists j, log (fst (step s o)) = log s ++ j /\ (j = [] \/ exists sk, j = [Joined sk])
  | _ => log (fst (step s o)) = log s ++ log_effect o (snd (step s o))
  end.
Proof. exact exactly_one. Qed.
Print Assumptions c17_exactly_one.

(* Attach while attached, a second test sink of the same kind, append/sink() with no destination: the call
   panics (or hands the entry back) and every slot and guard is exactly what it was; the only trace in the log
   is that unwinding drops the sink a rejected attach was given. *)
Theorem c17_panic_preserves : forall s o,
  (snd (step s o) = RPanic \/ exists e, snd (step s o) = RErr e) -> fst (step s o) = emit s (rejected o).
Proof. exact panic_preserves. Qed.
Print Assumptions c17_panic_preserves.

(* Later operations behave as if the panicking one had not happened: same results, same slots and guards. *)
Theorem c17_panic_is_skipped : forall s o ops,
  (snd (step s o) = RPanic \/ exists e, snd (step s o) = RErr e) ->
  snd (run s (o :: ops)) = snd (step s o) :: snd (run s ops) /\
  routing (fst (run s (o :: ops))) = routing (fst (run s ops)).
Proof. exact panic_is_skipped. Qed.
Print Assumptions c17_panic_is_skipped.

(* Restore: dropping a guard ends exactly its override; routing falls through to the next destination. *)
Theorem c17_restore_thread_local : forall s k x, reach s -> nth_error (tlg s) k = Some x -> eowned x = true ->
  let s' := fst (step s (DropTL k)) in
  forall g c, precedence s' g c =
    if Nat.eqb g (eg x) && N.eqb (th c) (eid x)
    then match match rtc c with Some r => find g r (rtg s) | None => None end with
         | Some d => Some d | None => find g 0 (handles s) end
    else precedence s g c.
Proof. exact restore_tl. Qed.
Print Assumptions c17_restore_thread_local.

Theorem c17_restore_runtime : forall s c0 k x, reach s -> nth_error (rtg s) k = Some x -> eowned x = true ->
  let s' := fst (step s (DropRT c0 k)) in
  forall g c, precedence s' g c =
    match find g (th c) (tlg s) with
    | Some d => Some d
    | None => match rtc c with
              | Some r => if Nat.eqb g (eg x) && N.eqb r (eid x) then find g 0 (handles s)
                          else match find g r (rtg s) with Some d => Some d | None => find g 0 (handles s) end
              | None => find g 0 (handles s)
              end
    end.
Proof. exact restore_rt. Qed.
Print Assumptions c17_restore_runtime.

(* The attach handle detaches the sink it attached (and no other), records its join, and leaves the global
   without an attached sink. *)
Theorem c17_restore_attach_handle : forall s c0 h x, reach s -> nth_error (handles s) h = Some x -> eowned x = true ->
  let s' := fst (step s (DropHandle c0 h)) in
  log s' = log s ++ [Joined (esink x)] /\
  att (getg s (eg x)) = Some (esink x) /\
  forall g c, precedence s' g c =
    match find g (th c) (tlg s) with
    | Some d => Some d
    | None => match match rtc c with Some r => find g r (rtg s) | None => None end with
              | Some d => Some d
              | None => if Nat.eqb g (eg x) then None else find g 0 (handles s)
              end
    end.
Proof. exact restore_handle. Qed.
Print Assumptions c17_restore_attach_handle.

(* "... after flushing what the detached sink had accepted": for every history of the global's own operations
   (held BoxEntrySink clones excluded - they keep the queue alive by design) in which every installed sink is a
   different one, once a sink has been joined (its attach handle dropped, or it was rejected by attach) no
   append through the global delivers to it any more: everything it accepted precedes its join. *)
Theorem c17_no_delivery_after_join : forall ops,
  NoDup (flat_map op_sinks ops) -> forallb (fun o => negb (is_via o)) ops = true ->
  forall l1 l2 sk e, log (fst (run init ops)) = l1 ++ Joined sk :: l2 -> ~ In (Recv sk e) l2.
Proof. exact no_delivery_after_join. Qed.
Print Assumptions c17_no_delivery_after_join.

(* Appends racing a detach, for every schedule of the atomic actions (any number of appender threads, with or
   without a thread-local test sink, one detaching thread): the attached sink is joined at most once, nothing
   is delivered to it after its join, every finished append was delivered exactly once to the right sink or
   handed back and delivered nowhere - never lost, never duplicated. *)
Theorem c17_detach_race : forall d es ls,
  NoDup (map fst es) -> (forall e t, In (e, Some t) es -> t <> d) ->
  let s := rexec (rinit0 d es) ls in
  race_ok d (outcomes_of d s) (rlog s) = true.
Proof. exact race_all_schedules. Qed.
Print Assumptions c17_detach_race.

(* ... and which of the two it is is decided by the order of lock acquisitions: an append that took the read
   lock before the detacher took the write lock is delivered, one that took it after is handed back. *)
Theorem c17_detach_linearisation : forall d es ls i a,
  NoDup (map fst es) -> (forall e t, In (e, Some t) es -> t <> d) ->
  let s := rexec (rinit0 d es) ls in
  nth_error (aps s) i = Some a -> a_tl a = None ->
  (a_pc a = AOk -> before_d i (acq s)) /\ (a_pc a = AErr -> after_d i (acq s)).
Proof. exact race_linearisation. Qed.
Print Assumptions c17_detach_linearisation.

(* ---- non-vacuity ---- *)
Definition t0 := mk_ctx 0 None.
Definition t1r0 := mk_ctx 1 (Some 0).
Example c17_example_history :
  snd (run init [TryAppend 0 t0 100; Attach 0 t0 1; Attach 0 t1r0 2; Append 0 t1r0 101;
                 SetRT 0 t0 0 3; Append 0 t1r0 102; Append 0 t0 103; SetTL 0 t1r0 4; SetTL 0 t1r0 5;
                 Append 0 t1r0 104; DropTL 0; Append 0 t1r0 105; DropRT t0 0; Append 0 t1r0 106;
                 DropHandle t1r0 0; TryAppend 0 t1r0 107; Append 0 t0 108])
  = [RErr 100; ROk 0; RPanic; ROk 1; ROk 0; ROk 3; ROk 1; ROk 0; RPanic; ROk 4; ROk 0; ROk 3; ROk 0; ROk 1;
     ROk 0; RErr 107; RPanic]
  /\ log (fst (run init [Attach 0 t0 1; Append 0 t0 7; DropHandle t0 0])) = [Recv 1 7; Joined 1].
Proof. vm_compute. split; reflexivity. Qed.
Example c17_example_forget :
  snd (run init [Attach 1 t0 9; ForgetHandle t0 0; DropHandle t0 0; Append 1 t1r0 5; Attach 1 t0 8])
  = [ROk 0; ROk 0; RNoop; ROk 9; RPanic].
Proof. vm_compute. reflexivity. Qed.
Example c17_example_reach : reach (fst (run init [Attach 0 t0 1; SetTL 0 t0 2])) /\
  nth_error (tlg (fst (run init [Attach 0 t0 1; SetTL 0 t0 2]))) 0 = Some (mk_ent 0 0 2 true true).
Proof. split; [exists [Attach 0 t0 1; SetTL 0 t0 2]; reflexivity | vm_compute; reflexivity]. Qed.

(* a schedule in which one append gets in before the detach and one after; a third thread has a test sink *)
Example c17_example_race :
  let s := rexec (rinit0 1 [(10, None); (11, None); (12, Some 2)])
                 [WA 0; WD; WA 0; WA 0; WA 2; WD; WA 0; WD; WD; WA 1; WD; WD; WA 1; WA 1; WA 1] in
  map a_pc (aps s) = [AOk; AErr; AOk] /\ rlog s = [Recv 1 10; Recv 2 12; Joined 1] /\ acq s = [WA 0; WD; WA 1].
Proof. vm_compute. repeat split; reflexivity. Qed.

(* the premises of c17_no_delivery_after_join are satisfiable by a history that detaches and keeps appending *)
Example c17_example_after_join :
  let ops := [Attach 0 t0 1; Append 0 t0 7; SetTL 0 t1r0 2; DropHandle t0 0; TryAppend 0 t1r0 8; Attach 0 t0 3; Append 0 t0 9] in
  NoDup (flat_map op_sinks ops) /\ forallb (fun o => negb (is_via o)) ops = true /\
  log (fst (run init ops)) = [Recv 1 7; Joined 1; Recv 2 8; Recv 3 9].
Proof. vm_compute. repeat split; auto. repeat constructor; cbn; intuition discriminate. Qed.

(* Several threads attaching to one unattached global (or installing a runtime test sink on one runtime) at the same
   moment: the installation is one atomic step, so a race is a serial order of the calls; for every order exactly
   the first caller succeeds, every other panics, and the global ends up with the first caller's sink.
   `attach_race_ok` decides the observation of a race on the implementation; it holds of what the model shows. *)
From MV Require Import C17.AttachRace.
Theorem c17_attach_race_one_winner : forall g c sk rest s,
  att (getg s g) = None ->
  att (getg (fst (run s (attach_ops g ((c, sk) :: rest)))) g) = Some sk /\
  exists h, snd (run s (attach_ops g ((c, sk) :: rest))) = ROk h :: map (fun _ => RPanic) rest.
Proof. exact attach_race_one_winner. Qed.
Print Assumptions c17_attach_race_one_winner.

Theorem c17_attach_race_exactly_one : forall g cs s,
  cs <> [] -> att (getg s g) = None ->
  length (filter is_ok (snd (run s (attach_ops g cs)))) = 1%nat.
Proof. exact attach_race_exactly_one. Qed.
Print Assumptions c17_attach_race_exactly_one.

Theorem c17_runtime_install_race_one_winner : forall g r c sk rest s,
  Model.lookup r (rts (getg s g)) = None ->
  Model.lookup r (rts (getg (fst (run s (setrt_ops g r ((c, sk) :: rest)))) g)) = Some sk /\
  exists h, snd (run s (setrt_ops g r ((c, sk) :: rest))) = ROk h :: map (fun _ => RPanic) rest.
Proof. exact setrt_race_one_winner. Qed.
Print Assumptions c17_runtime_install_race_one_winner.

Theorem c17_attach_race_predicate_holds_of_the_model : forall w r, attach_race_ok (model_results (w :: r)) [w] true = true.
Proof. exact attach_race_ok_of_model. Qed.
Print Assumptions c17_attach_race_predicate_holds_of_the_model.
