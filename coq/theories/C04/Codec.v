(* C04 — entry points of the extracted driver. *)
(* DISPATCH 400 c04_model *)
(* DISPATCH 401 c04_holds *)
(* DISPATCH 402 c04_waker *)
From Coq Require Import List ZArith NArith Bool Arith.
From MV Require Import Common.Sx Queue.Model Queue.Spec Queue.Wire Queue.Waker C01.Codec.
Import ListNotations.

Definition c04_model (x : sx) : sx := q_model x.

(* ---------------------------------------------------------------- the barrier, checked on what was observed *)

(* position (number of appends made before) at which request w was sent, read off the schedule *)
Fixpoint request_point (ls : list label) (w : wid) (npush : nat) : option nat :=
  match ls with
  | [] => None
  | LPush _ _ :: r => request_point r w (S npush)
  | LFlushReq _ w' :: r => if N.eqb w w' then Some npush else request_point r w npush
  | _ :: r => request_point r w npush
  end.

(* after the last `next` of one of the entries in P there is a flush *)
Fixpoint flushed_after (P : list ent) (pre : list ev) (st : bool) : bool :=
  match pre with
  | [] => st
  | ENext e _ :: r => flushed_after P r (if mem_ent e P then false else st)
  | EFlush _ :: r => flushed_after P r true
  | _ :: r => flushed_after P r st
  end.

Fixpoint has_drop_b (o : list ev) : bool :=
  match o with [] => false | EDropStream :: _ => true | _ :: r => has_drop_b r end.

(* one completed request: everything appended before it is in the stream's log by now, or is never written
   at all (displaced) and an overflow was counted for it; and the stream was flushed after the last of them *)
Definition barrier_check (P : list ent) (pre all : list ev) : bool :=
  let missing := filter (fun e => negb (mem_ent e (nexts pre))) P in
  forallb (fun e => negb (mem_ent e (nexts all))) missing &&
  Nat.leb (length missing) (count_over pre) &&
  flushed_after P pre false.

Fixpoint check_wakes (appended : list ent) (req : wid -> option nat) (pre rest all : list ev) : bool :=
  match rest with
  | [] => true
  | EWake w :: r =>
    (if has_drop_b pre then true
     else match req w with
          | Some n => barrier_check (firstn n appended) pre all
          | None => false              (* a wake-up for a request nobody made *)
          end) && check_wakes appended req (pre ++ [EWake w]) r all
  | e :: r => check_wakes appended req (pre ++ [e]) r all
  end.

(* bounded progress: between the step after which the request's future exists (the requester's unpark) and
   the step at which its completion is observed, at most 2*(cap/32+1) handle_waiting_wakers calls happen *)
Fixpoint count_handles (steps : list (option label * Z * list ev)) (prev_pc : Z) (w : wid) (t : option tid)
         (armed : bool) (acc : nat) : option nat :=
  match steps with
  | [] => None
  | (l, pc_after, evs) :: r =>
    let is_h := match l with Some (LW _) => Z.eqb prev_pc 2 | _ => false end in
    let acc' := if armed && is_h then S acc else acc in
    if existsb (fun e => match e with EWake w' => N.eqb w w' | _ => false end) evs then Some acc'
    else
      let t' := match l with Some (LFlushReq t0 w') => if N.eqb w w' then Some t0 else t | _ => t end in
      let armed' := armed || match l, t with Some (LUnpark t1), Some t0 => N.eqb t0 t1 | _, _ => false end in
      count_handles r pc_after w t' armed' acc'
  end.

Definition requests (ls : list label) : list wid :=
  flat_map (fun l => match l with LFlushReq _ w => [w] | _ => [] end) ls.

Definition dec_steps (case i : sx) : list (option label * Z * list ev) :=
  map (fun p => (dec_label (fst p), sx_z (sx_nth (snd p) 0),
                 flat_map (fun e => opt_list (dec_ev e)) (sx_list (sx_nth (snd p) 2))))
      (combine (dec_labels case) (sx_list i)).

(* the writer never goes to sleep while a request it has collected is waiting: at the park (about to park,
   or parked) the tracker's waiting list — reported by the implementation's probe — is empty *)
Definition no_park_while_waiting_b (i : sx) : bool :=
  forallb (fun st => let pc_ := sx_z (sx_nth st 0) in
                     if Z.eqb pc_ 5 || Z.eqb pc_ 6 then Z.ltb (sx_z (sx_nth st 1)) 4294967296 else true)
          (sx_list i).

Definition c04_sched_spec (case i : sx) : bool :=
  no_park_while_waiting_b i &&
  let ls := all_labels case in
  let log := impl_events i in
  let cap_ := sx_nat (sx_arg case 0) in
  check_wakes (pushes ls) (fun w => request_point ls w 0) [] log log &&
  forallb (fun w => match count_handles (dec_steps case i) 0 w None false 0 with
                    | Some k => Nat.leb k (2 * (cap_ / 32 + 1))
                    | None => true          (* never observed complete within the run *)
                    end) (requests ls) &&
  (* once the writer thread is gone every request is complete *)
  (if sx_bool (sx_nth (last (sx_list i) (L [])) 0)
   then forallb (fun w => existsb (fun e => match e with EWake w' => N.eqb w w' | _ => false end) log) (requests ls)
   else true).

(* unscheduled runs: flush records (thread, entries this thread had appended before, log length when ready).
   The requester's own earlier appends are (t,0) .. (t,before-1); linear-time version of [barrier_check]. *)
Definition mine (t : N) (before : nat) (e : ent) : bool := N.eqb (fst e) t && N.ltb (snd e) (N.of_nat before).

Fixpoint flushed_after_mine (t : N) (before : nat) (pre : list ev) (st : bool) : bool :=
  match pre with
  | [] => st
  | ENext e _ :: r => flushed_after_mine t before r (if mine t before e then false else st)
  | EFlush _ :: r => flushed_after_mine t before r true
  | _ :: r => flushed_after_mine t before r st
  end.

(* `slack`: on free-running threads the overflow counter is bumped by the pusher *after* its force_push displaced
   the entry, so at the moment the requester sees its request complete every *other* producer may have one
   displacement whose increment is not in the log yet (the requester's own increments all precede its poll). *)
Definition barrier_check_mine (t : N) (before slack : nat) (pre post : list ev) : bool :=
  let delivered := length (filter (mine t before) (nexts pre)) in
  (* what is not in the log by now never gets there, and an overflow was counted for each *)
  negb (existsb (mine t before) (nexts post)) &&
  Nat.leb (before - delivered) (count_over pre + slack) &&
  Nat.leb (before - delivered) (count_over (pre ++ post)) &&
  flushed_after_mine t before pre false.

Definition c04_stress_spec (case i : sx) : bool :=
  let log := stress_events i in
  let stalled := sx_bool (sx_arg case 4) in
  let threads := sx_nat (sx_arg case 2) in
  forallb (fun f =>
             let t := sx_n (sx_nth f 0) in
             let before := sx_nat (sx_nth f 1) in
             let pos := sx_z (sx_nth f 2) in
             if Z.ltb pos 0 then stalled      (* never completed: only acceptable while the writer was held *)
             else let pre := firstn (Z.to_nat pos) log in
                  if has_drop_b pre then true
                  else barrier_check_mine t before (threads - 1) pre (skipn (Z.to_nat pos) log))
          (sx_list (sx_nth i 1)).

Definition c04_holds (x : sx) : sx :=
  let case := sx_nth x 0 in let i := sx_nth x 1 in
  of_bool match sx_tag case with
          | 0%Z => c04_sched_spec case i
          | _ => c04_stress_spec case i && c01_stress_spec case i
          end.

(* ---------------------------------------------------------------- WakerTracker, component level *)

(* case: (2 ops) with op = (0 w) signal | (1 capacity hit count) handle;
   output per op: (waiting-length ebw flushed capacity-called (woken ids)) *)
Fixpoint waker_run (t : wt) (ops : list sx) : list sx :=
  match ops with
  | [] => []
  | o :: r =>
    match sx_tag o with
    | 0%Z => let t' := wt_signal t (sx_n (sx_arg o 0)) in
             L [of_nat (length (w_waiting t')); of_nat (w_ebw t'); A 0; A 0; L []; of_bool (wt_will_progress t')]
             :: waker_run t' r
    | _ => let res := wt_handle t (sx_nat (sx_arg o 0)) (sx_bool (sx_arg o 1)) (sx_nat (sx_arg o 2)) in
           let t' := r_state res in
           L [of_nat (length (w_waiting t')); of_nat (w_ebw t'); of_bool (r_flushed res);
              of_bool (r_capacity_called res); L (map of_n (sortN (r_woken res))); of_bool (wt_will_progress t')]
           :: waker_run t' r
    end
  end.
Definition c04_waker (x : sx) : sx := L (waker_run wt_init (sx_list (sx_arg x 0))).
