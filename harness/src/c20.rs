//! C20 — the metrics.rs bridge: counters, gauges, histograms updated through real metrics handles while a
//! readout is in progress.  Deterministic interleaving: the `cfg(metrique_verif)` sync points of `readout` call
//! back into the harness before every per-key step; the callback performs the updates the case places there
//! (lock-free handle operations, exactly what another thread would do at that moment) and records which key
//! the registry visits next.  The resulting label list is the case line replayed through the model.
//! A second part runs updater threads against a reporter thread unscheduled and checks the accounting only.
use crate::common::{Ctx, Out, Rng};
use crate::sx::{self, Sx};
use metrics::{Counter, Gauge, Histogram, Key, KeyName, Label, Level, Metadata, Recorder, Unit as MUnit};
use metrique_metricsrs::{MetricAccumulatorEntry, MetricRecorder, MetricReporter};
use metrique_writer_core::sink::FlushWait;
use metrique_writer_core::AnyEntrySink;
use metrique_timesource::{TimeSource, fakes::StaticTimeSource, set_time_source};
use metrique_writer_core::config::AllowSplitEntries;
use metrique_writer_core::value::MetricFlags;
use metrique_writer_core::{Entry, EntryConfig, EntryWriter, Observation, Unit, ValidationError, Value, ValueWriter};
use std::any::Any;
use std::borrow::Cow;
use std::cell::RefCell;
use std::collections::BTreeMap;
use std::rc::Rc;
use std::sync::Arc;
use std::sync::atomic::{AtomicBool, AtomicU64, Ordering};
use std::time::{Duration, SystemTime, UNIX_EPOCH};

type Rec = MetricRecorder<dyn metrics::Recorder>;
const CANON_NAN: u64 = 0x7ff8_0000_0000_0000;
const SLOTS: u64 = 464;

// ------------------------------------------------------------------------------------------ labels

#[derive(Clone, Debug, PartialEq)]
struct K { name: String, labels: Vec<(String, String)> }

#[derive(Clone, Debug, PartialEq)]
enum L {
    Register(u8, K),
    Describe(String, u8),
    CInc(K, u64),
    GSet(K, u64),
    GAdd(K, u64),
    GSub(K, u64),
    HRec(K, u64, u64),
    RBegin,
    RCounter(K),
    RGauges,
    RGauge(K),
    RHists,
    RHistStart(K),
    RHistSwap(u64),
    RHistDone,
    RFinish(u64),
}

fn enc_key(k: &K) -> Sx {
    Sx::L(vec![sx::b(k.name.as_bytes()), Sx::L(k.labels.iter().map(|(a, b)| Sx::L(vec![sx::b(a.as_bytes()), sx::b(b.as_bytes())])).collect())])
}
fn dec_key(x: &Sx) -> K {
    let s = |b: &Sx| String::from_utf8_lossy(b.bytes()).into_owned();
    K { name: s(&x.list()[0]), labels: x.list()[1].list().iter().map(|p| (s(&p.list()[0]), s(&p.list()[1]))).collect() }
}
fn enc_label(l: &L) -> Sx {
    match l {
        L::Register(kd, k) => sx::tag(0, vec![sx::n(*kd), enc_key(k)]),
        L::Describe(n, u) => sx::tag(1, vec![sx::b(n.as_bytes()), sx::n(*u)]),
        L::CInc(k, n) => sx::tag(2, vec![enc_key(k), sx::n(*n)]),
        L::GSet(k, b) => sx::tag(3, vec![enc_key(k), sx::n(*b)]),
        L::GAdd(k, b) => sx::tag(4, vec![enc_key(k), sx::n(*b)]),
        L::GSub(k, b) => sx::tag(5, vec![enc_key(k), sx::n(*b)]),
        L::HRec(k, b, t) => sx::tag(6, vec![enc_key(k), sx::n(*b), sx::n(*t)]),
        L::RBegin => sx::tag(7, vec![]),
        L::RCounter(k) => sx::tag(8, vec![enc_key(k)]),
        L::RGauges => sx::tag(9, vec![]),
        L::RGauge(k) => sx::tag(10, vec![enc_key(k)]),
        L::RHists => sx::tag(11, vec![]),
        L::RHistStart(k) => sx::tag(12, vec![enc_key(k)]),
        L::RHistSwap(n) => sx::tag(13, vec![sx::n(*n)]),
        L::RHistDone => sx::tag(14, vec![]),
        L::RFinish(ts) => sx::tag(15, vec![sx::n(*ts)]),
    }
}
fn dec_label(x: &Sx) -> L {
    let n = |i: usize| x.arg(i).num() as u64;
    match x.tag() {
        0 => L::Register(n(0) as u8, dec_key(x.arg(1))),
        1 => L::Describe(String::from_utf8_lossy(x.arg(0).bytes()).into_owned(), n(1) as u8),
        2 => L::CInc(dec_key(x.arg(0)), n(1)),
        3 => L::GSet(dec_key(x.arg(0)), n(1)),
        4 => L::GAdd(dec_key(x.arg(0)), n(1)),
        5 => L::GSub(dec_key(x.arg(0)), n(1)),
        6 => L::HRec(dec_key(x.arg(0)), n(1), n(2)),
        7 => L::RBegin,
        8 => L::RCounter(dec_key(x.arg(0))),
        9 => L::RGauges,
        10 => L::RGauge(dec_key(x.arg(0))),
        11 => L::RHists,
        12 => L::RHistStart(dec_key(x.arg(0))),
        13 => L::RHistSwap(n(0)),
        14 => L::RHistDone,
        _ => L::RFinish(n(0)),
    }
}

// ------------------------------------------------------------------------------------------ the plan

/// What the harness decides: top-level operations, and for each readout which updates run at which sync point.
#[derive(Clone, Debug)]
enum Top { Op(L), Readout { ts: u64, during: BTreeMap<usize, Vec<L>> } }

/// Recover the plan from a label list (replay, corpus): updates between the p-th and (p+1)-th step label of a
/// readout run inside sync point p+1 (sync point 0 is "begin").
fn plan_of(labels: &[L]) -> Vec<Top> {
    let mut plan = vec![];
    let mut i = 0;
    while i < labels.len() {
        match &labels[i] {
            L::RBegin => {
                let mut during: BTreeMap<usize, Vec<L>> = BTreeMap::new();
                let mut point = 0usize;
                let mut ts = 0;
                i += 1;
                while i < labels.len() {
                    match &labels[i] {
                        L::RCounter(_) | L::RGauges | L::RGauge(_) | L::RHists | L::RHistStart(_) => point += 1,
                        L::RHistSwap(_) | L::RHistDone => {}
                        L::RFinish(t) => { ts = *t; break; }
                        upd => during.entry(point + 1).or_default().push(upd.clone()),
                    }
                    i += 1;
                }
                plan.push(Top::Readout { ts, during });
            }
            other => plan.push(Top::Op(other.clone())),
        }
        i += 1;
    }
    plan
}

// ------------------------------------------------------------------------------------------ execution

fn mkey(k: &K) -> Key {
    Key::from_parts(k.name.clone(), k.labels.iter().map(|(a, b)| Label::new(a.clone(), b.clone())).collect::<Vec<_>>())
}
fn kof(key: &Key) -> K {
    K { name: key.name().to_string(), labels: key.labels().map(|l| (l.key().to_string(), l.value().to_string())).collect() }
}
fn munit(code: u8) -> Option<MUnit> {
    Some(match code {
        0 => return None,
        1 => MUnit::Count, 2 => MUnit::Percent, 3 => MUnit::Seconds, 4 => MUnit::Milliseconds, 5 => MUnit::Microseconds,
        6 => MUnit::Nanoseconds, 7 => MUnit::Tebibytes, 8 => MUnit::Gibibytes, 9 => MUnit::Mebibytes, 10 => MUnit::Kibibytes,
        11 => MUnit::Bytes, 12 => MUnit::TerabitsPerSecond, 13 => MUnit::GigabitsPerSecond, 14 => MUnit::MegabitsPerSecond,
        15 => MUnit::KilobitsPerSecond, 16 => MUnit::BitsPerSecond, _ => MUnit::CountPerSecond,
    })
}

#[derive(Default)]
struct Handles { c: Vec<(K, Counter)>, g: Vec<(K, Gauge)>, h: Vec<(K, Histogram)>, known_c: Vec<K> }

struct World { rec: Rec, handles: Rc<RefCell<Handles>>, describes: u64 }

static META: Metadata<'static> = Metadata::new("mv", Level::INFO, None);
/// When set, even huge record counts are performed as that many real `record` calls (one thorough-tier case).
static FULL_LOOP: AtomicBool = AtomicBool::new(false);
/// Panics raised by implementation calls (handle operations, readout, Entry::write) since the last reset: a panic
/// is an observation, not a crash of the harness.
static PANICS: AtomicU64 = AtomicU64::new(0);
/// Handle discipline of the running case. false: every registered handle is kept for the whole case (an emitter that
/// caches its handles). true: counter handles are transient, as with the `counter!` macro — `Register` looks the key
/// up and holds the handle, the next `CInc` of that key increments through it (or through a fresh lookup when none is
/// held) and drops every handle of the key.  The model does not distinguish the two: a handle is its key.
static TRANSIENT: AtomicBool = AtomicBool::new(false);

fn apply(rec: &Rec, hs: &RefCell<Handles>, describes: &mut u64, l: &L) {
    if crate::common::catch(|| apply_inner(rec, hs, describes, l)).is_none() { PANICS.fetch_add(1, Ordering::Relaxed); }
}
fn apply_inner(rec: &Rec, hs: &RefCell<Handles>, describes: &mut u64, l: &L) {
    match l {
        L::Register(0, k) => { let h = rec.register_counter(&mkey(k), &META); hs.borrow_mut().c.push((k.clone(), h)); }
        L::Register(1, k) => { let h = rec.register_gauge(&mkey(k), &META); hs.borrow_mut().g.push((k.clone(), h)); }
        L::Register(_, k) => { let h = rec.register_histogram(&mkey(k), &META); hs.borrow_mut().h.push((k.clone(), h)); }
        L::Describe(name, u) => {
            *describes += 1;
            let kn = KeyName::from(name.clone());
            match *describes % 3 {
                0 => rec.describe_counter(kn, munit(*u), "d".into()),
                1 => rec.describe_gauge(kn, munit(*u), "d".into()),
                _ => rec.describe_histogram(kn, munit(*u), "d".into()),
            }
        }
        L::CInc(k, n) if TRANSIENT.load(Ordering::Relaxed) => {
            let mut held = vec![];
            {
                let mut b = hs.borrow_mut();
                let mut i = 0;
                while i < b.c.len() {
                    if &b.c[i].0 == k { held.push(b.c.remove(i).1); } else { i += 1; }
                }
            }
            let known = !held.is_empty() || hs.borrow().known_c.contains(k);
            if known {
                if !hs.borrow().known_c.contains(k) { hs.borrow_mut().known_c.push(k.clone()); }
                match held.first() {
                    Some(h) => h.increment(*n),
                    None => rec.register_counter(&mkey(k), &META).increment(*n),
                }
            }
        }
        L::CInc(k, n) => { if let Some((_, h)) = hs.borrow().c.iter().find(|x| &x.0 == k) { h.increment(*n); } }
        L::GSet(k, b) => { if let Some((_, h)) = hs.borrow().g.iter().find(|x| &x.0 == k) { h.set(f64::from_bits(*b)); } }
        L::GAdd(k, b) => { if let Some((_, h)) = hs.borrow().g.iter().find(|x| &x.0 == k) { h.increment(f64::from_bits(*b)); } }
        L::GSub(k, b) => { if let Some((_, h)) = hs.borrow().g.iter().find(|x| &x.0 == k) { h.decrement(f64::from_bits(*b)); } }
        L::HRec(k, b, t) => {
            if let Some((_, h)) = hs.borrow().h.iter().find(|x| &x.0 == k) {
                let v = f64::from_bits(*b);
                if *t > (1 << 22) && !FULL_LOOP.load(Ordering::Relaxed) {
                    // very many records of one thread in a row: the bulk accessor leaves the cell in the state that
                    // `t` calls of record() leave it in (confirmed once by the full 2^32-call replay, see docs/C20.md)
                    let clamped = if v > u32::MAX as f64 { u32::MAX } else { v as u32 };
                    rec.verif_histogram(&mkey(k)).verif_add(clamped, *t);
                } else if *t % 2 == 0 && *t < 1000 { h.record_many(v, *t as usize); } else { for _ in 0..*t { h.record(v); } }
            }
        }
        _ => {}
    }
}

/// Recording EntryWriter: turns the readout entry back into an item list.
struct RecWriter { items: Vec<Sx> }
struct RecValue<'a>(&'a mut Vec<Sx>, String);
impl ValueWriter for RecValue<'_> {
    fn string(self, v: &str) { self.0.push(sx::tag(3, vec![sx::b(self.1.as_bytes()), sx::b(v.as_bytes())])); }
    fn metric<'a>(self, distribution: impl IntoIterator<Item = Observation>, unit: Unit,
                  dimensions: impl IntoIterator<Item = (&'a str, &'a str)>, flags: MetricFlags<'_>) {
        let obs: Vec<Sx> = distribution.into_iter().map(|o| match o {
            Observation::Unsigned(v) => sx::tag(0, vec![sx::n(v)]),
            Observation::Floating(f) => sx::tag(1, vec![sx::n(if f.is_nan() { CANON_NAN } else { f.to_bits() })]),
            Observation::Repeated { total, occurrences } => sx::tag(2, vec![sx::n(if total.is_nan() { CANON_NAN } else { total.to_bits() }), sx::n(occurrences)]),
            _ => sx::tag(9, vec![]),
        }).collect();
        let dims: Vec<Sx> = dimensions.into_iter().map(|(a, b)| Sx::L(vec![sx::b(a.as_bytes()), sx::b(b.as_bytes())])).collect();
        // structural rendering (the type's own Debug prints only the CloudWatch name)
        let unit_text = match unit {
            Unit::None => "None".to_string(),
            Unit::Count => "Count".to_string(),
            Unit::Percent => "Percent".to_string(),
            Unit::Second(s) => format!("Second({s:?})"),
            Unit::Byte(s) => format!("Byte({s:?})"),
            Unit::BytePerSecond(s) => format!("BytePerSecond({s:?})"),
            Unit::Bit(s) => format!("Bit({s:?})"),
            Unit::BitPerSecond(s) => format!("BitPerSecond({s:?})"),
            Unit::Custom(s) => format!("Custom({s:?})"),
            _ => "?".to_string(),
        };
        let mut v = vec![sx::b(self.1.as_bytes()), Sx::L(obs), sx::b(unit_text.as_bytes()), Sx::L(dims)];
        // flags are expected to be empty; anything else shows up as an extra field
        if format!("{:?}", flags) != format!("{:?}", MetricFlags::empty()) { v.push(sx::n(1u8)); }
        self.0.push(sx::tag(2, v));
    }
    fn error(self, e: ValidationError) { self.0.push(sx::tag(4, vec![sx::b(self.1.as_bytes()), sx::b(format!("{e}").as_bytes())])); }
}
impl<'a> EntryWriter<'a> for RecWriter {
    fn timestamp(&mut self, t: SystemTime) {
        self.items.push(sx::tag(0, vec![sx::n(t.duration_since(UNIX_EPOCH).map(|d| d.as_nanos()).unwrap_or(0))]));
    }
    fn value(&mut self, name: impl Into<Cow<'a, str>>, value: &(impl Value + ?Sized)) {
        let name: Cow<'a, str> = name.into();
        value.write(RecValue(&mut self.items, name.into_owned()));
    }
    fn config(&mut self, config: &'a dyn EntryConfig) {
        let any: &dyn Any = config;
        self.items.push(if any.is::<AllowSplitEntries>() { sx::tag(1, vec![]) } else { sx::tag(5, vec![sx::b(format!("{config:?}").as_bytes())]) });
    }
}
fn entry_items(e: &impl Entry) -> Sx {
    let mut w = RecWriter { items: vec![] };
    if crate::common::catch(|| e.write(&mut w)).is_none() {
        PANICS.fetch_add(1, Ordering::Relaxed);
        w.items.push(sx::tag(9, vec![sx::b(b"panic in Entry::write")]));
    }
    Sx::L(w.items)
}

/// Runs a plan; returns the label list as it happened and the entries.
fn execute(ez: bool, transient: bool, plan: &[Top]) -> (Vec<L>, Vec<Sx>) {
    TRANSIENT.store(transient, Ordering::Relaxed);
    let rec: Rec = if ez { MetricRecorder::new_with_emit_zero_counters(true) } else if plan.len() % 2 == 0 { MetricRecorder::new() } else { MetricRecorder::new_with_emit_zero_counters(false) };
    let handles = Rc::new(RefCell::new(Handles::default()));
    let mut describes = 0u64;
    let trace: Rc<RefCell<Vec<L>>> = Rc::new(RefCell::new(vec![]));
    let mut entries = vec![];
    for top in plan {
        match top {
            Top::Op(l) => { apply(&rec, &handles, &mut describes, l); trace.borrow_mut().push(l.clone()); }
            Top::Readout { ts, during } => {
                let point = Rc::new(RefCell::new(0usize));
                let during = during.clone();
                let (rec2, h2, tr2, p2) = (rec.clone(), handles.clone(), trace.clone(), point.clone());
                let ts2 = *ts;
                let dcount = Rc::new(RefCell::new(describes));
                let dc2 = dcount.clone();
                metrique_metricsrs::verif::set_hook(Some(Box::new(move |name, key| {
                    let p = *p2.borrow();
                    *p2.borrow_mut() = p + 1;
                    if name == "begin" { tr2.borrow_mut().push(L::RBegin); }
                    if let Some(us) = during.get(&p) {
                        for u in us {
                            apply(&rec2, &h2, &mut dc2.borrow_mut(), u);
                            tr2.borrow_mut().push(u.clone());
                        }
                    }
                    let mut t = tr2.borrow_mut();
                    match name {
                        "counter" => t.push(L::RCounter(kof(key.unwrap()))),
                        "gauges" => t.push(L::RGauges),
                        "gauge" => t.push(L::RGauge(kof(key.unwrap()))),
                        "hists" => t.push(L::RHists),
                        "hist" => { t.push(L::RHistStart(kof(key.unwrap()))); t.push(L::RHistSwap(SLOTS)); t.push(L::RHistDone); }
                        "finish" => t.push(L::RFinish(ts2)),
                        _ => {}
                    }
                })));
                let nth = entries.len();
                let entry = crate::common::catch(|| {
                    let _guard = set_time_source(TimeSource::custom(StaticTimeSource::at_time(UNIX_EPOCH + Duration::from_nanos(*ts))));
                    if nth % 2 == 0 { rec.readout() } else { rec.clone().readout() }
                });
                metrique_metricsrs::verif::set_hook(None);
                describes = *dcount.borrow();
                match entry {
                    Some(entry) => entries.push(entry_items(&entry)),
                    None => {
                        PANICS.fetch_add(1, Ordering::Relaxed);
                        entries.push(Sx::L(vec![sx::tag(9, vec![sx::b(b"panic in readout")])]));
                    }
                }
            }
        }
    }
    let t = trace.borrow().clone();
    (t, entries)
}

fn run_case(ez: bool, transient: bool, plan: &[Top], out: &mut Out) -> (Sx, Sx, bool) {
    PANICS.store(0, Ordering::Relaxed);
    let (labels, entries) = execute(ez, transient, plan);
    // the third element (handle discipline) is read by the harness only: the model's answer does not depend on it
    let mut cv = vec![sx::boolean(ez), Sx::L(labels.iter().map(enc_label).collect())];
    if transient { cv.push(sx::boolean(true)); }
    let case = Sx::L(cv);
    let panics = PANICS.load(Ordering::Relaxed);
    if panics > 0 {
        out.count("cases_with_implementation_panic");
        out.fail(format!("the implementation panicked {panics} time(s) (metric update, readout or Entry::write)"), &case);
    }
    let imp = sx::tag(1, vec![Sx::L(entries)]);
    let during_updates = plan.iter().any(|t| matches!(t, Top::Readout { during, .. } if !during.is_empty()))
        || plan.iter().any(|t| matches!(t, Top::Op(L::HRec(_, _, n)) if *n >= 2000));
    (case, imp, during_updates)
}

// ------------------------------------------------------------------------------------------ generation

fn key_pool() -> Vec<K> {
    let mut v = vec![];
    for name in ["a", "b", "req.count", "lat_ms", "A"] {
        for labels in [vec![], vec![("k", "v")], vec![("k", "w")], vec![("az", "1"), ("host", "x")]] {
            v.push(K { name: name.into(), labels: labels.into_iter().map(|(a, b)| (a.to_string(), b.to_string())).collect() });
        }
    }
    v
}

fn float_value(rng: &mut Rng) -> f64 {
    match rng.below(8) {
        0 => rng.below(70) as f64,
        1 => rng.below(70) as f64 + 0.75,
        2 => (1u64 << rng.below(33)) as f64 - [0.0, 1.0, 0.5][rng.below(3) as usize],
        3 => *rng.pick(&[-1.0, f64::NAN, f64::INFINITY, 4294967295.0, 4294967296.0, 4294967295.5, 1e300, -0.0, 5e-324, 4227858432.0]),
        _ => { let e = rng.below(32); ((1u64 << e) + rng.below(1u64 << e)) as f64 }
    }
}

fn gen_update(rng: &mut Rng, cs: &[K], gs: &[K], hs: &[K], allow_arith: bool) -> Option<L> {
    match rng.below(10) {
        0..=3 if !cs.is_empty() => Some(L::CInc(rng.pick(cs).clone(), match rng.below(4) { 0 => 0, 1 => 1, 2 => rng.below(1000), _ => rng.below(1 << 40) })),
        4..=5 if !gs.is_empty() => {
            let k = rng.pick(gs).clone();
            let b = float_value(rng).to_bits();
            Some(if allow_arith && rng.chance(1, 3) { if rng.chance(1, 2) { L::GAdd(k, b) } else { L::GSub(k, b) } } else { L::GSet(k, b) })
        }
        6..=8 if !hs.is_empty() => Some(L::HRec(rng.pick(hs).clone(), float_value(rng).to_bits(), match rng.below(5) { 0 => 0, 1 => rng.range(2, 40), _ => 1 })),
        9 => Some(L::Describe(rng.pick(&key_pool()).name.clone(), rng.below(18) as u8)),
        _ => None,
    }
}

fn gen_plan(rng: &mut Rng, thorough: bool) -> Vec<Top> {
    let pool = key_pool();
    let (mut cs, mut gs, mut hs): (Vec<K>, Vec<K>, Vec<K>) = (vec![], vec![], vec![]);
    let mut plan = vec![];
    let steps = rng.range(3, if thorough { 60 } else { 30 });
    let mut ts = 1_000_000_000u64 * rng.range(1, 2_000_000_000);
    let allow_arith = rng.chance(1, 2);
    for _ in 0..steps {
        match rng.below(12) {
            0..=2 => {
                let k = rng.pick(&pool).clone();
                let kd = rng.below(3) as u8;
                let list = match kd { 0 => &mut cs, 1 => &mut gs, _ => &mut hs };
                if !list.contains(&k) { list.push(k.clone()); }
                plan.push(Top::Op(L::Register(kd, k)));
            }
            3..=4 => {
                // a readout with updates placed between its per-key steps
                let points = cs.len() + gs.len() + hs.len() + 4;
                let mut during: BTreeMap<usize, Vec<L>> = BTreeMap::new();
                let nupd = match rng.below(4) { 0 => 0, _ => rng.range(1, 10) };
                for _ in 0..nupd {
                    if let Some(u) = gen_update(rng, &cs, &gs, &hs, allow_arith) {
                        during.entry(rng.below(points as u64) as usize).or_default().push(u);
                    }
                }
                ts += rng.range(1, 60_000_000_000);
                plan.push(Top::Readout { ts, during });
            }
            _ => { if let Some(u) = gen_update(rng, &cs, &gs, &hs, allow_arith) { plan.push(Top::Op(u)); } }
        }
    }
    // the reporter's final readout on shutdown: nothing happens during it
    ts += 1;
    plan.push(Top::Readout { ts, during: BTreeMap::new() });
    plan
}

/// Like `gen_plan`, for the transient handle discipline: counters only get re-acquired (`Register` of a known key)
/// between other operations and between the steps of a readout.
fn gen_plan_transient(rng: &mut Rng, thorough: bool) -> Vec<Top> {
    let plan = gen_plan(rng, thorough);
    let mut seen: Vec<K> = vec![];
    let mut res = vec![];
    for t in plan {
        match t {
            Top::Op(L::Register(0, k)) => {
                if !seen.contains(&k) { seen.push(k.clone()); }
                res.push(Top::Op(L::Register(0, k)));
            }
            Top::Readout { ts, mut during } => {
                // only keys registered before this readout (a registration racing with the registry's visit is
                // outside the model)
                if !seen.is_empty() {
                    for _ in 0..rng.below(4) {
                        let k = rng.pick(&seen).clone();
                        during.entry(rng.below(seen.len() as u64 + 3) as usize).or_default().push(L::Register(0, k));
                    }
                }
                res.push(Top::Readout { ts, during });
            }
            other => {
                if !seen.is_empty() && rng.chance(1, 6) { res.push(Top::Op(L::Register(0, rng.pick(&seen).clone()))); }
                res.push(other);
            }
        }
    }
    res
}

/// Three counters; before the first readout some are incremented; during it one key is looked up at a chosen step;
/// after it that key is incremented through the handle obtained during the readout; a second readout must report it.
fn stale_handle_plans() -> Vec<Vec<Top>> {
    let keys: Vec<K> = key_pool().into_iter().take(3).collect();
    let mut plans = vec![];
    for busy in 0..8u32 {
        for target in 0..3usize {
            for point in 0..6usize {
                for inc_inside in [false, true] {
                    let mut plan: Vec<Top> = keys.iter().map(|k| Top::Op(L::Register(0, k.clone()))).collect();
                    // drop the registration handles: an increment of 0 uses and releases them
                    for k in &keys { plan.push(Top::Op(L::CInc(k.clone(), 0))); }
                    for (j, k) in keys.iter().enumerate() {
                        if busy & (1 << j) != 0 { plan.push(Top::Op(L::CInc(k.clone(), 3 + j as u64))); }
                    }
                    let mut during: BTreeMap<usize, Vec<L>> = BTreeMap::new();
                    during.entry(point).or_default().push(L::Register(0, keys[target].clone()));
                    if inc_inside { during.entry(point + 1).or_default().push(L::CInc(keys[target].clone(), 5)); }
                    plan.push(Top::Readout { ts: 1_000_000_000, during });
                    if !inc_inside { plan.push(Top::Op(L::CInc(keys[target].clone(), 5))); }
                    plan.push(Top::Readout { ts: 2_000_000_000, during: BTreeMap::new() });
                    plan.push(Top::Readout { ts: 3_000_000_000, during: BTreeMap::new() });
                    plans.push(plan);
                }
            }
        }
    }
    plans
}

fn count_plan(out: &mut Out, labels: &[Sx]) {
    for l in labels {
        out.count(match l.tag() {
            0 => "label_register", 1 => "label_describe", 2 => "label_counter_inc", 3 => "label_gauge_set", 4 | 5 => "label_gauge_arith",
            6 => "label_hist_record", 7 => "label_readout", _ => "label_readout_step",
        });
    }
}

// ------------------------------------------------------------------------------------------ unscheduled stress

/// Updater threads against a reporter thread on real atomics; only the accounting is checked.
fn stress(out: &mut Out, rng: &mut Rng, threads: usize, per_thread: u64, case_id: u64) {
    let rec: Rec = MetricRecorder::new();
    let nkeys = 3usize;
    let keys: Vec<K> = key_pool().into_iter().take(nkeys).collect();
    let counters: Vec<Counter> = keys.iter().map(|k| rec.register_counter(&mkey(k), &META)).collect();
    let hists: Vec<Histogram> = keys.iter().map(|k| rec.register_histogram(&mkey(k), &META)).collect();
    let stop = Arc::new(AtomicBool::new(false));
    let expected_c: Arc<Vec<AtomicU64>> = Arc::new((0..nkeys).map(|_| AtomicU64::new(0)).collect());
    let expected_h: Arc<Vec<AtomicU64>> = Arc::new((0..nkeys).map(|_| AtomicU64::new(0)).collect());
    let mut js = vec![];
    for t in 0..threads {
        let (cs, hs, ec, eh) = (counters.clone(), hists.clone(), expected_c.clone(), expected_h.clone());
        let mut r = rng.fork();
        js.push(std::thread::spawn(move || {
            for i in 0..per_thread {
                let k = r.below(nkeys as u64) as usize;
                if r.chance(1, 2) {
                    let n = r.range(1, 5);
                    cs[k].increment(n);
                    ec[k].fetch_add(n, Ordering::Relaxed);
                } else {
                    hs[k].record((r.below(1 << (1 + (t % 20))) ) as f64);
                    eh[k].fetch_add(1, Ordering::Relaxed);
                }
                if i % 128 == 0 { std::thread::yield_now(); }
            }
        }));
    }
    let rec2 = rec.clone();
    let stop2 = stop.clone();
    let reporter = std::thread::spawn(move || {
        let mut entries = vec![];
        while !stop2.load(Ordering::Acquire) {
            entries.push(entry_items(&rec2.readout()));
            std::thread::yield_now();
        }
        entries
    });
    for j in js { j.join().unwrap(); }
    stop.store(true, Ordering::Release);
    let mut entries = reporter.join().unwrap();
    entries.push(entry_items(&rec.readout())); // the final readout
    out.add("stress_readouts", entries.len() as u64);
    out.add("stress_updates", threads as u64 * per_thread);
    let desc = sx::tag(99, vec![sx::n(case_id), sx::n(threads as u64), sx::n(per_thread)]);
    for (i, k) in keys.iter().enumerate() {
        let (mut c, mut h) = (0u64, 0u64);
        for e in &entries {
            for it in e.list() {
                if it.tag() == 2 && it.arg(0).bytes() == k.name.as_bytes() && *it.arg(3) == enc_key(k).list()[1] {
                    for o in it.arg(1).list() {
                        match o.tag() { 0 => c += o.arg(0).num() as u64, 2 => h += o.arg(1).num() as u64, _ => {} }
                    }
                }
            }
        }
        let (ec, eh) = (expected_c[i].load(Ordering::Relaxed), expected_h[i].load(Ordering::Relaxed));
        if c != ec { out.fail(format!("stress: counter {} reported {} in total over {} readouts, incremented {}", k.name, c, entries.len(), ec), &desc); }
        if h != eh { out.fail(format!("stress: histogram {} reported {} observations in total over {} readouts, recorded {}", k.name, h, entries.len(), eh), &desc); }
    }
}

// ------------------------------------------------------------------------------------------ reporter.rs

/// Sink handed to the MetricReporter: records every appended entry as an item list.
struct CaptureSink(Arc<std::sync::Mutex<Vec<Sx>>>);
impl AnyEntrySink for CaptureSink {
    fn append_any(&self, entry: impl Entry + Send + 'static) { self.0.lock().unwrap().push(entry_items(&entry)); }
    fn flush_async(&self) -> FlushWait { FlushWait::ready() }
}

/// The real reporter task (periodic readout + one final readout on shutdown) on a tokio runtime, with updater
/// threads running until right before the shutdown; the very last increment can only be reported by the final
/// readout. Accounting predicate only.
fn reporter_run(out: &mut Out, rng: &mut Rng, case_id: u64) {
    let captured = Arc::new(std::sync::Mutex::new(vec![]));
    let ez = rng.chance(1, 2);
    let threads = rng.range(1, 4) as usize;
    let per_thread = rng.range(200, 3000);
    let keys: Vec<K> = key_pool().into_iter().take(3).collect();
    let expected_c: Arc<Vec<AtomicU64>> = Arc::new((0..3).map(|_| AtomicU64::new(0)).collect());
    let expected_h: Arc<Vec<AtomicU64>> = Arc::new((0..3).map(|_| AtomicU64::new(0)).collect());
    let rt = tokio::runtime::Builder::new_current_thread().enable_time().build().unwrap();
    let cap2 = captured.clone();
    let (ec, eh, keys2) = (expected_c.clone(), expected_h.clone(), keys.clone());
    let mut forks: Vec<Rng> = (0..threads).map(|_| rng.fork()).collect();
    rt.block_on(async move {
        let (reporter, recorder) = MetricReporter::builder()
            .metrics_publish_interval(Duration::from_millis(2))
            .emit_zero_counters(ez)
            .metrics_rs_version::<dyn metrics::Recorder>()
            .metrics_sink((CaptureSink(cap2), ()))
            .build_without_installing();
        let counters: Vec<Counter> = keys2.iter().map(|k| recorder.register_counter(&mkey(k), &META)).collect();
        let hists: Vec<Histogram> = keys2.iter().map(|k| recorder.register_histogram(&mkey(k), &META)).collect();
        let mut js = vec![];
        for _ in 0..threads {
            let (cs, hs, ec, eh) = (counters.clone(), hists.clone(), ec.clone(), eh.clone());
            let mut r = forks.pop().unwrap();
            js.push(std::thread::spawn(move || {
                for i in 0..per_thread {
                    let k = r.below(3) as usize;
                    if r.chance(2, 3) { let n = r.range(1, 9); cs[k].increment(n); ec[k].fetch_add(n, Ordering::Relaxed); }
                    else { hs[k].record(r.below(5000) as f64); eh[k].fetch_add(1, Ordering::Relaxed); }
                    if i % 97 == 0 { std::thread::sleep(Duration::from_micros(300)); }
                }
            }));
        }
        while js.iter().any(|j| !j.is_finished()) { tokio::time::sleep(Duration::from_millis(1)).await; }
        for j in js { j.join().unwrap(); }
        // nothing is awaited between this increment and the shutdown: only the final readout can report it
        counters[0].increment(5);
        ec[0].fetch_add(5, Ordering::Relaxed);
        reporter.shutdown().await;
        // after shutdown the task is gone: later increments are never reported (and must not be counted)
        counters[1].increment(1_000_000);
    });
    let entries = captured.lock().unwrap().clone();
    out.add("reporter_entries", entries.len() as u64);
    let desc = sx::tag(98, vec![sx::n(case_id), sx::n(threads as u64), sx::n(per_thread)]);
    if entries.is_empty() { out.fail("reporter: no entry at all, expected at least the final readout".into(), &desc); }
    if entries.len() >= 2 { out.count("reporter_runs_with_periodic_readouts"); }
    for (i, k) in keys.iter().enumerate() {
        let (mut c, mut h) = (0u64, 0u64);
        for e in &entries {
            if e.list().first().map(|x| x.tag()) != Some(0) { out.fail("reporter: entry without timestamp".into(), &desc); }
            for it in e.list() {
                if it.tag() == 2 && it.arg(0).bytes() == k.name.as_bytes() && *it.arg(3) == enc_key(k).list()[1] {
                    for o in it.arg(1).list() {
                        match o.tag() { 0 => c += o.arg(0).num() as u64, 2 => h += o.arg(1).num() as u64, _ => {} }
                    }
                }
            }
        }
        let (xc, xh) = (expected_c[i].load(Ordering::Relaxed), expected_h[i].load(Ordering::Relaxed));
        if c != xc { out.fail(format!("reporter: counter #{i} reported {c} over {} entries, incremented {xc} before shutdown", entries.len()), &desc); }
        if h != xh { out.fail(format!("reporter: histogram #{i} reported {h} observations over {} entries, recorded {xh}", entries.len()), &desc); }
    }
}

/// Runs whose histogram buckets reach value x count >= 2^32 within one readout (the products the Entry impl
/// computes): many real records of a large value, the bulk accessor, boundary products around 2^32.
fn gen_big_plan(rng: &mut Rng) -> Vec<Top> {
    let k = rng.pick(&key_pool()).clone();
    let mut plan = vec![Top::Op(L::Register(2, k.clone()))];
    if rng.chance(1, 2) { plan.push(Top::Op(L::Describe(k.name.clone(), rng.below(18) as u8))); }
    let (v, t): (f64, u64) = match rng.below(7) {
        0 => (70_000.0, 70_000),
        1 => (65_536.0, 65_536),
        2 => ((1u64 << rng.range(20, 31)) as f64, rng.range(3_000, 9_000)),
        3 => (4_294_967_295.0, rng.range(2, 5)),
        4 => (rng.range(2, 60) as f64, (1 << 23) + rng.below(1 << 28)),          // bulk accessor
        5 => ((1u64 << rng.range(12, 20)) as f64, 1u64 << rng.range(20, 24)),
        _ => (rng.range(60_000, 3_000_000) as f64, rng.range(40_000, 90_000)),
    };
    plan.push(Top::Op(L::HRec(k.clone(), v.to_bits(), t)));
    if rng.chance(1, 2) { plan.push(Top::Op(L::HRec(k.clone(), float_value(rng).to_bits(), rng.range(1, 30)))); }
    let mut during: BTreeMap<usize, Vec<L>> = BTreeMap::new();
    if rng.chance(1, 2) { during.entry(rng.below(5) as usize).or_default().push(L::HRec(k.clone(), v.to_bits(), rng.range(1, 2000))); }
    plan.push(Top::Readout { ts: 1_000_000_007 * rng.range(1, 1000), during });
    plan.push(Top::Readout { ts: 1_000_000_007 * 2000, during: BTreeMap::new() });
    plan
}

pub fn run(ctx: &Ctx) {
    crate::common::quiet_panics();
    // the release profile (wrapping arithmetic, no debug assertions) has its own suite: value computations only
    let release = ctx.extra.windows(2).any(|w| w[0] == "--profile" && w[1] == "release");
    let mut out = Out::new(ctx, if release { "-rel" } else { "" });
    let emit_t = |out: &mut Out, ez: bool, transient: bool, plan: &[Top]| {
        let (case, imp, nt) = run_case(ez, transient, plan, out);
        if transient { out.count("cases_with_transient_counter_handles"); }
        count_plan(out, case.list()[1].list());
        out.case(&case, &imp, nt);
    };
    let emit = |out: &mut Out, ez: bool, plan: &[Top]| {
        let (case, imp, nt) = run_case(ez, false, plan, out);
        count_plan(out, case.list()[1].list());
        out.case(&case, &imp, nt);
    };
    if let Some(p) = &ctx.replay {
        for line in std::fs::read_to_string(p).unwrap().lines().filter(|l| l.starts_with('(')) {
            let c = sx::parse(line);
            let labels: Vec<L> = c.list()[1].list().iter().map(dec_label).collect();
            let transient = c.list().len() > 2 && c.list()[2].num() != 0;
            emit_t(&mut out, c.list()[0].num() != 0, transient, &plan_of(&labels));
        }
        out.finish("replay");
        return;
    }
    let mut rng = Rng::new(ctx.seed);
    let thorough = ctx.tier_thorough;
    for i in 0..(if thorough { 200 } else { 40 }) {
        let plan = gen_big_plan(&mut rng);
        out.count("big_product_runs");
        emit(&mut out, i % 2 == 0, &plan);
    }
    if release {
        for i in 0..(if thorough { 1500 } else { 200 }) {
            let plan = gen_plan(&mut rng, false);
            emit(&mut out, i % 3 == 0, &plan);
        }
        out.finish("release profile: runs whose bucket products value x count reach 2^32, plus random runs; distinct by hash of the label list");
        return;
    }
    for i in 0..(if thorough { 8000 } else { 2000 }) {
        let plan = gen_plan(&mut rng, thorough);
        emit(&mut out, i % 3 == 0, &plan);
    }
    // transient counter handles (lookup per increment, as the counter! macro does): random plans in which a key is also
    // looked up again (`Register` of a registered key = acquiring a handle) at any point, also inside readouts
    for i in 0..(if thorough { 4000 } else { 800 }) {
        let plan = gen_plan_transient(&mut rng, thorough);
        emit_t(&mut out, i % 4 == 0, true, &plan);
    }
    // a handle acquired at every step of a readout and used after it, for every key, with the other keys idle or not
    for plan in stale_handle_plans() {
        out.count("stale_handle_plans");
        emit_t(&mut out, false, true, &plan);
    }
    if thorough {
        // the u32 witness once with 2^32 real record() calls (no bulk accessor): about 40 s
        let k = K { name: "h".into(), labels: vec![] };
        let plan = vec![Top::Op(L::Register(2, k.clone())), Top::Op(L::HRec(k, 5.0f64.to_bits(), 1 << 32)),
                        Top::Readout { ts: 1, during: BTreeMap::new() }];
        FULL_LOOP.store(true, Ordering::Relaxed);
        emit(&mut out, false, &plan);
        FULL_LOOP.store(false, Ordering::Relaxed);
        out.count("full_length_u32_witness");
    }
    for i in 0..(if thorough { 40 } else { 8 }) {
        let threads = rng.range(2, if thorough { 16 } else { 8 }) as usize;
        let per = if thorough { 200_000 } else { 30_000 };
        if crate::common::catch(|| stress(&mut out, &mut rng, threads, per, i)).is_none() {
            out.fail("stress: a thread of the run panicked inside the implementation".into(), &sx::tag(99, vec![sx::n(i)]));
        }
    }
    for i in 0..(if thorough { 60 } else { 12 }) {
        if crate::common::catch(|| reporter_run(&mut out, &mut rng, i)).is_none() {
            out.fail("reporter: the run panicked inside the implementation".into(), &sx::tag(98, vec![sx::n(i)]));
        }
    }
    out.notes.push("reporter runs: the real MetricReporter task on a tokio runtime (periodic + final readout) with updater threads; accounting predicate only".into());
    out.notes.push("stress runs (updater threads against a reporter thread, unscheduled) are checked by the accounting predicate only".into());
    out.finish("runs in which at least one update is placed between the per-key steps of a readout, or whose bucket products reach 2^32; distinct by hash of the label list");
}
