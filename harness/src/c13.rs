//! C13 — slots: histories of open / mutate-through-guard / delay_flush / drop guard / wait_for_data (polled with a
//! no-op waker, possibly dropped before completion) / keep-alive actions, run on the real `Slot`, `LazySlot`,
//! `SlotGuard` inside an `#[metrics]` entry wrapped by `append_on_drop`, against a sink that records the entry.
use crate::c06::{self, LogField, Op as KOp, parse_log, sync_point};
use crate::common::{Ctx, Out, Rng};
use crate::sx::{self, Sx};
use metrique::unit_of_work::metrics;
use metrique::writer::{Entry, EntrySink};
use metrique::{AppendAndCloseOnDrop, AppendAndCloseOnDropHandle, CloseValue, FlushGuard, ForceFlushGuard, LazySlot, OnParentDrop, Slot, SlotGuard};
use metrique_writer::sink::FlushWait;
use metrique_writer::test_util::to_test_entry;
use std::future::Future;
use std::pin::Pin;
use std::sync::atomic::{AtomicU64, Ordering::SeqCst};
use std::sync::{Arc, Mutex};
use std::task::{Context, Poll};

pub const NSLOTS: usize = 3;
pub const SHAPE: [bool; NSLOTS] = [false, false, true]; // Slot, Slot, LazySlot

/// Global event order (scheduled and free-running runs): who did what first.
static CLOCK: AtomicU64 = AtomicU64::new(1);
fn tick() -> u64 {
    CLOCK.fetch_add(1, SeqCst)
}
thread_local! {
    static EVENTS: std::cell::RefCell<Option<Arc<Events>>> = const { std::cell::RefCell::new(None) };
}
#[derive(Default)]
pub struct Events {
    /// first field of the entry closed = AppendAndCloseOnDropInner::drop has begun
    pub close_begin: AtomicU64,
    /// the field after slot k was closed (k = 0, 1); the append itself closes the window of the last slot
    pub field_sync: [AtomicU64; 2],
    pub appended: AtomicU64,
}

/// A field between two slots: its close is harness code, i.e. a sync point between the closes of two slots.
#[derive(Default)]
pub struct SyncField(pub usize, pub Option<Arc<Events>>);
impl CloseValue for SyncField {
    type Closed = Option<String>;
    fn close(self) -> Option<String> {
        if let Some(e) = &self.1 {
            e.field_sync[self.0].store(tick(), SeqCst);
        }
        sync_point("close.field");
        None
    }
}
/// The first field: marks the beginning of the entry's close.
#[derive(Default)]
pub struct FirstField(pub LogField, pub Option<Arc<Events>>);
impl CloseValue for FirstField {
    type Closed = String;
    fn close(self) -> String {
        if let Some(e) = &self.1 {
            e.close_begin.store(tick(), SeqCst);
        }
        c06::set_in_close(true);
        self.0.close()
    }
}

#[metrics(subfield_owned)]
#[derive(Default)]
pub struct SV {
    log: LogField,
}

#[metrics]
#[derive(Default)]
pub struct E13 {
    log: FirstField,
    #[metrics(flatten, prefix = "a_")]
    s0: Slot<SV>,
    p0: SyncField,
    #[metrics(flatten, prefix = "b_")]
    s1: Slot<SV>,
    p1: SyncField,
    #[metrics(flatten, prefix = "c_")]
    z: LazySlot<SV>,
}

#[derive(Clone, Debug, PartialEq)]
pub struct Rec {
    pub log: Vec<u64>,
    pub slots: [Option<Vec<u64>>; NSLOTS],
}
impl Rec {
    pub fn enc(&self) -> Sx {
        let v = |x: &Vec<u64>| Sx::L(x.iter().map(|&y| sx::n(y)).collect());
        Sx::L(vec![v(&self.log), Sx::L(self.slots.iter().map(|s| sx::opt(s.as_ref().map(v))).collect())])
    }
}

#[derive(Clone, Default)]
pub struct Sink13 {
    pub records: Arc<Mutex<Vec<Rec>>>,
    pub seqs: Arc<Mutex<Vec<usize>>>,
    pub events: Option<Arc<Events>>,
}
impl<T: Entry> EntrySink<T> for Sink13 {
    fn append(&self, entry: T) {
        let te = to_test_entry(&entry);
        let get = |k: &str| te.values.get(k).map(|s| parse_log(s));
        let r = Rec { log: get("log").unwrap_or_default(), slots: [get("a_log"), get("b_log"), get("c_log")] };
        c06::set_in_close(false);
        self.records.lock().unwrap().push(r);
        self.seqs.lock().unwrap().push(c06::current_step());
        if let Some(e) = &self.events {
            e.appended.store(tick(), SeqCst);
        }
    }
    fn flush_async(&self) -> FlushWait {
        FlushWait::ready()
    }
}

type Owner = AppendAndCloseOnDrop<E13, Sink13>;
type Handle = AppendAndCloseOnDropHandle<E13, Sink13>;
pub enum OwnerRef {
    Direct(Box<Owner>),
    Handle(Handle),
}

#[derive(Clone, Copy, Debug, PartialEq)]
pub enum Op {
    K(KOp),
    Open(usize, bool),
    SlotMut(usize, u64),
    DelayFlush(usize),
    DropGuard(usize),
    WaitPoll(usize),
    WaitCancel,
}
pub fn enc_op(o: &Op) -> Sx {
    match *o {
        Op::K(k) => c06::enc_op(&k),
        Op::Open(i, w) => sx::tag(10, vec![sx::n(i as u64), sx::boolean(w)]),
        Op::SlotMut(i, v) => sx::tag(11, vec![sx::n(i as u64), sx::n(v)]),
        Op::DelayFlush(i) => sx::tag(12, vec![sx::n(i as u64)]),
        Op::DropGuard(i) => sx::tag(13, vec![sx::n(i as u64)]),
        Op::WaitPoll(i) => sx::tag(14, vec![sx::n(i as u64)]),
        Op::WaitCancel => sx::tag(15, vec![]),
    }
}
pub fn dec_op(x: &Sx) -> Op {
    let i = x.arg(0).num() as usize;
    match x.tag() {
        10 => Op::Open(i, x.arg(1).num() != 0),
        11 => Op::SlotMut(i, x.arg(1).num() as u64),
        12 => Op::DelayFlush(i),
        13 => Op::DropGuard(i),
        14 => Op::WaitPoll(i),
        15 => Op::WaitCancel,
        _ => Op::K(c06::dec_op(x)),
    }
}

#[derive(Clone, Debug, PartialEq)]
pub enum Ret {
    Guard(bool),
    Pending,
    Ready(Option<Vec<u64>>),
}
impl Ret {
    fn enc(&self) -> Sx {
        match self {
            Ret::Guard(b) => Sx::L(vec![sx::n(1u8), sx::boolean(*b)]),
            Ret::Pending => Sx::L(vec![sx::n(2u8)]),
            Ret::Ready(o) => Sx::L(vec![sx::n(3u8), sx::opt(o.as_ref().map(|v| Sx::L(v.iter().map(|&y| sx::n(y)).collect())))]),
        }
    }
}

type WaitFut = Pin<Box<dyn Future<Output = Option<Vec<u64>>> + Send>>;

pub struct World {
    pub owners: Vec<OwnerRef>,
    pub fgs: Vec<FlushGuard>,
    pub ffs: Vec<ForceFlushGuard>,
    pub guards: [Option<SlotGuard<SV>>; NSLOTS],
    /// a pending wait_for_data future (it mutably borrows the owner: no owner action while it lives)
    pub waiting: Option<(usize, WaitFut)>,
    pub sink: Sink13,
    pub rets: Vec<Ret>,
    pub panicked: bool,
    /// bookkeeping for the free-running checks: content written through each guard, whether it holds a flush guard
    pub gcontent: [Vec<u64>; NSLOTS],
    pub gholds: [bool; NSLOTS],
    pub applied_muts: Vec<u64>,
}

impl World {
    pub fn new(events: Option<Arc<Events>>) -> World {
        let sink = Sink13 { events: events.clone(), ..Default::default() };
        let e = E13 {
            log: FirstField(LogField::default(), events.clone()),
            s0: Slot::default(),
            p0: SyncField(0, events.clone()),
            s1: Slot::default(),
            p1: SyncField(1, events.clone()),
            z: LazySlot::default(),
        };
        let owner = e.append_on_drop(sink.clone());
        World { owners: vec![OwnerRef::Direct(Box::new(owner))], fgs: vec![], ffs: vec![], guards: [None, None, None],
                waiting: None, sink, rets: vec![], panicked: false,
                gcontent: Default::default(), gholds: [false; NSLOTS], applied_muts: vec![] }
    }
    fn direct(&mut self) -> Option<&mut Owner> {
        if self.waiting.is_some() {
            return None;
        }
        match self.owners.first_mut() {
            Some(OwnerRef::Direct(o)) => Some(&mut **o),
            _ => None,
        }
    }
    /// What must be dropped outside the world lock (its destructor may park at sync points).
    pub fn take_doomed(&mut self, op: Op) -> Option<Box<dyn std::any::Any + Send>> {
        match op {
            Op::K(KOp::DropOwner(k)) if self.waiting.is_none() && !self.owners.is_empty() => {
                let k = k % self.owners.len();
                Some(Box::new(self.owners.remove(k)))
            }
            Op::K(KOp::DropFlush(k)) if !self.fgs.is_empty() => {
                let k = k % self.fgs.len();
                Some(Box::new(self.fgs.remove(k)))
            }
            Op::K(KOp::DropForce(k)) if !self.ffs.is_empty() => {
                let k = k % self.ffs.len();
                Some(Box::new(self.ffs.remove(k)))
            }
            Op::DropGuard(i) if i < NSLOTS => self.guards[i].take().map(|g| Box::new(g) as Box<dyn std::any::Any + Send>),
            _ => None,
        }
    }
    /// Applies an action that is not a drop (drops go through `take_doomed`). Not-enabled actions are skipped.
    pub fn apply_nondrop(&mut self, op: Op) {
        match op {
            Op::K(k) => match k {
                KOp::Mutate(v) => {
                    if self.waiting.is_some() {
                        return;
                    }
                    match self.owners.first_mut() {
                        Some(OwnerRef::Direct(o)) => {
                            let e: &mut E13 = &mut **o;
                            e.log.0.push_mut(v);
                            self.applied_muts.push(v);
                        }
                        Some(OwnerRef::Handle(_)) => {
                            let k = (v as usize) % self.owners.len();
                            if let OwnerRef::Handle(h) = &self.owners[k] {
                                h.log.0.push(v);
                                self.applied_muts.push(v);
                            }
                        }
                        None => {}
                    }
                }
                KOp::MakeHandle => {
                    if self.waiting.is_none() && self.owners.len() == 1 && matches!(self.owners[0], OwnerRef::Direct(_)) {
                        if let Some(OwnerRef::Direct(o)) = self.owners.pop() {
                            self.owners.push(OwnerRef::Handle((*o).handle()));
                        }
                    }
                }
                KOp::CloneHandle(k) => {
                    if !self.owners.is_empty() {
                        let k = k % self.owners.len();
                        if let OwnerRef::Handle(h) = &self.owners[k] {
                            let c = h.clone();
                            self.owners.push(OwnerRef::Handle(c));
                        }
                    }
                }
                KOp::NewFlush => {
                    if let Some(o) = self.direct() {
                        let g = o.flush_guard();
                        self.fgs.push(g);
                    }
                }
                KOp::NewForce => {
                    if let Some(o) = self.direct() {
                        let g = o.force_flush_guard();
                        self.ffs.push(g);
                    }
                }
                _ => {}
            },
            Op::Open(i, w) => {
                if i >= NSLOTS || (w && self.fgs.is_empty()) || self.direct().is_none() {
                    return;
                }
                let mode = if w { OnParentDrop::Wait(self.fgs.pop().unwrap()) } else { OnParentDrop::Discard };
                let o = self.direct().unwrap();
                let g = match i {
                    0 => o.s0.open(mode),
                    1 => o.s1.open(mode),
                    _ => o.z.open(SV::default(), mode),
                };
                self.rets.push(Ret::Guard(g.is_some()));
                if let Some(g) = g {
                    self.guards[i] = Some(g);
                    self.gholds[i] = w;
                }
            }
            Op::SlotMut(i, v) => {
                if let Some(Some(g)) = self.guards.get_mut(i) {
                    let sv: &mut SV = &mut *g;
                    sv.log.push_mut(v);
                    self.gcontent[i].push(v);
                }
            }
            Op::DelayFlush(i) => {
                if i < NSLOTS && self.guards[i].is_some() && !self.fgs.is_empty() {
                    let fg = self.fgs.pop().unwrap();
                    self.guards[i].as_mut().unwrap().delay_flush(fg);
                    self.gholds[i] = true;
                }
            }
            Op::WaitPoll(i) => {
                if i >= NSLOTS || SHAPE[i] {
                    return;
                }
                let ok = matches!(self.owners.first(), Some(OwnerRef::Direct(_)))
                    && match &self.waiting { None => true, Some((j, _)) => *j == i };
                if !ok {
                    return;
                }
                if self.waiting.is_none() {
                    let o: *mut Owner = match self.owners.first_mut() { Some(OwnerRef::Direct(o)) => &mut **o, _ => unreachable!() };
                    // SAFETY: the owner is boxed (stable address) and, as the borrow checker would enforce, no
                    // other access to it happens while this future lives (`direct()` refuses, drops are refused).
                    let slot: &'static mut Slot<SV> = unsafe {
                        let e: &'static mut E13 = &mut **(&mut *o);
                        if i == 0 { &mut e.s0 } else { &mut e.s1 }
                    };
                    let fut: WaitFut = Box::pin(async move {
                        let d = slot.wait_for_data().await;
                        d.as_ref().map(|c| parse_log(&c.log))
                    });
                    self.waiting = Some((i, fut));
                }
                let waker = futures::task::noop_waker();
                let mut cx = Context::from_waker(&waker);
                let r = self.waiting.as_mut().unwrap().1.as_mut().poll(&mut cx);
                match r {
                    Poll::Ready(v) => {
                        self.waiting = None;
                        self.rets.push(Ret::Ready(v));
                    }
                    Poll::Pending => self.rets.push(Ret::Pending),
                }
            }
            Op::WaitCancel => {
                self.waiting = None;
            }
            Op::DropGuard(_) => {}
        }
    }
    pub fn apply(&mut self, op: Op) {
        let doomed = self.take_doomed(op);
        if doomed.is_some() {
            drop(doomed);
        } else {
            self.apply_nondrop(op);
        }
    }
    /// Like `apply`, but what the action drops is dropped by a thread that is unwinding: the value is held by a
    /// frame that panics, as when the task owning a guard (or the entry) fails.  A drop is a drop: the property
    /// quantifies over every placement of it, so the model's answer is the same as for `apply`.
    pub fn apply_unwinding(&mut self, op: Op) -> bool {
        struct Marker;
        match self.take_doomed(op) {
            Some(d) => {
                let r = std::panic::catch_unwind(std::panic::AssertUnwindSafe(move || {
                    let _held = d;
                    std::panic::resume_unwind(Box::new(Marker));
                }));
                // our own payload: the destructors ran without a panic of their own (a second panic would abort)
                !matches!(r, Err(p) if p.is::<Marker>())
            }
            None => std::panic::catch_unwind(std::panic::AssertUnwindSafe(|| self.apply_nondrop(op))).is_err(),
        }
    }
}

fn exec_seq(ops: &[Op], unwinding: bool) -> Sx {
    exec_seq_placed(ops, unwinding, 0)
}
/// `nested` 1-3: every drop happens inside the destructor of another entry (c06::drop_nested).
fn exec_seq_placed(ops: &[Op], unwinding: bool, nested: u8) -> Sx {
    c06::progress();
    let mut w = World::new(None);
    let mut obs = vec![];
    for &op in ops {
        if nested != 0 {
            let r = std::panic::catch_unwind(std::panic::AssertUnwindSafe(|| match w.take_doomed(op) {
                Some(d) => c06::drop_nested(d, nested),
                None => w.apply_nondrop(op),
            }));
            if r.is_err() {
                w.panicked = true;
            }
        } else if unwinding {
            if w.apply_unwinding(op) {
                w.panicked = true;
            }
        } else {
            let r = std::panic::catch_unwind(std::panic::AssertUnwindSafe(|| w.apply(op)));
            if r.is_err() {
                w.panicked = true;
            }
        }
        obs.push(sx::n(w.sink.records.lock().unwrap().len() as u64));
    }
    let recs: Vec<Sx> = w.sink.records.lock().unwrap().iter().map(|r| r.enc()).collect();
    let out = Sx::L(vec![Sx::L(obs), Sx::L(w.rets.iter().map(|r| r.enc()).collect()), Sx::L(recs), sx::boolean(w.panicked)]);
    // the pending future first (it borrows the owner), then the rest; panics of the cleanup are not observations
    let _ = std::panic::catch_unwind(std::panic::AssertUnwindSafe(move || {
        w.waiting = None;
        drop(w);
    }));
    out
}

pub fn seq_case(ops: &[Op]) -> Sx {
    sx::tag(0, vec![Sx::L(SHAPE.iter().map(|&b| sx::boolean(b)).collect()), Sx::L(ops.iter().map(enc_op).collect())])
}
/// The same history inside a tokio task whose cooperative budget is used up (closing must not depend on it).
pub fn seq_case_no_budget(ops: &[Op]) -> Sx {
    sx::tag(0, vec![Sx::L(SHAPE.iter().map(|&b| sx::boolean(b)).collect()), Sx::L(ops.iter().map(enc_op).collect()), sx::n(2u8)])
}
/// The same history with every drop performed inside another entry's destructor (mode 1-3 of c06::drop_nested).
pub fn seq_case_nested(ops: &[Op], mode: u8) -> Sx {
    sx::tag(0, vec![Sx::L(SHAPE.iter().map(|&b| sx::boolean(b)).collect()), Sx::L(ops.iter().map(enc_op).collect()), sx::n(2 + mode)])
}
/// The same history with every drop performed during an unwind (third argument; the model does not read it).
pub fn seq_case_unwinding(ops: &[Op]) -> Sx {
    sx::tag(0, vec![Sx::L(SHAPE.iter().map(|&b| sx::boolean(b)).collect()), Sx::L(ops.iter().map(enc_op).collect()), sx::boolean(true)])
}

pub fn exec(case: &Sx) -> (Sx, bool) {
    match case.tag() {
        1 => {
            let setup: Vec<Op> = case.arg(1).list().iter().map(dec_op).collect();
            let prog = dec_prog(case.arg(2));
            let tids: Vec<usize> = case.arg(3).list().iter().map(|x| x.num() as usize).collect();
            let (mut pos, mut diverged) = (0usize, false);
            let (out, _, _) = {
                let mut ch = follow(&tids, &mut pos, &mut diverged);
                exec_threads(&setup, &prog, &mut ch)
            };
            let out = if diverged {
                let mut v = out.list().to_vec();
                v[4] = sx::boolean(false);
                Sx::L(v)
            } else {
                out
            };
            (out, true)
        }
        2 => {
            let setup: Vec<Op> = case.arg(1).list().iter().map(dec_op).collect();
            let prog = dec_prog(case.arg(2));
            (sx::boolean(exec_stress(&setup, &prog, case.arg(3).num() as u64).is_ok()), true)
        }
        _ => {
            let ops: Vec<Op> = case.arg(1).list().iter().map(dec_op).collect();
            let opened = ops.iter().any(|o| matches!(o, Op::Open(..)));
            let dropped = ops.iter().any(|o| matches!(o, Op::K(KOp::DropOwner(_))));
            // third argument (not read by the model): where the history runs — 1 = every drop on an unwinding frame,
            // 2 = the whole history inside a tokio task whose cooperative budget is exhausted
            let placement = if case.list().len() > 3 { case.arg(2).num() } else { 0 };
            if placement == 2 {
                let ops2 = ops.clone();
                let (r, exhausted) = crate::common::in_exhausted_tokio_task(move || exec_seq(&ops2, false));
                if !exhausted { eprintln!("c13: the tokio budget was not exhausted"); }
                (r, opened && dropped)
            } else if placement >= 3 {
                // 3-5: every drop inside another entry's destructor (carrier emitted by owner / last flush guard / force guard)
                (exec_seq_placed(&ops, false, (placement - 2) as u8), opened && dropped)
            } else {
                (exec_seq(&ops, placement == 1), opened && dropped)
            }
        }
    }
}


// ---------------------------------------------------------------------------------------------- threads

fn dec_prog(x: &Sx) -> Vec<(usize, Op)> {
    x.list().iter().map(|e| (e.list()[0].num() as usize, dec_op(&e.list()[1]))).collect()
}
fn enc_prog(prog: &[(usize, Op)]) -> Sx {
    Sx::L(prog.iter().map(|(t, o)| Sx::L(vec![sx::n(*t as u64), enc_op(o)])).collect())
}
fn enc_shape() -> Sx {
    Sx::L(SHAPE.iter().map(|&b| sx::boolean(b)).collect())
}
fn thread_case(setup: &[Op], prog: &[(usize, Op)], tids: &[usize]) -> Sx {
    sx::tag(1, vec![enc_shape(), Sx::L(setup.iter().map(enc_op).collect()), enc_prog(prog),
                    Sx::L(tids.iter().map(|&t| sx::n(t as u64)).collect())])
}
fn stress_case(setup: &[Op], prog: &[(usize, Op)], seed: u64) -> Sx {
    sx::tag(2, vec![enc_shape(), Sx::L(setup.iter().map(enc_op).collect()), enc_prog(prog), sx::n(seed)])
}

/// Times (global event order) of a slot guard's drop in a free-running run.
#[derive(Clone, Default)]
struct DropRec {
    begin: u64,
    end: u64,
    holds: bool,
    content: Vec<u64>,
}

/// An action by one thread on the shared world: the object is taken out under the world lock, the drop itself
/// (which may park at sync points) runs outside it.
fn apply_shared(world: &Arc<Mutex<World>>, op: Op, drops: Option<&Mutex<Vec<(usize, DropRec)>>>, force_begin: Option<&AtomicU64>) {
    let mut rec: Option<(usize, DropRec)> = None;
    let doomed = {
        let mut w = world.lock().unwrap_or_else(|e| e.into_inner());
        c06::set_no_park(true);
        let d = w.take_doomed(op);
        if d.is_some() {
            if let Op::DropGuard(i) = op {
                rec = Some((i, DropRec { begin: tick(), end: 0, holds: w.gholds[i], content: w.gcontent[i].clone() }));
            }
            if let (Op::K(KOp::DropForce(_)), Some(fb)) = (op, force_begin) {
                let _ = fb.compare_exchange(0, tick(), SeqCst, SeqCst);
            }
        } else {
            w.apply_nondrop(op);
        }
        c06::set_no_park(false);
        d
    };
    drop(doomed);
    if let (Some((i, mut r)), Some(d)) = (rec, drops) {
        r.end = tick();
        d.lock().unwrap().push((i, r));
    }
}

/// One scheduled run: `setup` on the calling thread, then the per-thread programs under `choose`.
fn exec_threads(setup: &[Op], prog: &[(usize, Op)], choose: &mut dyn FnMut(&[usize]) -> usize) -> (Sx, Vec<usize>, Vec<usize>) {
    c06::progress();
    let nthreads = prog.iter().map(|(t, _)| *t + 1).max().unwrap_or(0);
    let mut w = World::new(None);
    for &op in setup {
        if std::panic::catch_unwind(std::panic::AssertUnwindSafe(|| w.apply(op))).is_err() {
            w.panicked = true;
        }
    }
    let sink = w.sink.clone();
    let world = Arc::new(Mutex::new(w));
    let progs: Vec<Vec<Op>> = (0..nthreads).map(|t| prog.iter().filter(|(x, _)| *x == t).map(|(_, o)| *o).collect()).collect();
    let w2 = world.clone();
    let body: Arc<dyn Fn(usize) + Send + Sync> = Arc::new(move |tid| {
        for &op in &progs[tid] {
            sync_point("op");
            apply_shared(&w2, op, None, None);
        }
    });
    let (trace, branching, ok) = c06::Sched::run(nthreads, body, &c06::keepalive_blocked, choose);
    let recs = sink.records.lock().unwrap().clone();
    let seqs = sink.seqs.lock().unwrap().clone();
    // records appended during the setup carry step 0: they count from the first grant on
    let mut obs = vec![];
    for (j, (_t, name)) in trace.iter().enumerate() {
        let cnt = seqs.iter().filter(|&&b| b <= j).count();
        obs.push(Sx::L(vec![sx::n(c06::point_code(name)), sx::n(cnt as u64)]));
    }
    let tids: Vec<usize> = trace.iter().map(|(t, _)| *t).collect();
    let (rets, panicked) = {
        let w = world.lock().unwrap_or_else(|e| e.into_inner());
        (w.rets.clone(), w.panicked)
    };
    let out = Sx::L(vec![Sx::L(obs), Sx::L(rets.iter().map(|r| r.enc()).collect()), Sx::L(recs.iter().map(|r| r.enc()).collect()),
                         sx::boolean(panicked), sx::boolean(ok)]);
    cleanup(world);
    (out, branching, tids)
}

fn cleanup(world: Arc<Mutex<World>>) {
    let _ = std::panic::catch_unwind(std::panic::AssertUnwindSafe(move || {
        let mut w = world.lock().unwrap_or_else(|e| e.into_inner());
        w.waiting = None;
        for g in w.guards.iter_mut() { *g = None; }
        w.owners.clear();
        w.fgs.clear();
        w.ffs.clear();
    }));
}

fn follow<'a>(tids: &'a [usize], pos: &'a mut usize, diverged: &'a mut bool) -> impl FnMut(&[usize]) -> usize + 'a {
    move |runnable: &[usize]| {
        let want = tids.get(*pos).copied();
        *pos += 1;
        match want {
            Some(t) if runnable.contains(&t) => t,
            _ => {
                *diverged = true;
                runnable[0]
            }
        }
    }
}

fn explore(out: &mut Out, setup: &[Op], prog: &[(usize, Op)], limit: usize, rng: &mut Rng, label: &str) {
    let mut choices: Vec<usize> = vec![];
    let mut runs = 0usize;
    let mut exhausted = false;
    loop {
        let mut pos = 0usize;
        let cv = choices.clone();
        let mut choose = |runnable: &[usize]| {
            let c = cv.get(pos).copied().unwrap_or(0);
            pos += 1;
            runnable[c.min(runnable.len() - 1)]
        };
        let (imp, branching, tids) = exec_threads(setup, prog, &mut choose);
        out.case(&thread_case(setup, prog, &tids), &imp, true);
        out.count(&format!("sched_dfs_{label}"));
        runs += 1;
        let mut full: Vec<usize> = (0..branching.len()).map(|j| cv.get(j).copied().unwrap_or(0)).collect();
        let mut j = full.len();
        loop {
            if j == 0 {
                exhausted = true;
                break;
            }
            j -= 1;
            if full[j] + 1 < branching[j] {
                full[j] += 1;
                full.truncate(j + 1);
                break;
            }
        }
        if exhausted || runs >= limit {
            break;
        }
        choices = full;
    }
    if exhausted {
        out.count(&format!("sched_space_exhausted_{label}"));
    } else {
        for _ in 0..limit {
            let mut r = rng.fork();
            let mut choose = |runnable: &[usize]| runnable[r.below(runnable.len() as u64) as usize];
            let (imp, _, tids) = exec_threads(setup, prog, &mut choose);
            out.case(&thread_case(setup, prog, &tids), &imp, true);
            out.count(&format!("sched_random_{label}"));
        }
    }
}

/// Free-running real threads, sync points perturbed by seeded yields; judged by the predicate only.
fn exec_stress(setup: &[Op], prog: &[(usize, Op)], seed: u64) -> Result<(), String> {
    c06::progress();
    c06::install_controller();
    let nthreads = prog.iter().map(|(t, _)| *t + 1).max().unwrap_or(0);
    let events = Arc::new(Events::default());
    let drops: Arc<Mutex<Vec<(usize, DropRec)>>> = Arc::new(Mutex::new(vec![]));
    let force_begin = Arc::new(AtomicU64::new(0));
    let mut w = World::new(Some(events.clone()));
    let world_tmp = Arc::new(Mutex::new(std::mem::replace(&mut w, World::new(None))));
    drop(w);
    let world = world_tmp;
    for &op in setup {
        if std::panic::catch_unwind(std::panic::AssertUnwindSafe(|| apply_shared(&world, op, Some(&drops), Some(&force_begin)))).is_err() {
            c06::set_no_park(false);
            return Err("an action of the sequential prefix panicked".to_string());
        }
    }
    let sink = world.lock().unwrap_or_else(|e| e.into_inner()).sink.clone();
    let barrier = Arc::new(std::sync::Barrier::new(nthreads));
    let mut joins = vec![];
    for tid in 0..nthreads {
        let ops: Vec<Op> = prog.iter().filter(|(x, _)| *x == tid).map(|(_, o)| *o).collect();
        let (w2, d2, f2, b2) = (world.clone(), drops.clone(), force_begin.clone(), barrier.clone());
        joins.push(std::thread::spawn(move || {
            c06::set_perturb(Some(Rng::new(seed ^ ((tid as u64 + 1) << 32))));
            b2.wait();
            for &op in &ops {
                sync_point("op");
                apply_shared(&w2, op, Some(&d2), Some(&f2));
            }
            c06::set_perturb(None);
        }));
    }
    for j in joins {
        j.join().map_err(|_| "a thread panicked".to_string())?;
    }
    // drop what is left: the pending future, the guards (in slot order), then owners and keep-alive guards
    let w3 = world.clone();
    let (d3, f3) = (drops.clone(), force_begin.clone());
    let cleanup_ok = std::panic::catch_unwind(std::panic::AssertUnwindSafe(move || {
        let world = w3;
        let (drops, force_begin) = (d3, f3);
    world.lock().unwrap_or_else(|e| e.into_inner()).waiting = None;
    for i in 0..NSLOTS {
        apply_shared(&world, Op::DropGuard(i), Some(&drops), Some(&force_begin));
    }
    loop {
        let more = { let w = world.lock().unwrap_or_else(|e| e.into_inner()); !w.owners.is_empty() };
        if !more { break; }
        apply_shared(&world, Op::K(KOp::DropOwner(0)), Some(&drops), Some(&force_begin));
    }
    loop {
        let more = { let w = world.lock().unwrap_or_else(|e| e.into_inner()); !w.fgs.is_empty() };
        if !more { break; }
        apply_shared(&world, Op::K(KOp::DropFlush(0)), Some(&drops), Some(&force_begin));
    }
    loop {
        let more = { let w = world.lock().unwrap_or_else(|e| e.into_inner()); !w.ffs.is_empty() };
        if !more { break; }
        apply_shared(&world, Op::K(KOp::DropForce(0)), Some(&drops), Some(&force_begin));
    }
    })).is_ok();
    if !cleanup_ok {
        c06::set_no_park(false);
        return Err("dropping the remaining objects panicked".to_string());
    }
    let recs = sink.records.lock().unwrap().clone();
    if recs.len() != 1 {
        return Err(format!("{} entries appended after everything was dropped", recs.len()));
    }
    let r = &recs[0];
    let mut got = r.log.clone();
    got.sort();
    let mut want = world.lock().unwrap_or_else(|e| e.into_inner()).applied_muts.clone();
    want.sort();
    if got != want {
        return Err(format!("the entry's own fields {:?} differ from the mutations made {:?}", got, want));
    }
    let e = &events;
    let window_begin = |i: usize| if i == 0 { e.close_begin.load(SeqCst) } else { e.field_sync[i - 1].load(SeqCst) };
    let window_end = |i: usize| if i < 2 { e.field_sync[i].load(SeqCst) } else { e.appended.load(SeqCst) };
    let fb = force_begin.load(SeqCst);
    let drops = drops.lock().unwrap().clone();
    for i in 0..NSLOTS {
        let d = drops.iter().find(|(j, _)| *j == i).map(|(_, d)| d.clone());
        match d {
            None => {
                if r.slots[i].is_some() {
                    return Err(format!("slot {i} present although its guard was never handed out"));
                }
            }
            Some(d) => {
                if let Some(v) = &r.slots[i] {
                    if *v != d.content {
                        return Err(format!("slot {i} contains {:?}, the guard held {:?}", v, d.content));
                    }
                    if d.begin > window_end(i) {
                        return Err(format!("slot {i} present although its guard began dropping after the slot was closed"));
                    }
                } else {
                    if d.end < window_begin(i) {
                        return Err(format!("slot {i} absent although its guard was dropped before the parent began closing it"));
                    }
                    if d.holds && (fb == 0 || fb > d.end) {
                        return Err(format!("slot {i} absent although its guard held the flush guard and no force-flush guard had been dropped"));
                    }
                }
            }
        }
    }
    Ok(())
}

/// Configurations for the window the property names: send, then release, against the parent's close elsewhere.
fn curated() -> Vec<(&'static str, Vec<Op>, Vec<(usize, Op)>)> {
    use KOp::*;
    use Op::*;
    vec![
        // wait mode, parent and guard on different threads, plus a force guard on a third
        ("wait_force", vec![K(NewFlush), K(NewForce), Open(0, true), SlotMut(0, 7), K(Mutate(1))],
         vec![(0, K(DropOwner(0))), (1, SlotMut(0, 8)), (1, DropGuard(0)), (2, K(DropForce(0)))]),
        // discard mode: the two-instruction window against the close
        ("discard_race", vec![Open(0, false), SlotMut(0, 7), Open(2, false), SlotMut(2, 9)],
         vec![(0, K(Mutate(2))), (0, K(DropOwner(0))), (1, DropGuard(0)), (2, DropGuard(2))]),
        // two wait-mode slots released from two threads, owner dropped on a third
        ("two_waits", vec![K(NewFlush), K(NewFlush), Open(0, true), Open(1, true), SlotMut(1, 5)],
         vec![(0, K(DropOwner(0))), (1, DropGuard(0)), (2, DropGuard(1))]),
        // delay_flush after the parent was dropped (the integration test's shape), lazy slot
        ("delay_flush_lazy", vec![Open(2, false), K(NewFlush), K(NewForce)],
         vec![(0, DelayFlush(2)), (0, K(DropOwner(0))), (1, SlotMut(2, 3)), (1, DropGuard(2)), (2, K(DropForce(0)))]),
        // discard + wait mixed, last user flush guard on its own thread
        ("mixed", vec![K(NewFlush), K(NewFlush), Open(0, true), Open(1, false)],
         vec![(0, K(DropOwner(0))), (0, K(DropFlush(0))), (1, DropGuard(0)), (2, DropGuard(1))]),
    ]
}

fn random_config(rng: &mut Rng) -> (Vec<Op>, Vec<(usize, Op)>) {
    let len = rng.range(4, 12) as usize;
    let ops = random_history(rng, len);
    let cut = rng.range(1, (ops.len() as u64).saturating_sub(2).max(1)) as usize;
    let nthreads = rng.range(2, 3);
    let cut = cut.min(ops.len());
    let setup = ops[..cut].to_vec();
    let prog = ops[cut..].iter().map(|o| (rng.below(nthreads) as usize, *o)).collect();
    (setup, prog)
}

// ---------------------------------------------------------------------------------------------- generation

#[derive(Clone, Default)]
struct Shape {
    owners: usize,
    handle: bool,
    fgs: usize, // user-held
    ffs: usize,
    fgs_made: usize,
    ffs_made: usize,
    muts: usize,
    guard: [u8; NSLOTS], // 0 never opened, 1 live, 2 dropped
    holds: [bool; NSLOTS],
    opens: [usize; NSLOTS],
    smuts: [usize; NSLOTS],
    delays: usize,
    polls: usize,
    cancels: usize,
    waiting: Option<usize>,
    received: [bool; NSLOTS],
}
struct Caps {
    fgs: usize,
    ffs: usize,
    muts: usize,
    opens: usize,
    smuts: usize,
    delays: usize,
    polls: usize,
    cancels: usize,
    depth: usize,
    slots: Vec<usize>,
    handle: bool,
}

/// The enabled actions after a prefix, with the shape they lead to.
fn successors(caps: &Caps, sh: &Shape) -> Vec<(Op, Shape)> {
    let mut next: Vec<(Op, Shape)> = vec![];
    let owner_free = sh.owners > 0 && !sh.handle && sh.waiting.is_none();
    let owner_ops = sh.owners > 0 && sh.waiting.is_none();
    if owner_ops {
        if sh.muts < caps.muts {
            let mut s = sh.clone();
            s.muts += 1;
            next.push((Op::K(KOp::Mutate(10 + sh.muts as u64)), s));
        }
        if caps.handle && !sh.handle && sh.owners == 1 {
            let mut s = sh.clone();
            s.handle = true;
            next.push((Op::K(KOp::MakeHandle), s));
        }
        if caps.handle && sh.handle && sh.owners == 1 {
            let mut s = sh.clone();
            s.owners += 1;
            next.push((Op::K(KOp::CloneHandle(0)), s));
        }
        for k in 0..sh.owners {
            let mut s = sh.clone();
            s.owners -= 1;
            next.push((Op::K(KOp::DropOwner(k)), s));
        }
    }
    if owner_free {
        if sh.fgs_made < caps.fgs {
            let mut s = sh.clone();
            s.fgs += 1;
            s.fgs_made += 1;
            next.push((Op::K(KOp::NewFlush), s));
        }
        if sh.ffs_made < caps.ffs {
            let mut s = sh.clone();
            s.ffs += 1;
            s.ffs_made += 1;
            next.push((Op::K(KOp::NewForce), s));
        }
        for &i in &caps.slots {
            if sh.opens[i] < caps.opens {
                for w in [false, true] {
                    if w && sh.fgs == 0 {
                        continue;
                    }
                    let mut s = sh.clone();
                    s.opens[i] += 1;
                    if w {
                        s.fgs -= 1;
                    }
                    if sh.guard[i] == 0 {
                        s.guard[i] = 1;
                        s.holds[i] = w;
                    }
                    next.push((Op::Open(i, w), s));
                }
            }
        }
    }
    // wait_for_data needs the owner itself (a handle only derefs to `&`)
    if sh.owners > 0 && !sh.handle {
        for &i in &caps.slots {
            if SHAPE[i] || sh.polls >= caps.polls {
                continue;
            }
            if sh.waiting.is_none() || sh.waiting == Some(i) {
                let mut s = sh.clone();
                s.polls += 1;
                if sh.guard[i] == 2 {
                    s.waiting = None;
                    s.received[i] = true;
                } else {
                    s.waiting = Some(i);
                }
                next.push((Op::WaitPoll(i), s));
            }
        }
    }
    if sh.waiting.is_some() && sh.cancels < caps.cancels {
        let mut s = sh.clone();
        s.waiting = None;
        s.cancels += 1;
        next.push((Op::WaitCancel, s));
    }
    for &i in &caps.slots {
        if sh.guard[i] == 1 {
            if sh.smuts[i] < caps.smuts {
                let mut s = sh.clone();
                s.smuts[i] += 1;
                next.push((Op::SlotMut(i, 100 * (i as u64 + 1) + sh.smuts[i] as u64), s));
            }
            if sh.fgs > 0 && sh.delays < caps.delays {
                let mut s = sh.clone();
                s.delays += 1;
                s.fgs -= 1;
                s.holds[i] = true;
                next.push((Op::DelayFlush(i), s));
            }
            let mut s = sh.clone();
            s.guard[i] = 2;
            s.holds[i] = false;
            next.push((Op::DropGuard(i), s));
        }
    }
    for k in 0..sh.fgs {
        let mut s = sh.clone();
        s.fgs -= 1;
        next.push((Op::K(KOp::DropFlush(k)), s));
    }
    for k in 0..sh.ffs {
        let mut s = sh.clone();
        s.ffs -= 1;
        next.push((Op::K(KOp::DropForce(k)), s));
    }
    next
}

fn finished(sh: &Shape) -> bool {
    sh.owners == 0 && sh.fgs == 0 && sh.ffs == 0 && sh.guard.iter().all(|&g| g != 1) && sh.waiting.is_none()
}

fn enumerate(caps: &Caps, sh: &Shape, pre: &mut Vec<Op>, f: &mut dyn FnMut(&[Op])) {
    if finished(sh) {
        f(pre);
        return;
    }
    if pre.len() >= caps.depth {
        return;
    }
    for (op, s) in successors(caps, sh) {
        pre.push(op);
        enumerate(caps, &s, pre, f);
        pre.pop();
    }
}

fn random_history(rng: &mut Rng, len: usize) -> Vec<Op> {
    let caps = Caps { fgs: 6, ffs: 3, muts: 4, opens: 3, smuts: 4, delays: 3, polls: 6, cancels: 3, depth: 1000,
                      slots: vec![0, 1, 2], handle: rng.chance(1, 4) };
    let mut sh = Shape { owners: 1, ..Default::default() };
    let mut ops = vec![];
    while !finished(&sh) {
        let mut succ = successors(&caps, &sh);
        if succ.is_empty() {
            break;
        }
        // keep the owner for a while; afterwards prefer finishing
        if ops.len() < len {
            let keep: Vec<(Op, Shape)> = succ.iter().filter(|(o, _)| !matches!(o, Op::K(KOp::DropOwner(_)))).cloned().collect();
            if !keep.is_empty() && !rng.chance(1, 8) {
                succ = keep;
            }
        } else {
            let fin: Vec<(Op, Shape)> = succ.iter().filter(|(o, _)| matches!(o, Op::K(KOp::DropOwner(_)) | Op::K(KOp::DropFlush(_)) | Op::K(KOp::DropForce(_)) | Op::DropGuard(_) | Op::WaitCancel | Op::WaitPoll(_))).cloned().collect();
            if !fin.is_empty() {
                succ = fin;
            }
        }
        let (op, s) = succ[rng.below(succ.len() as u64) as usize].clone();
        ops.push(op);
        sh = s;
        if ops.len() > len + 40 {
            break;
        }
    }
    ops
}

fn count_ops(out: &mut Out, ops: &[Op]) {
    for o in ops {
        out.count(match o {
            Op::K(KOp::Mutate(_)) => "op_mutate",
            Op::K(KOp::MakeHandle) | Op::K(KOp::CloneHandle(_)) => "op_handle",
            Op::K(KOp::NewFlush) => "op_new_flush_guard",
            Op::K(KOp::NewForce) => "op_new_force_guard",
            Op::K(KOp::DropOwner(_)) => "op_drop_owner_or_handle",
            Op::K(KOp::DropFlush(_)) => "op_drop_flush_guard",
            Op::K(KOp::DropForce(_)) => "op_drop_force_guard",
            Op::Open(_, true) => "op_open_wait",
            Op::Open(_, false) => "op_open_discard",
            Op::SlotMut(..) => "op_mutate_through_guard",
            Op::DelayFlush(_) => "op_delay_flush",
            Op::DropGuard(_) => "op_drop_slot_guard",
            Op::WaitPoll(_) => "op_wait_for_data_poll",
            Op::WaitCancel => "op_wait_for_data_dropped",
        });
    }
}

pub fn run(ctx: &Ctx) {
    c06::start_watchdog();
    if std::env::var("MV_LOUD").is_err() { crate::common::quiet_panics(); }
    let mut out = Out::new(ctx, "");
    let emit = |out: &mut Out, case: Sx| {
        if case.tag() == 0 && case.list().len() > 3 {
            out.inflight(&case);
        }
        let (imp, nt) = exec(&case);
        out.case(&case, &imp, nt);
    };
    let mut tout = Out::new(ctx, "-t");
    if let Some(p) = &ctx.replay {
        for line in std::fs::read_to_string(p).unwrap().lines().filter(|l| l.starts_with('(')) {
            let case = sx::parse(line);
            if case.tag() == 0 {
                emit(&mut out, case);
            } else {
                if case.tag() == 2 {
                    let setup: Vec<Op> = case.arg(1).list().iter().map(dec_op).collect();
                    if let Err(e) = exec_stress(&setup, &dec_prog(case.arg(2)), case.arg(3).num() as u64) {
                        tout.fail(format!("free-running threads: {e}"), &case);
                    }
                }
                emit(&mut tout, case);
            }
        }
        out.finish("replay");
        tout.finish("replay");
        return;
    }
    // exhaustive: one slot of each kind, every complete history within the caps
    let configs: Vec<Caps> = if ctx.tier_thorough {
        vec![
            Caps { fgs: 2, ffs: 1, muts: 1, opens: 2, smuts: 1, delays: 1, polls: 2, cancels: 1, depth: 11, slots: vec![0], handle: false },
            Caps { fgs: 1, ffs: 1, muts: 0, opens: 1, smuts: 1, delays: 0, polls: 0, cancels: 0, depth: 12, slots: vec![0, 2], handle: false },
            Caps { fgs: 1, ffs: 0, muts: 0, opens: 2, smuts: 0, delays: 1, polls: 1, cancels: 1, depth: 10, slots: vec![2, 1], handle: true },
        ]
    } else {
        vec![
            Caps { fgs: 1, ffs: 1, muts: 1, opens: 2, smuts: 1, delays: 1, polls: 2, cancels: 1, depth: 9, slots: vec![0], handle: false },
            Caps { fgs: 1, ffs: 1, muts: 0, opens: 1, smuts: 0, delays: 0, polls: 0, cancels: 0, depth: 10, slots: vec![0, 2], handle: false },
            Caps { fgs: 1, ffs: 0, muts: 0, opens: 2, smuts: 0, delays: 0, polls: 1, cancels: 1, depth: 8, slots: vec![2, 1], handle: true },
        ]
    };
    for (ci, caps) in configs.iter().enumerate() {
        let mut all: Vec<Vec<Op>> = vec![];
        enumerate(caps, &Shape { owners: 1, ..Default::default() }, &mut vec![], &mut |ops| all.push(ops.to_vec()));
        out.add(&format!("exhaustive_config_{ci}"), all.len() as u64);
        for ops in &all {
            emit(&mut out, seq_case(ops));
        }
        // the first configuration again with every drop placed on an unwinding thread
        if ci == 0 {
            // (thorough: every third history - the tier also runs everything in both build profiles)
            for ops in all.iter().step_by(if ctx.tier_thorough { 3 } else { 1 }) {
                emit(&mut out, seq_case_unwinding(ops));
                out.count("histories_with_drops_during_unwind");
            }
        }
        // ... and inside the destructor of another entry (a carrier owning the object; emitted by its owner, its last
        // flush guard or a force-flush guard)
        if ci == 0 {
            for (i, ops) in all.iter().enumerate().step_by(if ctx.tier_thorough { 3 } else { 2 }) {
                emit(&mut out, seq_case_nested(ops, 1 + (i / if ctx.tier_thorough { 3 } else { 2 } % 3) as u8));
                out.count("histories_with_drops_inside_another_entrys_destructor");
            }
        }
        // ... and the histories that never poll wait_for_data (a future may answer Pending without budget) inside a
        // tokio task whose cooperative budget is exhausted
        if ci <= 1 {
            for ops in all.iter().filter(|o| !o.iter().any(|x| matches!(x, Op::WaitPoll(_)))).step_by(3) {
                emit(&mut out, seq_case_no_budget(ops));
                out.count("histories_in_a_tokio_task_without_budget");
            }
        }
    }
    let mut rng = Rng::new(ctx.seed);
    let nrand = if ctx.tier_thorough { 30000 } else { 4000 };
    for _ in 0..nrand {
        let len = rng.range(3, if ctx.tier_thorough { 40 } else { 25 }) as usize;
        let ops = random_history(&mut rng, len);
        count_ops(&mut out, &ops);
        out.count("random_histories");
        emit(&mut out, seq_case(&ops));
        if rng.below(4) == 0 {
            out.count("histories_with_drops_during_unwind");
            emit(&mut out, seq_case_unwinding(&ops));
        }
    }
    // scheduled multi-thread runs
    let limit = if ctx.tier_thorough { 4000 } else { 300 };
    for (label, setup, prog) in curated() {
        explore(&mut tout, &setup, &prog, limit, &mut rng, label);
    }
    let nconf = if ctx.tier_thorough { 800 } else { 150 };
    for _ in 0..nconf {
        let (setup, prog) = random_config(&mut rng);
        for _ in 0..(if ctx.tier_thorough { 12 } else { 4 }) {
            let mut r = rng.fork();
            let mut choose = |runnable: &[usize]| runnable[r.below(runnable.len() as u64) as usize];
            let (imp, _, tids) = exec_threads(&setup, &prog, &mut choose);
            tout.case(&thread_case(&setup, &prog, &tids), &imp, true);
            tout.count("sched_random_config");
        }
    }
    // free-running stress, predicate only
    let nstress = if ctx.tier_thorough { 400 } else { 50 };
    let mut confs: Vec<(Vec<Op>, Vec<(usize, Op)>)> = curated().into_iter().map(|(_, a, b)| (a, b)).collect();
    for _ in 0..15 {
        confs.push(random_config(&mut rng));
    }
    for (setup, prog) in &confs {
        for _ in 0..nstress {
            let seed = rng.next();
            let case = stress_case(setup, prog, seed);
            let r = exec_stress(setup, prog, seed);
            if let Err(e) = &r {
                tout.fail(format!("free-running threads: {e}"), &case);
            }
            tout.case(&case, &sx::boolean(r.is_ok()), true);
            tout.count("stress_runs");
        }
    }
    tout.finish("multi-thread: per configuration (curated: wait mode vs force guard vs parent on three threads, the send/release window against the parent's close in discard mode, two wait-mode slots, delay_flush on a lazy slot; plus random ones) every schedule at sync-point granularity depth-first up to the tier's limit, then seeded random schedules; plus free-running real threads with perturbation at the sync points (predicate only); every case non-trivial");
    out.finish("sequential: every complete history within each exhaustive configuration's caps (Slot alone with wait_for_data and delay_flush; Slot + LazySlot; LazySlot + Slot with handles) plus random longer ones over all three slots; non-trivial = a slot is opened and an owner dropped; distinct by hash of the case");
}
