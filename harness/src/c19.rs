//! C19 — units: every `Convert` pair's RATIO constant and unit names (exhaustive), and value trees
//! (WithUnit / Distribution / Mean / Option / Duration / primitives / #[metrics(unit = ..)]) written into a
//! recording ValueWriter.
//!
//! Suites: "-p" pairs `(0 from to)`, "-c" census `(1)`, "-v" value trees `(2 tree)` and attribute entries
//! `(3 (tree..))`, "-m" means fed by a sequence of `record_value` calls `(4 tree)`.
use crate::common::{Ctx, Out, Rng};
use crate::sx::{self, Sx};
use metrique_writer::value::{Distribution, Mean};
use metrique_writer_core::unit::{self, Convert, NegativeScale, PositiveScale, UnitTag, WithUnit};
use metrique_writer_core::value::{MetricFlags, MetricOptions};
use metrique_writer_core::{MetricValue, Observation, Unit, ValidationError, Value, ValueWriter};
use std::cell::RefCell;
use std::collections::BTreeMap;
use std::marker::PhantomData;
use std::time::Duration;

// ------------------------------------------------------------------------------------------ tags
pub trait Tg: UnitTag + 'static {
    const IDENT: &'static str;
}
macro_rules! tg { ($($t:ident),* $(,)?) => { $( impl Tg for unit::$t { const IDENT: &'static str = stringify!($t); } )* } }
tg!(None, Count, Percent, Second, Millisecond, Microsecond);
tg!(Byte, Kilobyte, Megabyte, Gigabyte, Terabyte, Bit, Kilobit, Megabit, Gigabit, Terabit);
tg!(BytePerSecond, KilobytePerSecond, MegabytePerSecond, GigabytePerSecond, TerabytePerSecond);
tg!(BitPerSecond, KilobitPerSecond, MegabitPerSecond, GigabitPerSecond, TerabitPerSecond);

/// hands the same token list to a callback macro twice (macro_rules cannot nest one repetition in itself)
macro_rules! with_all { ($m:ident, $($x:tt)*) => { $m!($($x)*; [None, Count, Percent, Second, Millisecond, Microsecond,
    Byte, Kilobyte, Megabyte, Gigabyte, Terabyte, Bit, Kilobit, Megabit, Gigabit, Terabit,
    BytePerSecond, KilobytePerSecond, MegabytePerSecond, GigabytePerSecond, TerabytePerSecond,
    BitPerSecond, KilobitPerSecond, MegabitPerSecond, GigabitPerSecond, TerabitPerSecond]) } }
macro_rules! with_time { ($m:ident, $($x:tt)*) => { $m!($($x)*; [Second, Millisecond, Microsecond]) } }
macro_rules! with_bits { ($m:ident, $($x:tt)*) => { $m!($($x)*; [Byte, Kilobyte, Megabyte, Gigabyte, Terabyte, Bit, Kilobit, Megabit, Gigabit, Terabit,
    BytePerSecond, KilobytePerSecond, MegabytePerSecond, GigabytePerSecond, TerabytePerSecond,
    BitPerSecond, KilobitPerSecond, MegabitPerSecond, GigabitPerSecond, TerabitPerSecond]) } }

// ------------------------------------------------------------------------------------------ calls
#[derive(Debug)]
struct MyFlag(u32);
impl MetricOptions for MyFlag {}

#[derive(Clone, Debug)]
pub enum Call {
    Nothing,
    Str(String),
    Err(Vec<String>),
    /// an error exactly as some value handed it to its writer (replayed into Mean::record_value)
    ErrRaw(ValidationError),
    Metric { obs: Vec<Observation>, unit: Unit, dims: Vec<(String, String)>, flag: Option<u32> },
}

fn perform(c: &Call, w: impl ValueWriter) {
    match c {
        Call::Nothing => {}
        Call::Str(s) => w.string(s),
        Call::Err(ms) => {
            let mut e = ValidationError::invalid(ms.first().cloned().unwrap_or_else(|| "e".into()));
            for m in ms.iter().skip(1) {
                e.extend(ValidationError::invalid(m.clone()));
            }
            w.error(e)
        }
        Call::ErrRaw(e) => w.error(e.clone()),
        Call::Metric { obs, unit, dims, flag } => {
            let f = flag.map(MyFlag);
            let flags = match &f {
                Some(f) => MetricFlags::upcast(f),
                None => MetricFlags::empty(),
            };
            w.metric(obs.iter().copied(), *unit, dims.iter().map(|(k, v)| (k.as_str(), v.as_str())), flags)
        }
    }
}

/// An arbitrary `MetricValue<Unit = U>` whose write performs exactly one scripted call.
pub struct Script<U>(pub Call, PhantomData<U>);
impl<U> Script<U> {
    fn new(c: Call) -> Self {
        Script(c, PhantomData)
    }
}
impl<U: UnitTag> Value for Script<U> {
    fn write(&self, w: impl ValueWriter) {
        perform(&self.0, w)
    }
}
impl<U: UnitTag> MetricValue for Script<U> {
    type Unit = U;
}
impl<U> metrique::CloseValue for Script<U> {
    type Closed = Self;
    fn close(self) -> Self {
        self
    }
}

thread_local! {
    /// the call the most recent `record` saw, as a replayable `Call`
    static LAST_CALL: RefCell<Call> = const { RefCell::new(Call::Nothing) };
}
struct Rec<'a>(&'a RefCell<Sx>);
fn enc_obs(o: &Observation) -> Sx {
    match *o {
        Observation::Unsigned(u) => sx::tag(0, vec![sx::n(u)]),
        Observation::Floating(f) => sx::tag(1, vec![sx::n(canon(f))]),
        Observation::Repeated { total, occurrences } => sx::tag(2, vec![sx::n(canon(total)), sx::n(occurrences)]),
        _ => sx::tag(9, vec![]),
    }
}
fn canon(f: f64) -> u64 {
    if f.is_nan() { 0x7ff8_0000_0000_0000 } else { f.to_bits() }
}
impl ValueWriter for Rec<'_> {
    fn string(self, value: &str) {
        LAST_CALL.with(|c| *c.borrow_mut() = Call::Str(value.to_string()));
        *self.0.borrow_mut() = sx::tag(1, vec![sx::b(value)]);
    }
    fn metric<'a>(self, distribution: impl IntoIterator<Item = Observation>, unit: Unit,
                  dimensions: impl IntoIterator<Item = (&'a str, &'a str)>, flags: MetricFlags<'_>) {
        let raw: Vec<Observation> = distribution.into_iter().collect();
        let rawdims: Vec<(String, String)> = dimensions.into_iter().map(|(k, v)| (k.to_string(), v.to_string())).collect();
        LAST_CALL.with(|c| *c.borrow_mut() = Call::Metric { obs: raw.clone(), unit, dims: rawdims.clone(), flag: flags.downcast::<MyFlag>().map(|f| f.0) });
        let obs: Vec<Sx> = raw.iter().map(enc_obs).collect();
        let dims: Vec<Sx> = rawdims.iter().map(|(k, v)| Sx::L(vec![sx::b(k), sx::b(v)])).collect();
        let fl = flags.downcast::<MyFlag>().map(|f| sx::n(f.0));
        *self.0.borrow_mut() = sx::tag(3, vec![Sx::L(obs), sx::b(unit.name()), Sx::L(dims), sx::opt(fl)]);
    }
    fn error(self, error: ValidationError) {
        LAST_CALL.with(|c| *c.borrow_mut() = Call::ErrRaw(error.clone()));
        // the wording of a validation error is not compared (no property fixes it): a fixed token
        let _ = &error;
        *self.0.borrow_mut() = sx::tag(2, vec![sx::b("error")]);
    }
}
fn record(v: &impl Value) -> Sx {
    LAST_CALL.with(|c| *c.borrow_mut() = Call::Nothing);
    let cell = RefCell::new(sx::tag(0, vec![]));
    v.write(Rec(&cell));
    cell.into_inner()
}

// ------------------------------------------------------------------------------------------ dynamic trees
#[derive(Clone, Debug)]
pub enum V {
    Script(String, Call),
    U(u64),
    F(f64),
    Dur(u64, u32),
    With(Box<V>, String),
    Dist(String, Vec<V>),
    Mean(String, f64, u64),
    Opt(String, Option<Box<V>>),
    /// Mean::<U>::default() fed by one record_value(&v) per element
    MeanSeq(String, Vec<V>),
}

const NSCALES: [NegativeScale; 3] = [NegativeScale::Micro, NegativeScale::Milli, NegativeScale::One];
const PSCALES: [PositiveScale; 5] = [PositiveScale::One, PositiveScale::Kilo, PositiveScale::Mega, PositiveScale::Giga, PositiveScale::Tera];

fn enc_unit(u: &Unit) -> Sx {
    let ps = |s: &PositiveScale| sx::n(PSCALES.iter().position(|x| x == s).unwrap() as u64);
    match u {
        Unit::None => sx::tag(0, vec![]),
        Unit::Count => sx::tag(1, vec![]),
        Unit::Percent => sx::tag(2, vec![]),
        Unit::Second(s) => sx::tag(3, vec![sx::n(NSCALES.iter().position(|x| x == s).unwrap() as u64)]),
        Unit::Byte(s) => sx::tag(4, vec![ps(s)]),
        Unit::BytePerSecond(s) => sx::tag(5, vec![ps(s)]),
        Unit::Bit(s) => sx::tag(6, vec![ps(s)]),
        Unit::BitPerSecond(s) => sx::tag(7, vec![ps(s)]),
        Unit::Custom(n) => sx::tag(8, vec![sx::b(n)]),
        _ => sx::tag(8, vec![sx::b("?")]),
    }
}
fn dec_unit(x: &Sx) -> Unit {
    let i = x.arg(0).num() as usize;
    match x.tag() {
        0 => Unit::None,
        1 => Unit::Count,
        2 => Unit::Percent,
        3 => Unit::Second(NSCALES[i.min(2)]),
        4 => Unit::Byte(PSCALES[i.min(4)]),
        5 => Unit::BytePerSecond(PSCALES[i.min(4)]),
        6 => Unit::Bit(PSCALES[i.min(4)]),
        7 => Unit::BitPerSecond(PSCALES[i.min(4)]),
        _ => Unit::Custom(Box::leak(String::from_utf8_lossy(x.arg(0).bytes()).into_owned().into_boxed_str())),
    }
}
fn s(x: &Sx) -> String {
    String::from_utf8_lossy(x.bytes()).into_owned()
}
fn enc_call(c: &Call) -> Sx {
    match c {
        Call::Nothing => sx::tag(0, vec![]),
        Call::Str(v) => sx::tag(1, vec![sx::b(v)]),
        Call::Err(ms) => sx::tag(2, vec![Sx::L(ms.iter().map(sx::b).collect())]),
        Call::ErrRaw(e) => sx::tag(2, vec![Sx::L(vec![sx::b(e.to_string())])]),
        Call::Metric { obs, unit, dims, flag } => sx::tag(3, vec![
            Sx::L(obs.iter().map(enc_obs_raw).collect()),
            enc_unit(unit),
            Sx::L(dims.iter().map(|(k, v)| Sx::L(vec![sx::b(k), sx::b(v)])).collect()),
            sx::opt(flag.map(sx::n)),
        ]),
    }
}
/// case side: raw bit patterns (the model canonicalises NaN on output only)
fn enc_obs_raw(o: &Observation) -> Sx {
    match *o {
        Observation::Unsigned(u) => sx::tag(0, vec![sx::n(u)]),
        Observation::Floating(f) => sx::tag(1, vec![sx::n(f.to_bits())]),
        Observation::Repeated { total, occurrences } => sx::tag(2, vec![sx::n(total.to_bits()), sx::n(occurrences)]),
        _ => sx::tag(9, vec![]),
    }
}
fn dec_obs(x: &Sx) -> Observation {
    match x.tag() {
        0 => Observation::Unsigned(x.arg(0).num() as u64),
        1 => Observation::Floating(f64::from_bits(x.arg(0).num() as u64)),
        _ => Observation::Repeated { total: f64::from_bits(x.arg(0).num() as u64), occurrences: x.arg(1).num() as u64 },
    }
}
fn dec_call(x: &Sx) -> Call {
    match x.tag() {
        0 => Call::Nothing,
        1 => Call::Str(s(x.arg(0))),
        2 => Call::Err(x.arg(0).list().iter().map(s).collect()),
        _ => Call::Metric {
            obs: x.arg(0).list().iter().map(dec_obs).collect(),
            unit: dec_unit(x.arg(1)),
            dims: x.arg(2).list().iter().map(|p| (s(&p.list()[0]), s(&p.list()[1]))).collect(),
            flag: x.arg(3).list().first().map(|f| f.num() as u32),
        },
    }
}
pub fn enc_v(v: &V) -> Sx {
    match v {
        V::Script(u, c) => sx::tag(0, vec![sx::b(u), enc_call(c)]),
        V::U(n) => sx::tag(1, vec![sx::n(*n)]),
        V::F(f) => sx::tag(2, vec![sx::n(f.to_bits())]),
        V::Dur(sec, ns) => sx::tag(3, vec![sx::n(*sec), sx::n(*ns)]),
        V::With(v, t) => sx::tag(4, vec![enc_v(v), sx::b(t)]),
        V::Dist(e, vs) => sx::tag(5, vec![sx::b(e), Sx::L(vs.iter().map(enc_v).collect())]),
        V::Mean(u, t, n) => sx::tag(6, vec![sx::b(u), sx::n(t.to_bits()), sx::n(*n)]),
        V::Opt(e, o) => sx::tag(7, vec![sx::b(e), sx::opt(o.as_ref().map(|v| enc_v(v)))]),
        V::MeanSeq(u, vs) => sx::tag(8, vec![sx::b(u), Sx::L(vs.iter().map(enc_v).collect())]),
    }
}
pub fn dec_v(x: &Sx) -> V {
    match x.tag() {
        0 => V::Script(s(x.arg(0)), dec_call(x.arg(1))),
        1 => V::U(x.arg(0).num() as u64),
        2 => V::F(f64::from_bits(x.arg(0).num() as u64)),
        3 => V::Dur(x.arg(0).num() as u64, x.arg(1).num() as u32),
        4 => V::With(Box::new(dec_v(x.arg(0))), s(x.arg(1))),
        5 => V::Dist(s(x.arg(0)), x.arg(1).list().iter().map(dec_v).collect()),
        6 => V::Mean(s(x.arg(0)), f64::from_bits(x.arg(1).num() as u64), x.arg(2).num() as u64),
        8 => V::MeanSeq(s(x.arg(0)), x.arg(1).list().iter().map(dec_v).collect()),
        _ => V::Opt(s(x.arg(0)), x.arg(1).list().first().map(|v| Box::new(dec_v(v)))),
    }
}

// ------------------------------------------------------------------------------------------ shapes
/// Leaf data of a recognised tree shape.
#[derive(Clone, Debug)]
pub enum Shape {
    A(Call),                 // WithUnit<Script<F>, T>
    B(Vec<Call>),            // Distribution<WithUnit<Script<F>, T>>
    C(Vec<Call>),            // WithUnit<Distribution<Script<F>>, T>
    D(f64, u64),             // WithUnit<Mean<F>, T>
    E(Option<Call>),         // Option<WithUnit<Script<F>, T>>
    Fo(Option<Call>),        // WithUnit<Option<Script<F>>, T>
    G(Call),                 // WithUnit<WithUnit<Script<F>, T>, F>
    H(Call),                 // WithUnit<WithUnit<WithUnit<Script<F>, T>, F>, T>
    Dseq(Vec<Call>),         // WithUnit<Mean<F>, T>, the mean fed by record_value of each call: (results, final call)
}

/// Mean::<U>::default() fed by one `record_value` per call; the Ok / Err(message) results
fn feed_mean<U: Tg>(calls: &[Call]) -> (Mean<U>, Sx) {
    let mut m = Mean::<U>::default();
    let mut rs = vec![];
    for c in calls {
        // record_value takes any Value, whatever unit it promises
        rs.push(match m.record_value(&Script::<unit::None>::new(c.clone())) {
            Ok(()) => Sx::L(vec![]),
            Err(_) => Sx::L(vec![sx::b("error")]),
        });
    }
    (m, Sx::L(rs))
}
fn run_bare_mean_seq<U: Tg>(calls: &[Call]) -> Sx {
    let (m, rs) = feed_mean::<U>(calls);
    Sx::L(vec![rs, record(&m)])
}

fn run_pair<F: Tg + Convert<T>, T: Tg>(sh: &Shape) -> Sx {
    match sh {
        Shape::A(c) => record(&WithUnit::<Script<F>, T>::from(Script::new(c.clone()))),
        Shape::B(cs) => record(&Distribution::<WithUnit<Script<F>, T>>::from_iter(cs.iter().map(|c| WithUnit::from(Script::new(c.clone()))))),
        Shape::C(cs) => record(&WithUnit::<Distribution<Script<F>>, T>::from(Distribution::from_iter(cs.iter().map(|c| Script::new(c.clone()))))),
        Shape::D(t, n) => {
            // Mean's fields are private: a Mean<F> holding (t, n) is obtained by recording one Repeated observation
            let mut m = Mean::<F>::default();
            let _ = m.record_value(&Script::<F>::new(Call::Metric { obs: vec![Observation::Repeated { total: *t, occurrences: *n }], unit: F::UNIT, dims: vec![], flag: Option::None }));
            record(&WithUnit::<Mean<F>, T>::from(m))
        }
        Shape::E(c) => record(&c.as_ref().map(|c| WithUnit::<Script<F>, T>::from(Script::new(c.clone())))),
        Shape::Fo(c) => record(&WithUnit::<Option<Script<F>>, T>::from(c.as_ref().map(|c| Script::new(c.clone())))),
        Shape::Dseq(cs) => {
            let (m, rs) = feed_mean::<F>(cs);
            Sx::L(vec![rs, record(&WithUnit::<Mean<F>, T>::from(m))])
        }
        _ => sx::tag(99, vec![]),
    }
}
fn run_both<F: Tg + Convert<T>, T: Tg + Convert<F>>(sh: &Shape) -> Sx {
    match sh {
        Shape::G(c) => {
            let a: WithUnit<Script<F>, T> = WithUnit::from(Script::new(c.clone()));
            let b: WithUnit<WithUnit<Script<F>, T>, F> = WithUnit::from(a);
            record(&b)
        }
        Shape::H(c) => {
            let a: WithUnit<Script<F>, T> = WithUnit::from(Script::new(c.clone()));
            let b: WithUnit<WithUnit<Script<F>, T>, F> = WithUnit::from(a);
            let c3: WithUnit<WithUnit<WithUnit<Script<F>, T>, F>, T> = WithUnit::from(b);
            record(&c3)
        }
        _ => sx::tag(99, vec![]),
    }
}

/// Primitive leaves: `V::Unit` is fixed by the type (None for numbers, Millisecond for Duration).
#[derive(Clone, Debug)]
pub enum Prim {
    U(u64), U32(u32), Bool(bool), F(f64), F32(f32), Obs(Observation),
    DistU(Vec<u64>),
}
fn run_prim<T: Tg>(p: &Prim) -> Sx {
    match p {
        Prim::U(n) => record(&WithUnit::<u64, T>::from(*n)),
        Prim::U32(n) => record(&WithUnit::<u32, T>::from(*n)),
        Prim::Bool(b) => record(&WithUnit::<bool, T>::from(*b)),
        Prim::F(x) => record(&WithUnit::<f64, T>::from(*x)),
        Prim::F32(x) => record(&WithUnit::<f32, T>::from(*x)),
        Prim::Obs(o) => record(&WithUnit::<Observation, T>::from(*o)),
        Prim::DistU(v) => record(&WithUnit::<Distribution<u64>, T>::from(Distribution::from_iter(v.iter().copied()))),
    }
}
#[derive(Clone, Debug)]
pub enum DurShape {
    One(Duration),              // WithUnit<Duration, T>
    DistOuter(Vec<Duration>),   // WithUnit<Distribution<Duration>, T>
    DistInner(Vec<Duration>),   // Distribution<WithUnit<Duration, T>>
    OptD(Option<Duration>),     // WithUnit<Option<Duration>, T>
    MeanD(Vec<Duration>),       // WithUnit<Mean<Millisecond>, T> built by Mean::try_new from durations
}

pub struct Tables {
    pairs: Vec<(&'static str, &'static str)>,
    ratio: BTreeMap<(&'static str, &'static str), (u64, &'static str, &'static str)>,
    pair_fn: BTreeMap<(&'static str, &'static str), fn(&Shape) -> Sx>,
    both_fn: BTreeMap<(&'static str, &'static str), fn(&Shape) -> Sx>,
    prim_fn: BTreeMap<&'static str, fn(&Prim) -> Sx>,
    dur_fn: BTreeMap<&'static str, fn(&DurShape) -> Sx>,
    dur2_fn: BTreeMap<(&'static str, &'static str), fn(Duration) -> Sx>,
    bare_mean: BTreeMap<&'static str, fn(f64, u64) -> Sx>,
    bare_script: BTreeMap<&'static str, fn(&Call) -> Sx>,
    bare_mean_seq: BTreeMap<&'static str, fn(&[Call]) -> Sx>,
}

fn run_dur<T: Tg>(d: &DurShape) -> Sx
where
    unit::Millisecond: Convert<T>,
{
    match d {
        DurShape::One(d) => record(&WithUnit::<Duration, T>::from(*d)),
        DurShape::DistOuter(ds) => record(&WithUnit::<Distribution<Duration>, T>::from(Distribution::from_iter(ds.iter().copied()))),
        DurShape::DistInner(ds) => record(&Distribution::<WithUnit<Duration, T>>::from_iter(ds.iter().map(|d| WithUnit::from(*d)))),
        DurShape::OptD(d) => record(&WithUnit::<Option<Duration>, T>::from(*d)),
        DurShape::MeanD(ds) => match Mean::<unit::Millisecond>::try_new(ds.iter()) {
            Ok(m) => record(&WithUnit::<Mean<unit::Millisecond>, T>::from(m)),
            Err(_) => sx::tag(2, vec![sx::b("error")]),
        },
    }
}
fn run_dur2<A: Tg, B: Tg>(d: Duration) -> Sx
where
    unit::Millisecond: Convert<A>,
    A: Convert<B>,
{
    let a: WithUnit<Duration, A> = WithUnit::from(d);
    let b: WithUnit<WithUnit<Duration, A>, B> = WithUnit::from(a);
    record(&b)
}
fn run_bare_mean<U: Tg>(t: f64, n: u64) -> Sx {
    let mut m = Mean::<U>::default();
    let _ = m.record_value(&Script::<U>::new(Call::Metric { obs: vec![Observation::Repeated { total: t, occurrences: n }], unit: U::UNIT, dims: vec![], flag: Option::None }));
    record(&m)
}

pub fn tables() -> Tables {
    let mut t = Tables { pairs: vec![], ratio: BTreeMap::new(), pair_fn: BTreeMap::new(), both_fn: BTreeMap::new(), prim_fn: BTreeMap::new(),
                         dur_fn: BTreeMap::new(), dur2_fn: BTreeMap::new(), bare_mean: BTreeMap::new(), bare_script: BTreeMap::new(), bare_mean_seq: BTreeMap::new() };
    macro_rules! pair { ($a:ident, $b:ident) => {{
        let k = (<unit::$a as Tg>::IDENT, <unit::$b as Tg>::IDENT);
        t.pairs.push(k);
        t.ratio.insert(k, (<unit::$a as Convert<unit::$b>>::RATIO.to_bits(), <unit::$a as UnitTag>::UNIT.name(), <unit::$b as UnitTag>::UNIT.name()));
        t.pair_fn.insert(k, run_pair::<unit::$a, unit::$b> as fn(&Shape) -> Sx);
    }}; }
    macro_rules! both { ($a:ident, $b:ident) => {{
        t.both_fn.insert((<unit::$a as Tg>::IDENT, <unit::$b as Tg>::IDENT), run_both::<unit::$a, unit::$b> as fn(&Shape) -> Sx);
    }}; }
    macro_rules! cross { ($m:ident; [$($a:ident),*]; $bs:tt) => { $( cross!(@row $m; $a; $bs); )* };
                         (@row $m:ident; $a:ident; [$($b:ident),*]) => { $( $m!($a, $b); )* }; }
    macro_rules! cross_time { ($m:ident; $l:tt) => { cross!($m; $l; $l) } }
    macro_rules! row_none { ($m:ident; [$($b:ident),*]) => { $( $m!(None, $b); )* } }
    // None -> anything; time x time; bits x bits
    with_all!(row_none, pair);
    with_time!(cross_time, pair);
    with_bits!(cross_time, pair);
    both!(None, None);
    with_time!(cross_time, both);
    with_bits!(cross_time, both);
    macro_rules! each { ($m:ident; [$($b:ident),*]) => { $( $m!($b); )* } }
    macro_rules! prim { ($b:ident) => {{
        t.prim_fn.insert(<unit::$b as Tg>::IDENT, run_prim::<unit::$b> as fn(&Prim) -> Sx);
        t.bare_mean.insert(<unit::$b as Tg>::IDENT, run_bare_mean::<unit::$b> as fn(f64, u64) -> Sx);
        t.bare_script.insert(<unit::$b as Tg>::IDENT, (|c: &Call| record(&Script::<unit::$b>::new(c.clone()))) as fn(&Call) -> Sx);
        t.bare_mean_seq.insert(<unit::$b as Tg>::IDENT, run_bare_mean_seq::<unit::$b> as fn(&[Call]) -> Sx);
    }}; }
    with_all!(each, prim);
    macro_rules! dur { ($b:ident) => {{ t.dur_fn.insert(<unit::$b as Tg>::IDENT, run_dur::<unit::$b> as fn(&DurShape) -> Sx); }}; }
    with_time!(each, dur);
    macro_rules! dur2 { ($a:ident, $b:ident) => {{ t.dur2_fn.insert((<unit::$a as Tg>::IDENT, <unit::$b as Tg>::IDENT), run_dur2::<unit::$a, unit::$b> as fn(Duration) -> Sx); }}; }
    with_time!(cross_time, dur2);
    t
}

fn st(t: &Tables, name: &str) -> &'static str {
    t.prim_fn.keys().find(|k| **k == name).copied().unwrap_or("?")
}

/// Execute a value tree on the real types; `None` when the tree is not one of the shapes the harness can type.
/// A mean fed by record_value calls: each element is executed on its real type, the call it made is replayed into the
/// real `Mean::<U>::record_value`, and the final mean is written bare or under `WithUnit<_, To>`: (results, call).
pub fn exec_mean(t: &Tables, v: &V) -> Option<Sx> {
    let (u, vs, to) = match v {
        V::MeanSeq(u, vs) => (u, vs, Option::None),
        V::With(i, to) => match &**i { V::MeanSeq(u, vs) => (u, vs, Some(to)), _ => return Option::None },
        _ => return Option::None,
    };
    let mut calls = vec![];
    for x in vs {
        exec_tree(t, x)?;
        calls.push(LAST_CALL.with(|c| c.borrow().clone()));
    }
    match to {
        Option::None => Some(t.bare_mean_seq.get(u.as_str())?(&calls)),
        Some(to) => Some(t.pair_fn.get(&(st(t, u), st(t, to)))?(&Shape::Dseq(calls))),
    }
}

pub fn exec_tree(t: &Tables, v: &V) -> Option<Sx> {
    use V::*;
    if matches!(v, MeanSeq(..)) || matches!(v, With(i, _) if matches!(**i, MeanSeq(..))) {
        return exec_mean(t, v).and_then(|r| r.list().get(1).cloned());
    }
    let all_scripts = |vs: &[V], f: &str| -> Option<Vec<Call>> {
        vs.iter().map(|x| match x { Script(u, c) if u == f => Some(c.clone()), _ => Option::None }).collect()
    };
    let durs = |vs: &[V]| -> Option<Vec<Duration>> {
        vs.iter().map(|x| match x { Dur(s, n) => Some(Duration::new(*s, *n)), _ => Option::None }).collect()
    };
    Some(match v {
        // bare leaves
        Script(u, c) => t.bare_script.get(u.as_str())?(c),
        U(n) => record(n),
        F(x) => record(x),
        Dur(s, n) => record(&Duration::new(*s, *n)),
        Mean(u, tot, n) => t.bare_mean.get(u.as_str())?(*tot, *n),
        Dist(e, vs) if e == "None" && vs.iter().all(|x| matches!(x, U(_))) =>
            record(&Distribution::<u64>::from_iter(vs.iter().map(|x| if let U(n) = x { *n } else { 0 }))),
        Dist(e, vs) if e == "Millisecond" && vs.iter().all(|x| matches!(x, Dur(..))) =>
            record(&Distribution::<Duration>::from_iter(durs(vs)?)),
        // primitives with a unit
        With(inner, to) => match &**inner {
            U(n) => {
                // the narrower counter types and a bare Observation must behave exactly like u64
                let f = t.prim_fn.get(to.as_str())?;
                let r = f(&Prim::U(*n));
                let mut same = f(&Prim::Obs(Observation::Unsigned(*n))) == r;
                if *n <= u32::MAX as u64 { same &= f(&Prim::U32(*n as u32)) == r; }
                if *n <= 1 { same &= f(&Prim::Bool(*n == 1)) == r; }
                if !same { return Some(sx::tag(98, vec![sx::b("u64 / u32 / bool / Observation disagree")])); }
                r
            }
            F(x) => {
                let f = t.prim_fn.get(to.as_str())?;
                let r = f(&Prim::F(*x));
                let mut same = f(&Prim::Obs(Observation::Floating(*x))) == r;
                if ((*x as f32) as f64).to_bits() == x.to_bits() { same &= f(&Prim::F32(*x as f32)) == r; }
                if !same { return Some(sx::tag(98, vec![sx::b("f64 / f32 / Observation disagree")])); }
                r
            }
            Dist(e, vs) if e == "None" && !vs.is_empty() && vs.iter().all(|x| matches!(x, U(_))) =>
                t.prim_fn.get(to.as_str())?(&Prim::DistU(vs.iter().map(|x| if let U(n) = x { *n } else { 0 }).collect())),
            Dur(s, n) => t.dur_fn.get(to.as_str())?(&DurShape::One(Duration::new(*s, *n))),
            Dist(e, vs) if e == "Millisecond" && !vs.is_empty() && vs.iter().all(|x| matches!(x, Dur(..))) =>
                t.dur_fn.get(to.as_str())?(&DurShape::DistOuter(durs(vs)?)),
            Opt(e, o) if e == "Millisecond" && o.as_ref().map_or(false, |x| matches!(**x, Dur(..))) =>
                t.dur_fn.get(to.as_str())?(&DurShape::OptD(o.as_ref().map(|x| if let Dur(s, n) = **x { Duration::new(s, n) } else { Duration::ZERO }))),
            With(i2, mid) if matches!(**i2, Dur(..)) => {
                let d = if let Dur(s, n) = **i2 { Duration::new(s, n) } else { Duration::ZERO };
                t.dur2_fn.get(&(st(t, mid), st(t, to)))?(d)
            }
            Script(f, c) => t.pair_fn.get(&(st(t, f), st(t, to)))?(&Shape::A(c.clone())),
            Dist(f, vs) => t.pair_fn.get(&(st(t, f), st(t, to)))?(&Shape::C(all_scripts(vs, f)?)),
            Mean(f, tot, n) => t.pair_fn.get(&(st(t, f), st(t, to)))?(&Shape::D(*tot, *n)),
            MeanSeq(..) => return Option::None, // handled above
            Opt(f, o) => {
                let c = match o { Some(b) => match &**b { Script(u, c) if u == f => Some(c.clone()), _ => return Option::None }, Option::None => Option::None };
                t.pair_fn.get(&(st(t, f), st(t, to)))?(&Shape::Fo(c))
            }
            With(i2, mid) => match &**i2 {
                Script(f, c) if f == to => t.both_fn.get(&(st(t, f), st(t, mid)))?(&Shape::G(c.clone())),
                With(i3, f2) => match &**i3 {
                    Script(f, c) if f == mid && f2 == to => t.both_fn.get(&(st(t, f), st(t, f2)))?(&Shape::H(c.clone())),
                    _ => return Option::None,
                },
                _ => return Option::None,
            },
        },
        Dist(to, vs) => {
            // Distribution<WithUnit<Duration, T>> or Distribution<WithUnit<Script<F>, T>>
            if !vs.is_empty() && vs.iter().all(|x| matches!(x, With(i, t2) if t2 == to && matches!(**i, Dur(..)))) {
                let ds: Vec<Duration> = vs.iter().map(|x| if let With(i, _) = x { if let Dur(s, n) = **i { Duration::new(s, n) } else { Duration::ZERO } } else { Duration::ZERO }).collect();
                return Some(t.dur_fn.get(to.as_str())?(&DurShape::DistInner(ds)));
            }
            let mut f: Option<String> = Option::None;
            let mut cs = vec![];
            for x in vs {
                match x {
                    With(i, t2) if t2 == to => match &**i {
                        Script(u, c) if f.as_ref().map_or(true, |f| f == u) => { f = Some(u.clone()); cs.push(c.clone()); }
                        _ => return Option::None,
                    },
                    _ => return Option::None,
                }
            }
            let f = f.unwrap_or_else(|| "None".to_string());
            t.pair_fn.get(&(st(t, &f), st(t, to)))?(&Shape::B(cs))
        }
        MeanSeq(..) => return Option::None, // handled above
        Opt(to, o) => match o {
            Option::None => t.pair_fn.get(&("None", st(t, to)))?(&Shape::E(Option::None)),
            Some(b) => match &**b {
                With(i, t2) if t2 == to => match &**i {
                    Script(f, c) => t.pair_fn.get(&(st(t, f), st(t, to)))?(&Shape::E(Some(c.clone()))),
                    _ => return Option::None,
                },
                _ => return Option::None,
            },
        },
    })
}

// ------------------------------------------------------------------------------------------ #[metrics(unit = ..)]
mod attr {
    use super::Script;
    use metrique::unit::{BytePerSecond, Count, Gigabyte, Kilobit, Megabyte, Microsecond, Millisecond, Percent, Second, TerabitPerSecond, Terabyte};
    use metrique::unit_of_work::metrics;
    use std::time::Duration;

    #[metrics]
    pub struct AttrEntry {
        pub d_default: Duration,
        #[metrics(unit = Second)]
        pub d_s: Duration,
        #[metrics(unit = Microsecond)]
        pub d_us: Duration,
        #[metrics(unit = Millisecond)]
        pub d_opt: Option<Duration>,
        #[metrics(unit = Megabyte)]
        pub n_mb: u64,
        #[metrics(unit = Percent)]
        pub f_pct: f64,
        #[metrics(unit = Count)]
        pub n_count: u32,
        #[metrics(unit = Kilobit)]
        pub s_kbit: Script<Gigabyte>,
        #[metrics(unit = BytePerSecond)]
        pub s_rate: Script<TerabitPerSecond>,
        #[metrics(unit = Microsecond)]
        pub s_time: Script<Second>,
        #[metrics(unit = Terabyte)]
        pub s_any: Script<metrique::unit::None>,
    }
    /// the same fields handed to the entry as they are (`no_close`): the declared unit applies all the same
    #[metrics]
    pub struct AttrEntryNC {
        #[metrics(no_close)]
        pub d_default: Duration,
        #[metrics(no_close, unit = Second)]
        pub d_s: Duration,
        #[metrics(no_close, unit = Microsecond)]
        pub d_us: Duration,
        #[metrics(no_close, unit = Millisecond)]
        pub d_opt: Option<Duration>,
        #[metrics(no_close, unit = Megabyte)]
        pub n_mb: u64,
        #[metrics(no_close, unit = Percent)]
        pub f_pct: f64,
        #[metrics(no_close, unit = Count)]
        pub n_count: u32,
        #[metrics(no_close, unit = Kilobit)]
        pub s_kbit: Script<Gigabyte>,
        #[metrics(no_close, unit = BytePerSecond)]
        pub s_rate: Script<TerabitPerSecond>,
        #[metrics(no_close, unit = Microsecond)]
        pub s_time: Script<Second>,
        #[metrics(no_close, unit = Terabyte)]
        pub s_any: Script<metrique::unit::None>,
    }
}

struct FieldRec(Vec<Sx>);
impl<'a> metrique_writer_core::EntryWriter<'a> for FieldRec {
    fn timestamp(&mut self, _t: std::time::SystemTime) {}
    fn value(&mut self, name: impl Into<std::borrow::Cow<'a, str>>, value: &(impl Value + ?Sized)) {
        let cell = RefCell::new(sx::tag(0, vec![]));
        value.write(Rec(&cell));
        self.0.push(Sx::L(vec![sx::b(name.into().as_bytes()), cell.into_inner()]));
    }
    fn config(&mut self, _c: &'a dyn metrique_writer_core::EntryConfig) {}
}

/// the field list of AttrEntry as model trees, in declaration order
fn attr_trees(d: [Duration; 3], dopt: Option<Duration>, n: u64, f: f64, c: u32, calls: [Call; 4]) -> Vec<(&'static str, V)> {
    let du = |d: Duration| V::Dur(d.as_secs(), d.subsec_nanos());
    let w = |v: V, t: &str| V::With(Box::new(v), t.to_string());
    let [c0, c1, c2, c3] = calls;
    vec![
        ("d_default", du(d[0])),
        ("d_s", w(du(d[1]), "Second")),
        ("d_us", w(du(d[2]), "Microsecond")),
        ("d_opt", w(V::Opt("Millisecond".into(), dopt.map(|d| Box::new(du(d)))), "Millisecond")),
        ("n_mb", w(V::U(n), "Megabyte")),
        ("f_pct", w(V::F(f), "Percent")),
        ("n_count", w(V::U(c as u64), "Count")),
        ("s_kbit", w(V::Script("Gigabyte".into(), c0), "Kilobit")),
        ("s_rate", w(V::Script("TerabitPerSecond".into(), c1), "BytePerSecond")),
        ("s_time", w(V::Script("Second".into(), c2), "Microsecond")),
        ("s_any", w(V::Script("None".into(), c3), "Terabyte")),
    ]
}
fn exec_attr(fields: &[(String, V)], no_close: bool) -> Option<Sx> {
    use metrique::CloseValue;
    let dur = |v: &V| match v { V::Dur(s, n) => Some(Duration::new(*s, *n)), V::With(i, _) => match &**i { V::Dur(s, n) => Some(Duration::new(*s, *n)), _ => Option::None }, _ => Option::None };
    let inner = |v: &V| match v { V::With(i, _) => Some((**i).clone()), _ => Option::None };
    let script = |v: &V| match inner(v)? { V::Script(_, c) => Some(c), _ => Option::None };
    if fields.len() != 11 { return Option::None; }
    macro_rules! build { ($t:ident) => { attr::$t {
        d_default: dur(&fields[0].1)?,
        d_s: dur(&fields[1].1)?,
        d_us: dur(&fields[2].1)?,
        d_opt: match inner(&fields[3].1)? { V::Opt(_, o) => match o { Some(b) => dur(&b), Option::None => Option::None }, _ => return Option::None },
        n_mb: match inner(&fields[4].1)? { V::U(n) => n, _ => return Option::None },
        f_pct: match inner(&fields[5].1)? { V::F(x) => x, _ => return Option::None },
        n_count: match inner(&fields[6].1)? { V::U(n) => n as u32, _ => return Option::None },
        s_kbit: Script::new(script(&fields[7].1)?),
        s_rate: Script::new(script(&fields[8].1)?),
        s_time: Script::new(script(&fields[9].1)?),
        s_any: Script::new(script(&fields[10].1)?),
    } } }
    let mut rec = FieldRec(vec![]);
    if no_close {
        let root = metrique::RootEntry::new(build!(AttrEntryNC).close());
        metrique_writer_core::Entry::write(&root, &mut rec);
        return Some(Sx::L(rec.0));
    }
    let e = build!(AttrEntry);
    let closed = e.close();
    let root = metrique::RootEntry::new(closed);
    metrique_writer_core::Entry::write(&root, &mut rec);
    Some(Sx::L(rec.0))
}

// ------------------------------------------------------------------------------------------ generators
const IDENTS_TIME: [&str; 3] = ["Second", "Millisecond", "Microsecond"];

fn interesting_u64(rng: &mut Rng) -> u64 {
    match rng.below(12) {
        0 => 0,
        1 => 1,
        2 => (1 << 53) - 1,
        3 => 1 << 53,
        4 => (1 << 53) + 1,
        5 => u64::MAX,
        6 => rng.below(1000),
        7 => 1_000_000_007,
        8 => rng.next() >> rng.below(64),
        9 => 1 << rng.below(64),
        10 => 8 * rng.below(1 << 20),
        _ => rng.next(),
    }
}
fn interesting_f64(rng: &mut Rng) -> f64 {
    match rng.below(16) {
        0 => 0.0,
        1 => -0.0,
        2 => 1.0,
        3 => f64::from_bits(1),
        4 => f64::MIN_POSITIVE,
        5 => f64::MAX,
        6 => f64::INFINITY,
        7 => f64::NEG_INFINITY,
        8 => f64::NAN,
        9 => 0.1,
        10 => 42.0,
        11 => (rng.below(1 << 30) as f64) / 1000.0,
        12 => -(rng.below(1 << 20) as f64) / 7.0,
        13 => f64::from_bits(rng.next() >> 1),            // any non-negative pattern (incl. subnormals, NaNs)
        14 => f64::from_bits(rng.below(1 << 52)),         // subnormal
        _ => f64::from_bits(0x3ff0_0000_0000_0000 ^ (rng.next() & 0x801f_ffff_ffff_ffff)), // moderate exponents
    }
}
fn gen_obs(rng: &mut Rng) -> Observation {
    match rng.below(3) {
        0 => Observation::Unsigned(interesting_u64(rng)),
        1 => Observation::Floating(interesting_f64(rng)),
        _ => Observation::Repeated { total: interesting_f64(rng), occurrences: if rng.chance(1, 5) { 0 } else { interesting_u64(rng) } },
    }
}
fn unit_by_ident(id: &str) -> Unit {
    macro_rules! find { ($m:ident; [$($b:ident),*]) => { $( if id == stringify!($b) { return <unit::$b as UnitTag>::UNIT; } )* } }
    with_all!(find, find);
    Unit::None
}
fn random_unit(rng: &mut Rng, all: &[&'static str]) -> Unit {
    match rng.below(8) {
        0 => Unit::Custom("Parsecs"),
        1 => Unit::Custom("Seconds"),   // same name as a built-in unit, different variant
        2 => Unit::Count,
        _ => unit_by_ident(all[rng.below(all.len() as u64) as usize]),
    }
}
/// a scripted call for a value that promised unit `from`
fn gen_call(rng: &mut Rng, from: &str, all: &[&'static str], out: &mut Out) -> Call {
    let r = rng.below(100);
    if r < 6 {
        out.count("call_string");
        Call::Str(["", "hello", "1.5", "Milliseconds"][rng.below(4) as usize].to_string())
    } else if r < 10 {
        out.count("call_error");
        Call::Err((0..rng.range(1, 3)).map(|i| format!("scripted error {i}")).collect())
    } else if r < 13 {
        out.count("call_nothing");
        Call::Nothing
    } else {
        let wrong = rng.chance(1, 8);
        let unit = if wrong { random_unit(rng, all) } else { unit_by_ident(from) };
        if unit != unit_by_ident(from) { out.count("call_metric_wrong_unit"); } else { out.count("call_metric"); }
        let nobs = match rng.below(10) { 0 => 0, 1..=5 => 1, 6 | 7 => 2, _ => rng.range(3, 6) } as usize;
        let dims = (0..(if rng.chance(1, 4) { rng.range(1, 2) } else { 0 })).map(|i| (format!("k{i}"), format!("v{}", rng.below(3)))).collect();
        Call::Metric { obs: (0..nobs).map(|_| gen_obs(rng)).collect(), unit, dims, flag: if rng.chance(1, 5) { Some(rng.below(5) as u32) } else { Option::None } }
    }
}
fn gen_duration(rng: &mut Rng) -> Duration {
    match rng.below(10) {
        0 => Duration::ZERO,
        1 => Duration::new(0, 1),
        2 => Duration::new(0, 999_999_999),
        3 => Duration::MAX,
        4 => Duration::new((1 << 53) + 1, 1),
        5 => Duration::from_millis(rng.below(100_000)),
        6 => Duration::from_micros(rng.below(10_000_000)),
        7 => Duration::new(rng.below(4_000_000_000), rng.below(1_000_000_000) as u32),
        8 => Duration::new(rng.next() >> rng.below(64), rng.below(1_000_000_000) as u32),
        _ => Duration::from_nanos(rng.below(5_000_000_000)),
    }
}

fn classify(v: &V) -> &'static str {
    match v {
        V::Script(..) => "shape_bare_script",
        V::U(_) | V::F(_) => "shape_bare_number",
        V::Dur(..) => "shape_bare_duration",
        V::Mean(..) => "shape_bare_mean",
        V::Dist(_, vs) if vs.iter().all(|x| matches!(x, V::With(..))) => "shape_distribution_of_with_unit",
        V::Dist(..) => "shape_bare_distribution",
        V::Opt(..) => "shape_option_of_with_unit",
        V::MeanSeq(..) => "shape_mean_seq",
        V::With(i, _) => match &**i {
            V::Script(..) => "shape_with_unit_script",
            V::U(_) | V::F(_) => "shape_with_unit_number",
            V::Dur(..) => "shape_with_unit_duration",
            V::Dist(..) => "shape_with_unit_distribution",
            V::Mean(..) => "shape_with_unit_mean",
            V::Opt(..) => "shape_with_unit_option",
            V::MeanSeq(..) => "shape_with_unit_mean_seq",
            V::With(i2, _) => if matches!(**i2, V::With(..)) { "shape_with_unit_x3" } else { "shape_with_unit_x2" },
        },
    }
}

fn ratio_is_one(t: &Tables, f: &str, to: &str) -> bool {
    t.ratio.iter().find(|(k, _)| k.0 == f && k.1 == to).map_or(true, |(_, v)| v.0 == 1.0f64.to_bits())
}
/// non-trivial: somewhere a real conversion (RATIO != 1) meets at least one observation, or an error path is taken
fn nontrivial(t: &Tables, v: &V, imp: &Sx) -> bool {
    fn conv(t: &Tables, v: &V) -> bool {
        match v {
            V::With(i, to) => {
                let f = declared(i);
                !ratio_is_one(t, &f, to) || conv(t, i)
            }
            V::Dist(_, vs) => vs.iter().any(|x| conv(t, x)),
            V::Opt(_, Some(x)) => conv(t, x),
            _ => false,
        }
    }
    fn declared(v: &V) -> String {
        match v {
            V::Script(u, _) | V::Mean(u, ..) | V::Dist(u, _) | V::Opt(u, _) | V::MeanSeq(u, _) => u.clone(),
            V::With(_, t) => t.clone(),
            V::U(_) | V::F(_) => "None".into(),
            V::Dur(..) => "Millisecond".into(),
        }
    }
    match imp.tag() {
        2 => true,
        3 => conv(t, v) && !imp.arg(0).list().is_empty(),
        _ => false,
    }
}

pub fn run(ctx: &Ctx) {
    crate::common::quiet_panics();
    let t = tables();
    let mut outp = Out::new(ctx, "-p");
    let mut outc = Out::new(ctx, "-c");
    let mut outv = Out::new(ctx, "-v");
    let mut outm = Out::new(ctx, "-m");

    let do_pair = |out: &mut Out, f: &str, to: &str| {
        let case = sx::tag(0, vec![sx::b(f), sx::b(to)]);
        match t.ratio.iter().find(|(k, _)| k.0 == f && k.1 == to) {
            Some((_, (bits, nf, nt))) => {
                out.count(if *bits == 1.0f64.to_bits() { "pair_ratio_one" } else { "pair_ratio_other" });
                out.case(&case, &Sx::L(vec![sx::n(1u8), sx::n(*bits), sx::b(nf), sx::b(nt)]), *bits != 1.0f64.to_bits());
            }
            Option::None => out.case(&case, &Sx::L(vec![]), false),
        }
    };
    let do_census = |out: &mut Out| {
        let imp = Sx::L(t.pairs.iter().map(|(a, b)| Sx::L(vec![sx::b(a), sx::b(b)])).collect());
        out.add("census_pairs", t.pairs.len() as u64);
        out.case(&sx::tag(1, vec![]), &imp, true);
    };
    let do_tree = |out: &mut Out, v: &V| {
        let case = sx::tag(2, vec![enc_v(v)]);
        match exec_tree(&t, v) {
            Some(imp) => {
                out.count(classify(v));
                out.count(match imp.tag() { 0 => "result_nothing", 1 => "result_string", 2 => "result_error", _ => "result_metric" });
                let nt = nontrivial(&t, v, &imp);
                out.case(&case, &imp, nt);
            }
            Option::None => out.fail("harness cannot type this value tree (not a violation of the property; fix the replay)".into(), &case),
        }
    };
    let do_mean = |out: &mut Out, v: &V| {
        let case = sx::tag(4, vec![enc_v(v)]);
        match exec_mean(&t, v) {
            Some(imp) => {
                let rs = imp.list()[0].list();
                let rejected = rs.iter().filter(|r| !r.list().is_empty()).count();
                out.count(match (rs.len(), rejected) { (0, _) => "mean_empty", (n, r) if n == r => "mean_all_rejected", (_, 0) => "mean_none_rejected", _ => "mean_some_rejected" });
                out.add("mean_records", rs.len() as u64);
                out.add("mean_records_rejected", rejected as u64);
                out.count(if matches!(v, V::With(..)) { "mean_written_with_unit" } else { "mean_written_bare" });
                out.count(match imp.list()[1].tag() { 0 => "mean_result_nothing", 2 => "mean_result_error", _ => "mean_result_metric" });
                out.case(&case, &imp, rejected > 0 && rejected < rs.len());
            }
            Option::None => out.fail("harness cannot type this mean sequence (not a violation of the property; fix the replay)".into(), &case),
        }
    };
    let do_attr = |out: &mut Out, fields: &[(String, V)]| {
        // second argument (the model does not read it): the fields are declared `no_close`
        for nc in [false, true] {
            let mut args = vec![Sx::L(fields.iter().map(|(n, v)| Sx::L(vec![sx::b(n), enc_v(v)])).collect())];
            if nc { args.push(sx::boolean(true)); }
            let case = sx::tag(3, args);
            match exec_attr(fields, nc) {
                Some(imp) => { out.count(if nc { "attr_entry_no_close" } else { "attr_entry" }); out.case(&case, &imp, true); }
                Option::None => out.fail("harness cannot build the attribute entry from this case".into(), &case),
            }
        }
    };

    if let Some(p) = &ctx.replay {
        for line in std::fs::read_to_string(p).unwrap().lines().filter(|l| l.starts_with('(')) {
            let c = sx::parse(line);
            match c.tag() {
                0 => do_pair(&mut outp, &s(c.arg(0)), &s(c.arg(1))),
                1 => do_census(&mut outc),
                2 => do_tree(&mut outv, &dec_v(c.arg(0))),
                4 => do_mean(&mut outm, &dec_v(c.arg(0))),
                _ => {
                    let fields: Vec<(String, V)> = c.arg(0).list().iter().map(|f| (s(&f.list()[0]), dec_v(&f.list()[1]))).collect();
                    do_attr(&mut outv, &fields)
                }
            }
        }
        outp.finish("replay");
        outc.finish("replay");
        outv.finish("replay");
        outm.finish("replay");
        return;
    }

    // ---- pairs: exhaustive
    for (a, b) in t.pairs.clone() {
        do_pair(&mut outp, a, b);
    }
    do_census(&mut outc);

    // ---- values
    let all: Vec<&'static str> = t.prim_fn.keys().copied().collect();
    let mut rng = Rng::new(ctx.seed);
    let w = |v: V, to: &str| V::With(Box::new(v), to.to_string());
    // exhaustive: every pair x every observation kind x boundary magnitudes through WithUnit
    let mags_u: [u64; 7] = [0, 1, 1000, (1 << 53) - 1, (1 << 53) + 1, 1 << 63, u64::MAX];
    let mags_f: [f64; 10] = [0.0, -0.0, 1.0, 0.1, 1e-320, f64::MIN_POSITIVE, 1e300, f64::MAX, f64::INFINITY, f64::NAN];
    for (a, b) in t.pairs.clone() {
        let u = unit_by_ident(a);
        let mk = |obs: Vec<Observation>| Call::Metric { obs, unit: u, dims: vec![], flag: Option::None };
        let mut obs: Vec<Observation> = vec![];
        obs.extend(mags_u.iter().map(|&n| Observation::Unsigned(n)));
        obs.extend(mags_f.iter().map(|&f| Observation::Floating(f)));
        obs.extend(mags_f.iter().enumerate().map(|(i, &f)| Observation::Repeated { total: f, occurrences: [0, 1, 3, u64::MAX][i % 4] }));
        // one case per kind keeps the exhaustive part at 3 x 435 cases
        for chunk in [&obs[0..7], &obs[7..17], &obs[17..27]] {
            outv.count("exhaustive_pair_x_kind");
            do_tree(&mut outv, &w(V::Script(a.to_string(), mk(chunk.to_vec())), b));
        }
        // a value that promised `a` but writes the target's unit (or a string) must be rejected, for every pair
        if unit_by_ident(a) != unit_by_ident(b) {
            do_tree(&mut outv, &w(V::Script(a.to_string(), Call::Metric { obs: vec![Observation::Unsigned(5)], unit: unit_by_ident(b), dims: vec![], flag: Option::None }), b));
        }
        do_tree(&mut outv, &w(V::Script(a.to_string(), Call::Str("text".into())), b));
    }
    // random trees over all shapes
    let nrand = if ctx.tier_thorough { 60_000 } else { 6_000 };
    for _ in 0..nrand {
        let (a, b) = t.pairs[rng.below(t.pairs.len() as u64) as usize];
        let both = t.both_fn.contains_key(&(a, b));
        let sc = |rng: &mut Rng, out: &mut Out| V::Script(a.to_string(), gen_call(rng, a, &all, out));
        let v = match rng.below(16) {
            0 | 1 | 2 => w(sc(&mut rng, &mut outv), b),
            3 => { let n = rng.range(0, 4); V::Dist(b.to_string(), (0..n).map(|_| w(sc(&mut rng, &mut outv), b)).collect()) }
            4 => { let n = rng.range(0, 4); w(V::Dist(a.to_string(), (0..n).map(|_| sc(&mut rng, &mut outv)).collect()), b) }
            5 => w(V::Mean(a.to_string(), 0.0 + interesting_f64(&mut rng), if rng.chance(1, 6) { 0 } else { interesting_u64(&mut rng) }), b),
            6 => V::Opt(b.to_string(), if rng.chance(1, 3) { Option::None } else { Some(Box::new(w(sc(&mut rng, &mut outv), b))) }),
            7 => w(V::Opt(a.to_string(), if rng.chance(1, 3) { Option::None } else { Some(Box::new(sc(&mut rng, &mut outv))) }), b),
            8 if both => w(w(sc(&mut rng, &mut outv), b), a),
            9 if both => w(w(w(sc(&mut rng, &mut outv), b), a), b),
            10 => w(if rng.chance(1, 2) { V::U(interesting_u64(&mut rng)) } else { V::F(interesting_f64(&mut rng)) }, b),
            11 => { let d = gen_duration(&mut rng); let to = IDENTS_TIME[rng.below(3) as usize];
                    if rng.chance(1, 2) { w(V::Dur(d.as_secs(), d.subsec_nanos()), to) } else { w(w(V::Dur(d.as_secs(), d.subsec_nanos()), IDENTS_TIME[rng.below(3) as usize]), to) } }
            12 => { let to = IDENTS_TIME[rng.below(3) as usize]; let n = rng.range(1, 4);
                    let ds: Vec<V> = (0..n).map(|_| { let d = gen_duration(&mut rng); V::Dur(d.as_secs(), d.subsec_nanos()) }).collect();
                    if rng.chance(1, 2) { w(V::Dist("Millisecond".into(), ds), to) } else { V::Dist(to.to_string(), ds.into_iter().map(|d| w(d, to)).collect()) } }
            13 => { let d = gen_duration(&mut rng); let to = IDENTS_TIME[rng.below(3) as usize];
                    w(V::Opt("Millisecond".into(), if rng.chance(1, 3) { Option::None } else { Some(Box::new(V::Dur(d.as_secs(), d.subsec_nanos()))) }), to) }
            14 => match rng.below(5) {
                0 => { let d = gen_duration(&mut rng); V::Dur(d.as_secs(), d.subsec_nanos()) }
                1 => V::U(interesting_u64(&mut rng)),
                2 => V::F(interesting_f64(&mut rng)),
                3 => V::Mean(b.to_string(), 0.0 + interesting_f64(&mut rng), rng.below(3)),
                _ => sc(&mut rng, &mut outv),
            },
            _ => { let n = rng.range(1, 4); w(V::Dist("None".into(), (0..n).map(|_| V::U(interesting_u64(&mut rng))).collect()), b) }
        };
        if matches!(&v, V::With(i, _) if matches!(**i, V::Opt(_, Option::None))) || matches!(&v, V::Opt(_, Option::None)) {
            outv.count("option_none");
        }
        do_tree(&mut outv, &v);
    }
    // #[metrics(unit = ..)] entries
    let nattr = if ctx.tier_thorough { 3000 } else { 400 };
    for _ in 0..nattr {
        let d = [gen_duration(&mut rng), gen_duration(&mut rng), gen_duration(&mut rng)];
        let dopt = if rng.chance(1, 3) { Option::None } else { Some(gen_duration(&mut rng)) };
        let calls = [gen_call(&mut rng, "Gigabyte", &all, &mut outv), gen_call(&mut rng, "TerabitPerSecond", &all, &mut outv),
                     gen_call(&mut rng, "Second", &all, &mut outv), gen_call(&mut rng, "None", &all, &mut outv)];
        let fields: Vec<(String, V)> = attr_trees(d, dopt, interesting_u64(&mut rng), interesting_f64(&mut rng), rng.next() as u32, calls)
            .into_iter().map(|(n, v)| (n.to_string(), v)).collect();
        do_attr(&mut outv, &fields);
    }

    // ---- means fed by sequences of record_value calls: rejected values must not leave a trace
    {
        let moderate_f = |rng: &mut Rng| -> f64 {
            match rng.below(14) {
                0 => 0.0,
                1 => -0.0,
                2 => 1.0,
                3 => 0.1,
                4 => -(rng.below(1 << 20) as f64) / 7.0,
                5 => (rng.below(1 << 30) as f64) / 1000.0,
                6 => f64::from_bits(rng.below(1 << 52)),                 // subnormal
                7 => 1e150 * (rng.below(1000) as f64),
                8 => -1e150 * (rng.below(1000) as f64),
                9 => if rng.chance(1, 4) { [f64::INFINITY, f64::NEG_INFINITY, f64::NAN][rng.below(3) as usize] } else { 42.0 },
                10 => f64::from_bits(0x3ff0_0000_0000_0000 ^ (rng.next() & 0x801f_ffff_ffff_ffff)),
                11 => ((1u64 << 53) + 1) as f64,
                _ => rng.below(100) as f64,
            }
        };
        let moderate_obs = |rng: &mut Rng| -> Observation {
            match rng.below(3) {
                0 => Observation::Unsigned(match rng.below(6) { 0 => 0, 1 => 1, 2 => (1 << 53) + 1, 3 => u64::MAX, 4 => rng.next() >> rng.below(64), _ => rng.below(1000) }),
                1 => Observation::Floating(moderate_f(rng)),
                _ => Observation::Repeated { total: moderate_f(rng), occurrences: match rng.below(5) { 0 => 0, 1 => 1, 2 => 1 << 40, _ => rng.below(1000) } },
            }
        };
        let honest_call = |rng: &mut Rng, unit: &str| -> Call {
            let n = match rng.below(6) { 0 => 0, 1..=3 => 1, _ => rng.range(2, 4) } as usize;
            Call::Metric { obs: (0..n).map(|_| moderate_obs(rng)).collect(), unit: unit_by_ident(unit), dims: vec![], flag: if rng.chance(1, 6) { Some(3) } else { Option::None } }
        };
        let w = |v: V, to: &str| V::With(Box::new(v), to.to_string());
        let sources_of = |u: &str| -> Vec<&'static str> { t.pairs.iter().filter(|p| p.1 == u).map(|p| p.0).collect() };
        // an element the Mean<u> must accept
        let accepted = |rng: &mut Rng, u: &'static str, out: &mut Out| -> V {
            match rng.below(8) {
                0 | 1 | 2 => { out.count("mean_elem_honest_script"); V::Script(u.to_string(), honest_call(rng, u)) }
                3 => { // an honest value of another unit, converted into u
                    let srcs = sources_of(u);
                    if srcs.is_empty() { out.count("mean_elem_honest_script"); V::Script(u.to_string(), honest_call(rng, u)) }
                    else { let f = srcs[rng.below(srcs.len() as u64) as usize]; out.count("mean_elem_converted"); w(V::Script(f.to_string(), honest_call(rng, f)), u) }
                }
                4 => if IDENTS_TIME.contains(&u) {
                    out.count("mean_elem_duration_declared");
                    let d = gen_duration(rng); let d = Duration::new(d.as_secs() % 4_000_000_000, d.subsec_nanos());
                    if u == "Millisecond" && rng.chance(1, 2) { V::Dur(d.as_secs(), d.subsec_nanos()) } else { w(V::Dur(d.as_secs(), d.subsec_nanos()), u) }
                } else if u == "None" { out.count("mean_elem_bare_number"); if rng.chance(1, 2) { V::U(rng.below(1 << 40)) } else { V::F(moderate_f(rng)) } }
                else { out.count("mean_elem_declared_number"); w(if rng.chance(1, 2) { V::U(rng.below(1 << 40)) } else { V::F(moderate_f(rng)) }, u) },
                5 => if rng.chance(1, 3) { out.count("mean_elem_option_none"); V::Opt(u.to_string(), Option::None) }
                     else if t.pairs.contains(&(u, u)) { out.count("mean_elem_option_some"); w(V::Opt(u.to_string(), Some(Box::new(V::Script(u.to_string(), honest_call(rng, u))))), u) }
                     else { out.count("mean_elem_honest_script"); V::Script(u.to_string(), honest_call(rng, u)) },
                6 => { out.count("mean_elem_no_call"); V::Script(u.to_string(), Call::Nothing) }
                _ => { out.count("mean_elem_mean"); V::Mean(u.to_string(), 0.0 + moderate_f(rng), rng.below(5)) }
            }
        };
        // an element the Mean<u> must reject without a trace
        let rejected = |rng: &mut Rng, u: &'static str, out: &mut Out| -> V {
            loop {
                let v = match rng.below(8) {
                    0 => { // a raw Duration (Milliseconds) into a mean of another unit
                        let d = gen_duration(rng); V::Dur(d.as_secs() % 4_000_000_000, d.subsec_nanos()) }
                    1 => if rng.chance(1, 2) { V::U(rng.below(1 << 40).max(1)) } else { V::F(1.0 + moderate_f(rng).abs().min(1e100)) },  // unitless number
                    2 => { // promises u, writes another unit
                        let other = all[rng.below(all.len() as u64) as usize];
                        let mut c = honest_call(rng, other);
                        if let Call::Metric { obs, .. } = &mut c { if obs.is_empty() { obs.push(Observation::Unsigned(7)); } }
                        V::Script(u.to_string(), c) }
                    3 => { // an honest value of u converted to another unit
                        let tos: Vec<&'static str> = t.pairs.iter().filter(|p| p.0 == u).map(|p| p.1).collect();
                        if tos.is_empty() { continue; }
                        let to = tos[rng.below(tos.len() as u64) as usize];
                        w(V::Script(u.to_string(), honest_call(rng, u)), to) }
                    4 => { // right unit, but with dimensions
                        let mut c = honest_call(rng, u);
                        if let Call::Metric { dims, .. } = &mut c { dims.push(("k0".into(), "v1".into())); }
                        V::Script(u.to_string(), c) }
                    5 => V::Script(u.to_string(), Call::Str("text".into())),
                    6 => V::Script(u.to_string(), Call::Err(vec!["scripted error".into()])),
                    _ => { // wrong unit and dimensions at once
                        let other = all[rng.below(all.len() as u64) as usize];
                        let mut c = honest_call(rng, other);
                        if let Call::Metric { dims, obs, .. } = &mut c { dims.push(("k0".into(), "v0".into())); if obs.is_empty() { obs.push(Observation::Floating(2.5)); } }
                        V::Script(u.to_string(), c) }
                };
                // keep it only if the mean's unit really differs from what the element writes
                let writes = match &v {
                    V::Dur(..) => Some("Millisecond"), V::U(_) | V::F(_) => Some("None"),
                    V::Script(_, Call::Metric { unit, dims, .. }) if dims.is_empty() => all.iter().copied().find(|a| unit_by_ident(a) == *unit),
                    V::With(_, to) => all.iter().copied().find(|a| *a == to.as_str()),
                    _ => Option::None,
                };
                if writes.map_or(false, |x| unit_by_ident(x) == unit_by_ident(u)) { continue; }
                out.count(match &v { V::Dur(..) => "mean_elem_rejected_raw_duration", V::U(_) | V::F(_) => "mean_elem_rejected_unitless_number",
                    V::With(..) => "mean_elem_rejected_converted_elsewhere",
                    V::Script(_, Call::Str(_)) => "mean_elem_rejected_string", V::Script(_, Call::Err(_)) => "mean_elem_rejected_error",
                    V::Script(_, Call::Metric { dims, .. }) if !dims.is_empty() => "mean_elem_rejected_dimensions",
                    _ => "mean_elem_rejected_wrong_unit" });
                return v;
            }
        };
        let nmean = if ctx.tier_thorough { 30_000 } else { 4_000 };
        for i in 0..nmean {
            let u = all[rng.below(all.len() as u64) as usize];
            let n = match i % 20 { 0 => 0, _ => rng.range(1, 6) } as usize;
            let nrej = match i % 20 { 1 => n, 2 => 0, _ => (rng.below(4) as usize).min(n) };
            let mut kinds: Vec<bool> = (0..n).map(|j| j < nrej).collect();
            for j in (1..kinds.len()).rev() { let k = rng.below(j as u64 + 1) as usize; kinds.swap(j, k); }
            let vs: Vec<V> = kinds.iter().map(|rej| if *rej { rejected(&mut rng, u, &mut outm) } else { accepted(&mut rng, u, &mut outm) }).collect();
            let tree = V::MeanSeq(u.to_string(), vs);
            let tos: Vec<&'static str> = t.pairs.iter().filter(|p| p.0 == u).map(|p| p.1).collect();
            let tree = if !tos.is_empty() && rng.chance(1, 2) { w(tree, tos[rng.below(tos.len() as u64) as usize]) } else { tree };
            do_mean(&mut outm, &tree);
        }
        // the seeded scenario spelled out, for every time unit but Millisecond: a raw Duration into Mean<u>
        for u in ["Second", "Microsecond"] {
            let honest = V::Script(u.to_string(), Call::Metric { obs: vec![Observation::Floating(2.0)], unit: unit_by_ident(u), dims: vec![], flag: Option::None });
            do_mean(&mut outm, &V::MeanSeq(u.to_string(), vec![honest.clone(), V::Dur(1, 500_000_000), honest.clone()]));
            do_mean(&mut outm, &V::MeanSeq(u.to_string(), vec![V::Dur(1, 500_000_000)]));
        }
    }

    outp.finish("every ordered pair (From, To) for which `From: Convert<To>` exists (None -> 26 tags, 3x3 time, 20x20 bit/byte(/second)): RATIO bit pattern and both unit names. Non-trivial = RATIO != 1.0");
    outc.finish("the set of Convert pairs the harness instantiates vs. the convertible pairs of the tables regenerated from unit.rs");
    outv.finish("value trees over the real types: exhaustive (pair x observation kind x boundary magnitudes, wrong-unit and string per pair) plus random shapes (WithUnit of scripted values / Distribution inside and outside / Mean / Option inside and outside / round trips / primitives / Duration) and #[metrics(unit = ..)] entries. Non-trivial = a conversion with RATIO != 1 applied to at least one observation, or a validation error; distinct by hash of the case");
    outm.finish("Mean<U> fed by sequences of 0-6 record_value calls (honest values of U incl. converted ones, Durations, Options, no-call values, nested means; rejected ones at any position: raw Durations / unitless numbers into a mean of another unit, wrong-unit scripts, values converted elsewhere, dimensions, strings, errors), all-rejected and empty sequences, the final mean written bare or under WithUnit. Non-trivial = at least one accepted and one rejected record; distinct by hash of the case");
}
